/-
  Sf.LedgerSites — the allocation sites of the open / header-parse / init / close functions, one row per `calloc / malloc / strdup /
  realloc / psf_open_tmpfile / open` found by reading src/*.c (every *_open, *_read_header, *_init, *_close and what they call), with
  the ledger cell each of them fills and WHO releases it.  The table is data for SfProps/C16Sites.lean (every cell of every row is
  released by psf_close's program once the handle invariant holds) and for the check (vlib/props/c16.py counts the allocation calls of
  the tree under test per file and reports rows that are missing or new in the evidence).

  `Owner.sameFunction` rows are function-local temporaries (malloc … free inside one parser function): no cell of the ledger; an early
  `return` between the two is observed by the heap balance of the failing-open campaigns (vlib/lateopen.py), not modelled.

  Also here: the open program with the container's close hook installed LATE (after the header parser, the way wav_open / caf_open do it
  for their hooks, which release nothing) — for AIFF, whose hook releases `markstr`, that order leaks on every failure inside the parser.
-/
import SfModel.Ledger
namespace Sf.LedgerSites
open Sf.Ledger

inductive Owner
  | psfClose          -- one of the frees of psf_close itself
  | containerClose    -- released only by the container's close hook
  | codecClose        -- released only by the codec's close hook
  | sameFunction      -- freed by the function that allocated it
  deriving DecidableEq, Repr

structure Site where
  file : String
  func : String
  what : String
  cell : Option Cell
  owner : Owner
  deriving Repr

def sites : List Site := [
  ⟨"common.c", "psf_allocate", "psf = calloc (SF_PRIVATE)", some .psf, .psfClose⟩,
  ⟨"common.c", "psf_allocate", "header.ptr = calloc", some (.owner .header), .psfClose⟩,
  ⟨"common.c", "psf_bump_header_allocation", "header.ptr = realloc", some (.owner .header), .psfClose⟩,
  ⟨"common.c", "psf_cues_alloc", "calloc (SF_CUES_VAR_SIZE)", some (.owner .cues), .psfClose⟩,
  ⟨"common.c", "psf_instrument_alloc", "calloc (SF_INSTRUMENT)", some (.owner .instrument), .psfClose⟩,
  ⟨"common.c", "peak_info_calloc", "calloc (PEAK_INFO)", some (.owner .peakInfo), .psfClose⟩,
  ⟨"common.c", "psf_open_tmpfile", "fopen (TMPDIR/…-alac.tmp)", some (.nested .alacTmp), .codecClose⟩,
  ⟨"file_io.c", "psf_fopen", "file.filedes = open (path)", some .fileFd, .psfClose⟩,
  ⟨"file_io.c", "psf_open_rsrc", "rsrc.filedes = open (._name)", some .rsrcFd, .psfClose⟩,
  ⟨"aiff.c", "aiff_open", "container_data = calloc (AIFF_PRIVATE)", some (.owner .containerData), .psfClose⟩,
  ⟨"aiff.c", "aiff_open / aiff_read_header PEAK", "peak_info = peak_info_calloc", some (.owner .peakInfo), .psfClose⟩,
  ⟨"aiff.c", "aiff_read_header MARK", "paiff->markstr = calloc (mark_count)", some (.nested .aiffMarkstr), .containerClose⟩,
  ⟨"aiff.c", "aiff_read_header MARK", "cues = psf_cues_alloc", some (.owner .cues), .psfClose⟩,
  ⟨"aiff.c", "aiff_read_basc_chunk", "loop_info = calloc", some (.owner .loopInfo), .psfClose⟩,
  ⟨"aiff.c", "aiff_read_chanmap", "channel_map = malloc", some (.owner .channelMap), .psfClose⟩,
  ⟨"caf.c", "caf_open", "container_data = calloc (CAF_PRIVATE)", some (.owner .containerData), .psfClose⟩,
  ⟨"caf.c", "caf_open / caf_read_header peak", "peak_info = peak_info_calloc", some (.owner .peakInfo), .psfClose⟩,
  ⟨"caf.c", "caf_read_chanmap", "channel_map = malloc", some (.owner .channelMap), .psfClose⟩,
  ⟨"caf.c", "caf_read_strings", "buf = malloc (chunk_size + 1) … free (buf)", none, .sameFunction⟩,
  ⟨"wav.c", "wav_open", "container_data = calloc (WAVLIKE_PRIVATE)", some (.owner .containerData), .psfClose⟩,
  ⟨"wav.c", "wav_open", "peak_info = peak_info_calloc", some (.owner .peakInfo), .psfClose⟩,
  ⟨"wav.c", "wav_read_header cue", "cues = psf_cues_alloc", some (.owner .cues), .psfClose⟩,
  ⟨"wav.c", "wav_read_smpl_chunk", "instrument = psf_instrument_alloc", some (.owner .instrument), .psfClose⟩,
  ⟨"wav.c", "wav_read_acid_chunk", "loop_info = calloc", some (.owner .loopInfo), .psfClose⟩,
  ⟨"wavlike.c", "wavlike_read_fmt_chunk", "channel_map = calloc", some (.owner .channelMap), .psfClose⟩,
  ⟨"wavlike.c", "wavlike_read_peak_chunk", "peak_info = peak_info_calloc", some (.owner .peakInfo), .psfClose⟩,
  ⟨"wavlike.c", "wavlike_read_bext_chunk", "broadcast_16k = broadcast_var_alloc", some (.owner .broadcast), .psfClose⟩,
  ⟨"wavlike.c", "wavlike_read_cart_chunk", "cart_16k = cart_var_alloc", some (.owner .cart), .psfClose⟩,
  ⟨"w64.c", "w64_open", "container_data = calloc (WAVLIKE_PRIVATE)", some (.owner .containerData), .psfClose⟩,
  ⟨"rf64.c", "rf64_open", "container_data = calloc (WAVLIKE_PRIVATE)", some (.owner .containerData), .psfClose⟩,
  ⟨"strings.c", "psf_store_string", "strings.storage = realloc", some (.owner .strings), .psfClose⟩,
  ⟨"chunk.c", "psf_store_read_chunk", "rchunks.chunks = calloc / realloc", some (.owner .rchunks), .psfClose⟩,
  ⟨"chunk.c", "psf_save_write_chunk", "wchunks.chunks = calloc / realloc ; chunks [k].data = psf_memdup", some (.owner .wchunks), .psfClose⟩,
  ⟨"chunk.c", "psf_get_chunk_iterator", "iterator = calloc", some (.owner .iterator), .psfClose⟩,
  ⟨"xi.c", "xi_open", "codec_data = calloc (XI_PRIVATE)", some (.owner .codecData), .psfClose⟩,
  ⟨"voc.c", "voc_read_header", "codec_data = malloc (VOC_DATA)", some (.owner .codecData), .psfClose⟩,
  ⟨"sds.c", "sds_open", "codec_data = calloc (SDS_PRIVATE)", some (.owner .codecData), .psfClose⟩,
  ⟨"paf.c", "paf24_init", "codec_data = calloc (paf24size)", some (.owner .codecData), .psfClose⟩,
  ⟨"sd2.c", "sd2_parse_rsrc_fork", "rsrc.rsrc_data = calloc (rsrc_len) … free", none, .sameFunction⟩,
  ⟨"ima_adpcm.c", "ima_reader_init / ima_writer_init", "codec_data = calloc (pimasize)", some (.owner .codecData), .psfClose⟩,
  ⟨"ms_adpcm.c", "wavlike_msadpcm_init", "codec_data = calloc (pmssize)", some (.owner .codecData), .psfClose⟩,
  ⟨"vox_adpcm.c", "vox_adpcm_init", "codec_data = malloc (IMA_OKI_ADPCM)", some (.owner .codecData), .psfClose⟩,
  ⟨"nms_adpcm.c", "nms_adpcm_init", "codec_data = calloc (NMS_ADPCM_PRIVATE)", some (.owner .codecData), .psfClose⟩,
  ⟨"dwvw.c", "dwvw_init", "codec_data = calloc (DWVW_PRIVATE)", some (.owner .codecData), .psfClose⟩,
  ⟨"gsm610.c", "gsm610_init", "codec_data = calloc (GSM610_PRIVATE)", some (.owner .codecData), .psfClose⟩,
  ⟨"gsm610.c", "gsm610_init", "gsm_data = gsm_create ()", some (.nested .gsmState), .codecClose⟩,
  ⟨"g72x.c", "g72x_init", "codec_data = calloc (G72x_PRIVATE)", some (.owner .codecData), .psfClose⟩,
  ⟨"g72x.c", "g72x_init", "private = g72x_reader_init / g72x_writer_init", some (.nested .g72xState), .codecClose⟩,
  ⟨"alac.c", "alac_init", "codec_data = calloc (ALAC_PRIVATE + buffers)", some (.owner .codecData), .psfClose⟩,
  ⟨"alac.c", "alac_pakt_alloc / alac_pakt_read_decode", "pakt_info = calloc / realloc", some (.nested .alacPakt), .codecClose⟩,
  ⟨"alac.c", "alac_writer_init", "enctmp = psf_open_tmpfile (enctmpname)", some (.nested .alacTmp), .codecClose⟩,
  ⟨"alac.c", "alac_writer_init", "fileno (enctmp)", some .tmpFd, .codecClose⟩,
  ⟨"alac.c", "alac_writer_init", "the file enctmpname on disk", some .tmpDisk, .codecClose⟩,
  ⟨"alac.c", "alac_reader_init kuki", "chunk_info.data = malloc … free", none, .sameFunction⟩,
  ⟨"alac.c", "alac_pakt_read_decode", "pakt_data = malloc (pakt_size + 5) … free", none, .sameFunction⟩,
  ⟨"alac.c", "alac_pakt_encode", "data = calloc (allocated) … handed to the header writer, freed there", none, .sameFunction⟩,
  ⟨"interleave.c", "interleave_init", "interleave = malloc (INTERLEAVE_DATA)", some (.owner .interleave), .psfClose⟩,
  ⟨"dither.c", "dither_init", "dither = calloc (DITHER_DATA)", some (.owner .dither), .psfClose⟩,
  ⟨"broadcast.c", "broadcast_var_alloc", "calloc (SF_BROADCAST_INFO_16K)", some (.owner .broadcast), .psfClose⟩,
  ⟨"cart.c", "cart_var_alloc", "calloc (SF_CART_INFO_16K)", some (.owner .cart), .psfClose⟩,
  ⟨"sndfile.c", "sf_command SFC_SET_CHANNEL_MAP_INFO", "channel_map = malloc", some (.owner .channelMap), .psfClose⟩,
  ⟨"sndfile.c", "psf_open_file format_desc", "format_desc = …", some (.owner .formatDesc), .psfClose⟩ ]

/-- the cells the table mentions -/
def siteCells : List Cell := sites.filterMap (·.cell)

/-- cells released only by a hook: the hook must be installed before the first `return` that follows the allocation -/
def hookCells : List Cell := (sites.filter (fun s => s.owner = .containerClose || s.owner = .codecClose)).filterMap (·.cell)

/-! ### the open program with the container hook installed late -/

/-- header-parse events applied as the parser meets them, whether or not the close hook is in place yet -/
def applyEvsRaw (evs : List Ev) (s : S) : S := evs.foldl (fun s e => applyEv e s) s

def applyStepRaw (c : OpenCfg) (st : Step) (s : S) : S :=
  match st with
  | .parse => applyEvsRaw c.evs s
  | st => applyStep c st s

/-- aiff_open with `psf->container_close = aiff_close` moved behind aiff_read_header (the order wav_open, caf_open, rf64_open, w64_open use) -/
def contStepsLateHook (c : OpenCfg) : List Step :=
  (if c.cont.hasData then [.contData] else []) ++
  (if c.cont.rich && ((c.cont != .aiff && c.cont != .caf) || writes c) then [.flags] else []) ++
  (if parses c then [.parse] else []) ++
  [.contHook (if c.cont = .aiff then .aiff else .otherHook)] ++
  (if c.mode = .w && c.isFloat && (c.cont = .wav || c.cont = .wavex || c.cont = .aiff || c.cont = .caf) then [.peakW] else []) ++
  (if c.cont.rich && writes c then [.chunkHook] else [])

/-- a failing open under that order: k steps ran, then psf_close -/
def failedOpenLateHook (c : OpenCfg) (k : Nat) : Acct :=
  retire (releaseAll (((contStepsLateHook c ++ codecSteps c).take k).foldl (fun s st => applyStepRaw c st s) (allocate c {})))

end Sf.LedgerSites
