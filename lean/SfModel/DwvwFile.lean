/-
  SfModel.DwvwFile — DWVW as a handle sees it: the caller-type front ends `dwvw_write_s/i/f/d`, `dwvw_read_s/i/f/d`
  (2048-item staging loops around `dwvw_encode_data` / `dwvw_decode_data`), the frame count `dwvw_init` computes at
  open (`psf_decode_frame_count`: decode the whole file 2048 samples at a time), `sf_read_*` clamping and
  `dwvw_seek` (only to frame 0).  One channel (sf_format_check accepts DWVW only with `channels == 1`).
-/
import SfModel.Dwvw
import SfModel.BlockConv
namespace Sf.Dwvw
open Sf.Float Sf.Block

/-- staging buffer: `ARRAY_LEN (ubuf.ibuf)` -/
def chunkLen : Nat := 2048

/-- what a caller item becomes before `dwvw_encode_data` sees it -/
def toCodec (cv : Conv) (ty : Ty) (v : Int) : Int :=
  match ty with
  | .s16 => wrapS 32 (v * 65536)                                    -- arith_shift_left (ptr [k], 16)
  | .s32 => v
  | .f32 => lrintInt cv.variant (mulNf f32 (if cv.normF then pow2 31 else pow2 0) v.toNat)        -- (float) (1.0 * 0x7FFFFFFF) = 2^31
  | .f64 => lrintInt cv.variant (mulNf f64 (if cv.normD then Dy.ofInt 0x7FFFFFFF else pow2 0) v.toNat)

/-- what the caller receives for a decoded cell -/
def toCaller (cv : Conv) (ty : Ty) (v : Int) : Int :=
  match ty with
  | .s16 => asr v 16
  | .s32 => v
  | .f32 => intTimes f32 (if cv.normF then pow2 (-31) else pow2 0) v
  | .f64 => intTimes f64 (if cv.normD then pow2 (-31) else pow2 0) v

/-- `dwvw_write_T`: the staging loop converts and encodes ≤ 2048 items at a time; the encoder carries all its state
    from item to item, so this is `encodeData` on the converted items -/
def writeCall (c : Cfg) (cv : Conv) (ty : Ty) (e : ESt) (vs : List Int) : ESt :=
  encodeData c e (vs.map (toCodec cv ty))

/-- `dwvw_read_s/f/d (len)`: one `dwvw_decode_data` call per staging chunk; stops after the first short one.
    `dwvw_read_i` is a single call (`chunk = 0`). -/
def readChunks (c : Cfg) (chunk : Nat) : Nat → Nat → DSt → DSt × List Int
  | 0, _, d => (d, [])
  | fuel + 1, n, d =>
    if n = 0 then (d, [])
    else
      let rc := if chunk = 0 then n else min chunk n
      let (d1, xs) := decodeData c rc d
      if xs.length ≠ rc then (d1, xs)
      else
        let (d2, ys) := readChunks c chunk fuel (n - rc) d1
        (d2, xs ++ ys)

def chunkOf (ty : Ty) : Nat := if ty = .s32 then 0 else chunkLen

/-- `psf_decode_frame_count`: `while ((count = read_int (2048)) > 0) total += count` -/
def frameScan (c : Cfg) : Nat → DSt → Nat → Nat
  | 0, _, total => total
  | fuel + 1, d, total =>
    let (d1, xs) := decodeData c chunkLen d
    if xs.length = 0 then total else frameScan c fuel d1 (total + xs.length)

/-- `sf.frames` after open: the decoded count, in AIFF capped by the COMM chunk's numSampleFrames (`hdr`) -/
def framesAtOpen (c : Cfg) (data : List Byte) (hdr : Option Nat) : Nat :=
  let n := frameScan c (data.length * 8 + 2) (DSt.init data) 0
  match hdr with
  | some h => if n > h then h else n
  | none => n

structure RHandle where
  data   : List Byte
  d      : DSt
  pos    : Nat
  frames : Nat

def RHandle.open (c : Cfg) (data : List Byte) (hdr : Option Nat) : RHandle :=
  ⟨data, DSt.init data, 0, framesAtOpen c data hdr⟩

/-- `sf_read_T (n items)`: (handle, delivered items, return value); `none` = the whole request is zero-filled -/
def RHandle.read (c : Cfg) (cv : Conv) (ty : Ty) (h : RHandle) (n : Nat) : RHandle × Option (List Int) × Nat :=
  if n = 0 then (h, some [], 0)
  else if h.pos ≥ h.frames then (h, none, 0)
  else
    let (d1, xs) := readChunks c (chunkOf ty) (n + 1) n h.d
    let cnt := xs.length
    let ret := if cnt ≤ h.frames - h.pos then cnt else h.frames - h.pos
    ({ h with d := d1, pos := h.pos + ret }, some ((xs.take ret).map (toCaller cv ty)), ret)

/-- `dwvw_seek` behind `sf_seek`: absolute target frame `k`; only frame 0 can be reached -/
def RHandle.seek (h : RHandle) (k : Nat) : Option RHandle :=
  if k = 0 then some { h with d := DSt.init h.data, pos := 0 } else none

end Sf.Dwvw
