/-
  SfModel.Adpcm — lib-shaped (L1) models of libsndfile's IMA and Microsoft ADPCM block decoders.

  Mirrors src/ima_adpcm.c (`wavlike_ima_decode_block`, `aiff_ima_decode_block`, `clamp_ima_step_index`)
  and src/ms_adpcm.c (`msadpcm_decode_block`, `msadpcm_get_bpred`): the block header is parsed per
  channel, the packed 4-bit codes are FIRST pulled apart into the `samples` buffer at the positions the C
  writes them to, THEN a single decode pass walks the buffer with `chan = k % 2`, reading the predictor
  back from `samples [k - channels]`, exactly as the C does.  Narrowing stores to `short` are `wrapS 16`,
  `>>` on signed values is `asr`.  The tables are `Generated.AdpcmTables` (read out of the running
  library on every check run); `SfProps.C20Adpcm` proves them equal to the published ones.

  The reference decoders written from the published algorithms are in `SfModel.AdpcmSpec`.
  Channel counts other than 1 and 2 are refused by wavlike.c (`SFE_WAV_ADPCM_CHANNELS`) and the C keeps
  `stepindx [2]`, `bpred [2]`, `chan_idelta [2]`; the model has the same two slots.
-/
import SfModel.Basic
import SfModel.Generated.AdpcmTables
namespace Sf.Adpcm
open Sf.Generated

/-- `x :: y :: x' :: y' :: …` : what strided stores `samples [2*j + chan]` produce for two channels -/
def interleave : List α → List α → List α
  | x :: xs, y :: ys => x :: y :: interleave xs ys
  | _, _ => []

/-- `bytecode & 0x0F` -/
def nibLo (b : Nat) : Nat := b % 16
/-- `(bytecode >> 4) & 0x0F` -/
def nibHi (b : Nat) : Nat := (b / 16) % 16

/-- clamp of `predictor` to the `short` range (`if (predictor > 32767) … else if (predictor < -32768) …`) -/
def clamp16 (x : Int) : Int := if x > 32767 then 32767 else if x < -32768 then -32768 else x

/-! ## IMA -/

/-- `clamp_ima_step_index` -/
def clampImaStepIndex (indx : Int) : Int :=
  if indx < 0 then 0 else if indx ≥ 89 then 89 - 1 else indx

/-- `ima_step_size [indx]` (indx is always inside the table when the C indexes it) -/
def imaStepSize (indx : Int) : Int := imaStepTab.getD indx.toNat 0
/-- `ima_indx_adjust [bytecode]` -/
def imaIndxAdjust (bytecode : Nat) : Int := imaIndexAdjust.getD bytecode 0

/-- `diff = step >> 3 ; if (bytecode & 1) diff += step >> 2 ; if (bytecode & 2) diff += step >> 1 ;
    if (bytecode & 4) diff += step ; if (bytecode & 8) diff = -diff ;` -/
def imaDiff (step : Int) (bytecode : Nat) : Int :=
  let diff := asr step 3
  let diff := if bytecode % 2 = 1 then diff + asr step 2 else diff
  let diff := if bytecode / 2 % 2 = 1 then diff + asr step 1 else diff
  let diff := if bytecode / 4 % 2 = 1 then diff + step else diff
  if bytecode / 8 % 2 = 1 then -diff else diff

/-- the unpack loop of `wavlike_ima_decode_block`, one channel: every 4 bytes fill 8 consecutive slots.
    When `blocksize - 4` is not a multiple of 4 the last pass also reads up to 3 bytes past the block; their slots lie at
    and beyond `samplesperblock` and are never decoded, so only the block's own bytes appear here. -/
def wavUnpack1 : List Byte → List Nat
  | b0 :: b1 :: b2 :: b3 :: rest =>
    [nibLo b0, nibHi b0, nibLo b1, nibHi b1, nibLo b2, nibHi b2, nibLo b3, nibHi b3] ++ wavUnpack1 rest
  | rest => rest.flatMap fun b => [nibLo b, nibHi b]

/-- two channels: 4 bytes of channel 0 go to slots `indxstart + 0 + 2*j`, the next 4 bytes (channel 1) to
    `indxstart + 1 + 2*j`, then `indxstart += 16` -/
def wavUnpack2 : List Byte → List Nat
  | a0 :: a1 :: a2 :: a3 :: b0 :: b1 :: b2 :: b3 :: rest =>
    [nibLo a0, nibLo b0, nibHi a0, nibHi b0, nibLo a1, nibLo b1, nibHi a1, nibHi b1,
     nibLo a2, nibLo b2, nibHi a2, nibHi b2, nibLo a3, nibLo b3, nibHi a3, nibHi b3] ++ wavUnpack2 rest
  | _ => []

def wavUnpack (channels : Nat) (data : List Byte) : List Nat :=
  if channels = 1 then wavUnpack1 data else wavUnpack2 data

/-- the decode pass `for (k = channels ; k < samplesperblock * channels ; k++)`.
    `codes` are the buffer slots `samples [k …]` still holding 4-bit codes, `hist` is the decoded part of the
    buffer most recent first (`hist[j] = samples [k-1-j]`), `si = (stepindx [0], stepindx [1])`. -/
def wavDecodeLoop (channels : Nat) : Nat → List Nat → Int × Int → List Int → List Int
  | _, [], _, _ => []
  | k, slot :: codes, si, hist =>
    let chan := if channels > 1 then k % 2 else 0
    let bytecode := slot % 16
    let sidx := if chan = 0 then si.1 else si.2
    let step := imaStepSize sidx
    let predictor := hist.getD (channels - 1) 0          -- pima->samples [k - pima->channels]
    let predictor := clamp16 (predictor + imaDiff step bytecode)
    let sidx := clampImaStepIndex (wrapS 16 (sidx + imaIndxAdjust bytecode))
    let si := if chan = 0 then (sidx, si.2) else (si.1, sidx)
    let sample := wrapS 16 predictor                       -- pima->samples [k] = predictor
    sample :: wavDecodeLoop channels (k + 1) codes si (sample :: hist)

/-- header of one channel of a WAV-layout block: (sample stored in `samples [chan]`, stepindx [chan]) -/
def wavHeader (block : List Byte) (chan : Nat) : Int × Int :=
  let b0 := block.getD (chan * 4) 0
  let b1 := block.getD (chan * 4 + 1) 0
  let predictor : Int := (b0 : Int) + (b1 : Int) * 256
  let predictor := if predictor / 32768 % 2 = 1 then predictor - 65536 else predictor
  let stepindx := clampImaStepIndex (wrapS 16 (block.getD (chan * 4 + 2) 0))
  (wrapS 16 predictor, stepindx)

/-- `wavlike_ima_decode_block` on one full block: the `samplesperblock * channels` shorts of `pima->samples`. -/
def imaWavDecodeBlock (channels samplesperblock : Nat) (block : List Byte) : List Int :=
  let h0 := wavHeader block 0
  let h1 := if channels > 1 then wavHeader block 1 else (0, 0)      -- `short stepindx [2] = { 0 }`
  let first := if channels > 1 then [h0.1, h1.1] else [h0.1]
  let slots := wavUnpack channels (block.drop (4 * channels))
  let codes := slots.take ((samplesperblock - 1) * channels)        -- loop bound k < samplesperblock * channels
  first ++ wavDecodeLoop channels channels codes (h0.2, h1.2) first.reverse

/-- the unpack loop of `aiff_ima_decode_block` for one channel (`k < blocksize - 2`) -/
def aiffUnpack (bytes : List Byte) : List Nat := bytes.flatMap fun b => [nibLo b, nibHi b]

/-- the decode loop of `aiff_ima_decode_block` for one channel; `predictor` and `stepindx` are locals -/
def aiffDecodeLoop : List Nat → Int → Int → List Int
  | [], _, _ => []
  | bytecode :: codes, predictor, stepindx =>
    let step := imaStepSize stepindx
    let stepindx := clampImaStepIndex (wrapS 16 (stepindx + imaIndxAdjust bytecode))   -- `short stepindx`
    let predictor := clamp16 (predictor + imaDiff step bytecode)
    wrapS 16 predictor :: aiffDecodeLoop codes predictor stepindx

/-- one channel's 34-byte packet -/
def aiffChannel (blocksize samplesperblock : Nat) (blockdata : List Byte) : List Int :=
  let b0 := blockdata.getD 0 0
  let b1 := blockdata.getD 1 0
  -- (int) ((short) ((blockdata [0] << 8) | (blockdata [1] & 0x80)))
  let predictor := wrapS 16 ((b0 : Int) * 256 + ((b1 / 128 % 2 * 128 : Nat) : Int))
  let stepindx := clampImaStepIndex (wrapS 16 ((b1 % 128 : Nat) : Int))
  let slots := aiffUnpack ((blockdata.drop 2).take (blocksize - 2))
  aiffDecodeLoop (slots.take samplesperblock) predictor stepindx

/-- `aiff_ima_decode_block`: `blockdata = pima->block + chan * 34`, stores strided by `channels` -/
def imaAiffDecodeBlock (channels blocksize samplesperblock : Nat) (block : List Byte) : List Int :=
  if channels > 1 then
    interleave (aiffChannel blocksize samplesperblock block) (aiffChannel blocksize samplesperblock (block.drop 34))
  else aiffChannel blocksize samplesperblock block

/-! ## Microsoft ADPCM -/

def msAdaptation (bytecode : Nat) : Int := msAdaptationTab.getD bytecode 0
def msAdaptCoeff1 (bpred : Nat) : Int := msCoeff1.getD bpred 0
def msAdaptCoeff2 (bpred : Nat) : Int := msCoeff2.getD bpred 0

/-- `msadpcm_get_bpred`: a predictor number outside the 7 known sets is replaced by 0 (and logged) -/
def msGetBpred (value : Nat) : Nat := if value ≥ 7 then 0 else value

/-- `x | (y << 8)` stored to a `short` -/
def msShort (lo hi : Nat) : Int := wrapS 16 ((lo : Int) + (hi : Int) * 256)

/-- unpack loop: `samples [sampleindx++] = (bytecode >> 4) & 0x0F ; samples [sampleindx++] = bytecode & 0x0F` -/
def msUnpack (data : List Byte) : List Nat := data.flatMap fun b => [nibHi b, nibLo b]

/-- decode pass `for (k = 2 * channels ; k < samplesperblock * channels ; k++)`; `hist[j] = samples [k-1-j]` -/
def msDecodeLoop (channels : Nat) (bpred : Nat × Nat) : Nat → List Nat → Int × Int → List Int → List Int
  | _, [], _, _ => []
  | k, slot :: codes, chanIdelta, hist =>
    let chan := if channels > 1 then k % 2 else 0
    let bytecode := slot % 16
    let idelta := if chan = 0 then chanIdelta.1 else chanIdelta.2
    let nd := wrapS 16 (asr (msAdaptation bytecode * idelta) 8)       -- stored to short chan_idelta [chan]
    let nd := if nd < 16 then 16 else nd
    let chanIdelta := if chan = 0 then (nd, chanIdelta.2) else (chanIdelta.1, nd)
    let sbytecode : Int := if bytecode / 8 % 2 = 1 then (bytecode : Int) - 16 else bytecode
    let bp := if chan = 0 then bpred.1 else bpred.2
    let predict := asr (hist.getD (channels - 1) 0 * msAdaptCoeff1 bp
                        + hist.getD (2 * channels - 1) 0 * msAdaptCoeff2 bp) 8
    let current := clamp16 (sbytecode * idelta + predict)
    let sample := wrapS 16 current
    sample :: msDecodeLoop channels bpred (k + 1) codes chanIdelta (sample :: hist)

/-- `msadpcm_decode_block` on one full block -/
def msDecodeBlock (channels samplesperblock : Nat) (block : List Byte) : List Int :=
  let g := fun i => block.getD i 0
  if channels = 1 then
    let bpred := (msGetBpred (g 0), 0)
    let idelta := (msShort (g 1) (g 2), (0 : Int))
    let s1 := msShort (g 3) (g 4)
    let s0 := msShort (g 5) (g 6)
    let codes := (msUnpack (block.drop 7)).take ((samplesperblock - 2) * channels)
    [s0, s1] ++ msDecodeLoop channels bpred 2 codes idelta [s1, s0]
  else
    let bpred := (msGetBpred (g 0), msGetBpred (g 1))
    let idelta := (msShort (g 2) (g 3), msShort (g 4) (g 5))
    let s2 := msShort (g 6) (g 7)
    let s3 := msShort (g 8) (g 9)
    let s0 := msShort (g 10) (g 11)
    let s1 := msShort (g 12) (g 13)
    let codes := (msUnpack (block.drop 14)).take ((samplesperblock - 2) * channels)
    [s0, s1, s2, s3] ++ msDecodeLoop channels bpred 4 codes idelta [s3, s2, s1, s0]

end Sf.Adpcm
