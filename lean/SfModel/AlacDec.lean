/-
  SfModel.AlacDec — `alac_decode` with the compressed elements plugged in, and the codec core as an instance of the
  wrapper's parameter `Sf.Alac.Codec`.
-/
import SfModel.AlacCore
import SfModel.AlacAg
import SfModel.AlacDp
import SfModel.AlacMatrix
import SfModel.AlacFile
namespace Sf.AlacCore

/-- `n` predictor coefficients: `(int16_t) BitBufferRead (bits, 16)` -/
def rdCoefs : Nat → Rd → List Int × Rd
  | 0, r => ([], r)
  | n + 1, r =>
    let (v, r1) := r.read 16
    let (vs, r2) := rdCoefs n r1
    (sext 16 v :: vs, r2)

/-- mode byte and filter byte of one channel: (mode, denShift, pbFactor, coefficients) -/
def rdChanParams (r : Rd) : (Nat × Nat × Nat × List Int) × Rd :=
  let (hb, r) := r.read 8
  let (fb, r) := r.read 8
  let (coefs, r) := rdCoefs (fb % 32) r
  ((hb / 16, hb % 16, fb / 32, coefs), r)

/-- `dyn_decomp` + `unpc_block` (twice when the mode is not 0) of one channel: `none` = dyn_decomp failed -/
def decChan (cfg : Config) (byteSize numSamples chanBits : Nat) (pr : Nat × Nat × Nat × List Int) (r : Rd) : Option (List Int) × Rd :=
  let (mode, denShift, pbFactor, coefs) := pr
  let (ag, r) := dynDecomp (setAgParams cfg.mb (cfg.pb * pbFactor / 4) cfg.kb) r byteSize numSamples chanBits
  if !ag.ok then (none, r)
  else
    let pred := if mode = 0 then ag.out else unpcBlock ag.out [] 31 chanBits 0
    (some (unpcBlock pred coefs coefs.length chanBits denShift), r)

/-- the model's domain: where the C code shifts by a count the language leaves undefined the element is `unmodelled` -/
def inDomain (cfg : Config) (chanBits : Nat) : Bool :=
  1 ≤ chanBits && chanBits ≤ 32 && 1 ≤ cfg.kb && cfg.kb ≤ 31

def pairUp : List Nat → List (Nat × Nat)
  | a :: b :: rest => (a, b) :: pairUp rest
  | _ => []

/-- the compressed branch of an ID_SCE / ID_LFE element, behind the common header -/
def compMono (ru : Rules) (byteSize : Nat) (cfg : Config) (h : Hdr) (r : Rd) : Except Status (Option (List Int)) × Rd :=
  let (_mixBits, r) := r.read 8
  let (_mixRes, r) := r.read 8
  let (pr, r) := rdChanParams r
  let chanBits := cfg.bitDepth - 8 * h.bytesShifted
  let shiftStart := r
  let r := if h.bytesShifted ≠ 0 then r.advance (8 * h.bytesShifted * h.numSamples) else r
  if !inDomain cfg chanBits || cfg.bitDepth < 8 * h.bytesShifted then (.error .unmodelled, r)
  else
    match decChan cfg byteSize h.numSamples chanBits pr r with
    | (none, r) => (.error .paramError, r)
    | (some mix, r) =>
      let sh := if h.bytesShifted ≠ 0 then (rdFields (8 * h.bytesShifted) h.numSamples shiftStart).1 else []
      (.ok (outChan ru cfg.bitDepth h.bytesShifted mix sh), r)

/-- the compressed branch of an ID_CPE element -/
def compPair (byteSize : Nat) (cfg : Config) (h : Hdr) (r : Rd) : Except Status (Option (List Int × List Int)) × Rd :=
  let (mixBits, r) := r.read 8
  let (mr, r) := r.read 8
  let mixRes := sext 8 mr
  let (pu, r) := rdChanParams r
  let (pv, r) := rdChanParams r
  let chanBits := cfg.bitDepth - 8 * h.bytesShifted + 1
  let shiftStart := r
  let r := if h.bytesShifted ≠ 0 then r.advance (8 * h.bytesShifted * 2 * h.numSamples) else r
  if !inDomain cfg chanBits || cfg.bitDepth < 8 * h.bytesShifted || (mixRes ≠ 0 && mixBits ≥ 32) then (.error .unmodelled, r)
  else
    match decChan cfg byteSize h.numSamples chanBits pu r with
    | (none, r) => (.error .paramError, r)
    | (some u, r) =>
      match decChan cfg byteSize h.numSamples chanBits pv r with
      | (none, r) => (.error .paramError, r)
      | (some v, r) =>
        let sh := if h.bytesShifted ≠ 0 then pairUp (rdFields (8 * h.bytesShifted) (2 * h.numSamples) shiftStart).1
                  else List.replicate h.numSamples (0, 0)
        let outs := (List.zip (List.zip u v) sh).map fun ((a, b), s) => unmixPair cfg.bitDepth h.bytesShifted mixBits mixRes a b s
        if cfg.bitDepth = 16 ∨ cfg.bitDepth = 20 ∨ cfg.bitDepth = 24 ∨ cfg.bitDepth = 32 then
          (.ok (some ((outs.map fun o => (o.getD (0, 0)).1), (outs.map fun o => (o.getD (0, 0)).2))), r)
        else (.ok none, r)

/-- the compressed elements -/
def comp (ru : Rules) (byteSize : Nat) : CompDec := { mono := compMono ru byteSize, pair := compPair byteSize }

/-- `alac_decode` -/
def decodeR (ru : Rules) (cfg : Config) (image : List Byte) (byteSize numSamples : Nat) : Res :=
  decodeWith (comp ru byteSize) ru cfg image byteSize numSamples

def decode (cfg : Config) (image : List Byte) (byteSize numSamples : Nat) : Res :=
  decodeR Rules.current cfg image byteSize numSamples

/-- a packet decoded into a cleared buffer with an empty byte buffer behind it: the frames `alac_decode_block` leaves -/
def decodeFresh (cfg : Config) (packet : List Byte) : List (List Int) :=
  (decode cfg packet packet.length frameLen).frames cfg.numChannels

/-- the codec core for the wrapper model `Sf.Alac` with an encoder that writes every element uncompressed (what
    `alac_encode` does for incompressible and for very short packets); the encoder has no state on that path -/
def escCodec (cfg : Config) : Sf.Alac.Codec Unit (List Int) :=
  { init := (), enc := fun _ frames => ((), encodeEscape cfg frames), dec := decodeFresh cfg }

end Sf.AlacCore
