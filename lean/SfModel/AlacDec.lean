/-
  SfModel.AlacDec — `alac_decode` with the compressed elements plugged in, and the codec core as an instance of the
  wrapper's parameter `Sf.Alac.Codec`.
-/
import SfModel.AlacCore
import SfModel.AlacFile
namespace Sf.AlacCore

/-- the compressed elements -/
def comp : CompDec :=
  { mono := fun _ _ r => (.error .unmodelled, r),
    pair := fun _ _ r => (.error .unmodelled, r) }

/-- `alac_decode` -/
def decodeR (ru : Rules) (cfg : Config) (image : List Byte) (byteSize numSamples : Nat) : Res :=
  decodeWith comp ru cfg image byteSize numSamples

def decode (cfg : Config) (image : List Byte) (byteSize numSamples : Nat) : Res :=
  decodeR Rules.current cfg image byteSize numSamples

/-- a packet decoded into a cleared buffer with an empty byte buffer behind it: the frames `alac_decode_block` leaves -/
def decodeFresh (cfg : Config) (packet : List Byte) : List (List Int) :=
  (decode cfg packet packet.length frameLen).frames cfg.numChannels

/-- the codec core for the wrapper model `Sf.Alac` with an encoder that writes every element uncompressed (what
    `alac_encode` does for incompressible and for very short packets); the encoder has no state on that path -/
def escCodec (cfg : Config) : Sf.Alac.Codec Unit (List Int) :=
  { init := (), enc := fun _ frames => ((), encodeEscape cfg frames), dec := decodeFresh cfg }

end Sf.AlacCore
