/-
  SfModel.Dpcm — the differential PCM of FastTracker 2 Extended Instrument files (xi.c): 8-bit (`dsc`) and 16-bit
  little-endian (`dles`) deltas with the running value kept in `pxi->last_16`.

  The running state is a C `short`; the 8-bit coder keeps its value in the top byte (`last_16 >> 8`, put back as
  `last_val << 8` after every staging chunk — which is lossless, so the chunking is not observable).
-/
import SfModel.Basic
import SfModel.BlockConv
namespace Sf.Dpcm
open Sf.Block Sf.Float

/-! ### 16-bit -/

/-- the value a caller sample contributes (`src [k]`, `src [k] >> 16`, `(short) lrint (x * normfact)`) -/
def cur16 (c : Conv) (ty : Ty) (v : Int) : Int :=
  match ty with
  | .s16 => v
  | .s32 => asr v 16
  | .f32 => wrapS 16 (lrintInt c.variant (mulNf f32 (if c.normF then Dy.ofInt 0x7FFF else pow2 0) v.toNat))
  | .f64 => wrapS 16 (lrintInt c.variant (mulNf f64 (if c.normD then Dy.ofInt 0x7FFF else pow2 0) v.toNat))

/-- `*2dles_array` on already-converted values: (last, deltas as signed 16-bit numbers) -/
def delta16 : Int → List Int → Int × List Int
  | last, [] => (last, [])
  | last, x :: xs => let (l, ds) := delta16 x xs; (l, wrapS 16 (x - last) :: ds)

/-- `dles2*_array`: running sum modulo 2^16 -/
def undelta16 : Int → List Int → Int × List Int
  | last, [] => (last, [])
  | last, d :: ds => let v := wrapS 16 (last + d); let (l, vs) := undelta16 v ds; (l, v :: vs)

def out16 (c : Conv) (ty : Ty) (v : Int) : Int :=
  match ty with
  | .s16 => v
  | .s32 => v * 65536
  | .f32 => intTimes f32 (if c.normF then pow2 (-15) else pow2 0) v
  | .f64 => intTimes f64 (if c.normD then pow2 (-15) else pow2 0) v

/-! ### 8-bit -/

def cur8 (c : Conv) (ty : Ty) (v : Int) : Int :=
  match ty with
  | .s16 => wrapS 8 (asr v 8)
  | .s32 => wrapS 8 (asr v 24)
  | .f32 => wrapS 8 (lrintInt c.variant (mulNf f32 (if c.normF then Dy.ofInt 0x7F else pow2 0) v.toNat))
  | .f64 => wrapS 8 (lrintInt c.variant (mulNf f64 (if c.normD then Dy.ofInt 0x7F else pow2 0) v.toNat))

def delta8 : Int → List Int → Int × List Int
  | last, [] => (last, [])
  | last, x :: xs => let (l, ds) := delta8 x xs; (l, wrapS 8 (x - last) :: ds)

def undelta8 : Int → List Int → Int × List Int
  | last, [] => (last, [])
  | last, d :: ds => let v := wrapS 8 (last + d); let (l, vs) := undelta8 v ds; (l, v :: vs)

def out8 (c : Conv) (ty : Ty) (v : Int) : Int :=
  match ty with
  | .s16 => v * 256
  | .s32 => v * 16777216
  | .f32 => intTimes f32 (if c.normF then pow2 (-7) else pow2 0) v
  | .f64 => intTimes f64 (if c.normD then pow2 (-7) else pow2 0) v

/-! ### the codec as the handle sees it: state = `last_16` -/

/-- one write call: new `last_16` and the bytes appended to the file -/
def write (wide : Bool) (c : Conv) (ty : Ty) (last16 : Int) (vs : List Int) : Int × List Byte :=
  if wide then
    let (l, ds) := delta16 last16 (vs.map (cur16 c ty))
    (l, ds.flatMap fun d => leBytes 2 (wrapU 16 d))
  else
    let (l, ds) := delta8 (wrapS 8 (asr last16 8)) (vs.map (cur8 c ty))
    (l * 256, ds.map fun d => wrapU 8 d)

/-- one read call over the stored bytes handed to it: new `last_16` and the caller values -/
def read (wide : Bool) (c : Conv) (ty : Ty) (last16 : Int) (bs : List Byte) : Int × List Int :=
  if wide then
    let (l, vs) := undelta16 last16 ((groups 2 bs).map fun g => sext 16 (ofLE g))
    (l, vs.map (out16 c ty))
  else
    let (l, vs) := undelta8 (wrapS 8 (asr last16 8)) (bs.map fun b => sext 8 b)
    (l * 256, vs.map (out8 c ty))

end Sf.Dpcm
