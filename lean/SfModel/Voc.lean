/-
  SfModel.Voc — stand-alone byte-exact (L1) model of the Creative Voice container of src/voc.c: the 26-byte file
  header ("Creative Voice File" 1A, data offset 26, version 0x0114, check 0x111F), then ONE sound block and a
  terminator byte:

    PCM_U8 mono            type 1:  01 len24 rate8 00                                   (data offset 32)
    PCM_U8 stereo          type 8 + type 1:  08 04 00 00 rate16 00 01   01 len24 rate8 00   (data offset 40)
    PCM_16, u-law, A-law   type 9:  09 len24 rate32 bits channels encoding16 00000000    (data offset 42)

  * `rate8`, `rate16`, `quant`   the divisor quantisers: rate8 = 256 − 1000000 / sr, rate16 = 65536 − 128000000 / sr
                                 (stored in 8 / 16 bits), read back as 1000000 / (256 − rate8) resp.
                                 128000000 / (65536 − rate16); the type 9 block stores the rate itself
  * `hdr`, `fmt`, `closeSt`      voc_write_header and voc_close.  While the handle is open psf->dataend is 0 and the
                                 `calc_length` block takes every byte after the header for audio (there is no
                                 terminator yet); voc_close records the end of the audio in psf->dataend, writes the
                                 terminator there and `calc_length` then stops at it (`closeFields`).  The type 1
                                 length field is datalength + 2 (rate byte, compression byte, audio), the type 9
                                 field whole frames + 12.  The rule before the repair of KF-VOC-MONO-G711 /
                                 KF-VOC-UPDATE (terminator counted as audio at close, type 1 field datalength + 1,
                                 type 1 / 8 readers insisting on a terminator) is SfModel/VocOld.lean (Sf.Voc.Old).
  * `parse`                      sf_open (SFM_READ): guess_file_type, voc_read_header, the codec init, validate_sfinfo.
                                 All three block readers accept a file whose terminator is missing (the image a
                                 header update leaves).  Files that end inside the fields of the block header, and
                                 files that start with an ASCII or REPEAT block, are not described.
-/
import SfModel.Small2
namespace Sf.Voc
open Sf Sf.Small2

structure Cfg where
  codec : Nat          -- PCM_U8 = 5, PCM_16 = 2, ULAW = 0x10, ALAW = 0x11
  ch : Nat
  sr : Nat
deriving Repr, DecidableEq, Inhabited

def bytewidth (codec : Nat) : Nat := if codec = 2 then 2 else 1

/-- configurations sf_open (SFM_WRITE) accepts (byte order request: file default or little) -/
def Cfg.wf (c : Cfg) : Prop :=
  (c.codec = 5 ∨ c.codec = 2 ∨ c.codec = 0x10 ∨ c.codec = 0x11) ∧ (c.ch = 1 ∨ c.ch = 2) ∧ 1 ≤ c.sr ∧ c.sr ≤ 0x7FFFFFFF
instance (c : Cfg) : Decidable c.wf := by unfold Cfg.wf; infer_instance

def Cfg.bw (c : Cfg) : Nat := bytewidth c.codec * c.ch
def Cfg.fmtWord (c : Cfg) : Nat := 0x080000 + c.codec

/-- psf->dataoffset after voc_write_header -/
def Cfg.hdrLen (c : Cfg) : Nat := if c.codec = 5 then (if c.ch = 1 then 32 else 40) else 42

/-! ## rate quantisers -/

def rate8 (sr : Nat) : Nat := wrapU 8 (256 - (1000000 / sr : Nat) : Int)
def rate16 (sr : Nat) : Nat := wrapU 16 (65536 - (128000000 / sr : Nat) : Int)
def unrate8 (b : Nat) : Nat := 1000000 / (256 - b)
def unrate16 (stereo : Bool) (s : Nat) : Nat := (if stereo then 128000000 else 256000000) / (65536 - s)

/-- the rate a reader reports for a file written at `sr` -/
def quant (c : Cfg) : Nat :=
  if c.codec = 5 then (if c.ch = 1 then unrate8 (rate8 c.sr) else unrate16 true (rate16 c.sr)) else c.sr

/-! ## writer -/

def le24 (v : Int) : List Byte := leBytes 3 (wrapU 24 v)

def fileHdr : List Byte := asc "Creative Voice File" ++ [0x1A] ++ le16 26 ++ le16 0x0114 ++ le16 0x111F

def encOf (codec : Nat) : Nat := if codec = 0x11 then 6 else if codec = 0x10 then 7 else 4

/-- voc_write_header -/
def hdr (c : Cfg) (f : Fields) : List Byte :=
  if c.codec = 5 then
    if c.ch = 1 then fileHdr ++ [1] ++ le24 (wrapS 32 (f.datalength + 2)) ++ [rate8 c.sr, 0]
    else fileHdr ++ [8] ++ le24 4 ++ le16 (rate16 c.sr) ++ [0, 1] ++ [1] ++ le24 (wrapS 32 (f.datalength + 2)) ++ [rate8 c.sr, 0]
  else
    fileHdr ++ [9] ++ le24 (wrapS 32 (f.frames * c.ch * bytewidth c.codec + 12)) ++ le32 c.sr ++
      [if c.codec = 2 then 16 else 8, c.ch] ++ le16 (encOf c.codec) ++ le32 0

/-- `calc_length` while the handle is open: every byte after the header is audio (psf->dataend is 0 on a write handle
    until voc_close sets it) -/
def fmt (c : Cfg) : Fmt :=
  { hdrLen := c.hdrLen, bw := c.bw, hdr := hdr c,
    recalc := fun n _ => { filelength := n, datalength := (n : Int) - c.hdrLen, frames := ((n : Int) - c.hdrLen) / ((c.bw : Nat) : Int) } }

/-- the fields `calc_length` computes at close: psf->dataend (set by voc_close) is the offset of the terminator, the
    `d` audio bytes in front of it are the data -/
def closeFields (c : Cfg) (d : Nat) : Fields :=
  { filelength := ((c.hdrLen + d + 1 : Nat) : Int), datalength := (d : Int), frames := ((d / c.bw : Nat) : Int) }

/-- voc_close: psf->dataend = the end of the audio (dataoffset + frames * bytewidth * channels = the end of the store
    of a write handle), the terminator byte there, then voc_write_header (psf, SF_TRUE) -/
def closeSt (c : Cfg) (s : St) : St :=
  let f := closeFields c s.data.length
  { hdr := hdr c f, data := s.data ++ [0], f := f }

def closedBytes (c : Cfg) (stale : Nat) (ops : List WOp) : List Byte := (closeSt c (run (fmt c) (openW (fmt c) stale) ops)).bytes
def snapshotBytes (c : Cfg) (stale : Nat) (ops : List WOp) : List Byte := Small2.snapshotBytes (fmt c) stale ops

/-! ## reader -/

def byteAt (bs : List Byte) (i : Nat) : Nat := bs.getD i 0
def leAt (bs : List Byte) (i n : Nat) : Nat := ofLE ((bs.drop i).take n)

/-- the block header fields and what voc_read_header makes of them: (channels, codec, bytewidth, rate, data offset,
    dataend) or an error -/
inductive Blk
  | ok (ch : Nat) (codec : Nat) (bytew : Nat) (sr : Int) (dataoffset : Nat) (dataend : Int)
  | err
  | unmodelled
deriving Repr, DecidableEq, Inhabited

def readBlock (bs : List Byte) : Blk :=
  let flen : Int := bs.length
  let ty := byteAt bs 26            -- `block_type = 0` stays when the file ends here
  if ty = 5 ∨ ty = 6 then .unmodelled else
  if ty = 1 then
    if bs.length < 32 then .unmodelled else
    let size : Int := leAt bs 27 3
    let sr : Int := unrate8 (byteAt bs 30)
    if 32 + size - 2 = flen then .ok 1 5 1 sr 32 0           -- "Missing zero byte at end of file"
    else if 32 + size - 1 > flen then .err                   -- SFE_VOC_BAD_SECTIONS ("truncated")
    else if flen - 32 - size > 4 then .err                   -- "multi-segment (#1)"
    else .ok 1 5 1 sr 32 (flen - 1)
  else if ty = 8 then
    if bs.length < 40 then .unmodelled else
    let stereo : Bool := byteAt bs 33 ≠ 0
    let sr : Int := unrate16 stereo (leAt bs 30 2)
    if byteAt bs 34 ≠ 1 then .err else                       -- SFE_VOC_BAD_FORMAT
    let size : Int := leAt bs 35 3
    if 40 + size - 2 = flen then .ok (if stereo then 2 else 1) 5 1 sr 40 0      -- "Missing zero byte at end of file"
    else if 40 + size - 1 > flen then .err
    else if 40 + size - 1 < flen then .err                   -- "multi-segment (#2)"
    else .ok (if stereo then 2 else 1) 5 1 sr 40 (flen - 1)
  else if ty = 9 then
    if bs.length < 42 then .unmodelled else
    let size0 : Int := leAt bs 27 3
    let sr : Int := sext 32 (leAt bs 30 4)
    let bits := byteAt bs 34
    let ch := byteAt bs 35
    let enc0 : Int := sext 16 (leAt bs 36 2)
    let size : Int := if size0 * 2 = flen - 39 then flen - 31 else size0          -- "SoX bug"
    let enc : Int := if bits = 16 ∧ enc0 = 0 then 4 else enc0
    let dataend : Int := if size + 31 = flen + 1 then 0 else flen - 1              -- "Missing zero byte at end of file"
    if enc = 0 then .ok ch 5 1 sr 42 dataend
    else if enc = 4 then .ok ch 2 2 sr 42 dataend
    else if enc = 6 then .ok ch 0x11 1 sr 42 dataend
    else if enc = 7 then .ok ch 0x10 1 sr 42 dataend
    else .err                                                -- SFE_VOC_BAD_FORMAT
  else .err                                                  -- no sound block: voc_open returns SFE_UNIMPLEMENTED

/-- voc_read_header + voc_open + the codec init + validate_sfinfo -/
def readHeader (bs : List Byte) : ParseRes :=
  if bs.length < 26 then .unmodelled else                    -- `creative`, `version` are unwritten stack variables
  if bs.length ≥ 2 ^ 31 then .unmodelled else
  if bs.take 19 ≠ asc "Creative Voice File" ∨ byteAt bs 19 ≠ 0x1A then .err else   -- SFE_VOC_NO_CREATIVE
  let version := leAt bs 22 2
  if version ≠ 0x010A ∧ version ≠ 0x0114 then .err else      -- SFE_VOC_BAD_VERSION
  match readBlock bs with
  | .unmodelled => .unmodelled
  | .err => .err
  | .ok ch codec bytew sr dataoffset dataend =>
    if ch < 1 ∨ sr < 1 then .err else                        -- pcm_init (channels = 0), validate_sfinfo
    .ok { ch := ch, fmt := 0x080000 + codec, sr := sr.toNat, frames := (framesOf bs.length dataoffset dataend (bytew * ch : Nat)).toNat }

/-- `sf_open_virtual (SFM_READ)` on `bs` -/
def parse (bs : List Byte) : ParseRes :=
  if bs.length < 12 then .err else                    -- guess_file_type: SFE_BAD_FILE_READ
  match guess bs with
  | some (.fmt 0x080000) => readHeader bs
  | _ => .unmodelled

end Sf.Voc
