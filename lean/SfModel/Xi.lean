/-
  SfModel.Xi — stand-alone byte-exact (L1) model of the FastTracker 2 Extended Instrument container of src/xi.c:
  a 298-byte instrument header ("Extended Instrument: ", 22-byte name, 1A, 20-byte tracker name, version 0x0102,
  note / envelope tables (zeros), fade-out 0x1234, sample count 1) and ONE 40-byte sample header (sample length,
  loop start, loop length, volume 128, finetune 0, flags 0 / 16, pan 128, note 0, name length 9, "Sample #1"),
  then the DPCM_8 / DPCM_16 delta bytes — the codec itself is Sf.Dpcm (SfModel/Dpcm.lean); here the audio is
  `bytewidth` bytes per frame.  Always mono, always 44100 Hz (xi_open overwrites the caller's values).

  * `hdr`, `fmt`      xi_write_header: it ignores `calc_length` and serialises `psf->sf.frames`, the running frame
                      count sf_write_* maintains (the sample length field holds FRAMES, also for 16-bit samples)
  * `fmtOld`          the rule before the repair of KF-XI-HEADER: xi_close did nothing, so the closed file kept
                      the header of the last update (or of the first write call: sample length 0)
  * `parse`           sf_open (SFM_READ): guess_file_type, xi_read_header, dpcm_init, validate_sfinfo.  The reader
                      never uses the sample length: the frame count is (file length − data offset) / bytewidth.
                      Files that end inside the headers are not described (unwritten stack variables).
-/
import SfModel.Small2
namespace Sf.Xi
open Sf Sf.Small2

structure Cfg where
  codec : Nat                -- DPCM_8 = 0x50, DPCM_16 = 0x51
  software : List Byte       -- PACKAGE_NAME "-" PACKAGE_VERSION, blank padded / cut to 20 bytes
deriving Repr, DecidableEq, Inhabited

def bytewidth (codec : Nat) : Nat := if codec = 0x51 then 2 else 1

def Cfg.wf (c : Cfg) : Prop := (c.codec = 0x50 ∨ c.codec = 0x51) ∧ c.software.length = 20
instance (c : Cfg) : Decidable c.wf := by unfold Cfg.wf; infer_instance

def Cfg.bw (c : Cfg) : Nat := bytewidth c.codec
def Cfg.fmtWord (c : Cfg) : Nat := 0x0F0000 + c.codec

/-- the rate is fixed -/
def quant (_sr : Nat) : Nat := 44100

/-- bytes 0…43: marker, instrument name, 1A -/
def partA : List Byte := asc "Extended Instrument: " ++ asc "Default Name          " ++ [0x1A]
/-- bytes 64…297: version, 194 + 12 zeros, fade-out, 22 zeros, sample count -/
def partB : List Byte := le16 0x0102 ++ List.replicate 206 0 ++ le16 0x1234 ++ List.replicate 22 0 ++ le16 1
/-- bytes 302…337: loop start / length, volume, finetune, flags, pan, note, name length, sample name -/
def partC (codec : Nat) : List Byte :=
  le32 0 ++ le32 0 ++ [128, 0, if codec = 0x51 then 16 else 0, 128, 0, 9] ++ asc "Sample #1" ++ List.replicate 13 0

/-- xi_write_header ("t8": the 64-bit frame count is written as 4 bytes) -/
def hdr (c : Cfg) (f : Fields) : List Byte := partA ++ (c.software ++ (partB ++ (le32 f.frames ++ partC c.codec)))

/-- xi_close rewrites the header (repaired rule) -/
def fmt (c : Cfg) : Fmt :=
  { hdrLen := 338, bw := c.bw, hdr := hdr c, recalc := fun _ f => f, closeRewrites := true }

/-- the rule before the repair: xi_close did nothing -/
def fmtOld (c : Cfg) : Fmt := { fmt c with closeRewrites := false }

/-! ## reader -/

def byteAt (bs : List Byte) (i : Nat) : Nat := bs.getD i 0
def leAt (bs : List Byte) (i n : Nat) : Nat := ofLE ((bs.drop i).take n)

/-- `while (sample_count > 1 && sample_sizes [sample_count - 1] == 0) sample_count --` -/
def trimCount (bs : List Byte) : Nat → Nat
  | 0 => 0
  | k + 1 => if k + 1 > 1 ∧ leAt bs (298 + 40 * k) 4 = 0 then trimCount bs k else k + 1

/-- xi_read_header + xi_open + dpcm_init + validate_sfinfo -/
def readHeader (bs : List Byte) : ParseRes :=
  if bs.length < 298 then .unmodelled else
  if bs.take 20 ≠ asc "Extended Instrument:" then .err else      -- SFE_XI_BAD_HEADER
  if byteAt bs 43 ≠ 0x1A then .err else
  let count : Int := sext 16 (leAt bs 296 2)
  if count > 16 then .err else                                    -- SFE_XI_EXCESS_SAMPLES
  if count ≤ 0 then .err else                                     -- no sample: no encoding (validate_sfinfo)
  let n := count.toNat
  if bs.length < 298 + 40 * n then .unmodelled else
  if trimCount bs n > 2 then .err else                            -- SFE_XI_EXCESS_SAMPLES
  let wide : Bool := byteAt bs 312 / 16 % 2 = 1                   -- flags & 16 of the first sample
  let bytew : Nat := if wide then 2 else 1
  let dataoffset : Nat := 298 + 40 * n
  .ok { ch := 1, fmt := 0x0F0000 + (if wide then 0x51 else 0x50), sr := 44100, frames := (bs.length - dataoffset) / bytew }

/-- `sf_open_virtual (SFM_READ)` on `bs` -/
def parse (bs : List Byte) : ParseRes :=
  if bs.length < 12 then .err else                    -- guess_file_type: SFE_BAD_FILE_READ
  match guess bs with
  | some (.fmt 0x0F0000) => readHeader bs
  | _ => .unmodelled

end Sf.Xi
