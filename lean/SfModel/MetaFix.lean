/-
  SfModel.MetaFix — the metadata rules of the REPAIRED library (property C12), next to the rules they replace:

    src/wav.c    wav_write_cue_names / wav_cue_name_len: the names of the cue points go into a LIST chunk of type `adtl`,
                 one `labl` sub-chunk each, directly after the `cue ` chunk; the `labl` case of wavlike_subchunk_parse
                 (src/wavlike.c) that reads them back (it was there all along; the writer never produced its input)
    src/aiff.c   aiff_write_header: the MARK chunk is written whenever there are cue points (before: only when no instrument
                 was set); the SSND chunk's `offset` field keeps the audio in place when the header written at close is
                 shorter than the one the audio was written behind (a string of the header replaced after the audio)

  Core Lean only (the driver links against this).
-/
import SfModel.Meta
import SfModel.MetaX
namespace Sf.MetaFix
open Sf Sf.Meta

/-! ## 1. WAV cue point names: LIST / adtl / labl -/

/-- `wav_cue_name_len`: the C string in `name [256]`, at most 255 bytes (the name need not be terminated) -/
def cueText (c : Cue) : List Byte := (cstr c.name).take 255

/-- one `labl` sub-chunk: marker, size = 4 + strlen + 1, cue point id, text, terminator, pad byte to an even length -/
def serLabel (c : Cue) : List Byte :=
  mk "labl" ++ le4 (4 + (cueText c).length + 1) ++ le4 c.indx ++ cueText c ++ zeros (1 + ((cueText c).length + 1) % 2)

/-- the cue points that get a label: those with a non-empty name -/
def named (cs : List Cue) : List Cue := cs.filter fun c => cueText c ≠ []

/-- `wav_write_cue_names`: nothing at all when no cue point has a name -/
def writeLabels (cs : List Cue) : List Byte :=
  if named cs = [] then [] else
    mk "LIST" ++ le4 (4 + ((named cs).flatMap serLabel).length) ++ mk "adtl" ++ (named cs).flatMap serLabel

/-- the rule before the repair: wav_write_header wrote the `cue ` chunk only -/
def writeLabelsOld (_cs : List Cue) : List Byte := []

/-- the sub-chunk loop of wavlike_subchunk_parse as far as `adtl` lists go: `adtl` carries no length; `labl`: size, cue id,
    `size - 4` bytes rounded up to even into the 2048-byte buffer (`chunk_size < 1 || chunk_size >= 2048 || overrun` ends the
    walk; in unsigned arithmetic a size below 4 wraps to something huge).  The result lists (id, C string) in file order.
    Any other marker ends this model's walk. -/
def parseLabels : Nat → List Byte → List (Nat × List Byte)
  | 0, _ => []
  | fuel+1, b =>
    if b.length < 4 then []
    else if b.take 4 = mk "adtl" then parseLabels fuel (b.drop 4)
    else if b.take 4 = mk "labl" then
      let sz := ofLE ((b.drop 4).take 4)
      let id := ofLE ((b.drop 8).take 4)
      let n := (sz - 4) + (sz - 4) % 2
      let b2 := b.drop 12
      if sz < 5 ∨ n ≥ INFO_BUFFER ∨ n > b2.length then []
      else (id, cstr (b2.take n)) :: parseLabels fuel (b2.drop n)
    else []

/-- the parser applied to the whole `LIST` chunk (id, size, body); a list of 8 bytes or less is only logged -/
def readLabels (chunk : List Byte) : List (Nat × List Byte) :=
  let len := ofLE ((chunk.drop 4).take 4)
  let body := (chunk.drop 8).take len
  if len ≤ 8 then [] else parseLabels body.length body

/-- `while (i < cue_count && cue_points [i].indx != mark_id) i++ ; if (i < cue_count) memcpy (name, buffer, 256)`:
    the FIRST cue point with that id gets the name -/
def setName : List Cue → Nat → List Byte → List Cue
  | [], _, _ => []
  | c :: r, id, t => if c.indx = id then { c with name := t } :: r else c :: setName r id t

def applyLabels (cs : List Cue) (ls : List (Nat × List Byte)) : List Cue :=
  ls.foldl (fun cs l => setName cs l.1 l.2) cs

/-- what SFC_GET_CUE returns after re-opening a WAV file written with cue points `cs`: the `cue ` chunk, then the labels -/
def reopenCuesWith (labels : List Cue → List Byte) (cs : List Cue) : Option (List Cue) :=
  (readCues (writeCues cs)).map fun got => applyLabels got (readLabels (labels cs))

def reopenCues (cs : List Cue) : Option (List Cue) := reopenCuesWith writeLabels cs
def reopenCuesOld (cs : List Cue) : Option (List Cue) := reopenCuesWith writeLabelsOld cs

/-- the one normalisation: the name is the C string, cut at 255 bytes -/
def Cue.normName (c : Cue) : Cue := { c with name := cueText c }

/-! ## 2. AIFF: MARK chunk and instrument -/

/-- is the MARK chunk written?  repaired: whenever cue points are set -/
def aiffMarkWritten (_inst cues : Bool) : Bool := cues
/-- before: `if (instrument && cues) { /* code removed */ } else if (!instrument && cues) …` -/
def aiffMarkWrittenOld (inst cues : Bool) : Bool := cues && !inst

/-- the cue points a re-opened AIFF file returns (16-bit id, sample offset, name), given the rule -/
def aiffCuesWith (written : Bool → Bool → Bool) (inst : Bool) (cues : Option (List Cue)) : Option (List Cue) :=
  if written inst cues.isSome then
    cues.bind fun cs => (MetaX.readMarks (MetaX.writeMarks (cs.map MetaX.markOfCue))).map fun ms => ms.map MetaX.cueOfMark
  else none

def aiffCues := aiffCuesWith aiffMarkWritten
def aiffCuesOld := aiffCuesWith aiffMarkWrittenOld

/-! ## 3. AIFF: a header that became shorter after the audio was written

`hdr` = bytes aiff_write_header has assembled when it reaches the SSND chunk, `dataoffset` = where the audio was written
(behind the header of the first write: that header's length + 16). -/

/-- repaired: `if (has_data && indx + 8 + SIZEOF_SSND_CHUNK < dataoffset) pad = dataoffset - (indx + 16)` -/
def ssndPad (hasData : Bool) (hdr dataoffset : Nat) : Nat :=
  if hasData ∧ hdr + 16 < dataoffset then dataoffset - (hdr + 16) else 0

/-- before: the SSND chunk header always followed the header directly -/
def ssndPadOld (_hasData : Bool) (_hdr _dataoffset : Nat) : Nat := 0

/-- "Etm844z": marker, chunk size = datalength + 8 + pad, offset = pad, block size 0, `pad` zero bytes -/
def ssndHeader (pad datalen : Nat) : List Byte :=
  mk "SSND" ++ MetaX.be4 (datalen + 8 + pad) ++ MetaX.be4 pad ++ MetaX.be4 0 ++ zeros pad

/-- the file after close: the new header and SSND chunk header written from offset 0 over the old file -/
def closeImage (pad : Nat) (hdrNew oldFile : List Byte) (datalen : Nat) : List Byte :=
  (hdrNew ++ ssndHeader pad datalen) ++ oldFile.drop (hdrNew ++ ssndHeader pad datalen).length

/-- where aiff_read_header finds the audio: behind marker, size, offset and block size, plus `offset` -/
def audioStart (hdr pad : Nat) : Nat := hdr + 16 + pad

end Sf.MetaFix
