/-
  SfModel.Caf — the CAF container (src/caf.c) for the sample-granular encodings, byte exact:
  `hdr` (caf_write_header), `tail` (caf_write_tailer), `parse` (guess_file_type, caf_read_header,
  decode_desc_chunk, the codec's init, validate_sfinfo / validate_psf), and the small write session
  (caf_open for write, the write call's bookkeeping in sndfile.c, SFC_UPDATE_HEADER_NOW / AUTO, caf_close).

  Not described (parse answers `unmodelled`): the 'pakt' chunk, ALAC, what the 'chan' / 'info' chunks carry (they are walked, their
  content belongs to the metadata model), a non-integral sample rate,
  anything after the 'data' chunk other than what ends the scan, skips that could leave the header cache.
-/
import SfModel.Basic
import SfModel.Float
import SfModel.HdrRead
namespace Sf.Caf
open Sf.HdrRd

/-! ## configuration -/

structure Cfg where
  codec : Nat       -- SF_FORMAT subtype code
  endian : Nat      -- SF_ENDIAN field of the requested format word: 0 FILE, 1 LITTLE, 2 BIG, 3 CPU
  ch : Nat
  sr : Nat
deriving Repr, DecidableEq, Inhabited

def codecs : List Nat := [0x01, 0x02, 0x03, 0x04, 0x06, 0x07, 0x10, 0x11]

def bytewidth : Nat → Nat
  | 0x01 => 1 | 0x02 => 2 | 0x03 => 3 | 0x04 => 4 | 0x06 => 4 | 0x07 => 8 | 0x10 => 1 | 0x11 => 1 | _ => 0

def isFloat (codec : Nat) : Bool := codec == 0x06 || codec == 0x07

/-- the host is little-endian: LITTLE and CPU give little-endian data, FILE and BIG big-endian -/
def Cfg.little (c : Cfg) : Bool := c.endian == 1 || c.endian == 3
def Cfg.bw (c : Cfg) : Nat := bytewidth c.codec * c.ch
/-- what sf_format_check and sf_open ask of SF_INFO -/
def Cfg.wf (c : Cfg) : Prop := c.codec ∈ codecs ∧ c.endian < 4 ∧ 1 ≤ c.ch ∧ c.ch ≤ 1024 ∧ 1 ≤ c.sr ∧ c.sr ≤ 0x7FFFFFFF
instance (c : Cfg) : Decidable c.wf := by unfold Cfg.wf; infer_instance

structure Peak where
  value : Nat := 0        -- binary64 bits of peaks[ch].value
  position : Int := 0
deriving Repr, DecidableEq, Inhabited

/-! ## writer -/

def mk (s : String) : List Byte := s.toList.map Char.toNat
def zeros (n : Nat) : List Byte := List.replicate n 0

def fmtId (codec : Nat) : List Byte :=
  if codec == 0x10 then mk "ulaw" else if codec == 0x11 then mk "alaw" else mk "lpcm"
def fmtFlags (c : Cfg) : Nat := (if c.little then 2 else 0) + (if isFloat c.codec then 1 else 0)

/-- 'desc' chunk: 12 + 32 bytes; the rate is `1.0 * samplerate` as big-endian binary64 -/
def descChunk (c : Cfg) : List Byte :=
  mk "desc" ++ beBytes 8 32 ++ beBytes 8 (Float.f64.ofInt c.sr) ++ fmtId c.codec ++ beBytes 4 (fmtFlags c) ++
    beBytes 4 c.bw ++ beBytes 4 1 ++ beBytes 4 c.ch ++ beBytes 4 (8 * bytewidth c.codec)

def peakEntry (p : Peak) : List Byte := beBytes 4 (Float.f64to32 p.value) ++ beBytes 8 (wrapU 64 p.position)

/-- 'peak' chunk (float / double files opened for write): edit count 0, then (binary32 value, 64-bit position) per channel -/
def peakChunk (c : Cfg) (pk : List Peak) : List Byte :=
  mk "peak" ++ beBytes 8 (4 + 12 * c.ch) ++ beBytes 4 0 ++ pk.flatMap peakEntry

/-- bytes before the 'free' chunk -/
def preLen (c : Cfg) : Nat := 8 + 44 + (if isFloat c.codec then 16 + 12 * c.ch else 0)
/-- `free_len = 0x1000 - indx - 16 - 12 ; while (free_len < 0) free_len += 0x1000` -/
def freeLen (c : Cfg) : Nat := (((0x1000 : Int) - preLen c - 28) % 0x1000).toNat
/-- psf->dataoffset after the header was written: a multiple of 4096 -/
def dataOffset (c : Cfg) : Nat := preLen c + 12 + freeLen c + 16

/-- `caf_write_header` for a given psf->datalength -/
def hdrRaw (c : Cfg) (datalength : Int) (pk : List Peak) : List Byte :=
  mk "caff" ++ beBytes 2 1 ++ beBytes 2 0 ++ descChunk c ++ (if isFloat c.codec then peakChunk c pk else []) ++
    mk "free" ++ beBytes 8 (freeLen c) ++ zeros (freeLen c) ++
    mk "data" ++ beBytes 8 (wrapU 64 (datalength + 4)) ++ beBytes 4 0

/-- the header of a file holding `frames` frames -/
def hdr (c : Cfg) (frames : Nat) (pk : List Peak) : List Byte := hdrRaw c ((frames * c.bw : Nat) : Int) pk

/-- `caf_write_tailer`: one zero byte when the audio data ends on an odd offset -/
def tail (c : Cfg) (frames : Nat) : List Byte := if (dataOffset c + frames * c.bw) % 2 == 1 then [0] else []

/-- the closed file -/
def image (c : Cfg) (frames : Nat) (pk : List Peak) (data : List Byte) : List Byte := hdr c frames pk ++ data ++ tail c frames

/-! ## reader -/

structure Info where
  fmtWord : Nat
  ch : Nat
  sr : Int
  frames : Nat
  dataoffset : Nat
  datalength : Nat         -- psf->datalength after the codec's init
deriving Repr, DecidableEq, Inhabited

inductive ParseRes
  | ok (i : Info)
  | err                      -- sf_open returns NULL
  | unmodelled               -- outside what this model describes
deriving Repr, DecidableEq, Inhabited

structure Desc where
  fmtId : List Byte := [0, 0, 0, 0]
  flags : Nat := 0
  pktBytes : Nat := 0
  fpp : Nat := 0
  ch : Nat := 0
  bits : Nat := 0
deriving Repr, DecidableEq, Inhabited

/-- `decode_desc_chunk` (without ALAC): the codec and its byte width -/
def decodeDesc (d : Desc) : Option (Nat × Nat) :=
  let lpcm := d.fmtId == mk "lpcm"
  let fl := d.flags % 2 == 1
  if lpcm ∧ fl ∧ d.bits == 32 ∧ d.pktBytes == (4 * d.ch) % 2 ^ 32 then some (0x06, 4)
  else if lpcm ∧ fl ∧ d.bits == 64 ∧ d.pktBytes == (8 * d.ch) % 2 ^ 32 then some (0x07, 8)
  else if lpcm ∧ !fl ∧ d.bits == 32 ∧ d.pktBytes == (4 * d.ch) % 2 ^ 32 then some (0x04, 4)
  else if lpcm ∧ !fl ∧ d.bits == 24 ∧ d.pktBytes == (3 * d.ch) % 2 ^ 32 then some (0x03, 3)
  else if lpcm ∧ !fl ∧ d.bits == 16 ∧ d.pktBytes == (2 * d.ch) % 2 ^ 32 then some (0x02, 2)
  else if lpcm ∧ !fl ∧ d.bits == 8 ∧ d.pktBytes == (1 * d.ch) % 2 ^ 32 then some (0x01, 1)
  else if d.fmtId == mk "alaw" ∧ d.bits == 8 then some (0x11, 1)
  else if d.fmtId == mk "ulaw" ∧ d.bits == 8 then some (0x10, 1)
  else none

/-- what the chunk walk has found -/
structure Scan where
  haveData : Bool := false
  dataoffset : Nat := 0
  datalength : Int := -1       -- psf->datalength as psf_open_file initialises it
  dataend : Int := 0
deriving Repr, DecidableEq, Inhabited

inductive Walk
  | done (s : Scan)
  | err
  | unmodelled
deriving Repr, DecidableEq, Inhabited

/-- read the `n` peak entries ("Ef8" each) -/
def rdPeaks (bs : List Byte) : Nat → Rd → Rd
  | 0, r => r
  | n+1, r => rdPeaks bs n (rdBE bs (rdBE bs r 4).2 8).2

/-- the 'data' case of the chunk switch for a chunk size `csize`, the reader standing behind the size field (what `walk` does inline
    for the size the file states; `walk_data_inline` in SfProofs/CafDataEnd.lean) -/
def dataCase (bs : List Byte) (csize : Int) (r : Rd) (s : Scan) : Walk :=
  let flen : Int := bs.length
  let r := (rdBE bs r 4).2                                -- the edit count
  let hi : Int := r.indx
  let dl : Int := if flen > 0 ∧ csize > flen - hi + 10 then flen - hi - 8 else csize - 4
  let dend : Int := if dl + hi < flen then dl + hi else s.dataend
  if dl < -0x80000000 ∨ dl > 0x7FFFFFFF then .unmodelled else
  let r := skip bs r dl
  if (ftell bs r : Int) ≥ flen - 8 then .done { haveData := true, dataoffset := hi.toNat, datalength := dl, dataend := dend }
  else .unmodelled

/-- a negative chunk size.  Since "fix: a CAF file whose 'data' chunk size is -1 (audio data runs to the end of the file) could not be
    opened" a 'data' chunk of size −1 stands for the bytes between the chunk body (`psf->header.indx`, behind the size field) and the end
    of the file and takes the ordinary 'data' path with that size (the C code substitutes the size in front of the `chunk_size < 0` test;
    the substituted size is neither negative nor beyond the file).  Every other negative size ends the walk.
    `old = true` is the rule before that repair (KF-CAF-DATA-MINUS-ONE): −1 ended the walk too — the branch for it was dead code. -/
def negSize (old : Bool) (bs : List Byte) (m : List Byte) (csize : Int) (r : Rd) (s : Scan) : Walk :=
  if !old ∧ m == mk "data" ∧ csize = -1 then dataCase bs ((bs.length : Int) - (r.indx : Int)) r s else .done s

/-- the `while (1)` loop of caf_read_header -/
def walk (bs : List Byte) (ch : Nat) : Nat → Rd → Scan → Walk
  | 0, _, _ => .unmodelled
  | fuel+1, r, s =>
    let flen : Int := bs.length
    match rdSeq bs [4, 8] r with                          -- "mE8": marker and size (zeros on a short read)
    | ([m, sz], r) =>
    if m == [0, 0, 0, 0] then .done s else
    let csize : Int := sext 64 (ofBE sz)
    if csize < 0 then negSize false bs m csize r s else
    if csize > flen then .done s else
    -- the tests every iteration ends with
    let fin (r : Rd) (s : Scan) : Walk :=
      if csize ≥ 0xffffff00 then .done s
      else if (ftell bs r : Int) ≥ flen - 8 then .done s
      else walk bs ch fuel r s
    let skipChunk (r : Rd) : Walk :=
      if (r.indx : Int) + csize > cacheLimit then .unmodelled else fin (skip bs r csize) s
    if m == mk "peak" then
      if csize ≠ 4 + 12 * (ch : Int) then .err else
      let r := (rdBE bs r 4).2
      fin (rdPeaks bs ch r) s
    else if m == mk "chan" then
      -- caf_read_chanmap: "E444" then the rest of the chunk is skipped (the map itself does not reach SF_INFO)
      if csize < 12 then skipChunk r else
      if (r.indx : Int) + csize > cacheLimit then .unmodelled else
      let r := (rdSeq bs [4, 4, 4] r).2
      if r.failed then .unmodelled else fin (skip bs r (csize - 12)) s
    else if m == mk "info" then
      -- caf_read_strings: "E4b" reads the count and all the key/value bytes in one go; a chunk of exactly 4 bytes is not read at all
      if csize < 4 then .err else
      if csize > flen - (r.indx : Int) then .err else
      if (r.indx : Int) + csize > cacheLimit then .unmodelled else
      if csize > 4 then fin (rdSeq bs [4, (csize - 4).toNat] r).2 s else fin r s
    else if m == mk "pakt" then .unmodelled
    else if m == mk "data" then
      let r := (rdBE bs r 4).2                            -- the edit count
      let hi : Int := r.indx
      let dl : Int := if flen > 0 ∧ csize > flen - hi + 10 then flen - hi - 8 else csize - 4
      let dend : Int := if dl + hi < flen then dl + hi else s.dataend
      if dl < -0x80000000 ∨ dl > 0x7FFFFFFF then .unmodelled else
      let r := skip bs r dl
      if (ftell bs r : Int) ≥ flen - 8 then .done { haveData := true, dataoffset := hi.toNat, datalength := dl, dataend := dend }
      else .unmodelled                                    -- the scan would go on behind the audio data
    else skipChunk r                                      -- 'free', 'kuki' and unknown chunks
    | _ => .unmodelled

/-- `initFrames`: the codec's init (pcm_init, ulaw_init, …) recomputes psf->datalength and sf.frames -/
def initData (dataoffset : Nat) (dataend : Int) (flen : Nat) : Int :=
  if flen > dataoffset then (if dataend > 0 then dataend - dataoffset else (flen : Int) - dataoffset) else 0

/-- what follows the twelve fixed fields of the file header and the 'desc' chunk -/
def parseDesc (bs : List Byte) (size rate : Nat) (fid : List Byte) (flags pkt fpp ch bits : Nat) (r : Rd) : ParseRes :=
  let csize : Int := sext 64 size
  if csize < 32 then .err else
  if !Float.f64.isFinite rate then .unmodelled else
  let sr : Int := (Float.f64.toDy rate).rint
  if sr < -0x80000000 ∨ sr > 0x7FFFFFFF then .unmodelled else
  let d : Desc := { fmtId := fid, flags := flags, pktBytes := pkt, fpp := fpp, ch := ch, bits := bits }
  if ch > 1024 then .err else
  if csize - 32 > cacheLimit then .unmodelled else
  let r := if csize > 32 then skip bs r (csize - 32) else r
  match walk bs ch bs.length r {} with
  | .err => .err
  | .unmodelled => .unmodelled
  | .done s =>
    if !s.haveData then .err else
    if d.fmtId == mk "alac" then .unmodelled else
    match decodeDesc d with
    | none => .err
    | some (codec, bytew) =>
      if ch == 0 then .err else
      let dl := initData s.dataoffset s.dataend bs.length
      if sr < 1 then .err else
      if dl < 0 then .err else
      .ok { fmtWord := (if flags / 2 % 2 == 1 then 0x10000000 else 0) + 0x180000 + codec, ch := ch, sr := sr,
            frames := dl.toNat / (bytew * ch), dataoffset := s.dataoffset, datalength := dl.toNat }

def parse (bs : List Byte) : ParseRes :=
  if bs.length < 12 then .err else                        -- guess_file_type: short read, no extension to fall back on
  if bs.take 4 != mk "caff" ∨ (bs.drop 8).take 4 != mk "desc" then .unmodelled else
  -- "pmE2E2" 'caff' version flags, "mE8b" 'desc' size rate, "mE44444" the description
  match rdSeq bs [4, 2, 2, 4, 8, 8, 4, 4, 4, 4, 4, 4] {} with
  | ([_, _, _, _, size, rate, fid, flags, pkt, fpp, ch, bits], r) =>
    parseDesc bs (ofBE size) (ofBE rate) fid (ofBE flags) (ofBE pkt) (ofBE fpp) (ofBE ch) (ofBE bits) r
  | _ => .unmodelled

/-! ## the reader before the repair of KF-CAF-DATA-MINUS-ONE (history) -/

/-- `walk` before the repair of KF-CAF-DATA-MINUS-ONE (history; nothing above uses it): every negative chunk size ends the walk -/
def walkOld (bs : List Byte) (ch : Nat) : Nat → Rd → Scan → Walk
  | 0, _, _ => .unmodelled
  | fuel+1, r, s =>
    let flen : Int := bs.length
    match rdSeq bs [4, 8] r with                          -- "mE8": marker and size (zeros on a short read)
    | ([m, sz], r) =>
    if m == [0, 0, 0, 0] then .done s else
    let csize : Int := sext 64 (ofBE sz)
    if csize < 0 then negSize true bs m csize r s else
    if csize > flen then .done s else
    -- the tests every iteration ends with
    let fin (r : Rd) (s : Scan) : Walk :=
      if csize ≥ 0xffffff00 then .done s
      else if (ftell bs r : Int) ≥ flen - 8 then .done s
      else walkOld bs ch fuel r s
    let skipChunk (r : Rd) : Walk :=
      if (r.indx : Int) + csize > cacheLimit then .unmodelled else fin (skip bs r csize) s
    if m == mk "peak" then
      if csize ≠ 4 + 12 * (ch : Int) then .err else
      let r := (rdBE bs r 4).2
      fin (rdPeaks bs ch r) s
    else if m == mk "chan" then
      -- caf_read_chanmap: "E444" then the rest of the chunk is skipped (the map itself does not reach SF_INFO)
      if csize < 12 then skipChunk r else
      if (r.indx : Int) + csize > cacheLimit then .unmodelled else
      let r := (rdSeq bs [4, 4, 4] r).2
      if r.failed then .unmodelled else fin (skip bs r (csize - 12)) s
    else if m == mk "info" then
      -- caf_read_strings: "E4b" reads the count and all the key/value bytes in one go; a chunk of exactly 4 bytes is not read at all
      if csize < 4 then .err else
      if csize > flen - (r.indx : Int) then .err else
      if (r.indx : Int) + csize > cacheLimit then .unmodelled else
      if csize > 4 then fin (rdSeq bs [4, (csize - 4).toNat] r).2 s else fin r s
    else if m == mk "pakt" then .unmodelled
    else if m == mk "data" then
      let r := (rdBE bs r 4).2                            -- the edit count
      let hi : Int := r.indx
      let dl : Int := if flen > 0 ∧ csize > flen - hi + 10 then flen - hi - 8 else csize - 4
      let dend : Int := if dl + hi < flen then dl + hi else s.dataend
      if dl < -0x80000000 ∨ dl > 0x7FFFFFFF then .unmodelled else
      let r := skip bs r dl
      if (ftell bs r : Int) ≥ flen - 8 then .done { haveData := true, dataoffset := hi.toNat, datalength := dl, dataend := dend }
      else .unmodelled                                    -- the scan would go on behind the audio data
    else skipChunk r                                      -- 'free', 'kuki' and unknown chunks
    | _ => .unmodelled

/-- `parseDesc` over `walkOld` -/
def parseDescOld (bs : List Byte) (size rate : Nat) (fid : List Byte) (flags pkt fpp ch bits : Nat) (r : Rd) : ParseRes :=
  let csize : Int := sext 64 size
  if csize < 32 then .err else
  if !Float.f64.isFinite rate then .unmodelled else
  let sr : Int := (Float.f64.toDy rate).rint
  if sr < -0x80000000 ∨ sr > 0x7FFFFFFF then .unmodelled else
  let d : Desc := { fmtId := fid, flags := flags, pktBytes := pkt, fpp := fpp, ch := ch, bits := bits }
  if ch > 1024 then .err else
  if csize - 32 > cacheLimit then .unmodelled else
  let r := if csize > 32 then skip bs r (csize - 32) else r
  match walkOld bs ch bs.length r {} with
  | .err => .err
  | .unmodelled => .unmodelled
  | .done s =>
    if !s.haveData then .err else
    if d.fmtId == mk "alac" then .unmodelled else
    match decodeDesc d with
    | none => .err
    | some (codec, bytew) =>
      if ch == 0 then .err else
      let dl := initData s.dataoffset s.dataend bs.length
      if sr < 1 then .err else
      if dl < 0 then .err else
      .ok { fmtWord := (if flags / 2 % 2 == 1 then 0x10000000 else 0) + 0x180000 + codec, ch := ch, sr := sr,
            frames := dl.toNat / (bytew * ch), dataoffset := s.dataoffset, datalength := dl.toNat }

/-- the reader before the repair of KF-CAF-DATA-MINUS-ONE -/
def parseOld (bs : List Byte) : ParseRes :=
  if bs.length < 12 then .err else                        -- guess_file_type: short read, no extension to fall back on
  if bs.take 4 != mk "caff" ∨ (bs.drop 8).take 4 != mk "desc" then .unmodelled else
  -- "pmE2E2" 'caff' version flags, "mE8b" 'desc' size rate, "mE44444" the description
  match rdSeq bs [4, 2, 2, 4, 8, 8, 4, 4, 4, 4, 4, 4] {} with
  | ([_, _, _, _, size, rate, fid, flags, pkt, fpp, ch, bits], r) =>
    parseDescOld bs (ofBE size) (ofBE rate) fid (ofBE flags) (ofBE pkt) (ofBE fpp) (ofBE ch) (ofBE bits) r
  | _ => .unmodelled

/-! ## write session -/

structure St where
  bytes : List Byte := []
  pos : Nat := 0
  frames : Int := 0          -- psf->sf.frames
  wpos : Int := 0            -- psf->write_current
  dataoffset : Int := 0
  datalength : Int := 0
  dataend : Int := 0
  filelength : Int := 0
  peaks : List Peak := []
  auto : Bool := false
  written : Bool := false    -- psf->have_written
deriving Repr, DecidableEq, Inhabited

def writeAt (bs : List Byte) (pos : Nat) (data : List Byte) : List Byte :=
  let pre := if pos ≤ bs.length then bs.take pos else bs ++ zeros (pos - bs.length)
  pre ++ data ++ bs.drop (pos + data.length)

/-- `caf_write_header (psf, calc_length)` -/
def writeHeader (c : Cfg) (s : St) (calcLen : Bool) : St :=
  let cur := s.pos
  let s := if calcLen then
      let fl : Int := s.bytes.length
      let dl := fl - s.dataoffset
      let dl := if s.dataend != 0 then dl - (fl - s.dataend) else dl
      { s with filelength := fl, datalength := dl, frames := Int.tdiv dl (c.bw : Int) }
    else s
  let h := hdrRaw c s.datalength s.peaks
  let s := { s with bytes := writeAt s.bytes 0 h, dataoffset := h.length }
  { s with pos := if (cur : Int) < s.dataoffset then h.length else if cur > 0 then cur else h.length }

/-- caf_open in write mode on an empty store: sf.frames is zeroed (the caller's value is not used), the header is
    written once, and the codec's init finds no data -/
def openW (c : Cfg) (_staleFrames : Int) : St :=
  let s : St := { peaks := if isFloat c.codec then List.replicate c.ch {} else [] }
  let s := writeHeader c s false
  { s with datalength := 0, frames := 0 }

inductive Op
  | write (frames : Nat) (data : List Byte) (peaks : List Peak)    -- one accepted write call: its encoded bytes, the peak table after it
  | update                                                         -- SFC_UPDATE_HEADER_NOW
  | auto (on : Bool)                                               -- SFC_SET_UPDATE_HEADER_AUTO
deriving Repr, DecidableEq, Inhabited

def step (c : Cfg) (s : St) : Op → St
  | .write k data pk =>
    if k == 0 then s else
    let s := if !s.written then writeHeader c s false else s
    let s := { s with written := true, peaks := if isFloat c.codec then pk else s.peaks }
    let s := { s with bytes := writeAt s.bytes s.pos data, pos := s.pos + data.length, wpos := s.wpos + k }
    let s := if s.wpos > s.frames then { s with frames := s.wpos, dataend := 0 } else s
    if s.auto then writeHeader c s true else s
  | .update => writeHeader c s true
  | .auto on => { s with auto := on }

def run (c : Cfg) (s : St) (ops : List Op) : St := ops.foldl (step c) s

/-- caf_close: tailer, then the header with the lengths recomputed -/
def close (c : Cfg) (s : St) : St :=
  let dl : Int := s.frames * bytewidth c.codec * c.ch
  let s := { s with datalength := dl, dataend := s.dataoffset + dl }
  let s := if s.dataend > 0 then { s with pos := s.dataend.toNat } else { s with pos := s.bytes.length, dataend := s.bytes.length }
  let s := if s.dataend % 2 == 1 then { s with bytes := writeAt s.bytes s.pos [0], pos := s.pos + 1 } else s
  writeHeader c s true

def Op.frames : Op → Nat | .write k _ _ => k | _ => 0
def Op.data : Op → List Byte | .write k d _ => if k == 0 then [] else d | _ => []
def Op.valid (c : Cfg) : Op → Prop
  | .write k d pk => d.length = k * c.bw ∧ pk.length = c.ch
  | _ => True
instance (c : Cfg) (o : Op) : Decidable (o.valid c) := by cases o <;> unfold Op.valid <;> infer_instance

def sessFrames (ops : List Op) : Nat := (ops.map Op.frames).sum
def sessData (ops : List Op) : List Byte := ops.flatMap Op.data
/-- the peak table after the session -/
def sessPeaks (c : Cfg) (ops : List Op) : List Peak :=
  ops.foldl (fun pk o => match o with | .write k _ p => if k == 0 ∨ !isFloat c.codec then pk else p | _ => pk)
    (if isFloat c.codec then List.replicate c.ch {} else [])

end Sf.Caf
