/-
  SfModel.Paf24 — the 24-bit encoding of Ensoniq PARIS files (paf.c: paf24_write_block / paf24_read_block and the
  wrappers around paf24_read / paf24_write).

  A block holds 10 frames.  Each channel owns 32 bytes of it: its 10 samples as 3 bytes each (bits 8..31 of the
  32-bit value, least significant byte first) and 2 bytes that are never written.  For big-endian files the 8
  ints of every 32-byte group are byte-swapped *in place* before the block goes to disk; because the buffer is
  reused, the 2 spare bytes of the next block then hold bytes 28, 29 of this one (swapped): the encoder has
  cross-block state.
-/
import SfModel.Block
import SfModel.BlockConv
namespace Sf.Paf24
open Sf.Block Sf.Float

def spb : Nat := 10
def chanBytes : Nat := 32

/-- bytes stored for one sample: `nextsample = x >> 8 ; cptr [0..2] = nextsample, >> 8, >> 16` -/
def sampleBytes (x : Int) : List Byte := leBytes 3 (wrapU 24 (asr x 8))

/-- `(cptr [0] << 8) | (cptr [1] << 16) | ((unsigned) cptr [2] << 24)` as an int -/
def unpackSample (b0 b1 b2 : Byte) : Int := sext 32 (b0 * 256 + b1 * 65536 + b2 * 16777216)

/-- `endswap_int_array`: reverse every group of four bytes -/
def swap4 : List Byte → List Byte
  | a :: b :: c :: d :: rest => d :: c :: b :: a :: swap4 rest
  | l => l

/-- the two spare bytes of every channel's group as they sit in memory before the next block is packed -/
abbrev Spare := Byte × Byte

/-- pack one channel's 10 samples; returns the new spare bytes and the 32 bytes written to disk -/
def packChan (big : Bool) (s : Spare) (xs : List Int) : Spare × List Byte :=
  let mem := xs.flatMap sampleBytes ++ [s.1, s.2]
  if big then ((mem.getD 29 0, mem.getD 28 0), swap4 mem) else (s, mem)

/-- samples of channel `c` in an interleaved block buffer -/
def chanItems (ch c : Nat) (a : Array Int) : List Int := (List.range spb).map fun f => a.getD (f * ch + c) 0

/-- `paf24_write_block`: encoder state = spare bytes per channel -/
def encBlock (ch : Nat) (big : Bool) (σ : List Spare) (buf : List Int) : List Spare × List Byte :=
  let a := buf.toArray
  let rs := (List.range ch).map fun c => packChan big (σ.getD c (0, 0)) (chanItems ch c a)
  (rs.map (·.1), rs.flatMap (·.2))

/-- the 10 samples of one channel group as read from disk -/
def unpackChan (big : Bool) (bs : List Byte) : List Int :=
  let mem := (if big then swap4 bs else bs).toArray
  (List.range spb).map fun f => unpackSample (mem.getD (3 * f) 0) (mem.getD (3 * f + 1) 0) (mem.getD (3 * f + 2) 0)

/-- `paf24_read_block` on a whole block of `32 * ch` bytes: the interleaved `10 * ch` items -/
def decBlock (ch : Nat) (big : Bool) (bytes : List Byte) : List Int :=
  let chans := ((List.range ch).map fun c => (unpackChan big ((bytes.drop (chanBytes * c)).take chanBytes)).toArray).toArray
  (List.range (spb * ch)).map fun k => (chans.getD (k % ch) #[]).getD (k / ch) 0

def writer (ch : Nat) (big : Bool) : Writer (List Spare) := { spb := spb, ch := ch, enc := encBlock ch big }

/-- blocks of the data region (whole blocks; a truncated last block is padded with zero bytes — files the
    library writes always hold whole blocks, see the note in the check) -/
def splitBlocks (bsz : Nat) : Nat → List Byte → List (List Byte)
  | 0, _ => []
  | n + 1, l => let b := l.take bsz; (b ++ List.replicate (bsz - b.length) 0) :: splitBlocks bsz n (l.drop bsz)

/-- `paf24_init` for reading: `max_blocks`, `sf.frames = sample_count = 10 * max_blocks` -/
def maxBlocks (ch len : Nat) : Nat :=
  if len % chanBytes ≠ 0 then len / (chanBytes * ch) + 1 else len / (chanBytes * ch)

def reader (ch : Nat) (big : Bool) (data : List Byte) : Reader :=
  let nb := maxBlocks ch data.length
  let blocks := (splitBlocks (chanBytes * ch) nb data).toArray
  { spb := spb, ch := ch, frames := spb * nb,
    src := fun k => if k < nb then decBlock ch big (blocks.getD k []) else zeros (spb * ch) }

/-! caller types -/

/-- `paf24_write_s/i/f/d`: the caller's value as the codec's 32-bit working sample (the 24-bit code in its top three bytes);
    normalisation off: `1.0 * 0x100` (since the repair of KF-PAF24-NORMOFF-WRITE) -/
def ofCaller (c : Conv) (ty : Ty) (v : Int) : Int :=
  match ty with
  | .s16 => v * 65536
  | .s32 => v
  | .f32 => lrintInt c.variant (mulNf f32 (if c.normF then f32.toDy (f32.ofInt 0x7FFFFFFF) else pow2 8) v.toNat)
  | .f64 => lrintInt c.variant (mulNf f64 (if c.normD then Dy.ofInt 0x7FFFFFFF else pow2 8) v.toNat)

/-- the rule before the repair of KF-PAF24-NORMOFF-WRITE: with normalisation off the writers DIVIDED by 0x100 (the readers'
    factor), so the stored code was the caller's value / 65536 -/
def ofCallerOld (c : Conv) (ty : Ty) (v : Int) : Int :=
  match ty with
  | .s16 => v * 65536
  | .s32 => v
  | .f32 => lrintInt c.variant (mulNf f32 (if c.normF then f32.toDy (f32.ofInt 0x7FFFFFFF) else pow2 (-8)) v.toNat)
  | .f64 => lrintInt c.variant (mulNf f64 (if c.normD then Dy.ofInt 0x7FFFFFFF else pow2 (-8)) v.toNat)

def toCaller (c : Conv) (ty : Ty) (v : Int) : Int :=
  match ty with
  | .s16 => asr v 16
  | .s32 => v
  | .f32 => intTimes f32 (if c.normF then pow2 (-31) else pow2 (-8)) v
  | .f64 => intTimes f64 (if c.normD then pow2 (-31) else pow2 (-8)) v

/-- staging: short/float/double callers go through `ubuf.ibuf` (2048 ints) rounded down to whole frames
    (`bufferlen -= bufferlen % channels`), int callers in one inner call -/
def chunkOf (ch : Nat) (ty : Ty) : Nat := if ty = .s32 then 0 else 2048 - 2048 % ch

/-- the rule before the repair of KF-PAF24-CHUNK: pieces of 2048 items whatever the channel count, so that a
    piece could end inside a frame and `count / channels` dropped the partial frame -/
def chunkOfOld (ty : Ty) : Nat := if ty = .s32 then 0 else 2048

end Sf.Paf24
