/-
  SfModel.AbsWrite — the WRITE-SIDE contract of properties C01 / C04 / C07 / C11 as decidable Boolean checkers over what
  the all-format write campaign (vlib/writecamp.py) records of ONE job:

    * the geometry of the (container, encoding): block length B, pad allowance, rate quantiser class — from
      SfModel/Geometry.lean (`blockFrames`, `padFrames`, `floorToBlock`) and `rateClass` below;
    * run 1, the REFERENCE run: the samples handed to one write call with their caller type, what the call returned, what
      sf_close returned, the bytes of the closed file, the re-open info, the sequential read-back to the end and one
      further read;
    * run 2, the SPLIT run: the same samples split over mixed item / frame calls with SFC_UPDATE_HEADER_NOW /
      SFC_SET_UPDATE_HEADER_AUTO in between, the closed bytes, and for every crash point (a copy of the store taken right
      after a header update) the re-open info and the read-back of the copy;
    * run 3: run 1 again with another stale SF_INFO.frames value at open — its closed bytes.

  Nothing here knows bytes of headers or codecs: the checkers JUDGE what the library answered against the clauses of the
  four statements (quoted from properties.jsonl next to each clause) and name the clauses that fail (`Fail.tag`).
  Cells follow `Sf.Abs`: a caller item is one cell of at most 32 bits, a double is two cells (high half first); a file byte
  is one cell.  The compiled driver (`sfmodel abs-write`, lean/Driver/AbsWrite.lean) evaluates exactly `judge`;
  lean/SfProofs/AbsWrite*.lean and lean/SfProps/C01AbsW.lean, C04AbsW.lean, C07AbsW.lean, C11AbsW.lean prove what an
  accepted record means and that what the concrete model's theorems describe is accepted.

  Core Lean only (no Mathlib): the driver links this file.
-/
import SfModel.Abs
import SfModel.Geometry
namespace Sf.AbsWrite
open Sf Sf.Abs Sf.Geometry

/-! ## geometry -/

/-- what the writer was opened with -/
structure Geom where
  word : Nat                            -- format word: container | encoding | endianness
  ch : Nat                              -- channels
  sr : Nat                              -- sample rate asked for

def Geom.major (g : Geom) : Nat := g.word / 0x10000 % 0x1000
def Geom.codec (g : Geom) : Nat := g.word % 0x10000
/-- B: the encoding's block length in frames (SfModel/Geometry.lean) -/
def Geom.block (g : Geom) : Nat := blockFrames g.major g.codec g.ch g.sr
/-- pad frames a container may add when it pads odd byte counts -/
def Geom.pad (g : Geom) : Nat := padFrames g.major g.codec g.ch

/-- C04: "the requested sample rate whenever the container's rate field can represent it exactly … exact rate equality is
    asserted for the containers with integer-Hz or wider fields - WAV, WAVEX, RF64, W64, AIFF, AU, CAF, NIST, PAF, PVF,
    MAT4, MAT5, AVR - and quantisation by the documented unit for SVX/MPC2K (16 bit), IRCAM (float32), HTK/SDS (sample
    period), VOC (divisor), XI/WVE (fixed)" — the quantiser class of a container -/
inductive RateClass
  | exact                 -- integer-Hz or wider field: the rate comes back as asked
  | caller                -- RAW: no header, the caller supplies the rate at re-open
  | field16               -- SVX, MPC2K: 16-bit field
  | float32               -- IRCAM: binary32 field
  | period (unit bits : Nat)   -- HTK (100 ns, 32-bit field), SDS (1 ns, 21-bit field): sample period
  | divisor               -- VOC: 1 MHz / (256 − divisor)
  | fixed                 -- XI, WVE: the container fixes the rate
deriving Repr, DecidableEq

def rateClass (major : Nat) : RateClass :=
  if major == 0x04 then .caller
  else if major == 0x06 || major == 0x21 then .field16
  else if major == 0x0A then .float32
  else if major == 0x10 then .period (10 ^ 7) 31
  else if major == 0x11 then .period (10 ^ 9) 21
  else if major == 0x08 then .divisor
  else if major == 0x0F || major == 0x19 then .fixed
  else .exact

/-- an integer rounded to binary32 (24 significant bits, ties to even) -/
def roundF32 (n : Nat) : Nat :=
  if n < 2 ^ 24 then n
  else
    let e := Nat.log2 n - 23
    let q := n / 2 ^ e
    let r := n % 2 ^ e
    let h := 2 ^ (e - 1)
    (if h < r || (r == h && q % 2 == 1) then q + 1 else q) * 2 ^ e

/-- the rate a reader derives from a sample-period field of `bits` bits in units of 1/`u` s written for the rate `sr`:
    the period `u / sr` (truncating) read back as `u / period` (truncating) — `Sf.Htk.quant`, `Sf.SdsFile.quant`; `none`
    when the field cannot hold the period (0: the rate exceeds the unit; 2^bits and more: the rate is too low) -/
def periodQuant (u bits sr : Nat) : Option Nat :=
  let p := u / sr
  if p == 0 || 2 ^ bits ≤ p then none else some (u / p)

/-- the rate a reader derives from a binary32 field written for the integer rate `sr` (IRCAM): the integer rounded to
    binary32 and cut back to an int; from 2^31 − 64 on the rounded value 2^31 does not fit the reader's int and the writer
    stores the largest binary32 below it, 2^31 − 128 (`Sf.Ircam.rateQ`) -/
def float32Quant (sr : Nat) : Nat := if sr < 2 ^ 31 - 64 then roundF32 sr else 2 ^ 31 - 128

/-- the clause of a sample-period / time-constant field: EXACTLY the documented quantiser where the field can hold the
    period, any positive rate where it cannot -/
def periodOk (u bits sr : Nat) (got : Int) : Bool :=
  match periodQuant u bits sr with
  | some q => got == (q : Int)
  | none => 1 ≤ got

/-- VOC's sound blocks: type 1 (PCM_U8 mono) stores the 8-bit time constant 256 − 10^6 / sr, read back as
    10^6 / (256 − tc) — the sample period in µs in an 8-bit field; type 8 (PCM_U8 stereo) the 16-bit time constant
    65536 − 128·10^6 / sr — the period in units of 1 / 128 µs in a 16-bit field; type 9 (everything else) the rate itself.
    Which block is written depends on the encoding and the channel count: (unit, bits) of the period field, `none` = type 9 -/
def vocField (codec ch : Nat) : Option (Nat × Nat) :=
  if codec == 0x05 then (if ch == 1 then some (10 ^ 6, 8) else some (128 * 10 ^ 6, 16)) else none

/-- the rate a re-open may report for the rate `sr` asked at open, as far as the container (`major`) and `sr` decide it
    (vlib/geometry.py `rate_ok` without the channel count, line by line).  Every clause is EXACT — it accepts exactly the
    model's quantiser value — except `.divisor`, where the quantiser depends on the block type the encoding and the channel
    count select: here it accepts what one of the three block types answers, `rateOkG` below is the exact clause. -/
def rateOk (major sr : Nat) (got : Int) : Bool :=
  match rateClass major with
  | .exact => got == (sr : Int)
  | .caller => true
  | .fixed => true
  | .field16 => got == ((min sr 65535 : Nat) : Int)          -- saturating 16-bit field
  | .float32 => got == ((float32Quant sr : Nat) : Int)      -- EXACTLY the binary32 round trip (capped)
  | .period u b =>
    match periodQuant u b sr with
    | some q => got == (q : Int)          -- EXACTLY the documented quantiser
    | none => 1 ≤ got                     -- the field cannot express the rate: any positive rate
  | .divisor => got == (sr : Int) || periodOk (10 ^ 6) 8 sr got || periodOk (128 * 10 ^ 6) 16 sr got

/-- THE EXACT RATE CLAUSE on a whole geometry (vlib/geometry.py `rate_ok` with the channel count): for VOC the block type
    is known — the type 9 block gives the rate back as asked, the type 1 / type 8 blocks EXACTLY the time-constant
    quantiser `u / (u / sr)` where the field can hold the period (any positive rate where it cannot); every other container
    is decided by `rateOk` -/
def rateOkG (g : Geom) (got : Int) : Bool :=
  if g.major == 0x08 then
    match vocField g.codec g.ch with
    | some (u, b) => periodOk u b g.sr got
    | none => got == (g.sr : Int)
  else rateOk g.major g.sr got

/-- the rule of the `.divisor` class before round 9: a first-order tolerance inside 4000 … 200000 Hz, anything outside -/
def divisorTolOld (sr : Nat) (got : Int) : Bool :=
  !(4000 ≤ sr && sr ≤ 200000) || (got - (sr : Int)).natAbs ≤ max 1 (sr * sr / 10 ^ 6 + 1)

/-- … and of the float32 class: nothing was asked from 2^31 − 64 Hz on -/
def float32CapOld (sr : Nat) (got : Int) : Bool := 2 ^ 31 - 64 ≤ sr || got == (roundF32 sr : Int)

/-- … and of the 16-bit class: nothing was asked from 65536 Hz on -/
def field16Old (sr : Nat) (got : Int) : Bool := 65536 ≤ sr || got == (sr : Int)

/-! ## C01 — the lossless side condition -/

/-- bit width of the integer encodings (PCM_S8 / U8, PCM_16/24/32, DPCM_8/16, DWVW_12/16/24, ALAC_16/20/24/32) -/
def intWidth (codec : Nat) : Option Nat :=
  if codec == 0x01 || codec == 0x05 || codec == 0x50 then some 8
  else if codec == 0x40 then some 12
  else if codec == 0x02 || codec == 0x51 || codec == 0x41 || codec == 0x70 then some 16
  else if codec == 0x71 then some 20
  else if codec == 0x03 || codec == 0x42 || codec == 0x72 then some 24
  else if codec == 0x04 || codec == 0x73 then some 32
  else none

/-- C01: "whose encoding is lossless for the caller's sample type (integer PCM at least as wide as the caller's integers,
    32/64-bit float, ALAC, DWVW, 16-bit DPCM, and low-bit-zero integers for narrower PCM)": the number of low bits of a
    caller integer that must be zero (0 when the encoding is at least as wide), `none` when the pair is lossy. -/
def losslessLow (codec : Nat) (ty : Ty) : Option Nat :=
  match ty with
  | .s16 => (intWidth codec).map (16 - ·)
  | .s32 => (intWidth codec).map (32 - ·)
  | .f32 => if codec == 0x06 || codec == 0x07 then some 0 else none
  | .f64 => if codec == 0x07 then some 0 else none

/-- one cell of the written stream meets the side condition: the low bits of an integer are zero; a float handed to a
    binary64 file is finite ("all sample sequences of N*channels finite values of T"; widening a NaN may quieten it —
    `Sf.lossless`, SfProofs/Codec.lean) -/
def cellOk (codec : Nat) (ty : Ty) (lz : Nat) (c : Item) : Bool :=
  match ty with
  | .s16 => c % 2 ^ lz == 0
  | .s32 => c % 2 ^ lz == 0
  | .f32 => codec != 0x07 || c / 2 ^ 23 % 256 != 255
  | .f64 => true

/-- every cell `a[i+k]`, `k < n`, exists and satisfies `p` (structural: `decide` evaluates it) -/
def cellsAll (p : Item → Bool) (a : Array Item) (i : Nat) : Nat → Bool
  | 0 => true
  | n+1 => if h : i < a.size then p a[i] && cellsAll p a (i+1) n else false

/-- THE SIDE CONDITION of C01 on a written stream `w` of caller type `ty` -/
def losslessFor (g : Geom) (ty : Ty) (w : Array Item) : Bool :=
  match losslessLow g.codec ty with
  | none => false
  | some lz => cellsAll (cellOk g.codec ty lz) w 0 w.size

/-! ## what the campaign records -/

/-- one write call: the samples handed over with their caller type, and what the call returned -/
structure Call where
  ty : Ty
  fc : Bool                -- frames variant (sf_writef_T) or items variant (sf_write_T)
  n : Int                  -- count asked
  data : Array Item        -- the supplied region, in cells
  ret : Int := 0           -- what the call returned

/-- frames the call accepted -/
def Call.accepted (ch : Nat) (c : Call) : Nat := if c.fc then c.ret.toNat else c.ret.toNat / ch
/-- the cells of the accepted frames -/
def Call.taken (ch : Nat) (c : Call) : Array Item := c.data.extract 0 (c.accepted ch * ch * cells c.ty)

/-- N: "the number of frames the write calls accepted" -/
def framesAccepted (ch : Nat) : List Call → Nat
  | [] => 0
  | c :: cs => c.accepted ch + framesAccepted ch cs

def writtenFrom (ch : Nat) (acc : Array Item) : List Call → Array Item
  | [] => acc
  | c :: cs => writtenFrom ch (acc ++ c.taken ch) cs

/-- "the concatenated sequence of samples" the calls handed over and the library accepted -/
def written (ch : Nat) (cs : List Call) : Array Item := writtenFrom ch #[] cs

def handedFrom (acc : Array Item) : List Call → Array Item
  | [] => acc
  | c :: cs => handedFrom (acc ++ c.data) cs

/-- the concatenation of the regions the calls supplied, whatever was accepted -/
def handed (cs : List Call) : Array Item := handedFrom #[] cs

/-- a re-open line: SF_INFO of a reader of the bytes -/
structure Info where
  null : Bool := false
  ch : Int := 0
  sr : Int := 0
  fmt : Nat := 0
  frames : Int := 0
deriving Inhabited

/-- a sequential read-back: one read call asking for more than the file may hold, then one further read -/
structure ReadBack where
  ret : Int := 0               -- items the first call delivered
  data : Array Item := #[]     -- its requested region, in cells
  more : Int := 0              -- what the further read returned
deriving Inhabited

/-- one write session -/
structure Run where
  openNull : Bool := false
  calls : List Call := []
  close : Int := 0             -- what sf_close returned
  bytes : Array Item := #[]    -- the bytes of the closed file

/-- one crash point: a copy of the store taken right after a header update -/
structure Snap where
  calls : Nat                  -- write calls of the split run made before the copy
  info : Info := {}
  rb : ReadBack := {}
deriving Inhabited

structure Record where
  g : Geom
  ty : Ty                      -- caller type of the read-backs
  complete : Bool := true      -- every script line has its transcript line and the expected pieces were found
  one : Run := {}
  info : Info := {}
  rb : ReadBack := {}
  split : Option Run := none
  snaps : List Snap := []
  stale : Option (Array Item) := none

/-- a clause that fails: its tag, the run (1 reference, 2 split, 3 stale-frames) and the write call / crash point -/
structure Fail where
  tag : String
  run : Nat := 1
  idx : Nat := 0
deriving Repr, DecidableEq

/-! ## the clauses -/

/-- C04: "N is the number of frames the write calls accepted"; C05: a write call returns "w … equal to requested unless
    the underlying I/O fails" (the campaign's stores never fail) -/
def callOk (c : Call) : Bool := c.ret == c.n

def firstBadCall : Nat → List Call → Option Nat
  | _, [] => none
  | k, c :: cs => if callOk c then firstBadCall (k + 1) cs else some k

/-- C04: "re-opening the produced bytes reports the requested channel count, container, encoding" (the endianness bits
    of the word are masked: a container that records no byte order reports its own; RAW has no header at all) -/
def infoOk (g : Geom) (i : Info) : Bool :=
  i.ch == (g.ch : Int) && (g.major == 0x04 || i.fmt % 0x10000000 == g.word % 0x10000000)

/-- C04: "a frame count F with N <= F < N + B, where N is the number of frames the write calls accepted and B is the
    encoding's block length in frames; B = 1, i.e. F = N, for sample-granular encodings, except for at most one pad frame
    where a container pads odd byte counts" -/
def framesOk (g : Geom) (N : Nat) (F : Int) : Bool := (N : Int) ≤ F && F < ((N + g.block + g.pad : Nat) : Int)

/-- C04: "Reading that file then delivers exactly F frames followed by end of file" -/
def eofOk (g : Geom) (F : Int) (rb : ReadBack) : Bool := rb.ret == F * (g.ch : Int) && rb.more == 0

/-- all calls were made with the caller type of the read-back ("read with the same sample type") -/
def sameType (ty : Ty) (cs : List Call) : Bool := cs.all (fun c => c.ty == ty)

/-- C01: "writing any sequence of N >= 0 frames, closing, and re-opening for read yields a file whose first N frames, read
    with the same sample type, are bit-identical to what was written" — judged when the side condition holds -/
def roundtripOk (g : Geom) (ty : Ty) (cs : List Call) (rb : ReadBack) : Bool :=
  let w := written g.ch cs
  !(sameType ty cs && losslessFor g ty w) ||
    (w.size ≤ rb.ret.toNat * cells ty && sliceEq rb.data 0 w 0 w.size)

/-- C07: "splitting the same samples across write calls in any way, using item or frame call variants, issuing
    SFC_UPDATE_HEADER_NOW in between … yields byte-identical audio data and headers" -/
def partitionOk (one split : Run) : Bool := one.bytes == split.bytes

/-- C04: "the caller's wrong or stale SF_INFO.frames at open time has no influence" -/
def staleOk (one : Run) (stale : Array Item) : Bool := one.bytes == stale

/-- C11: "forall containers with a rewritable header" (RAW has none); "(ALAC in CAF, which is assembled at close, is
    outside this guarantee.)" -/
def snapScope (g : Geom) : Bool := g.major != 0x04 && !ALAC.contains g.codec

/-- C11: "a reader opening a copy of those bytes … obtains the same parameters" -/
def snapInfoOk (g : Geom) (i : Info) : Bool := infoOk g i

/-- C11: "a frame count equal to the frames written so far (rounded down to whole blocks for block encodings)" -/
def snapFramesOk (g : Geom) (Nk : Nat) (F : Int) : Bool :=
  (floorToBlock Nk g.block : Int) ≤ F && F ≤ ((floorToBlock Nk g.block + g.pad : Nat) : Int)

/-- items of a crash-point read-back that are judged: what it delivered, at most the whole blocks written so far -/
def snapItems (g : Geom) (Nk : Nat) (rb : ReadBack) : Nat := min rb.ret.toNat (floorToBlock Nk g.block * g.ch)

/-- C11: "and reads back exactly that prefix of the written data" — against the read-back of the finished reference file
    (what the encoding makes of the written data), and for a lossless pair against the written cells themselves -/
def snapDataOk (g : Geom) (ty : Ty) (Nk : Nat) (w : Array Item) (lossless : Bool) (final : ReadBack) (rb : ReadBack) : Bool :=
  let m := snapItems g Nk rb * cells ty
  sliceEq rb.data 0 final.data 0 m && (!lossless || sliceEq rb.data 0 w 0 m)

/-- … and the whole prefix is delivered -/
def snapShortOk (g : Geom) (Nk : Nat) (rb : ReadBack) : Bool := floorToBlock Nk g.block * g.ch ≤ rb.ret.toNat

/-! ## one record -/

/-- C04 / C01 on the re-opened reference file -/
def judgeReopen (r : Record) : List Fail :=
  let g := r.g
  let N := framesAccepted g.ch r.one.calls
  (if infoOk g r.info then [] else [{ tag := "info" }]) ++
  (if rateOk g.major g.sr r.info.sr then [] else [{ tag := "rate" }]) ++
  (if framesOk g N r.info.frames then [] else [{ tag := "frames" }]) ++
  (if eofOk g r.info.frames r.rb then [] else [{ tag := "eof" }]) ++
  (if roundtripOk g r.ty r.one.calls r.rb then [] else [{ tag := "roundtrip" }])

/-- C11 on one crash point of the split run -/
def judgeSnap (r : Record) (sp : Run) (k : Nat) (s : Snap) : List Fail :=
  let g := r.g
  if s.info.null then [{ tag := "snapshot-open", run := 2, idx := k }]
  else
    let before := sp.calls.take s.calls
    let Nk := framesAccepted g.ch before
    let w := written g.ch before
    let lossless := sameType r.ty before && losslessFor g r.ty w
    (if snapInfoOk g s.info then [] else [{ tag := "snapshot-info", run := 2, idx := k }]) ++
    (if snapFramesOk g Nk s.info.frames then [] else [{ tag := "snapshot-frames", run := 2, idx := k }]) ++
    (if snapDataOk g r.ty Nk w lossless r.rb s.rb then [] else [{ tag := "snapshot-data", run := 2, idx := k }]) ++
    (if snapShortOk g Nk s.rb then [] else [{ tag := "snapshot-short", run := 2, idx := k }])

def judgeSnaps (r : Record) (sp : Run) : Nat → List Snap → List Fail
  | _, [] => []
  | k, s :: ss => judgeSnap r sp k s ++ judgeSnaps r sp (k + 1) ss

/-- C07 / C11 on the split run -/
def judgeSplit (r : Record) (sp : Run) : List Fail :=
  if sp.openNull then [{ tag := "open", run := 2 }]
  -- the record is a comparison of EQUAL concatenations: the two runs were handed the same samples
  else if handed sp.calls != handed r.one.calls then [{ tag := "record", run := 2 }]
  else
    (match firstBadCall 0 sp.calls with | some k => [{ tag := "write", run := 2, idx := k }] | none => []) ++
    (if partitionOk r.one sp then [] else [{ tag := "partition", run := 2 }]) ++
    (if snapScope r.g then judgeSnaps r sp 0 r.snaps else [])

/-- THE PREDICATE: every clause of C01 / C04 / C07 / C11 that fails on one record, in the order of the runs -/
def judge (r : Record) : List Fail :=
  if !r.complete then [{ tag := "record" }]
  else if r.one.openNull then [{ tag := "open" }]
  else
    let head : List Fail :=
      (match firstBadCall 0 r.one.calls with | some k => [{ tag := "write", idx := k }] | none => []) ++
      (if r.one.close == 0 then [] else [{ tag := "close" }])
    head ++
    (if r.info.null then [{ tag := "reopen" }]
     else judgeReopen r ++ (match r.split with | some sp => judgeSplit r sp | none => [])) ++
    (match r.stale with | some b => if staleOk r.one b then [] else [{ tag := "stale", run := 3 }] | none => [])

/-- the record is accepted: no clause fails -/
def accepted (r : Record) : Bool := (judge r).isEmpty

/-- a clause after which the re-open line is not judged (or the rate clause has failed already) -/
def rateSettled (f : Fail) : Bool := f.tag == "record" || f.tag == "open" || f.tag == "reopen" || f.tag == "rate"

/-- THE PREDICATE WITH THE EXACT RATE CLAUSE (what `sfmodel abs-write` evaluates): `judge`, and on a record whose re-open
    line is judged the rate clause on the whole geometry (`rateOkG`: for VOC the block type decides the quantiser) -/
def judgeG (r : Record) : List Fail :=
  let fs := judge r
  if fs.any rateSettled then fs
  else if rateOkG r.g r.info.sr then fs
  else fs ++ [{ tag := "rate" }]

def acceptedG (r : Record) : Bool := (judgeG r).isEmpty

end Sf.AbsWrite
