/-
  SfModel.AbsQuery — the QUERY clause of the abstract handle model (C05 / C06 / C08):
      "interleaved non-audio calls do not move the audio position".

  A query is a call that only ASKS: chunk iteration and sf_get_chunk_size / sf_get_chunk_data, sf_get_string, the SFC_GET_*
  getters, SFC_CALC_SIGNAL_MAX and its variants, SFC_GET_LOG_INFO, sf_current_byterate, sf_error / sf_strerror …  Several of them
  move the DESCRIPTOR (sf_get_chunk_data seeks to the chunk, SFC_CALC_* reads the whole file) and have to put it back.  What the
  three statements say about such a line is: nothing about its answer (C12 / C13 / C18 judge that) and that the abstract state
  — frames, read position, write position, the stream — is the one from before, so that the NEXT read is judged against frames
  rpos, rpos+1, … and the next write lands at wpos.  In `Sf.Abs` that is `Op.other` (`check … .other … = .ok st`); here the
  clause gets its name, the operation of dropping the query lines from a transcript, and a position-level model of the
  save / seek / read / restore sequence of the four `*_get_chunk_data` functions.

  Core Lean only (the driver links SfModel).
-/
import SfModel.Abs
namespace Sf.AbsQ
open Sf Sf.Abs

/-- a script line the three statements are silent about except for "it changes nothing": every line of the harness language
    that is not r / w / seek / rraw / wraw / SFC_FILE_TRUNCATE / info / close / open (`sfmodel abs` parses those to `Op.other`) -/
def isQuery : Op → Bool
  | .other => true
  | _ => false

/-- THE QUERY CLAUSE: whatever the call answered, the abstract state is untouched -/
def queryOk (st : St) (_o : Out) : Res := .ok st

/-- a transcript without its query lines -/
def stripQ (tr : List (Op × Out)) : List (Op × Out) := tr.filter fun l => !isQuery l.1

/-! ## the descriptor under `wav / aiff / caf / rf64 _get_chunk_data`

    pos = psf_ftell (psf) ;  psf_fseek (psf, chunk.offset, SEEK_SET) ;  psf_fread (data, SF_MIN (datalen, chunk.len), 1, psf) ;
    psf_fseek (psf, pos, SEEK_SET) ;                                                                                          -/

/-- the descriptor's offset and the local `pos` of the function -/
structure Fd where
  pos : Nat
  saved : Nat := 0
deriving Repr, DecidableEq

inductive Io
  | tell                 -- pos = psf_ftell (psf)
  | seekSet (p : Nat)    -- psf_fseek (psf, p, SEEK_SET)
  | read (n : Nat)       -- psf_fread of n bytes (n = 0: no transfer)
  | seekSaved            -- psf_fseek (psf, pos, SEEK_SET)
deriving Repr, DecidableEq

def Io.run (fd : Fd) : Io → Fd
  | .tell => { fd with saved := fd.pos }
  | .seekSet p => { fd with pos := p }
  | .read n => { fd with pos := fd.pos + n }
  | .seekSaved => { fd with pos := fd.saved }

def runAll (fd : Fd) (p : List Io) : Fd := p.foldl Io.run fd

/-- the function as written (all four containers) -/
def getChunkData (off len datalen : Nat) : List Io :=
  [.tell, .seekSet off, .read (min datalen len), .seekSaved]

/-- a variant that returns early when there is nothing to copy — AFTER the seek to the chunk (the seeded regression
    C06-caf-chunkdata-zero-noseekback) -/
def getChunkDataEarlyReturn (off len datalen : Nat) : List Io :=
  if min datalen len = 0 then [.tell, .seekSet off] else getChunkData off len datalen

end Sf.AbsQ
