/-
  SfModel.VocOld — the Creative Voice writer and reader as they were BEFORE the repairs of KF-VOC-MONO-G711 /
  KF-VOC-UPDATE (library commit "fix: VOC headers counted the terminator byte as audio data"): voc_close appended the
  terminator and `calc_length` took it for audio (psf->dataend was never set on a written file), the type 1 block
  length was datalength + 1, and the readers of type 1 / type 8 blocks insisted on a terminator.  Kept next to the
  current rule (SfModel/Voc.lean) for the `…_old_rule` theorems of SfProps/C04Voc.lean.
-/
import SfModel.Voc
namespace Sf.Voc.Old
open Sf Sf.Small2 Sf.Voc

/-- voc_write_header -/
def hdr (c : Cfg) (f : Fields) : List Byte :=
  if c.codec = 5 then
    if c.ch = 1 then fileHdr ++ [1] ++ le24 (wrapS 32 (f.datalength + 1)) ++ [rate8 c.sr, 0]
    else fileHdr ++ [8] ++ le24 4 ++ le16 (rate16 c.sr) ++ [0, 1] ++ [1] ++ le24 (wrapS 32 (f.datalength + 1)) ++ [rate8 c.sr, 0]
  else
    fileHdr ++ [9] ++ le24 (wrapS 32 (f.frames * c.ch * bytewidth c.codec + 12)) ++ le32 c.sr ++
      [if c.codec = 2 then 16 else 8, c.ch] ++ le16 (encOf c.codec) ++ le32 0

/-- `calc_length`: every byte after the header is audio (psf->dataend is 0 on a write handle) -/
def fmt (c : Cfg) : Fmt :=
  { hdrLen := c.hdrLen, bw := c.bw, hdr := hdr c,
    recalc := fun n _ => { filelength := n, datalength := (n : Int) - c.hdrLen, frames := ((n : Int) - c.hdrLen) / ((c.bw : Nat) : Int) } }

/-- voc_close: seek to the end, write the terminator byte, then voc_write_header (psf, SF_TRUE) -/
def closeSt (c : Cfg) (s : St) : St := emit (fmt c) { s with data := s.data ++ [0] } true

def closedBytes (c : Cfg) (stale : Nat) (ops : List WOp) : List Byte := (closeSt c (run (fmt c) (openW (fmt c) stale) ops)).bytes
def snapshotBytes (c : Cfg) (stale : Nat) (ops : List WOp) : List Byte := Small2.snapshotBytes (fmt c) stale ops

def readBlock (bs : List Byte) : Blk :=
  let flen : Int := bs.length
  let ty := byteAt bs 26            -- `block_type = 0` stays when the file ends here
  if ty = 5 ∨ ty = 6 then .unmodelled else
  if ty = 1 then
    if bs.length < 32 then .unmodelled else
    let size : Int := leAt bs 27 3
    let sr : Int := unrate8 (byteAt bs 30)
    if 32 + size - 1 > flen then .err                        -- SFE_VOC_BAD_SECTIONS ("truncated")
    else if flen - 32 - size > 4 then .err                   -- "multi-segment (#1)"
    else .ok 1 5 1 sr 32 (flen - 1)
  else if ty = 8 then
    if bs.length < 40 then .unmodelled else
    let stereo : Bool := byteAt bs 33 ≠ 0
    let sr : Int := unrate16 stereo (leAt bs 30 2)
    if byteAt bs 34 ≠ 1 then .err else                       -- SFE_VOC_BAD_FORMAT
    let size : Int := leAt bs 35 3
    if 40 + size - 1 > flen then .err
    else if 40 + size - 1 < flen then .err                   -- "multi-segment (#2)"
    else .ok (if stereo then 2 else 1) 5 1 sr 40 (flen - 1)
  else if ty = 9 then
    if bs.length < 42 then .unmodelled else
    let size0 : Int := leAt bs 27 3
    let sr : Int := sext 32 (leAt bs 30 4)
    let bits := byteAt bs 34
    let ch := byteAt bs 35
    let enc0 : Int := sext 16 (leAt bs 36 2)
    let size : Int := if size0 * 2 = flen - 39 then flen - 31 else size0          -- "SoX bug"
    let enc : Int := if bits = 16 ∧ enc0 = 0 then 4 else enc0
    let dataend : Int := if size + 31 = flen + 1 then 0 else flen - 1              -- "Missing zero byte at end of file"
    if enc = 0 then .ok ch 5 1 sr 42 dataend
    else if enc = 4 then .ok ch 2 2 sr 42 dataend
    else if enc = 6 then .ok ch 0x11 1 sr 42 dataend
    else if enc = 7 then .ok ch 0x10 1 sr 42 dataend
    else .err                                                -- SFE_VOC_BAD_FORMAT
  else .err                                                  -- no sound block: voc_open returns SFE_UNIMPLEMENTED

/-- voc_read_header + voc_open + the codec init + validate_sfinfo -/
def readHeader (bs : List Byte) : ParseRes :=
  if bs.length < 26 then .unmodelled else                    -- `creative`, `version` are unwritten stack variables
  if bs.length ≥ 2 ^ 31 then .unmodelled else
  if bs.take 19 ≠ asc "Creative Voice File" ∨ byteAt bs 19 ≠ 0x1A then .err else   -- SFE_VOC_NO_CREATIVE
  let version := leAt bs 22 2
  if version ≠ 0x010A ∧ version ≠ 0x0114 then .err else      -- SFE_VOC_BAD_VERSION
  match readBlock bs with
  | .unmodelled => .unmodelled
  | .err => .err
  | .ok ch codec bytew sr dataoffset dataend =>
    if ch < 1 ∨ sr < 1 then .err else                        -- pcm_init (channels = 0), validate_sfinfo
    .ok { ch := ch, fmt := 0x080000 + codec, sr := sr.toNat, frames := (framesOf bs.length dataoffset dataend (bytew * ch : Nat)).toNat }

/-- `sf_open_virtual (SFM_READ)` on `bs` -/
def parse (bs : List Byte) : ParseRes :=
  if bs.length < 12 then .err else                    -- guess_file_type: SFE_BAD_FILE_READ
  match guess bs with
  | some (.fmt 0x080000) => readHeader bs
  | _ => .unmodelled

end Sf.Voc.Old
