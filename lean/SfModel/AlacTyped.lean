/-
  SfModel.AlacTyped — the four entry points `alac_write_s / _i / _f / _d` of src/alac.c as ONE function of the caller type.

  In the C code each caller type has its own copy of the staging loop (convert `writecount` items into plac->buffer, count
  the frames, `if (partial_block_frames >= frames_per_block) alac_encode_block`); the copies differ in the conversion only:
  `arith_shift_left (x, 16)`, identity, `psf_f2i_array (…, psf->norm_float)`, `psf_d2i_array (…, psf->norm_float)` (sic: the
  double writer passes norm_float).  The conversion is item by item, so a call of the typed entry point is `Sf.Alac.writeCall`
  on the converted items cut into frames.  `sf_write_T` (items) and `sf_writef_T` (frames) reach the same codec function with
  the same item count, so they are the same call here.
-/
import SfModel.AlacFile
import SfModel.DwvwFile
namespace Sf.AlacTyped
open Sf Sf.Alac

abbrev Frame := List Int

/-- the conversion of `alac_write_T`: the DWVW kernels (`arith_shift_left 16`, identity, psf_f2i_array, psf_d2i_array); the
    double writer is handed `psf->norm_float` -/
def toCodec (cv : Conv) (ty : Ty) (v : Int) : Int := Sf.Dwvw.toCodec { cv with normD := cv.normF } ty v

/-- what `alac_read_T` hands the caller for a decoded cell -/
def toCaller (cv : Conv) (ty : Ty) (v : Int) : Int := Sf.Dwvw.toCaller cv ty v

/-- interleaved items -> frames (whole frames only: sndfile.c refuses other counts) -/
def framesOf (ch : Nat) (xs : List Int) : List Frame := if ch = 0 then [] else groups ch xs

/-- one `sf_write_T` / `sf_writef_T` call with `items` (a whole number of frames) -/
def writeTyped (cv : Conv) (ch : Nat) (cd : Codec σ Frame) (w : W σ Frame) (ty : Ty) (items : List Int) : W σ Frame :=
  writeCall cd w (framesOf ch (items.map (toCodec cv ty)))

/-- a history of typed calls, caller types mixed freely -/
def writeTypedCalls (cv : Conv) (ch : Nat) (cd : Codec σ Frame) (w : W σ Frame) (calls : List (Ty × List Int)) : W σ Frame :=
  calls.foldl (fun w c => writeTyped cv ch cd w c.1 c.2) w

/-- the codec's view of a history: every call converted -/
def codecItems (cv : Conv) (calls : List (Ty × List Int)) : List Int :=
  (calls.map fun c => c.2.map (toCodec cv c.1)).flatten

end Sf.AlacTyped
