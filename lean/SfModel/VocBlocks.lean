/-
  VOC files whose sound block is NOT the first block (round 8, gap worker gape): the `while (1)` loop at the top of voc_read_header
  (src/voc.c) steps over ASCII text blocks (type 5: a 3-byte length, then the text -- copied into `char header [256]` when it is
  shorter than 255 bytes, stepped over with psf_binheader_readf "j" otherwise; `offset` advances by 4 + length either way) and
  REPEAT blocks (type 6: a 3-byte length that is NOT used to advance, and a 2-byte count: 6 bytes), and hands the first block of
  another type to the three sound-block readers, whose fields sit at `offset`-relative places while some of their sanity tests use
  the ABSOLUTE constants of a file that starts with the sound block (type 9: `size * 2 == filelength - 39`, `size + 31 == filelength + 1`).
  SfModel/Voc.lean describes only files whose first block is the sound block (`readBlock` answers `unmodelled` on types 5 / 6);
  this file is the general reader:

    skipLen fuel rest      bytes of text / repeat blocks in front of the first other block, on the bytes from offset 26 on
                           (`none`: the file ends inside one of them, or more blocks than `fuel`)
    readBlockAt bs off     the three sound-block readers for a block that starts at `off` (bug for bug: the absolute constants)
    readHeaderF / parseF   sf_open (SFM_READ) on any such file:  ch, sr, fmt, frames -- and `dataOffsetF`, where the audio starts

  No libsndfile writer produces these files; the tie to the code is vlib/foreignread.py (`sfmodel vocblocks`: one file per line).
-/
import SfModel.Voc
namespace Sf.VocBlocks
open Sf Sf.Small2 Sf.Voc

/-- the text / repeat blocks in front of the first other block: how many bytes the loop steps over -/
def skipLen : Nat → List Byte → Option Nat
  | 0, _ => none
  | fuel + 1, bs =>
    match bs with
    | ty :: a :: b :: c :: rest =>
      if ty = 5 then
        let n := ofLE [a, b, c]
        if rest.length < n then none else (skipLen fuel (rest.drop n)).map (· + (4 + n))
      else if ty = 6 then
        match rest with
        | _ :: _ :: rest' => (skipLen fuel rest').map (· + 6)
        | _ => none
      else some 0
    | ty :: _ => if ty = 5 ∨ ty = 6 then none else some 0
    | [] => some 0

/-- the sound-block readers at offset `off` (= `Sf.Voc.readBlock` when `off = 26`) -/
def readBlockAt (bs : List Byte) (off : Nat) : Blk :=
  let flen : Int := bs.length
  let ty := byteAt bs off
  if ty = 1 then
    if bs.length < off + 6 then .unmodelled else
    let size : Int := leAt bs (off + 1) 3
    let sr : Int := unrate8 (byteAt bs (off + 4))
    let o : Int := off + 6
    if o + size - 2 = flen then .ok 1 5 1 sr (off + 6) 0
    else if o + size - 1 > flen then .err
    else if flen - o - size > 4 then .err
    else .ok 1 5 1 sr (off + 6) (flen - 1)
  else if ty = 8 then
    if bs.length < off + 14 then .unmodelled else
    let stereo : Bool := byteAt bs (off + 7) ≠ 0
    let sr : Int := unrate16 stereo (leAt bs (off + 4) 2)
    if byteAt bs (off + 8) ≠ 1 then .err else
    let size : Int := leAt bs (off + 9) 3
    let o : Int := off + 14
    if o + size - 2 = flen then .ok (if stereo then 2 else 1) 5 1 sr (off + 14) 0
    else if o + size - 1 > flen then .err
    else if o + size - 1 < flen then .err
    else .ok (if stereo then 2 else 1) 5 1 sr (off + 14) (flen - 1)
  else if ty = 9 then
    if bs.length < off + 16 then .unmodelled else
    let size0 : Int := leAt bs (off + 1) 3
    let sr : Int := sext 32 (leAt bs (off + 4) 4)
    let bits := byteAt bs (off + 8)
    let ch := byteAt bs (off + 9)
    let enc0 : Int := sext 16 (leAt bs (off + 10) 2)
    let size : Int := if size0 * 2 = flen - 39 then flen - 31 else size0          -- absolute constants, as in the C code
    let enc : Int := if bits = 16 ∧ enc0 = 0 then 4 else enc0
    let dataend : Int := if size + 31 = flen + 1 then 0 else flen - 1
    if enc = 0 then .ok ch 5 1 sr (off + 16) dataend
    else if enc = 4 then .ok ch 2 2 sr (off + 16) dataend
    else if enc = 6 then .ok ch 0x11 1 sr (off + 16) dataend
    else if enc = 7 then .ok ch 0x10 1 sr (off + 16) dataend
    else .err
  else .err

/-- where the first block that is neither text nor repeat starts (`fuel` = more blocks than the file can hold) -/
def soundAt (bs : List Byte) : Option Nat := (skipLen (bs.length + 1) (bs.drop 26)).map (· + 26)

/-- where the audio starts: the `psf->dataoffset` voc_read_header leaves -/
def dataOffsetF (bs : List Byte) : Option Nat :=
  match soundAt bs with
  | none => none
  | some off => match readBlockAt bs off with
    | .ok _ _ _ _ d _ => some d
    | _ => none

def readHeaderF (bs : List Byte) : ParseRes :=
  if bs.length < 26 then .unmodelled else
  if bs.length ≥ 2 ^ 31 then .unmodelled else
  if bs.take 19 ≠ asc "Creative Voice File" ∨ byteAt bs 19 ≠ 0x1A then .err else
  let version := leAt bs 22 2
  if version ≠ 0x010A ∧ version ≠ 0x0114 then .err else
  match soundAt bs with
  | none => .unmodelled
  | some off =>
    match readBlockAt bs off with
    | .unmodelled => .unmodelled
    | .err => .err
    | .ok ch codec bytew sr dataoffset dataend =>
      if ch < 1 ∨ sr < 1 then .err else
      .ok { ch := ch, fmt := 0x080000 + codec, sr := sr.toNat, frames := (framesOf bs.length dataoffset dataend (bytew * ch : Nat)).toNat }

/-- `sf_open_virtual (SFM_READ)` on any VOC file -/
def parseF (bs : List Byte) : ParseRes :=
  if bs.length < 12 then .err else
  match guess bs with
  | some (.fmt 0x080000) => readHeaderF bs
  | _ => .unmodelled

/-- a text block as a file carries it -/
def textBlock (txt : List Byte) : List Byte := 5 :: leBytes 3 txt.length ++ txt
/-- a repeat block (`count` passes) -/
def repeatBlock (count : Nat) : List Byte := 6 :: leBytes 3 2 ++ leBytes 2 count

end Sf.VocBlocks
