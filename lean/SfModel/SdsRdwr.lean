/-
  An SDS file opened SFM_RDWR (src/sds.c: sds_open, sds_read_header, sds_write_header, sds_close).

  sds_open reads the header of the existing file and then calls sds_write_header (psf, SF_FALSE) at once; sds_close calls
  sds_write_header (psf, SF_TRUE).  What the header's data-length field receives is the `Rule`:
    * `current` (round-9 repair): psf->sf.frames — read from the header, kept at the end of the audio by the sf_write_*
      wrappers;
    * `old`: psds->total_written, the number of samples written through THIS handle (0 at open): an existing file lost
      its sample count the moment it was opened read/write.
  The handle keeps the bit width as 8 × the bytes of the subtype sds_read_header chose, and the rate 10^9 / period.
  (Writes that start inside a packet are a defect of their own, KF-SDS-RDWR-PARTIAL-PACKET; `append` takes the packets
  behind the header as they come out.)
-/
import SfModel.SdsFile
namespace Sf.SdsRdwr
open Sf Sf.Sds Sf.SdsFile

inductive Rule | current | old
deriving Repr, DecidableEq

structure RW where
  bitwidth : Nat         -- psds->bitwidth as sds_write_header sets it from the subtype
  rate : Nat             -- psf->sf.samplerate
  frames : Nat           -- psf->sf.frames
  written : Nat := 0     -- psds->total_written
  body : List Byte       -- the store behind the 21 header bytes
deriving Repr, DecidableEq

def count : Rule → RW → Nat
  | .current, h => h.frames
  | .old, h => h.written

/-- the store after sds_write_header -/
def bytes (r : Rule) (h : RW) : List Byte := header h.bitwidth h.rate (count r h) ++ h.body

/-- sds_read_header, as far as the header rewrite depends on it -/
def openRw (file : List Byte) : RW :=
  { bitwidth := 8 * ((file.getD 6 0 + 7) / 8), rate := rateOf (dec3 ((file.drop 7).take 3)),
    frames := dec3 ((file.drop 10).take 3), written := 0, body := file.drop 21 }

/-- a write call of `k` samples at the end of the audio after which the packets behind the header are `body'` -/
def append (h : RW) (k : Nat) (body' : List Byte) : RW :=
  { h with frames := h.frames + k, written := h.written + k, body := body' }

/-- open, close, nothing written -/
def idle (r : Rule) (file : List Byte) : List Byte := bytes r (openRw file)

/-- the data-length field of a file -/
def lengthField (file : List Byte) : Nat := dec3 ((file.drop 10).take 3)

end Sf.SdsRdwr
