/-
  SfModel.AlacDp — the predictor of src/ALAC/dp_dec.c (`unpc_block`, `sign_of_int`), namespace Sf.AlacCore.

  `out [j]` is rebuilt from the residual `pc1 [j]`, the `numactive` samples before it and `top = out [j - numactive - 1]`;
  after every sample the coefficients move one step towards the sign of the residual (`adapt`). The C code has three
  copies of the main loop (numactive 4, 8, any): the unrolled ones compute `top - out [..]` and subtract, the generic
  one computes `out [..] - top` and adds — the same int32 value — and all three update the int16 coefficients the same
  way, from the last one down, until the running `del0` changes sign; the model has ONE loop (`unpcStep`) and the
  correspondence check exercises all three copies (the library's encoder writes 4 or 8 coefficients, hostile packets
  any number).

  The history is kept most recent first (`hist.getD k 0 = out [j - 1 - k]`). int32 / int16 arithmetic wraps.
-/
import SfModel.AlacBits
namespace Sf.AlacCore

def w16 (x : Int) : Int := wrapS 16 x

/-- `sign_of_int` -/
def signOf (i : Int) : Int := if i > 0 then 1 else if i < 0 then -1 else 0

/-- `(x << chanshift) >> chanshift` with chanshift = 32 - chanbits: the low `chanbits` bits, sign extended (1 ≤ chanbits ≤ 32) -/
def sx (chanbits : Nat) (x : Int) : Int := wrapS chanbits x

/-- the coefficient update after one sample: from coefficient `numactive - 1` down to 0, `dds` = `top - out [j - 1 - k]`
    in the same order; `flip` = the residual was negative. Returns the coefficients in the order visited. -/
def adapt (denshift : Nat) (flip : Bool) : List (Int × Int) → Nat → Int → List Int
  | [], _, _ => []
  | (c, dd) :: rest, mult, del0 =>
    let sgn := signOf dd
    let c1 := if flip then w16 (c + sgn) else w16 (c - sgn)
    let del0 := w32 (del0 - w32 (mult * asr (w32 ((if flip then -sgn else sgn) * dd)) denshift))
    if (if flip then del0 ≥ 0 else del0 ≤ 0) then c1 :: rest.map (·.1)
    else c1 :: adapt denshift flip rest (mult + 1) del0

/-- `1 << (denshift - 1)`; for denshift = 0 the shift count is -1: the x86 `shl` takes it modulo 32 -/
def denHalf (denshift : Nat) : Int := if denshift = 0 then -2147483648 else 2 ^ (denshift - 1)

/-- one round of the main loop: `hist` = out [j-1], out [j-2], … ; -> (out [j], new coefficients) -/
def unpcStep (numactive chanbits denshift : Nat) (coefs : List Int) (hist : List Int) (pc : Int) : Int × List Int :=
  let top := hist.getD numactive 0
  let prev := hist.take numactive
  let sum1 := (List.zip coefs prev).foldl (fun s (c, o) => w32 (s + w32 (c * w32 (o - top)))) 0
  let sg := signOf pc
  let del := w32 (pc + w32 (top + asr (w32 (sum1 + denHalf denshift)) denshift))
  let o := sx chanbits del
  if sg = 0 then (o, coefs)
  else
    -- visited from coefficient numactive - 1 down to 0
    let pairs := (List.zip coefs (prev.map fun x => w32 (top - x))).reverse
    (o, (adapt denshift (sg < 0) pairs 1 pc).reverse)

/-- the loops of `unpc_block` over the residuals `pcs` (= pc1 [1 ..]); `j` = index of the next sample -/
def unpcLoop (numactive chanbits denshift : Nat) : List Int → Nat → List Int → List Int → List Int
  | [], _, _, hist => hist
  | pc :: pcs, j, coefs, hist =>
    if j ≤ numactive then
      -- warm-up: `out [j] = (pc1 [j] + out [j - 1])` sign extended
      unpcLoop numactive chanbits denshift pcs (j + 1) coefs (sx chanbits (w32 (pc + hist.headD 0)) :: hist)
    else
      let (o, coefs) := unpcStep numactive chanbits denshift coefs hist pc
      unpcLoop numactive chanbits denshift pcs (j + 1) coefs (o :: hist)

/-- `unpc_block (pc1, out, num, coefs, numactive, chanbits, denshift)` on the first `num` residuals: the `num` samples
    (for num = 0 the C code still copies pc1 [0]; nothing of it is delivered) -/
def unpcBlock (pc1 : List Int) (coefs : List Int) (numactive chanbits denshift : Nat) : List Int :=
  match pc1 with
  | [] => []
  | p0 :: pcs =>
    if numactive = 0 then p0 :: pcs
    else if numactive = 31 then
      -- first order: `prev = (pc1 [j] + prev)` sign extended
      (pcs.foldl (fun (acc : List Int) pc => sx chanbits (w32 (pc + acc.headD 0)) :: acc) [p0]).reverse
    else (unpcLoop numactive chanbits denshift pcs 1 (coefs.take numactive) [p0]).reverse

end Sf.AlacCore
