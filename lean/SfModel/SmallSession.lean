/-
  SfModel.SmallSession — the part of a write session that the small containers (SVX, VOC, NIST, IRCAM, PAF, AVR)
  have in common: `<x>_open` in SFM_WRITE writes a first header, `sf_write_*` re-emits it before the first audio
  byte (the `have_written` latch) and keeps `sf.frames`, SFC_UPDATE_HEADER_NOW / SFC_SET_UPDATE_HEADER_AUTO call
  `write_header (psf, SF_TRUE)`, `<x>_close` appends what the container appends (VOC: the terminator byte) and calls
  `write_header (psf, SF_TRUE)` once more (IRCAM and PAF: nothing).

  `write_header (psf, calc_length)` of all six has the same shape:

      if (calc_length) { filelength = psf_get_filelen ; datalength = filelength - dataoffset ;
                         if (dataend) … ; sf.frames = datalength / (bytewidth * channels) ; }
      <put the header together from sf.frames, filelength, datalength> ; dataoffset = header.indx

  (`dataend` is 0 on every write path of these containers; IRCAM and PAF ignore `calc_length`.)  A container is
  described by a `Spec`; its model file supplies the `hdr` function.  Sequential writing only (no seeks).

  Core Lean only; names live in `Sf.Small`.
-/
import SfModel.Basic
namespace Sf.Small
open Sf

def mk4 (s : String) : List Byte := s.toList.map Char.toNat
def ascii (s : String) : List Byte := s.toList.map Char.toNat
/-- header_put_be_int / _le_int / _be_short / _le_short / _le_3byte of the low bits of a C integer -/
def be32 (v : Int) : List Byte := beBytes 4 (wrapU 32 v)
def le32 (v : Int) : List Byte := leBytes 4 (wrapU 32 v)
def be16 (v : Int) : List Byte := beBytes 2 (wrapU 16 v)
def le16 (v : Int) : List Byte := leBytes 2 (wrapU 16 v)
def le24 (v : Int) : List Byte := leBytes 3 (wrapU 24 v)

/-- a field of `n` bytes at offset `off` as the header cache delivers it when the fields before it were read in
    order: the bytes when the file has them, zeros (the cleared destination) on a short read -/
def slice (bs : List Byte) (off n : Nat) : List Byte :=
  if off + n ≤ bs.length then (bs.drop off).take n else List.replicate n 0

structure Spec where
  hdr : Nat → Int → Int → List Byte      -- sf.frames, filelength, datalength ↦ the header bytes
  hdrLen : Nat                            -- their number (constant over a session)
  bw : Nat                                -- bytewidth * channels
  useCalc : Bool := true                  -- write_header honours calc_length
  closeHdr : Bool := true                 -- <x>_close rewrites the header
  term : List Byte := []                  -- what <x>_close appends first
  zeroFrames : Bool := false              -- <x>_open stores 0 in sf.frames before the first header

structure St where
  hdr : List Byte := []
  data : List Byte := []
  tail : List Byte := []
  frames : Nat := 0                       -- psf->sf.frames
  filelength : Int := 0
  datalength : Int := -1
deriving Repr, DecidableEq, Inhabited

def St.bytes (s : St) : List Byte := s.hdr ++ s.data ++ s.tail

/-- `write_header (psf, calc_length)` -/
def writeHeader (sp : Spec) (s : St) (cl : Bool) : St :=
  let s := if cl ∧ sp.useCalc then
      let fl : Int := s.bytes.length
      let dl : Int := fl - sp.hdrLen
      { s with filelength := fl, datalength := dl, frames := (dl.tdiv (sp.bw : Int)).toNat }
    else s
  { s with hdr := sp.hdr s.frames s.filelength s.datalength }

/-- `<x>_open` (SFM_WRITE); `stale` = the frames value the caller left in SF_INFO.  It reaches the first header; the
    codec init that follows (pcm_init, ulaw_init, alaw_init, float32_init, paf24_init) then recomputes
    `datalength = 0` and `sf.frames = 0` from the still empty file, so the header re-emitted before the first audio
    byte no longer holds it. -/
def openW (sp : Spec) (stale : Nat) : St :=
  let s := writeHeader sp { frames := if sp.zeroFrames then 0 else stale } false
  { s with frames := 0, datalength := 0 }

/-- one `sf_write_*` call storing `enc` (whole frames of encoded audio); `auto` = SFC_SET_UPDATE_HEADER_AUTO is on -/
def write (sp : Spec) (s : St) (enc : List Byte) (auto : Bool) : St :=
  let s := if s.data.isEmpty then writeHeader sp s false else s
  let s := { s with data := s.data ++ enc }
  let s := { s with frames := max s.frames (s.data.length / sp.bw) }
  if auto then writeHeader sp s true else s

/-- SFC_UPDATE_HEADER_NOW -/
def update (sp : Spec) (s : St) : St := writeHeader sp s true

/-- `<x>_close` -/
def close (sp : Spec) (s : St) : St :=
  if sp.closeHdr then writeHeader sp { s with tail := sp.term } true else s

inductive WOp
  | write (enc : List Byte) (auto : Bool)
  | update
deriving Repr, DecidableEq

def applyOp (sp : Spec) (s : St) : WOp → St
  | .write enc auto => write sp s enc auto
  | .update => update sp s

def run (sp : Spec) (s : St) (ops : List WOp) : St := ops.foldl (applyOp sp) s

/-- the audio bytes of a session -/
def opsData : List WOp → List Byte
  | [] => []
  | .write enc _ :: r => enc ++ opsData r
  | .update :: r => opsData r

/-- the store after `sf_close` -/
def closedBytes (sp : Spec) (stale : Nat) (ops : List WOp) : List Byte := (close sp (run sp (openW sp stale) ops)).bytes
/-- the store right after SFC_UPDATE_HEADER_NOW at the end of `ops` -/
def snapshotBytes (sp : Spec) (stale : Nat) (ops : List WOp) : List Byte := (update sp (run sp (openW sp stale) ops)).bytes

/-! ## reader side: what every container's `parse` returns -/

structure Info where
  ch : Nat
  fmt : Nat
  sr : Nat
  frames : Nat
deriving Repr, DecidableEq, Inhabited

inductive ParseRes
  | ok (i : Info)
  | err                      -- sf_open returns NULL
  | unmodelled               -- outside what the model describes
deriving Repr, DecidableEq, Inhabited

/-- the data length and frame count the codec init (pcm_init / ulaw_init / alaw_init / float32_init) derives -/
def codecFrames (flen : Nat) (dataoffset dataend : Int) (bw : Int) : Int × Int :=
  let dl : Int := if (flen : Int) > dataoffset then (if dataend > 0 then dataend - dataoffset else flen - dataoffset) else 0
  (dl, if bw > 0 then dl.tdiv bw else 0)

/-- the signatures `guess_file_type` tests before it reaches a marker that sits late in its list (AVR's "2BIT"):
    none of them can match a file that starts with four given bytes unless this returns true.  Only the HTK test
    looks beyond the first word. -/
def htkCoincidence (bs : List Byte) : Bool :=
  (bs.drop 8).take 4 = [0, 2, 0, 0] ∧ 2 * ofBE (bs.take 4) + 12 = bs.length

end Sf.Small
