/-
  SfModel.Label — the CODEC LABELS of the container formats, written from the format specifications (not measured), and the
  width rule of the integer codecs.

  A container names the codec of its audio by a number, a four-character code or a word.  A writer and a reader that get a
  label wrong THE SAME WAY still round-trip each other's files — only a file that crosses the library boundary shows it.  So the
  label is part of what C02 says ("… in every container"): a stored sample is the value the FORMAT's decoder gives it.

    `spec major codec le`   the label the specification of container `major` gives codec `codec` (`le`: SF_ENDIAN_LITTLE asked)
                            — `num` (in the container's byte order), `tag` (four characters) or `text` (a word of a text header);
                            `none` = the container has no label field for it (plain AIFF PCM, RAW, …) or is not tabulated;
    `bits major codec`      the sample-width field next to it where the specification has one (AIFF sampleSize, CAF mBitsPerChannel,
                            WAVE wBitsPerSample for PCM / float): DWVW_12 in AIFF-C says 12.
    `keepTop w x`           "integer-to-integer moves keep the most significant bits (… narrowing truncates …)": what an int `x`
                            written to an exact w-bit integer codec reads back as; `keepOk` the clause over a whole vector.

  Sources: Microsoft mmreg.h (WAVE format tags; WAVE_FORMAT_EXTENSIBLE carries the same tag in the first GUID field), Sun audio(4)
  AUDIO_FILE_ENCODING_*, Apple AIFF-C compression types + the 'sowt' / 'raw ' / 'DWVW' / 'GSM ' / 'ima4' QuickTime registrations,
  Apple CAF mFormatID, Creative VOC block type 9 (0 = 8-bit unsigned, 4 = 16-bit signed, 6 = A-law, 7 = u-law), NIST SPHERE
  sample_coding, the IRCAM / BICSF sf_packmode constants (SF_SHORT 2, SF_FLOAT 4, SF_ALAW 0x10001, SF_ULAW 0x20001, SF_LONG 0x40004),
  Ensoniq PARIS (0 = 16, 1 = 24, 2 = 8 bit), IFF 8SVX / 16SV.
  Core Lean only (the driver `sfmodel label` prints the table).
-/
import SfModel.Basic
namespace Sf.Label

inductive Label
  | num (v : Nat)
  | tag (s : String)
  | text (s : String)
deriving Repr, DecidableEq, Inhabited

/-- SF_FORMAT_* sub-type numbers -/
def isPcm (codec : Nat) : Bool := codec == 0x01 || codec == 0x02 || codec == 0x03 || codec == 0x04 || codec == 0x05
def isFloat (codec : Nat) : Bool := codec == 0x06 || codec == 0x07
def pcmBits : Nat → Option Nat
  | 0x01 => some 8 | 0x05 => some 8 | 0x02 => some 16 | 0x03 => some 24 | 0x04 => some 32 | 0x06 => some 32 | 0x07 => some 64 | _ => none

/-- WAVE format tags -/
def waveTag (codec : Nat) : Option Nat :=
  if isPcm codec then some 0x0001
  else if isFloat codec then some 0x0003
  else match codec with
    | 0x11 => some 0x0006      -- WAVE_FORMAT_ALAW
    | 0x10 => some 0x0007      -- WAVE_FORMAT_MULAW
    | 0x13 => some 0x0002      -- WAVE_FORMAT_ADPCM (Microsoft)
    | 0x12 => some 0x0011      -- WAVE_FORMAT_DVI_ADPCM (IMA)
    | 0x20 => some 0x0031      -- WAVE_FORMAT_GSM610
    | 0x30 => some 0x0040      -- WAVE_FORMAT_G721_ADPCM
    | 0x22 | 0x23 | 0x24 => some 0x0038      -- WAVE_FORMAT_NMS_VBXADPCM
    | _ => none

/-- Sun / NeXT AUDIO_FILE_ENCODING_* -/
def auEnc : Nat → Option Nat
  | 0x10 => some 1 | 0x01 => some 2 | 0x02 => some 3 | 0x03 => some 4 | 0x04 => some 5 | 0x06 => some 6 | 0x07 => some 7
  | 0x30 => some 23 | 0x31 => some 25 | 0x32 => some 26 | 0x11 => some 27 | _ => none

/-- AIFF-C compression type; plain big-endian PCM has none ('NONE' when the file is AIFF-C) -/
def aiffComp (codec : Nat) (le : Bool) : Option String :=
  if codec == 0x05 then some "raw "
  else if codec == 0x01 || codec == 0x02 then (if le then some "sowt" else none)      -- ('sowt' is the 8 / 16-bit registration; 24 / 32-bit little-endian has none)
  else if isPcm codec then none
  else match codec with
    | 0x06 => some "FL32" | 0x07 => some "FL64" | 0x10 => some "ulaw" | 0x11 => some "alaw"
    | 0x12 => some "ima4" | 0x20 => some "GSM " | 0x40 | 0x41 | 0x42 => some "DWVW" | _ => none

def cafId (codec : Nat) : Option String :=
  if isPcm codec || isFloat codec then some "lpcm"
  else match codec with
    | 0x10 => some "ulaw" | 0x11 => some "alaw" | 0x70 | 0x71 | 0x72 | 0x73 => some "alac" | _ => none

def vocEnc : Nat → Option Nat
  | 0x05 => some 0 | 0x02 => some 4 | 0x11 => some 6 | 0x10 => some 7 | _ => none

def nistCoding (codec : Nat) : Option String :=
  if isPcm codec then some "pcm" else match codec with | 0x10 => some "ulaw" | 0x11 => some "alaw" | _ => none

def ircamEnc : Nat → Option Nat
  | 0x02 => some 0x00002 | 0x06 => some 0x00004 | 0x11 => some 0x10001 | 0x10 => some 0x20001 | 0x04 => some 0x40004 | _ => none

def pafFmt : Nat → Option Nat
  | 0x02 => some 0 | 0x03 => some 1 | 0x01 => some 2 | _ => none

def svxForm : Nat → Option String
  | 0x01 => some "8SVX" | 0x02 => some "16SV" | _ => none

/-- the label the specification of container `major` (SF_FORMAT_* >> 16) gives `codec` -/
def spec (major codec : Nat) (le : Bool) : Option Label :=
  match major with
  | 0x01 | 0x0B | 0x13 | 0x22 => (waveTag codec).map .num      -- WAV / RIFX, W64, WAVEX, RF64 (the extensible forms: first GUID field)
  | 0x03 => (auEnc codec).map .num
  | 0x02 => (aiffComp codec le).map .tag
  | 0x18 => (cafId codec).map .tag
  | 0x08 => (vocEnc codec).map .num
  | 0x07 => (nistCoding codec).map .text
  | 0x0A => (ircamEnc codec).map .num
  | 0x05 => (pafFmt codec).map .num
  | 0x06 => (svxForm codec).map .tag
  | _ => none

/-- the sample-width field that goes with the label -/
def bits (major codec : Nat) : Option Nat :=
  match major with
  | 0x01 | 0x0B | 0x13 | 0x22 | 0x18 => pcmBits codec
  | 0x02 => match codec with
            | 0x40 => some 12 | 0x41 => some 16 | 0x42 => some 24
            | _ => pcmBits codec
  | _ => none

/-! ## the width rule -/

/-- the top `w` bits of a 32-bit int, zeros below -/
def keepTop (w : Nat) (x : Int) : Int := asr x (32 - w) * 2 ^ (32 - w)

def keepAll (w : Nat) : List Int → List Int → Bool
  | [], [] => true
  | x :: xs, r :: rs => r == keepTop w x && keepAll w xs rs
  | _, _ => false

/-- clause `keep`: the ints `rs` read back from an exact `w`-bit integer codec are the ints `xs` written, cut to their top `w` bits -/
def keepOk (w : Nat) (xs rs : List Int) : Bool := decide (1 ≤ w) && decide (w ≤ 32) && keepAll w xs rs

/-- index of the first item that breaks the rule -/
def firstBad (w : Nat) : Nat → List Int → List Int → Option Nat
  | i, x :: xs, r :: rs => if r == keepTop w x then firstBad w (i + 1) xs rs else some i
  | _, [], [] => none
  | i, _, _ => some i

end Sf.Label
