/-
  SfModel.ChunkQuery — the read that sf_get_chunk_data issues (wav.c:1649, aiff.c:1848, caf.c:1030,
  rf64.c:890):   psf_fread (chunk_info->data, SF_MIN (chunk_info->datalen, rchunks.chunks [indx].len), 1, psf)
  and psf_fread's two paths (file_io.c:344).  `none` = the C divides by zero (SIGFPE).
-/
namespace Sf.ChunkQuery

/-- bytes the backing store hands over for a request of `req` (callback contract) -/
def got (ans : Nat) (req : Int) : Int := if req ≤ 0 then 0 else if (ans : Int) ≤ req then ans else req

/-- psf_fread (ptr, bytes, 1, psf).
    `if (bytes == 0 || items == 0) return 0 ;`                                   (since /repo c8a9c60; before
                                                                                  that the virtual path divided by 0)
    virtual I/O:  `return psf->vio.read (ptr, bytes*items, user) / bytes ;`
    descriptor:   `items *= bytes ; if (items <= 0) return 0 ; … return total / bytes ;` -/
def psfFread1 (virtualIO : Bool) (bytes : Int) (ans : Nat) : Option Int :=
  if bytes = 0 then some 0
  else if virtualIO then
    if bytes = 0 then none else some (Int.tdiv (got ans bytes) bytes)
  else
    if bytes ≤ 0 then some 0 else some (Int.tdiv (got ans bytes) bytes)

/-- the size of the transfer into the caller's buffer -/
def request (datalen len : Nat) : Nat := if datalen < len then datalen else len

/-- X_get_chunk_data, given the caller's `datalen` and the stored chunk length -/
def getChunkData (virtualIO : Bool) (datalen len : Nat) (ans : Nat) : Option Int :=
  psfFread1 virtualIO (request datalen len) ans

end Sf.ChunkQuery

/-
  nist_read_header (src/nist.c:158), as it is since /repo 6408f3b:
      char str [64] ;                                   — not initialised at its declaration
      if ((cptr = strstr (psf_header, "sample_coding -s")))
      {   str [0] = 0 ;                                                  — the repair (`Rule.current`)
          sscanf (cptr, "sample_coding -s%d %63s", &count, str) ;       — result not checked
          if (strcmp (str, "pcm") == 0) … else psf_log_printf (psf, "*** Unknown encoding : %s\n", str) ;
  `matched` = what sscanf returned (0, 1 or 2; it is 2 exactly when a number AND a word follow).
-/
namespace Sf.NistCoding

inductive Rule where
  | old        -- before 6408f3b: no `str [0] = 0`
  | current
deriving Repr, DecidableEq, Inhabited

/-- is `str` a C string written by this call when strcmp / %s read it?
    old: only when the second conversion stored a word; current: always ("" or the word) -/
def strDefined (r : Rule) (matched : Nat) : Bool :=
  match r with
  | .old => decide (2 ≤ matched)
  | .current => true

end Sf.NistCoding
