/-
  SfModel.Wve — stand-alone byte-exact (L1) model of the Psion WVE container of src/wve.c (32-byte big-endian
  header: "ALawSoundFile**\0", version 3856, data length, five zero shorts; A-law, mono, always 8000 Hz).

  * `hdr`, `fmt`   wve_write_header; the write session is `Sf.Small2.run fmt`
  * `parse`        sf_open (SFM_READ): guess_file_type, wve_read_header, alaw_init, validate_sfinfo
-/
import SfModel.Small2
namespace Sf.Wve
open Sf Sf.Small2

/-- "ALaw" "Soun" "dFil" "e**\0" -/
def magic : List Byte := [0x41, 0x4C, 0x61, 0x77, 0x53, 0x6F, 0x75, 0x6E, 0x64, 0x46, 0x69, 0x6C, 0x65, 0x2A, 0x2A, 0]

/-- wve_write_header: the four markers, "E2422222" version, `(unsigned) psf->datalength`, five zero shorts -/
def hdr (f : Fields) : List Byte :=
  magic ++ be16 3856 ++ be32 f.datalength ++ [0, 0, 0, 0, 0, 0, 0, 0, 0, 0]

/-- `calc_length`: filelength, datalength = filelength - dataoffset (no tailer: dataend = 0), frames = datalength / 1 -/
def fmt : Fmt :=
  { hdrLen := 32, bw := 1, hdr := hdr,
    recalc := fun n _ => { filelength := n, datalength := (n : Int) - 32, frames := ((n : Int) - 32) / 1 } }

/-- configurations sf_open (SFM_WRITE) accepts: A-law, one channel, endian FILE or LITTLE; the rate is not stored -/
def wf (ch sr : Nat) : Prop := ch = 1 ∧ 1 ≤ sr ∧ sr ≤ 0x7FFFFFFF
instance (ch sr : Nat) : Decidable (wf ch sr) := by unfold wf; infer_instance

/-- the rate every reader reports -/
def quant (_sr : Nat) : Nat := 8000

/-- `sf_open_virtual (SFM_READ)` on `bs`.  After the four markers wve_read_header only logs what it reads (a short
    read leaves zeros), `psf->datalength` ends as file length − 32 whatever the field says, and alaw_init derives
    the frame count from the file length. -/
def parse (bs : List Byte) : ParseRes :=
  if bs.length < 12 then .err else                    -- guess_file_type: SFE_BAD_FILE_READ
  match guess bs with
  | some (.fmt 0x190000) =>
    if (bs.drop 12).take 4 ≠ [0x65, 0x2A, 0x2A, 0] then .err else          -- SFE_WVE_NOT_WVE
    .ok { ch := 1, fmt := 0x190011, sr := 8000, frames := (framesOf bs.length 32 0 1).toNat }
  | _ => .unmodelled

end Sf.Wve
