/-
  Sf.Ledger — the resource ledger of one SNDFILE handle (property C16).

  What the C does with memory, descriptors and temporary files, written exactly where the C allocates and
  frees (src/sndfile.c psf_close / psf_open_file / sf_command, common.c psf_allocate, chunk.c, strings.c,
  broadcast.c, cart.c, dither.c, the *_open / *_init functions and their codec_close / container_close hooks).

  * A `Cell` is one owner variable: the 17 pointers `psf_close` frees, the SF_PRIVATE block itself, the
    blocks that hang off container_data / codec_data and are released by a close hook, the two descriptors
    and ALAC's temporary file (FILE*, its descriptor, its name on disk).
  * A cell is `null`, `live` (points to something the library owns) or `dangling` (freed, value kept).
    `alloc` over a live cell loses the old block for good (a leak by overwrite), `free` of a dangling cell is a
    double free, `clear` (p = NULL) of a live cell loses the block: the three ways a C program gets this wrong are
    all expressible, so the theorems of SfProps/C16 are not true by construction.
  * `payloads` counts the per-chunk copies made by psf_save_write_chunk (wchunks.chunks [k].data).
  * Header parsers are relational: an `open` carries the list of allocation-relevant events the parser met
    (`Ev`), any list is allowed; each event uses the discipline of its C site (free-then-alloc, reuse, ...).
    A failing open carries the number of allocation steps that ran before the `return error`.

  Core Lean only (the driver links this file).
-/
namespace Sf.Ledger

inductive Ptr | null | live | dangling
  deriving DecidableEq, Repr, Inhabited

/-- the 17 owner pointers freed by psf_close, in the order of the harness bit mask (`ledger peek`) -/
inductive Slot
  | header | containerData | codecData | interleave | dither | peakInfo | broadcast | cart | loopInfo
  | instrument | cues | channelMap | formatDesc | strings | rchunks | wchunks | iterator
  deriving DecidableEq, Repr

def Slot.all : List Slot :=
  [.header, .containerData, .codecData, .interleave, .dither, .peakInfo, .broadcast, .cart, .loopInfo,
   .instrument, .cues, .channelMap, .formatDesc, .strings, .rchunks, .wchunks, .iterator]

/-- the order in which psf_close frees them (src/sndfile.c:2995-3015): these, then the payload loop, then `closeLast` -/
def Slot.closeFirst : List Slot :=
  [.header, .containerData, .codecData, .interleave, .dither, .peakInfo, .broadcast, .loopInfo, .instrument,
   .cues, .channelMap, .formatDesc, .strings]
def Slot.closeLast : List Slot := [.rchunks, .wchunks, .iterator, .cart]

/-- blocks reachable only through container_data / codec_data: a close hook must release them -/
inductive Nested
  | aiffMarkstr   -- AIFF_PRIVATE.markstr          (aiff.c:800, freed by aiff_close)
  | gsmState      -- GSM610_PRIVATE.gsm_data       (gsm610.c:105, gsm610_close)
  | g72xState     -- G72x_PRIVATE.private          (g72x.c:124/149, g72x_close)
  | alacPakt      -- ALAC_PRIVATE.pakt_info        (alac.c:778, alac_close)
  | alacTmp       -- ALAC_PRIVATE.enctmp (FILE*)   (alac.c:358, alac_close: fclose)
  deriving DecidableEq, Repr

def Nested.all : List Nested := [.aiffMarkstr, .gsmState, .g72xState, .alacPakt, .alacTmp]

inductive Cell
  | psf                      -- the SF_PRIVATE block (common.c:46)
  | owner (s : Slot)
  | nested (n : Nested)
  | fileFd | rsrcFd | tmpFd  -- psf->file.filedes (when the library must close it), psf->rsrc.filedes, fileno (enctmp)
  | tmpDisk                  -- the file named enctmpname in TMPDIR
  deriving DecidableEq, Repr

inductive Kind | heap | fd | disk
  deriving DecidableEq, Repr

def Cell.kind : Cell → Kind
  | .psf | .owner _ | .nested _ => .heap
  | .fileFd | .rsrcFd | .tmpFd => .fd
  | .tmpDisk => .disk

def Cell.all : List Cell :=
  [.psf] ++ Slot.all.map .owner ++ Nested.all.map .nested ++ [.fileFd, .rsrcFd, .tmpFd, .tmpDisk]

/-- what has been lost for good, and what was released twice -/
structure Acct where
  leakedHeap : Nat := 0
  leakedFd : Nat := 0
  leakedDisk : Nat := 0
  dfree : Nat := 0
  deriving DecidableEq, Repr

def Acct.leak (a : Acct) : Kind → Acct
  | .heap => { a with leakedHeap := a.leakedHeap + 1 }
  | .fd => { a with leakedFd := a.leakedFd + 1 }
  | .disk => { a with leakedDisk := a.leakedDisk + 1 }

def Acct.leakN (a : Acct) (n : Nat) : Acct := { a with leakedHeap := a.leakedHeap + n }

inductive Mode | r | w | rw
  deriving DecidableEq, Repr

/-- containers, as far as allocation behaviour distinguishes them -/
inductive Cont
  | wav | wavex | aiff | caf | rf64 | w64   -- allocate container_data; wav/wavex/aiff/caf/rf64 carry strings, chunks, a command hook
  | other                                   -- au avr htk ircam mat4 mat5 mpc2k nist paf pvf raw sd2 sds svx voc wve xi ...: no container_data
  deriving DecidableEq, Repr

/-- codecs, as far as allocation behaviour distinguishes them -/
inductive Codec
  | plain        -- pcm, float, double, ulaw, alaw (and VOC when writing): nothing allocated
  | dataOnly     -- a private block in codec_data, no close hook: paf24, sds, xi dpcm, voc (read)
  | hooked       -- codec_data + a codec_close hook that frees nothing: ima, ms adpcm, dwvw, nms, vox
  | gsm610 | g72x | alac
  deriving DecidableEq, Repr

inductive CodecHook | plainHook | gsm610 | g72x | alac
  deriving DecidableEq, Repr
inductive ContHook | aiff | otherHook
  deriving DecidableEq, Repr

inductive Route
  | path (opens : Bool)        -- sf_open: psf_fopen succeeded or not
  | fd (closeDesc : Bool)      -- sf_open_fd
  | vio                        -- sf_open_virtual
  deriving DecidableEq, Repr

structure Handle where
  cell : Cell → Ptr := fun _ => .null
  payloads : Nat := 0
  wused : Nat := 0
  rused : Nat := 0
  nstr : Nat := 0
  mode : Mode := .r
  cont : Cont := .other
  isFloat : Bool := false
  haveWritten : Bool := false
  strStart : Bool := false
  strEnd : Bool := false
  setChunkHook : Bool := false
  codecClose : Option CodecHook := none
  contClose : Option ContHook := none
  vio : Bool := false
  doNotClose : Bool := false

abbrev S := Handle × Acct

def setCell (h : Handle) (c : Cell) (p : Ptr) : Handle :=
  { h with cell := fun x => if x = c then p else h.cell x }

/-- `c = malloc (..)` / `c = open (..)`: an old live value is lost -/
def alloc (c : Cell) (s : S) : S :=
  (setCell s.1 c .live, if s.1.cell c = .live then s.2.leak c.kind else s.2)

/-- `free (c)` / `close (c)` without resetting the variable -/
def free (c : Cell) (s : S) : S :=
  match s.1.cell c with
  | .null => s
  | .live => (setCell s.1 c .dangling, s.2)
  | .dangling => (s.1, { s.2 with dfree := s.2.dfree + 1 })

/-- `c = NULL` / `c = -1` -/
def clear (c : Cell) (s : S) : S :=
  (setCell s.1 c .null, if s.1.cell c = .live then s.2.leak c.kind else s.2)

/-- `free (c) ; c = NULL ;` -/
def freeNull (c : Cell) (s : S) : S := clear c (free c s)

/-- `if (c == NULL) c = malloc (..)` (also: realloc of an existing block, which keeps one block under the same owner) -/
def allocIfNull (c : Cell) (s : S) : S := if s.1.cell c = .null then alloc c s else s

/-- `free (c) ; c = malloc (..)` (SFC_SET_CHANNEL_MAP_INFO, the chunk parsers) -/
def replace (c : Cell) (s : S) : S := alloc c (free c s)

/-! ### header-parse events (read mode and RDWR on an existing file) -/

inductive Ev
  | peak          -- PEAK chunk: free-NULL-alloc (aiff.c:503, caf.c:415, wavlike.c:1217)
  | cue           -- WAV cue / AIFF MARK cues: free-NULL-alloc
  | mark          -- AIFF MARK: free (markstr) without NULL, then calloc
  | smpl          -- WAV smpl: free-NULL-alloc
  | inst          -- AIFF INST, XI: alloc only if NULL
  | loop          -- WAV acid, AIFF basc: free-NULL-alloc
  | bext          -- alloc if NULL, else reuse
  | cart          -- free-NULL-alloc
  | chanmap       -- free, malloc (wavlike.c:349, aiff.c:1796, caf.c:816)
  | str           -- psf_store_string: realloc of strings.storage
  | chunkRec      -- psf_store_read_chunk: rchunks table (calloc first, realloc later)
  | iter          -- ALAC reader: psf_get_chunk_iterator for the pakt chunk
  deriving DecidableEq, Repr

def applyEv (e : Ev) (s : S) : S :=
  match e with
  | .peak => alloc (.owner .peakInfo) (freeNull (.owner .peakInfo) s)
  | .cue => alloc (.owner .cues) (freeNull (.owner .cues) s)
  | .mark => replace (.nested .aiffMarkstr) s
  | .smpl => alloc (.owner .instrument) (freeNull (.owner .instrument) s)
  | .inst => allocIfNull (.owner .instrument) s
  | .loop => alloc (.owner .loopInfo) (freeNull (.owner .loopInfo) s)
  | .bext => allocIfNull (.owner .broadcast) s
  | .cart => alloc (.owner .cart) (freeNull (.owner .cart) s)
  | .chanmap => replace (.owner .channelMap) s
  | .str => ({ (allocIfNull (.owner .strings) s).1 with nstr := s.1.nstr + 1 }, (allocIfNull (.owner .strings) s).2)
  | .chunkRec => ({ (allocIfNull (.owner .rchunks) s).1 with rused := s.1.rused + 1 }, (allocIfNull (.owner .rchunks) s).2)
  | .iter => allocIfNull (.owner .iterator) s

/-- `mark` needs container_data of an AIFF handle whose aiff_close is already installed (aiff.c:246 precedes the parser) -/
def evAllowed (h : Handle) : Ev → Bool
  | .mark => h.contClose = some .aiff
  | _ => true

def applyEvs (evs : List Ev) (s : S) : S :=
  evs.foldl (fun s e => if evAllowed s.1 e then applyEv e s else s) s

/-! ### open -/

structure OpenCfg where
  route : Route := .vio
  mode : Mode := .w
  cont : Cont := .other
  codec : Codec := .plain
  isFloat : Bool := false          -- subformat FLOAT / DOUBLE (PEAK chunk by default when writing)
  existing : Bool := false         -- RDWR on a file that already has content (the header is parsed)
  hasFrames : Bool := false        -- ... and sf.frames > 0 (psf_open_file then sets have_written)
  evs : List Ev := []              -- what the header parser met
  /-- `none`: the open succeeds.  `some k`: it fails after k allocation steps of the container/codec stage
      (k = 0: before the container's open function allocated anything: bad mode, bad SF_INFO, unknown format, ...) -/
  failAt : Option Nat := none

def Cont.rich : Cont → Bool
  | .wav | .wavex | .aiff | .caf | .rf64 => true
  | _ => false

def Cont.hasData : Cont → Bool
  | .other => false
  | _ => true

def parses (c : OpenCfg) : Bool := c.mode = .r || (c.mode = .rw && c.existing)
def writes (c : OpenCfg) : Bool := c.mode = .w || c.mode = .rw

/-- One allocation-relevant step of `<container>_open` + `<codec>_init`. -/
inductive Step
  | contData | contHook (k : ContHook) | flags | parse | peakW | chunkHook
  | codecData | codecHook (k : CodecHook) | gsmInit | g72xInit | alacPakt | alacTmp
  deriving DecidableEq, Repr

def applyStep (c : OpenCfg) (st : Step) (s : S) : S :=
  match st with
  | .contData => alloc (.owner .containerData) s
  | .contHook k => ({ s.1 with contClose := some k }, s.2)
  | .flags => ({ s.1 with strStart := true, strEnd := true }, s.2)
  | .parse => applyEvs c.evs s
  | .peakW => alloc (.owner .peakInfo) s
  | .chunkHook => ({ s.1 with setChunkHook := true }, s.2)
  | .codecData => alloc (.owner .codecData) s
  | .codecHook k => ({ s.1 with codecClose := some k }, s.2)
  -- gsm_create and `psf->codec_close = gsm610_close` have no reachable `return` between them (gsm610.c:105-175); same in g72x.c:124-172
  | .gsmInit => let t := alloc (.nested .gsmState) s; ({ t.1 with codecClose := some .gsm610 }, t.2)
  | .g72xInit => let t := alloc (.nested .g72xState) s; ({ t.1 with codecClose := some .g72x }, t.2)
  | .alacPakt => replace (.nested .alacPakt) s
  | .alacTmp => alloc .tmpDisk (alloc .tmpFd (alloc (.nested .alacTmp) s))

/-- the program of the container stage, in the order of the C (wav.c:166.., aiff.c:243.., caf.c:117.., rf64.c:91.., w64.c:128..) -/
def contSteps (c : OpenCfg) : List Step :=
  (if c.cont.hasData then [.contData] else []) ++
  -- aiff.c:246 installs aiff_close right after the calloc; the other containers install theirs last, but those hooks release
  -- nothing, so for the ledger their position is immaterial and one place is used for all
  [.contHook (if c.cont = .aiff then .aiff else .otherHook)] ++
  (if c.cont.rich && ((c.cont != .aiff && c.cont != .caf) || writes c) then [.flags] else []) ++
  (if parses c then [.parse] else []) ++
  (if c.mode = .w && c.isFloat && (c.cont = .wav || c.cont = .wavex || c.cont = .aiff || c.cont = .caf) then [.peakW] else []) ++
  (if c.cont.rich && writes c then [.chunkHook] else [])

/-- the program of the codec stage (gsm610.c:92.., g72x.c:85.., alac.c:114.., the others: one calloc) -/
def codecSteps (c : OpenCfg) : List Step :=
  match c.codec with
  | .plain => []
  | .dataOnly => [.codecData]
  | .hooked => [.codecData, .codecHook .plainHook]
  | .gsm610 => [.codecData, .gsmInit]
  | .g72x => [.codecData] ++ (if c.mode = .rw then [.codecHook .g72x] else [.g72xInit])
  | .alac => [.codecData, .codecHook .alac] ++
      (if c.mode = .r then [.alacPakt] else if c.mode = .w then [.alacPakt, .alacTmp] else [])

def openSteps (c : OpenCfg) : List Step := contSteps c ++ codecSteps c

def runSteps (c : OpenCfg) (sts : List Step) (s : S) : S := sts.foldl (fun s st => applyStep c st s) s

/-- psf_allocate + psf_init_files + the route's descriptor (sndfile.c:348-509) -/
def allocate (c : OpenCfg) (a : Acct) : S :=
  let s : S := ({ mode := c.mode, cont := c.cont, isFloat := c.isFloat }, a)
  let s := alloc (.owner .header) (alloc .psf s)
  match c.route with
  | .path true => alloc .fileFd s
  | .path false => s
  | .fd true => alloc .fileFd s
  | .fd false => ({ s.1 with doNotClose := true }, s.2)
  | .vio => ({ s.1 with vio := true }, s.2)

/-! ### close (psf_close, sndfile.c:2978) -/

/-- one release action of psf_close or of a close hook -/
inductive RAct
  | free (c : Cell) | freeNull (c : Cell) | clear (c : Cell)
  | payloads        -- `if (wchunks.chunks) for (k < used) free (chunks [k].data)`
  deriving DecidableEq, Repr

def runR (a : RAct) (s : S) : S :=
  match a with
  | .free c => free c s
  | .freeNull c => freeNull c s
  | .clear c => clear c s
  | .payloads => if s.1.cell (.owner .wchunks) = .null then s else ({ s.1 with payloads := s.1.payloads - s.1.wused }, s.2)

def codecHookProg (k : CodecHook) (m : Mode) : List RAct :=
  match k with
  | .plainHook => []
  | .gsm610 => [.free (.nested .gsmState)]                      -- gsm_destroy: `if (gsm_data) free`
  | .g72x => [.free (.nested .g72xState)]
  | .alac =>
      -- alac_close: write mode: fclose (enctmp) ; remove (enctmpname) ;  every mode: free (pakt_info) ; pakt_info = NULL
      (if m = .w then [.free (.nested .alacTmp), .free .tmpFd, .free .tmpDisk] else []) ++ [.freeNull (.nested .alacPakt)]

def contHookProg (k : ContHook) : List RAct :=
  match k with
  | .aiff => [.freeNull (.nested .aiffMarkstr)]
  | .otherHook => []

/-- psf_fclose: nothing for virtual I/O; a borrowed descriptor is forgotten; otherwise close and forget -/
def fcloseProg (vio doNotClose : Bool) : List RAct :=
  if vio then [] else if doNotClose then [.clear .fileFd] else [.freeNull .fileFd]

/-- everything psf_close does before the payload loop: hooks, psf_fclose, psf_close_rsrc, the first 13 frees -/
def releaseHead (cc : Option CodecHook) (kc : Option ContHook) (vio doNotClose : Bool) (m : Mode) : List RAct :=
  (match cc with | some k => codecHookProg k m | none => []) ++
  (match kc with | some k => contHookProg k | none => []) ++
  fcloseProg vio doNotClose ++ [.freeNull .rsrcFd] ++
  Slot.closeFirst.map (fun sl => .free (.owner sl))

def releaseTail : List RAct := Slot.closeLast.map (fun sl => .free (.owner sl)) ++ [.free .psf]

/-- psf_close as a straight-line program.  The conditions it tests (hooks installed, virtual_io, do_not_close_descriptor,
    file.mode) are not changed by any release action, so they are read once.  (`psf->codec_close = NULL` after the hook ran has no
    effect on the ledger and is left out.) -/
def releaseProg (h : Handle) : List RAct :=
  releaseHead h.codecClose h.contClose h.vio h.doNotClose h.mode ++ [.payloads] ++ releaseTail

def releaseAll (s : S) : S := (releaseProg s.1).foldl (fun s a => runR a s) s

def liveCells (h : Handle) : List Cell := Cell.all.filter (fun c => h.cell c = .live)

/-- everything still live when the SF_PRIVATE block is gone is unreachable: it is lost for good -/
def retire (s : S) : Acct :=
  let a := (liveCells s.1).foldl (fun a c => a.leak c.kind) s.2
  a.leakN s.1.payloads

/-- return value of psf_close: only psf_fclose's result survives (`error` is overwritten twice) -/
def closeRet (h : Handle) (ioOk : Bool) : Int :=
  if h.vio || h.doNotClose then 0 else if ioOk then 0 else -1

/-! ### the world: at most one handle open, plus the account that survives handles -/

structure World where
  h : Option Handle := none
  a : Acct := {}

inductive DitherTy | off | dflt | on
  deriving DecidableEq, Repr

inductive Op
  | open (c : OpenCfg)
  | setString (valid : Bool)
  | setBroadcast (valid : Bool)
  | setCart (valid : Bool)
  | setCue (valid : Bool)
  | setInstrument (valid : Bool)
  | setChannelMap (valid : Bool)
  | setChunk (valid : Bool)
  | chunkIter (byId : Option Bool)     -- `none`: NULL id (found iff a chunk was recorded); `some b`: lookup by id found = b
  | setPeak (on : Bool)
  | setDither (isWrite : Bool) (ty : DitherTy) (valid : Bool)
  | write (ok : Bool)
  | other                              -- read, seek, get-commands, chunk queries, ...: the ledger does not move
  | close (ioOk : Bool)

def maxStrings : Nat := 32

def isWr (h : Handle) : Bool := h.mode = .w || h.mode = .rw

/-- effect of a call on an open handle; the Int is the call's return value where the model predicts it
    (0 / 1 as the C returns them; -2 = not predicted) -/
def stepOpen (s : S) : Op → S × Int
  | .setString valid =>
      let h := s.1
      if h.mode = .r then (s, 1)                       -- psf_set_string: SFE_STR_NOT_WRITE
      else if !valid then (s, 1)
      else if isWr h && (!h.strStart || (h.haveWritten && !h.strEnd)) then (s, 1)
      else if (h.mode = .rw || h.haveWritten) && !h.strEnd then (s, 1)
      else if h.nstr ≥ maxStrings then (s, 1)
      else
        let t := allocIfNull (.owner .strings) s
        (({ t.1 with nstr := h.nstr + 1 }, t.2), 0)
  | .setBroadcast valid =>
      let h := s.1
      if !(h.cont = .wav || h.cont = .wavex || h.cont = .rf64) then (s, 0)
      else if !isWr h then (s, 0)
      else if h.cell (.owner .broadcast) = .null && h.haveWritten then (s, 0)
      else if !valid then (s, 0)
      else (allocIfNull (.owner .broadcast) s, 1)
  | .setCart valid =>
      let h := s.1
      if !(h.cont = .wav || h.cont = .rf64) then (s, 0)
      else if !isWr h then (s, 0)
      else if h.cell (.owner .cart) = .null && h.haveWritten then (s, 0)
      else if !valid then (s, 0)
      else (allocIfNull (.owner .cart) s, 1)
  | .setCue valid =>
      if s.1.haveWritten || !valid then (s, 0) else (allocIfNull (.owner .cues) s, 1)
  | .setInstrument valid =>
      if s.1.haveWritten || !valid then (s, 0) else (allocIfNull (.owner .instrument) s, 1)
  | .setChannelMap valid =>
      -- `valid`: the call passes its guards AND the container takes the map (Sf.ChmapVerdict.containerAccepts).  A map the container
      -- refuses is allocated and freed again inside the call, the old block (if any) stays where it was: the ledger does not move
      -- (since the repair of KF-C09-CHMAP-REFUSED-KEPT; before it a refused map stayed under the owner when there was none).
      if s.1.haveWritten || !valid then (s, 0) else (replace (.owner .channelMap) s, 1)
  | .setChunk valid =>
      let h := s.1
      if !valid || h.haveWritten || !h.setChunkHook then (s, 1)
      else
        let t := allocIfNull (.owner .wchunks) s
        (({ t.1 with payloads := h.payloads + 1, wused := h.wused + 1 }, t.2), 0)
  | .chunkIter byId =>
      let found := match byId with
        | none => decide (s.1.rused > 0)
        | some b => b && decide (s.1.rused > 0)
      if found then (allocIfNull (.owner .iterator) s, 1) else (s, 0)
  | .setPeak on =>
      let h := s.1
      if !(h.cont.rich && h.isFloat) || !isWr h || h.haveWritten then (s, -2)     -- only WAV/WAVEX/AIFF/CAF/RF64 with float or double data
      else if !on && h.cell (.owner .peakInfo) != .null then (freeNull (.owner .peakInfo) s, -2)
      else (allocIfNull (.owner .peakInfo) s, -2)
  | .setDither isWrite ty valid =>
      let h := s.1
      if !valid || ty != .on then (s, -2)
      else if isWrite && isWr h then (allocIfNull (.owner .dither) s, -2)
      else if !isWrite && (h.mode = .r || h.mode = .rw) then (allocIfNull (.owner .dither) s, -2)
      else (s, -2)
  | .write ok =>
      if ok && isWr s.1 then (({ s.1 with haveWritten := true }, s.2), -2) else (s, -2)
  | _ => (s, -2)

/-- sf_open / sf_open_fd / sf_open_virtual up to psf_open_file's return -/
def doOpen (c : OpenCfg) (a : Acct) : World × Int :=
  let s := allocate c a
  match c.route, c.failAt with
  | .path false, _ =>
      -- psf->error set by psf_fopen: psf_open_file goes straight to error_exit
      ({ h := none, a := retire (releaseAll s) }, 0)
  | _, some k =>
      let s := runSteps c ((openSteps c).take k) s
      ({ h := none, a := retire (releaseAll s) }, 0)
  | _, none =>
      let s := runSteps c (openSteps c) s
      let s : S := ({ s.1 with haveWritten := c.mode = .rw && c.existing && c.hasFrames }, s.2)
      ({ h := some s.1, a := s.2 }, 1)

def step (w : World) (op : Op) : World × Int :=
  match w.h, op with
  | none, .open c => doOpen c w.a
  | none, _ => (w, -2)                     -- the harness passes NULL: SFE_BAD_SNDFILE_PTR, nothing allocated
  | some _, .open _ => (w, -2)             -- one handle at a time in this model (handles share nothing, so several are a product of such worlds)
  | some h, .close ioOk =>
      ({ h := none, a := retire (releaseAll (h, w.a)) }, closeRet h ioOk)
  | some h, op =>
      let r := stepOpen (h, w.a) op
      ({ h := some r.1.1, a := r.1.2 }, r.2)

def run (w : World) (ops : List Op) : World := ops.foldl (fun w op => (step w op).1) w

/-- number of live resources of a kind the world holds (open handle) or has lost (account) -/
def Handle.liveOf (h : Handle) (k : Kind) : Nat :=
  ((liveCells h).filter (fun c => c.kind = k)).length + (if k = .heap then h.payloads else 0)

def World.held (w : World) (k : Kind) : Nat :=
  (match w.h with | some h => h.liveOf k | none => 0) +
  (match k with | .heap => w.a.leakedHeap | .fd => w.a.leakedFd | .disk => w.a.leakedDisk)

/-! ### several handles: each call names the handle it is made on; the handles share nothing but the account -/

structure Worlds where
  hs : List (Nat × Handle) := []      -- the open handles, by the caller's name for them
  a : Acct := {}

def Worlds.get (w : Worlds) (i : Nat) : Option Handle := (w.hs.find? (fun p => p.1 == i)).map (·.2)

def Worlds.set (w : Worlds) (i : Nat) (h : Option Handle) (a : Acct) : Worlds :=
  let rest := w.hs.filter (fun p => p.1 != i)
  { hs := match h with | some h => (i, h) :: rest | none => rest, a := a }

/-- a call on handle i is `step` on the world made of that handle and the shared account -/
def stepAt (w : Worlds) (i : Nat) (op : Op) : Worlds × Int :=
  let r := step { h := w.get i, a := w.a } op
  (w.set i r.1.h r.1.a, r.2)

def runAt (w : Worlds) (ops : List (Nat × Op)) : Worlds := ops.foldl (fun w p => (stepAt w p.1 p.2).1) w

def Worlds.held (w : Worlds) (k : Kind) : Nat :=
  (w.hs.map (fun p => p.2.liveOf k)).sum +
  (match k with | .heap => w.a.leakedHeap | .fd => w.a.leakedFd | .disk => w.a.leakedDisk)

/-! ### what the harness prints (`ledger peek`) -/

def Handle.mask (h : Handle) : Nat :=
  (Slot.all.zipIdx.map fun (sl, i) => if h.cell (.owner sl) = .null then 0 else 2 ^ i).sum

end Sf.Ledger
