/-
  SfModel.Command — `sf_command` (src/sndfile.c) as a table of guards and byte ranges.

  For every command identifier the model gives, as a function of (datasize, what lies behind the
  data pointer, the handle's relevant facts):
    * the guard exactly as written (`!=`, `<`, or a field of `*data` read *before* datasize is looked at),
    * the byte ranges of `data` that are read and written,
    * whether a NULL data pointer is dereferenced,
    * the return value (exact, one of a few, or undefined = depends on bytes outside the block),
    * the abstract handle state afterwards, and `isQuery`.
  The model follows the code as it is now.  Four rules were different before commits ff9108b, dc376ca,
  8501a42 and 604e547 (strlen() after an snprintf of size 0; the length field of `broadcast_var_set` /
  `cart_var_set` read before datasize was compared; `psf_strlcpy_crlf` looking at src[1] when src[0] is the
  last byte; `psf_calc_signal_max` restoring the position with a read/write-mode seek).  They are kept at
  the end of this file under `old…` names, used by nothing but the history theorems of SfProps/C17.lean.
  Core Lean only.
-/
import SfModel.Basic
import SfModel.ChmapVerdict
namespace Sf.Command

/-! ## platform constants (x86-64 Linux; compared with `sfh grid c17 consts` on every run) -/
def szInfo : Nat := 32
def szFormatInfo : Nat := 24
def szDither : Nat := 24
def szEmbed : Nat := 16
def szLoop : Nat := 44
def szInstrument : Nat := 272
def bextFixed : Nat := 608      -- offsetof (SF_BROADCAST_INFO, coding_history)
def bextSizeOff : Nat := 604    -- offsetof (SF_BROADCAST_INFO, coding_history_size)
def bextCap : Nat := 16992      -- sizeof (SF_BROADCAST_INFO_16K)
def szBext : Nat := 864
def cartFixed : Nat := 2052     -- offsetof (SF_CART_INFO, tag_text)
def cartSizeOff : Nat := 2048   -- offsetof (SF_CART_INFO, tag_text_size)
def cartCap : Nat := 18436      -- sizeof (SF_CART_INFO_16K)
def szCart : Nat := 2308
def szCuePoint : Nat := 280
def szCues : Nat := 28004
def szCount : Nat := 8          -- sizeof (sf_count_t)
def szDouble : Nat := 8
def szInt : Nat := 4
def chanMapMax : Nat := 27      -- SF_CHANNEL_MAP_MAX

def eMalloc : Nat := 17
def eUnimplemented : Nat := 18
def eBadParam : Nat := 30       -- SFE_BAD_COMMAND_PARAM
def eNotSeekable : Nat := 40
def eHasData : Nat := 48
def eBextSize : Nat := 49
def eBextBig : Nat := 50
def eCartSize : Nat := 51
def eCartBig : Nat := 52

def cWAV : Nat := 0x010000
def cAIFF : Nat := 0x020000
def cRAW : Nat := 0x040000
def cWAVEX : Nat := 0x130000
def cCAF : Nat := 0x180000
def cRF64 : Nat := 0x220000
def codFLOAT : Nat := 6
def codDOUBLE : Nat := 7

/-! ## inputs -/

inductive Mode | r | w | rw
  deriving DecidableEq, Repr

/-- The handle as far as `sf_command` and C17 are concerned: mode and format, the two cursors, the
    settings, which metadata exist (and how large), and two epochs standing for "metadata contents" and
    "bytes of the file" (bumped whenever a command may overwrite them). -/
structure H where
  mode : Mode
  container : Nat
  codec : Nat
  channels : Nat
  seekable : Bool
  hasCommand : Bool        -- psf->command != NULL (WAV, WAVEX, RF64, AIFF, CAF)
  haveWritten : Bool
  readCur : Nat
  writeCur : Nat
  normFloat : Bool
  normDouble : Bool
  clipping : Bool
  floatIntMult : Bool
  scaleIntFloat : Bool
  autoHeader : Bool
  ieeeReplace : Bool
  endswap : Bool
  ambisonic : Nat
  rf64Downgrade : Bool
  bext : Option Nat        -- bc_min_size of the stored chunk; none = psf->broadcast_16k == NULL
  cart : Option Nat
  cues : Option Nat        -- cue_count
  hasInstrument : Bool
  hasLoop : Bool
  hasChanMap : Bool
  hasPeak : Bool
  logLen : Nat
  metaEpoch : Nat
  fileEpoch : Nat
  virtualIo : Bool := true   -- psf->virtual_io (every handle of the C17 grid is opened through sf_open_virtual)
  deriving DecidableEq, Repr

/-- process-wide facts -/
structure G where
  verLen : Nat             -- strlen (sf_version_string ())
  gLogLen : Nat            -- strlen (sf_parselog)
  simpleCount : Nat
  majorCount : Nat
  subtypeCount : Nat
  deriving Repr

/-- What lies behind a non-NULL data pointer: `byte i` is the byte at data+i (whatever is there, also
    past the caller's block); `len` only bounds the search of strlen() in the model. -/
structure Mem where
  len : Nat
  byte : Nat → Nat

inductive Ret
  | exact (v : Int)
  | among (vs : List Int)
  | undef                    -- depends on bytes outside [0, datasize)
  deriving DecidableEq, Repr

structure Res where
  reads : List (Nat × Nat) := []     -- [lo, hi) ranges of data that are read
  writes : List (Nat × Nat) := []
  derefNull : Bool := false
  ret : Ret
  err : Option Nat := none           -- sf_error afterwards where the model determines it
  h' : Option H

/-! ## helpers -/

def rd32 (m : Nat → Nat) (o : Nat) : Nat :=
  m o % 256 + 256 * (m (o + 1) % 256) + 65536 * (m (o + 2) % 256) + 16777216 * (m (o + 3) % 256)

/-- index of the first NUL among the first `n` bytes starting at `i`, else `i + n` -/
def firstNul (m : Nat → Nat) : Nat → Nat → Nat
  | 0, i => i
  | n + 1, i => if m i = 0 then i else firstNul m n (i + 1)

/-- `psf_strlcpy_crlf (dest, src, destmax, srcmax)`: `n` source bytes are left, the next one is at
    offset `i`, `room` = destend - dest.  Returns the exclusive end of the source region examined.
    The pair test `src + 1 < srcend && ((src[0]=='\r' && src[1]=='\n') || (src[0]=='\n' && src[1]=='\r'))`
    looks at src[1] only when src[0] is CR or LF *and* another byte is left (8501a42). -/
def crlfEnd (m : Nat → Nat) : Nat → Nat → Nat → Nat
  | 0, i, _ => i
  | 1, i, room => if room = 0 then i else i + 1
  | n + 2, i, room =>
    if room = 0 then i
    else if m i = 13 ∨ m i = 10 then
      if (m i = 13 ∧ m (i + 1) = 10) ∨ (m i = 10 ∧ m (i + 1) = 13) then
        max (i + 2) (crlfEnd m n (i + 2) (room - 2))
      else max (i + 2) (crlfEnd m (n + 1) (i + 1) (room - 2))
    else max (i + 1) (crlfEnd m (n + 1) (i + 1) (room - 1))

/-- SFC_SET_CHANNEL_MAP_INFO validation loop: how many ints are looked at (stops at the first invalid) -/
def chanExamined (m : Nat → Nat) : Nat → Nat → Nat
  | 0, _ => 0
  | n + 1, k =>
    let v := sext 32 (rd32 m (4 * k))
    if v ≤ 0 ∨ v ≥ chanMapMax then 1 else 1 + chanExamined m n (k + 1)

def b2i (b : Bool) : Int := if b then 1 else 0

def writable (h : H) : Bool := h.mode = .w ∨ h.mode = .rw

/-- psf->read_double is set (the codec initialisers install read functions in read and read/write mode only) -/
def canRead (h : H) : Bool := h.mode = .r ∨ h.mode = .rw

/-- the header is rewritten (psf->write_header): bytes of the file may change -/
def rewriteHeader (h : H) : H := { h with fileEpoch := h.fileEpoch + 1 }

/-- `if (data == NULL) …; if (datasize < 1) return 0; snprintf (data, size, "%s", s); return strlen (data)`
    — with strlen(s) = `l` (ff9108b added the datasize test) -/
def stringOut (l size : Nat) (data : Option Mem) (h : Option H) (errNull : Option Nat) (retNull : Int) : Res :=
  match data with
  | none => { ret := .exact retNull, err := errNull, h' := h }
  | some _ =>
    if size = 0 then { ret := .exact 0, h' := h }
    else
      let k := min l (size - 1)
      { writes := [(0, k + 1)], reads := [(0, k + 1)], ret := .exact k, err := some 0, h' := h }

/-- `broadcast_var_set` / `cart_var_set`: `datasize < offsetof (variable part) || min_size (info) > datasize`
    — the length field is read only when datasize reaches past it (dc376ca) -/
def varSet (sizeOff fixed cap eSize eBig : Nat) (h : H) (size : Nat) (data : Option Mem) (h2 : H) : Res :=
  match data with
  | none => { ret := .exact 0, err := some 0, h' := some h }
  | some m =>
    if size < fixed then { ret := .exact 0, err := some eSize, h' := some h }
    else
      let n := rd32 m.byte sizeOff
      if fixed + n > size then { reads := [(sizeOff, sizeOff + 4)], ret := .exact 0, err := some eSize, h' := some h }
      else if size ≥ cap then { reads := [(sizeOff, sizeOff + 4)], ret := .exact 0, err := some eBig, h' := some h }
      else
        { reads := [(sizeOff, sizeOff + 4), (0, fixed), (fixed, crlfEnd m.byte (size - fixed) fixed (cap - fixed - 2))],
          ret := .exact 1, h' := some (rewriteHeader h2) }      -- write_header may leave an error code behind

/-- since "fix: SFC_SET_BROADCAST_INFO / SFC_SET_CART_INFO after audio data could overwrite the audio" a block set again after
    the audio is accepted only when its normalised text has the size of the block present (SF_TRUE), and refused otherwise (SF_FALSE,
    SFE_CMD_HAS_DATA, block kept).  Which of the two depends on the normalised length of the caller's text and on the line
    gen_coding_history would add — modelled in SfModel/Meta.lean (`step`), not here: this model only says "0 or 1". -/
def lateVar (late : Bool) (r : Res) : Res :=
  if late then (match r.ret with | .exact 1 => { r with ret := .among [0, 1], err := none } | _ => r) else r

def varGet (stored : Option Nat) (h : H) (size : Nat) (data : Option Mem) : Res :=
  match data with
  | none => { ret := .exact 0, err := some eBadParam, h' := some h }
  | some _ =>
    match stored with
    | none => { ret := .exact 0, err := some 0, h' := some h }
    | some s => { writes := [(0, min size s)], ret := .exact 1, err := some 0, h' := some h }

/-- guard `data == NULL || datasize != want` failing with (ret, err); otherwise `k` -/
def guardEq (want size : Nat) (data : Option Mem) (h : Option H) (failRet : Int) (failErr : Option Nat)
    (k : Mem → Res) : Res :=
  match data with
  | none => { ret := .exact failRet, err := failErr, h' := h }
  | some m => if size ≠ want then { ret := .exact failRet, err := failErr, h' := h } else k m

/-- the container's command handler (wav_command, rf64_command, aiff_command, caf_command) or none;
    none of them touches `data` -/
def containerCommand (h : H) (cmd : Int) (size : Nat) : Res :=
  if ¬ h.hasCommand then
    { ret := .exact eBadParam, err := some eBadParam, h' := some { h with logLen := h.logLen + 1 } }
  else if (h.container = cWAV ∨ h.container = cWAVEX ∨ h.container = cRF64) ∧ cmd = 0x1200 then
    if h.container = cWAVEX then
      if size = 0x40 ∨ size = 0x41 then { ret := .exact size, err := some 0, h' := some { h with ambisonic := size } }
      else { ret := .exact 0, err := some 0, h' := some h }
    else { ret := .exact h.ambisonic, err := some 0, h' := some h }
  else if (h.container = cWAV ∨ h.container = cWAVEX ∨ h.container = cRF64) ∧ cmd = 0x1201 then
    { ret := .exact h.ambisonic, err := some 0, h' := some h }
  else if h.container = cRF64 ∧ cmd = 0x1210 then
    let d := if h.haveWritten then h.rf64Downgrade else decide (size ≠ 0)
    { ret := .exact (b2i d), err := some 0, h' := some { h with rf64Downgrade := d } }
  else { ret := .exact 0, err := some 0, h' := some h }

/-- the ints of a channel map behind `data` (validated entries are 1 … 26: the unsigned reading is the value) -/
def chanMapOf (m : Nat → Nat) (channels : Nat) : List Nat := (List.range channels).map fun i => rd32 m (4 * i)

/-- case SFC_SET_CHANNEL_MAP_INFO.  The validated map is copied, then the container's handler is asked
    (`Sf.ChmapVerdict.containerAccepts`: wavlike_gen_channel_mask / aiff_caf_find_channel_layout_tag; no handler = refused).
    A refused map is freed again and psf->channel_map (with the handler's mask / tag) is what it was: no effect.
    `keep = true` is the rule before that repair (KF-C09-CHMAP-REFUSED-KEPT): the refused map stayed on a handle that had none
    (the model then did not know the container's answer: `among [0, 1]`). -/
def chmapSet (keep : Bool) (h : H) (size : Nat) (data : Option Mem) : Res :=
  let sh := some h
  if h.haveWritten then { ret := .exact 0, err := some eHasData, h' := sh }
  else guardEq (szInt * h.channels) size data sh 0 (some eBadParam) fun m =>
    let k := chanExamined m.byte h.channels 0
    let v := sext 32 (rd32 m.byte (4 * (k - 1)))
    if k > 0 ∧ (v ≤ 0 ∨ v ≥ chanMapMax) then
      { reads := [(0, szInt * k)], ret := .exact 0, err := some eBadParam, h' := sh }
    else if keep then
      { reads := [(0, szInt * k), (0, size)], ret := if h.hasCommand then .among [0, 1] else .exact 0,
        h' := some { h with hasChanMap := true, metaEpoch := h.metaEpoch + 1 } }
    else if h.hasCommand ∧ ChmapVerdict.containerAccepts h.container (chanMapOf m.byte h.channels) = true then
      { reads := [(0, szInt * k), (0, size)], ret := .exact 1,
        h' := some { h with hasChanMap := true, metaEpoch := h.metaEpoch + 1 } }
    else
      { reads := [(0, szInt * k), (0, size)], ret := .exact 0, h' := sh }

/-- case SFC_CALC_SIGNAL_MAX / SFC_CALC_NORM_SIGNAL_MAX behind the size guard: `*data = psf_calc_signal_max (…) ; return psf->error`.
    psf_calc_signal_max refuses a handle that cannot seek (SFE_NOT_SEEKABLE) or cannot read (SFE_UNIMPLEMENTED) by recording the error
    and returning 0.0 (which is stored in the block); since "fix: SFC_CALC_SIGNAL_MAX / SFC_CALC_NORM_SIGNAL_MAX returned 0 (success)
    when the scan was refused" the recorded error is the return value, as for the _ALL_CHANNELS pair.  After a scan the error is 0 on
    return (cleared on entry and by the nested SFC_SET_NORM_DOUBLE) unless the restoring seek failed: the model leaves `err` open.
    `retZero = true` is the rule before that repair (KF-C09-CALC-SIGNAL-MAX-RET0): the case ended in `break`, i.e. `return 0`. -/
def calcSignalMax (retZero : Bool) (h : H) : Res :=
  if ¬ h.seekable then
    { writes := [(0, szDouble)], ret := .exact (if retZero then 0 else eNotSeekable), err := some eNotSeekable, h' := some h }
  else if ¬ canRead h then
    { writes := [(0, szDouble)], ret := .exact (if retZero then 0 else eUnimplemented), err := some eUnimplemented, h' := some h }
  else { writes := [(0, szDouble)], ret := .exact 0, h' := some h }

/-! ## the switch -/

/-- commands that only query information -/
def isQuery (cmd : Int) : Bool :=
  cmd ∈ ([0x1000, 0x1001, 0x1002, 0x1010, 0x1011, 0x1020, 0x1021, 0x1028, 0x1030, 0x1031, 0x1032, 0x1033,
          0x1040, 0x1041, 0x1042, 0x1043, 0x1044, 0x1045, 0x10A2, 0x10A3, 0x10B0, 0x10C1, 0x10CD, 0x10CE,
          0x10D0, 0x10E0, 0x10F0, 0x1100, 0x1110, 0x1201, 0x1304, 0x1306, 0x1401, 0x1501] : List Int)

/-- string-returning commands -/
def isStringCmd (cmd : Int) : Bool := cmd = 0x1000 ∨ cmd = 0x1001

def formatIndexed (count : Nat) (clearOnFail : Bool) (size : Nat) (data : Option Mem) (h : Option H) : Res :=
  guardEq szFormatInfo size data h eBadParam none fun m =>
    let idx := sext 32 (rd32 m.byte 0)
    if idx < 0 ∨ idx ≥ count then
      { reads := [(0, 4)], writes := if clearOnFail then [(0, 4)] else [], ret := .exact eBadParam, h' := h }
    else { reads := [(0, 4)], writes := [(0, szFormatInfo)], ret := .exact 0, h' := h }

/-- the first switch of `sf_command`: commands that run before the handle is looked at
    (`none` = not one of them) -/
def preHandle (g : G) (h : Option H) (cmd : Int) (size : Nat) (data : Option Mem) : Option Res :=
  if cmd = 0x1000 then some (stringOut g.verLen size data h (h.map fun _ => eBadParam) 0)
  else if cmd = 0x1020 ∨ cmd = 0x1030 ∨ cmd = 0x1032 then
    some (guardEq szInt size data h eBadParam none fun _ => { writes := [(0, szInt)], ret := .exact 0, h' := h })
  else if cmd = 0x1021 then some (formatIndexed g.simpleCount false size data h)
  else if cmd = 0x1031 then some (formatIndexed g.majorCount false size data h)
  else if cmd = 0x1033 then some (formatIndexed g.subtypeCount true size data h)
  else if cmd = 0x1028 then
    some (guardEq szFormatInfo size data h eBadParam none fun _ =>
      { reads := [(0, 4)], writes := [(0, szFormatInfo)], ret := .among [0, eBadParam], h' := h })
  else none

/-- which arm of the second switch a command id selects -/
inductive Cls
  | k1013 | k1002 | k1012 | k1011 | k1010 | k1014 | k1015 | k1050 | k1051 | k1001 | k1040 | k1042 | k1044 | k1045 | k1060 | k1061 | k1070 | k10A0 | k1080 | k1090 | k10B0 | k6001 | k10C0 | k10C1 | k10E0 | k10F1 | k10F0 | k1400 | k1401 | k10CD | k10CE | k10CF | k10D0 | k10D1 | k1110 | k1100 | k1101 | k1300 | other
  deriving DecidableEq, Repr

def classify (cmd : Int) : Cls :=
  if cmd = 0x1013 then .k1013
  else if cmd = 0x1002 then .k1002
  else if cmd = 0x1012 then .k1012
  else if cmd = 0x1011 then .k1011
  else if cmd = 0x1010 then .k1010
  else if cmd = 0x1014 then .k1014
  else if cmd = 0x1015 then .k1015
  else if cmd = 0x1050 then .k1050
  else if cmd = 0x1051 then .k1051
  else if cmd = 0x1001 then .k1001
  else if cmd = 0x1040 ∨ cmd = 0x1041 then .k1040
  else if cmd = 0x1042 ∨ cmd = 0x1043 then .k1042
  else if cmd = 0x1044 then .k1044
  else if cmd = 0x1045 then .k1045
  else if cmd = 0x1060 then .k1060
  else if cmd = 0x1061 then .k1061
  else if cmd = 0x1070 ∨ cmd = 0x1071 then .k1070
  else if cmd = 0x10A0 ∨ cmd = 0x10A1 then .k10A0
  else if cmd = 0x1080 then .k1080
  else if cmd = 0x1090 then .k1090
  else if cmd = 0x10B0 then .k10B0
  else if cmd = 0x6001 then .k6001
  else if cmd = 0x10C0 then .k10C0
  else if cmd = 0x10C1 then .k10C1
  else if cmd = 0x10E0 then .k10E0
  else if cmd = 0x10F1 then .k10F1
  else if cmd = 0x10F0 then .k10F0
  else if cmd = 0x1400 then .k1400
  else if cmd = 0x1401 then .k1401
  else if cmd = 0x10CD then .k10CD
  else if cmd = 0x10CE then .k10CE
  else if cmd = 0x10CF then .k10CF
  else if cmd = 0x10D0 then .k10D0
  else if cmd = 0x10D1 then .k10D1
  else if cmd = 0x1110 then .k1110
  else if cmd = 0x1100 then .k1100
  else if cmd = 0x1101 then .k1101
  else if cmd = 0x1300 ∨ cmd = 0x1302 then .k1300
  else .other

/-- the condition under which `classify` answers a given arm -/
def Cls.cond : Cls → Int → Prop
  | .k1013, cmd => cmd = 0x1013
  | .k1002, cmd => cmd = 0x1002
  | .k1012, cmd => cmd = 0x1012
  | .k1011, cmd => cmd = 0x1011
  | .k1010, cmd => cmd = 0x1010
  | .k1014, cmd => cmd = 0x1014
  | .k1015, cmd => cmd = 0x1015
  | .k1050, cmd => cmd = 0x1050
  | .k1051, cmd => cmd = 0x1051
  | .k1001, cmd => cmd = 0x1001
  | .k1040, cmd => cmd = 0x1040 ∨ cmd = 0x1041
  | .k1042, cmd => cmd = 0x1042 ∨ cmd = 0x1043
  | .k1044, cmd => cmd = 0x1044
  | .k1045, cmd => cmd = 0x1045
  | .k1060, cmd => cmd = 0x1060
  | .k1061, cmd => cmd = 0x1061
  | .k1070, cmd => cmd = 0x1070 ∨ cmd = 0x1071
  | .k10A0, cmd => cmd = 0x10A0 ∨ cmd = 0x10A1
  | .k1080, cmd => cmd = 0x1080
  | .k1090, cmd => cmd = 0x1090
  | .k10B0, cmd => cmd = 0x10B0
  | .k6001, cmd => cmd = 0x6001
  | .k10C0, cmd => cmd = 0x10C0
  | .k10C1, cmd => cmd = 0x10C1
  | .k10E0, cmd => cmd = 0x10E0
  | .k10F1, cmd => cmd = 0x10F1
  | .k10F0, cmd => cmd = 0x10F0
  | .k1400, cmd => cmd = 0x1400
  | .k1401, cmd => cmd = 0x1401
  | .k10CD, cmd => cmd = 0x10CD
  | .k10CE, cmd => cmd = 0x10CE
  | .k10CF, cmd => cmd = 0x10CF
  | .k10D0, cmd => cmd = 0x10D0
  | .k10D1, cmd => cmd = 0x10D1
  | .k1110, cmd => cmd = 0x1110
  | .k1100, cmd => cmd = 0x1100
  | .k1101, cmd => cmd = 0x1101
  | .k1300, cmd => cmd = 0x1300 ∨ cmd = 0x1302
  | .other, _ => True

/-- the second switch: the handle is valid -/
def withHandle (h : H) (cmd : Int) (size : Nat) (data : Option Mem) : Res :=
  let sh := some h
  let bad : Res := { ret := .exact eBadParam, err := some eBadParam, h' := sh }
  let false30 : Res := { ret := .exact 0, err := some eBadParam, h' := sh }
  match classify cmd with
  | .k1013 =>
    { ret := .exact (b2i h.normFloat), err := some 0, h' := some { h with normFloat := decide (size ≠ 0) } }
  | .k1002 =>
    guardEq szInfo size data sh eBadParam (some 0) fun _ => { writes := [(0, szInfo)], ret := .exact 0, err := some 0, h' := sh }
  | .k1012 =>
    { ret := .exact (b2i h.normDouble), err := some 0, h' := some { h with normDouble := decide (size ≠ 0) } }
  | .k1011 =>
    { ret := .exact (b2i h.normFloat), err := some 0, h' := sh }
  | .k1010 =>
    { ret := .exact (b2i h.normDouble), err := some 0, h' := sh }
  | .k1014 =>
    -- may run psf_calc_signal_max the first time it is switched on
    { ret := .exact (b2i h.floatIntMult), h' := some { h with floatIntMult := decide (size ≠ 0) } }
  | .k1015 =>
    { ret := .exact (b2i h.scaleIntFloat), err := some 0, h' := some { h with scaleIntFloat := decide (size ≠ 0) } }
  | .k1050 =>
    if ¬ (h.container = cAIFF ∨ h.container = cCAF ∨ h.container = cWAV ∨ h.container = cWAVEX ∨ h.container = cRF64) then
      { ret := .exact 0, err := some 0, h' := sh }
    else if ¬ (h.codec = codFLOAT ∨ h.codec = codDOUBLE) then { ret := .exact 0, err := some 0, h' := sh }
    else if ¬ writable h then { ret := .exact 0, err := some 0, h' := sh }
    else if h.haveWritten then { ret := .exact 0, err := some eHasData, h' := sh }
    else { ret := .exact size, h' := some (rewriteHeader { h with hasPeak := if size = 0 ∧ h.hasPeak then false else true }) }
  | .k1051 =>
    { ret := .exact 0, err := some 0, h' := sh }
  | .k1001 =>
    stringOut h.logLen size data sh (some 0) eBadParam
  | .k1040 =>
    guardEq szDouble size data sh eBadParam (some eBadParam) fun _ => calcSignalMax false h
  | .k1042 =>
    guardEq (szDouble * h.channels) size data sh eBadParam (some eBadParam) fun _ =>
      if ¬ h.seekable then { ret := .exact eNotSeekable, err := some eNotSeekable, h' := sh }
      else if ¬ canRead h then { ret := .exact eUnimplemented, err := some eUnimplemented, h' := sh }
      else { writes := [(0, szDouble * h.channels)], ret := .exact 0, h' := sh }
  | .k1044 =>
    guardEq szDouble size data sh 0 (some eBadParam) fun _ =>
      if h.hasPeak then { writes := [(0, szDouble)], ret := .exact 1, err := some 0, h' := sh }
      else { ret := .exact 0, err := some 0, h' := sh }
  | .k1045 =>
    guardEq (szDouble * h.channels) size data sh 0 (some eBadParam) fun _ =>
      if h.hasPeak then { writes := [(0, szDouble * h.channels)], ret := .exact 1, err := some 0, h' := sh }
      else { ret := .exact 0, err := some 0, h' := sh }
  | .k1060 =>
    { ret := .exact 0, h' := some (rewriteHeader h) }
  | .k1061 =>
    { ret := .exact (b2i (decide (size ≠ 0))), err := some 0, h' := some { h with autoHeader := decide (size ≠ 0) } }
  | .k1070 =>
    { ret := .exact 0, err := some 0, h' := sh }
  | .k10A0 =>
    guardEq szDither size data sh eBadParam (some eBadParam) fun _ =>
      { reads := [(0, szDither)], ret := .exact 0, h' := some { h with metaEpoch := h.metaEpoch + 1 } }
  | .k1080 =>
    if ¬ writable h then { ret := .exact 1, err := some 0, h' := sh }
    -- since 7f90196: SF_VIRTUAL_IO has no truncate callback; refused before datasize / data are looked at and before anything changes
    else if h.virtualIo then { ret := .exact 1, err := some 0, h' := sh }
    else if size ≠ szCount then { ret := .exact 1, err := some 0, h' := sh }
    else match data with
      | none => false30
      | some _ => { reads := [(0, szCount)], ret := .among [0, 1, -1], h' := some (rewriteHeader { h with metaEpoch := h.metaEpoch + 1 }) }
  | .k1090 =>
    guardEq szCount size data sh eBadParam (some eBadParam) fun _ =>
      if h.container ≠ cRAW then bad
      else { reads := [(0, szCount)], ret := .exact 0, h' := some { h with metaEpoch := h.metaEpoch + 1 } }
  | .k10B0 =>
    guardEq szEmbed size data sh eBadParam (some eBadParam) fun _ => { writes := [(0, szEmbed)], ret := .exact 0, err := some 0, h' := sh }
  | .k6001 =>
    if h.codec = codFLOAT ∨ h.codec = codDOUBLE then
      -- float32_init / double64_init run again (they recompute sf.frames from the data length)
      { ret := .exact 0, err := some 0, h' := some { h with ieeeReplace := decide (size ≠ 0), metaEpoch := h.metaEpoch + 1 } }
    else { ret := .exact eBadParam, err := some eBadParam, h' := some { h with ieeeReplace := decide (size ≠ 0) } }
  | .k10C0 =>
    { ret := .exact (b2i (decide (size ≠ 0))), err := some 0, h' := some { h with clipping := decide (size ≠ 0) } }
  | .k10C1 =>
    { ret := .exact (b2i h.clipping), err := some 0, h' := sh }
  | .k10E0 =>
    guardEq szLoop size data sh 0 (some eBadParam) fun _ =>
      if h.hasLoop then { writes := [(0, szLoop)], ret := .exact 1, err := some 0, h' := sh }
      else { ret := .exact 0, err := some 0, h' := sh }
  | .k10F1 =>
    if ¬ (h.container = cWAV ∨ h.container = cWAVEX ∨ h.container = cRF64) then { ret := .exact 0, err := some 0, h' := sh }
    else if ¬ writable h then { ret := .exact 0, err := some 0, h' := sh }
    else if h.bext = none ∧ h.haveWritten then { ret := .exact 0, err := some eHasData, h' := sh }
    else lateVar h.haveWritten (varSet bextSizeOff bextFixed bextCap eBextSize eBextBig h size data { h with bext := some bextFixed, metaEpoch := h.metaEpoch + 1 })
  | .k10F0 =>
    varGet h.bext h size data
  | .k1400 =>
    if ¬ (h.container = cWAV ∨ h.container = cRF64) then { ret := .exact 0, err := some 0, h' := sh }
    else if ¬ writable h then { ret := .exact 0, err := some 0, h' := sh }
    else if h.cart = none ∧ h.haveWritten then { ret := .exact 0, err := some eHasData, h' := sh }
    else lateVar h.haveWritten (varSet cartSizeOff cartFixed cartCap eCartSize eCartBig h size data { h with cart := some cartFixed, metaEpoch := h.metaEpoch + 1 })
  | .k1401 =>
    varGet h.cart h size data
  | .k10CD =>
    guardEq szInt size data sh 0 (some eBadParam) fun _ =>
      match h.cues with
      | some _ => { writes := [(0, szInt)], ret := .exact 1, err := some 0, h' := sh }
      | none => { ret := .exact 0, err := some 0, h' := sh }
  | .k10CE =>
    match data with
    | none => false30
    | some _ =>
      if size < szInt then false30
      else match h.cues with
        | none => { ret := .exact 0, err := some 0, h' := sh }
        | some c => { writes := [(0, szInt + szCuePoint * min ((size - szInt) / szCuePoint) c)], ret := .exact 1, err := some 0, h' := sh }
  | .k10CF =>
    if h.haveWritten then { ret := .exact 0, err := some eHasData, h' := sh }
    else match data with
      | none => false30
      | some m =>
        if size < szInt then false30
        else
          -- since "fix: a second SFC_SET_CUE returned SF_TRUE but kept the first set of cue points" the block is always read and
          -- replaces the cue points present (before: `some _ => ret 1` without touching the data)
          let c := rd32 m.byte 0
          if c ≤ (size - szInt) / szCuePoint then
            { reads := [(0, szInt), (0, szInt + szCuePoint * c)], ret := .exact 1, err := some 0,
              h' := some { h with cues := some c, metaEpoch := h.metaEpoch + 1 } }
          else { reads := [(0, szInt)], ret := .exact 0, err := some eMalloc, h' := sh }
  | .k10D0 =>
    guardEq szInstrument size data sh 0 (some eBadParam) fun _ =>
      if h.hasInstrument then { writes := [(0, szInstrument)], ret := .exact 1, err := some 0, h' := sh }
      else { ret := .exact 0, err := some 0, h' := sh }
  | .k10D1 =>
    if h.haveWritten then { ret := .exact 0, err := some eHasData, h' := sh }
    else guardEq szInstrument size data sh 0 (some eBadParam) fun _ =>
      { reads := [(0, szInstrument)], ret := .exact 1, err := some 0, h' := some { h with hasInstrument := true, metaEpoch := h.metaEpoch + 1 } }
  | .k1110 =>
    { ret := .exact (b2i h.endswap), err := some 0, h' := sh }
  | .k1100 =>
    if ¬ h.hasChanMap then { ret := .exact 0, err := some 0, h' := sh }
    else guardEq (szInt * h.channels) size data sh 0 (some eBadParam) fun _ =>
      { writes := [(0, size)], ret := .exact 1, err := some 0, h' := sh }
  | .k1101 => chmapSet false h size data
  | .k1300 =>
    -- reads a double, then re-enters sf_command with SFC_SET_COMPRESSION_LEVEL / SFC_SET_OGG_PAGE_LATENCY
    guardEq szDouble size data sh 0 none fun _ =>
      let r := containerCommand h (if cmd = 0x1300 then 0x1301 else 0x1303) szDouble
      { r with reads := [(0, szDouble)] }
  | .other => containerCommand h cmd size

/-- `sf_command (sndfile, cmd, data, datasize)` for `datasize ≥ 0` -/
def run (g : G) (h : Option H) (cmd : Int) (size : Nat) (data : Option Mem) : Res :=
  match preHandle g h cmd size data with
  | some r => r
  | none =>
    match h with
    | none =>
      if cmd = 0x1001 then stringOut g.gLogLen size data none none eBadParam
      else { ret := .exact 0, err := some 10, h' := none }      -- SFE_BAD_SNDFILE_PTR
    | some hh => withHandle hh cmd size data

/-! ## predicates used by the property -/

/-- the part of the handle C17 speaks about (position, audio, settings, metadata): everything but the
    length of the diagnostic log, which grows when a handle without a container command handler logs
    an unknown command id -/
def H.core (h : H) : H := { h with logLen := 0 }

def sameState (a b : Option H) : Bool := a.map H.core = b.map H.core

def rangeIn (size : Nat) (r : Nat × Nat) : Bool := decide (r.1 ≤ r.2 ∧ r.2 ≤ size)

/-- every byte range touched lies in [0, datasize) and NULL is not dereferenced -/
def Res.inBounds (r : Res) (size : Nat) : Bool :=
  r.reads.all (rangeIn size) && r.writes.all (rangeIn size) && !r.derefNull

def Res.retDefined (r : Res) : Bool := r.ret ≠ .undef

/-- a string command given a non-NULL buffer of datasize ≥ 1 writes a NUL inside it: the model's write
    range ends with the terminator at index `hi - 1 < datasize` -/
def Res.terminates (r : Res) (size : Nat) : Bool :=
  match r.writes, r.ret with
  | [(0, hi)], .exact k => decide (hi = k.toNat + 1 ∧ hi ≤ size ∧ 0 ≤ k)
  | _, _ => false

/-! ## the rules before the four repairs (history; nothing above uses them) -/

/-- before ff9108b: `snprintf (data, size, …) ; return strlen (data)` also for size 0 — nothing is written and
    strlen walks the caller's memory -/
def oldStringOut (l size : Nat) (data : Option Mem) (h : Option H) (errNull : Option Nat) (retNull : Int) : Res :=
  match data with
  | none => { ret := .exact retNull, err := errNull, h' := h }
  | some m =>
    if size = 0 then { reads := [(0, firstNul m.byte m.len 0 + 1)], ret := .undef, h' := h }
    else
      let k := min l (size - 1)
      { writes := [(0, k + 1)], reads := [(0, k + 1)], ret := .exact k, err := some 0, h' := h }

/-- before 8501a42: src[1] is looked at whenever src[0] is CR or LF, also when src[0] is the last byte (n = 1) -/
def oldCrlfEnd (m : Nat → Nat) : Nat → Nat → Nat → Nat
  | 0, i, _ => i
  | 1, i, room =>
    if room = 0 then i
    else if m i = 13 ∨ m i = 10 then i + 2 else i + 1
  | n + 2, i, room =>
    if room = 0 then i
    else if m i = 13 ∨ m i = 10 then
      if (m i = 13 ∧ m (i + 1) = 10) ∨ (m i = 10 ∧ m (i + 1) = 13) then
        max (i + 2) (oldCrlfEnd m n (i + 2) (room - 2))
      else max (i + 2) (oldCrlfEnd m (n + 1) (i + 1) (room - 2))
    else max (i + 1) (oldCrlfEnd m (n + 1) (i + 1) (room - 1))

/-- before dc376ca (and 8501a42): the length field is read before datasize is compared with anything -/
def oldVarSet (sizeOff fixed cap eSize eBig : Nat) (h : H) (size : Nat) (data : Option Mem) (h2 : H) : Res :=
  match data with
  | none => { ret := .exact 0, err := some 0, h' := some h }
  | some m =>
    let n := rd32 m.byte sizeOff
    if fixed + n > size then { reads := [(sizeOff, sizeOff + 4)], ret := .exact 0, err := some eSize, h' := some h }
    else if size ≥ cap then { reads := [(sizeOff, sizeOff + 4)], ret := .exact 0, err := some eBig, h' := some h }
    else
      { reads := [(sizeOff, sizeOff + 4), (0, fixed), (fixed, oldCrlfEnd m.byte (size - fixed) fixed (cap - fixed - 2))],
        ret := .exact 1, h' := some (rewriteHeader h2) }

/-- before 604e547: `psf_calc_signal_max` / `psf_calc_max_all_channels` saved the position with
    `sf_seek (0, SEEK_CUR)`, which in read/write mode seeks *both* cursors to the write cursor, and restored
    it with `sf_seek (position, SEEK_SET)` -/
def oldAfterCalc (h : H) : H :=
  match h.mode with
  | .rw => { h with readCur := h.writeCur }
  | _ => h

end Sf.Command
