/-
  Sf.ErrApi — the three public calls no campaign entered (round 9 covgap): sf_perror, sf_error_str, sf_write_sync (src/sndfile.c).

  * sf_error_str (sndfile, str, maxlen): str == NULL -> SFE_INTERNAL; otherwise `snprintf (str, maxlen, "%s", sf_error_number (errnum))`
    with errnum = sf_errno (NULL handle) or psf->error, returns SFE_NO_ERROR.  snprintf is a BOUNDED COPY: at most maxlen bytes are
    written, the last written byte is NUL when maxlen > 0, nothing is written when maxlen = 0.
  * sf_perror prints sf_error_number (errnum) and a newline to stderr, returns SFE_NO_ERROR.
  * sf_write_sync: NULL -> nothing; otherwise psf_fsync (fsync on the descriptor in write / rdwr mode, nothing in read mode and nothing
    the library can observe afterwards).
  None of the three writes psf->error, sf_errno, a position or the file: they are the identity on the handle state (`St`).
-/
namespace Sf.ErrApi

/-- what the three calls could touch: the handle's sticky error, the global sf_errno, positions and the file's bytes -/
structure St where
  error : Int
  sfErrno : Int
  rpos : Int
  wpos : Int
  file : List Nat
  deriving Repr, DecidableEq

/-- the error number the calls look up: sf_errno for the NULL handle, psf->error otherwise -/
def errnumOf (isNull : Bool) (s : St) : Int := if isNull then s.sfErrno else s.error

/-- `snprintf (buf, len, "%s", msg)` on the caller's buffer: the bytes of `buf` after the call -/
def boundedCopy (msg : List Nat) (len : Nat) (buf : List Nat) : List Nat :=
  if len = 0 then buf
  else
    let body := msg.take (len - 1)
    body ++ [0] ++ buf.drop (body.length + 1)

/-- sf_error_str: (return value, buffer afterwards, state afterwards). `SFE_INTERNAL` is passed in (generated constant). -/
def sfErrorStr (internal : Int) (msgOf : Int → List Nat) (isNull : Bool) (s : St) (buf : Option (List Nat)) (len : Nat) : Int × Option (List Nat) × St :=
  match buf with
  | none => (internal, none, s)
  | some b => (0, some (boundedCopy (msgOf (errnumOf isNull s)) len b), s)

/-- sf_perror: (return value, bytes written to stderr, state afterwards) -/
def sfPerror (msgOf : Int → List Nat) (isNull : Bool) (s : St) : Int × List Nat × St :=
  (0, msgOf (errnumOf isNull s) ++ [10], s)

/-- sf_write_sync -/
def sfWriteSync (_isNull : Bool) (s : St) : St := s

end Sf.ErrApi
