/-
  SfModel.RoutesId3 — psf_fseek / psf_ftell after the repair of KF-C14-ID3-VIO-PIPE, and id3_skip.

  guess_file_type finds "ID3", id3_skip () consumes the tag (10 + size bytes) and adds its length to psf->fileoffset, the container
  parser then sees the sound file at position 0.  On descriptors psf_fseek / psf_ftell have always counted from psf->fileoffset
  (Sf.Routes.fseek / ftell: the embedded-file arithmetic); through SF_VIRTUAL_IO and on a pipe they ignored it (the branches of
  Sf.Routes.fseek / ftell, which stay as the rule before the repair and as the rule for fileoffset = 0, where both agree:
  `fseekT_no_tag`, `ftellT_no_tag` in SfProps/C14Id3.lean).  `fseekT` / `ftellT` are the functions as they are now.
  Core Lean only.
-/
import SfModel.Routes
namespace Sf.RoutesId3
open Sf Sf.Routes

/-- psf_fseek (repaired) -/
def fseekT (sh : Shim) (w : World) (off : Int) (whence : Nat) : R :=
  if sh.virtualIo then
    let r := vioSeek w (if whence = 0 then off + sh.fileoffset else off) whence
    { ret := if r.1 < 0 then r.1 else r.1 - sh.fileoffset, sh := sh, w := r.2 }
  else fseek sh w off whence          -- pipe: `return offset` (only the log line compares with pipeoffset - fileoffset)

/-- psf_ftell (repaired) -/
def ftellT (sh : Shim) (w : World) : R :=
  if sh.virtualIo then { ret := (w.mpos : Int) - sh.fileoffset, sh := sh, w := w } else
  if sh.isPipe then { ret := sh.pipeoffset - sh.fileoffset, sh := sh, w := w } else
  ftell sh w

/-- id3_skip: the tag of `n` bytes has been consumed; `psf->fileoffset += n` -/
def skipTag (sh : Shim) (n : Nat) : Shim := { sh with fileoffset := sh.fileoffset + n }

/-- id3_skip's test "is there a file behind the tag?" — `filelength` is the length of the file as it starts at `fileoffset`
    (psf_get_filelen: an embedded file does not include what lies in front of it).  `tagFits` is the code (repair of
    KF-C14-ID3-EMBEDDED), `tagFitsOld` compared the absolute position. -/
def tagFits (_fileoffset len filelength : Nat) : Bool := decide (len < filelength)
def tagFitsOld (fileoffset len filelength : Nat) : Bool := decide (fileoffset + len < filelength)

/-- sf_seek's SEEK_SET on a sample-granular file followed by one read of `m` bytes, with either seek function:
    (position returned, bytes delivered) -/
def seekRead (seekFn : Shim → World → Int → Nat → R) (sh : Shim) (w : World) (p : Nat) (m : Nat) : Int × List Byte :=
  let a := seekFn sh w (p : Int) 0
  let b := fread a.sh a.w 1 (m : Int)
  (a.ret, b.data)

end Sf.RoutesId3
