/-
  SfModel.PeakLoc — WHERE the PEAK chunk of a WAV / WAVEX / RF64 / AIFF file sits and WHO rewrites it at the close of an
  SFM_WRITE / SFM_RDWR session (chunk level; the chunk's bytes are Sf.PeakExact, its values Sf.Peak).

      *_read_header :  case PEAK_MARKER : … peak_loc = ((parsestage & HAVE_data) == 0) ? SF_PEAK_START : SF_PEAK_END ;
      *_write_header:  if (psf->peak_info != NULL && psf->peak_info->peak_loc == SF_PEAK_START)  wavlike_write_peak_chunk (psf) ;
      *_write_tailer:  seek to the end of the audio ; pad byte ;
                       if (psf->peak_info != NULL && psf->peak_info->peak_loc == SF_PEAK_END)    wavlike_write_peak_chunk (psf) ;
                       if (psf->strings.flags & SF_STR_LOCATE_END)                              wavlike_write_strings (psf, SF_STR_LOCATE_END) ;
      *_close       :  tailer ; (SFM_RDWR: truncate the file behind the tailer) ; header

  Core Lean only.
-/
namespace Sf.PeakLoc

inductive Loc | start | atEnd
deriving Repr, DecidableEq

/-- (value bits, position) per channel -/
abbrev Peaks := List (Nat × Nat)

inductive Ck
  | fmt
  | peak (p : Peaks)
  | data
  | list            -- LIST / INFO strings
  | other (id : Nat)
deriving Repr, DecidableEq

/-- the parser: the PEAK data of a chunk list and its location (the LAST PEAK chunk wins, as `wavlike_read_peak_chunk` replaces
    `psf->peak_info`) -/
def parseGo : Bool → Option (Loc × Peaks) → List Ck → Option (Loc × Peaks)
  | _, acc, [] => acc
  | seen, _, .peak p :: r => parseGo seen (some (if seen then .atEnd else .start, p)) r
  | _, acc, .data :: r => parseGo true acc r
  | seen, acc, _ :: r => parseGo seen acc r

def parse (cs : List Ck) : Option (Loc × Peaks) := parseGo false none cs

/-- a writer: does its tailer have the PEAK clause? (wav.c, aiff.c: yes) -/
structure Writer where
  tailerPeak : Bool

def header (pk : Option (Loc × Peaks)) : List Ck :=
  [.fmt] ++ (match pk with | some (.start, p) => [.peak p] | _ => []) ++ [.data]

def tailer (w : Writer) (pk : Option (Loc × Peaks)) (stringsAtEnd : Bool) : List Ck :=
  (match pk with | some (.atEnd, p) => if w.tailerPeak then [.peak p] else [] | _ => []) ++ (if stringsAtEnd then [.list] else [])

/-- the chunk list of the closed file: whatever stood behind the audio before is overwritten / truncated -/
def closeFile (w : Writer) (pk : Option (Loc × Peaks)) (stringsAtEnd : Bool) : List Ck :=
  header pk ++ tailer w pk stringsAtEnd

def peakCount (cs : List Ck) : Nat := (cs.filter fun c => match c with | .peak _ => true | _ => false).length

end Sf.PeakLoc
