/-
  SfModel.BlockFile — the sf_read_* / sf_readf_* / sf_seek wrappers of sndfile.c around a codec's read function,
  for handles opened for reading on a block codec (PAF24, SDS) or on a byte-stream codec with running state
  (XI DPCM, VOX), and the write side as one function per codec: caller items of every call -> bytes of the data
  region.  Sequential write handles only (no seek while writing, no RDWR).
-/
import SfModel.Block
import SfModel.BlockConv
import SfModel.Paf24
import SfModel.Sds
import SfModel.Dpcm
import SfModel.Oki
namespace Sf.Block

/-! ## read handle on a block codec -/

structure RHandle where
  r      : Reader
  st     : RState
  pos    : Nat          -- psf->read_current
  frames : Nat          -- psf->sf.frames

def RHandle.open (r : Reader) (frames : Nat) : RHandle := ⟨r, r.init, 0, frames⟩

/-- `sf_read_T` (items, a multiple of the channel count): (handle, the cells of the caller's buffer that were
    written — a prefix of the n requested, the rest keeps its old contents —, return value) -/
def RHandle.read (h : RHandle) (chunk n : Nat) : RHandle × List Int × Nat :=
  if n = 0 then (h, [], 0)
  else if h.pos ≥ h.frames then (h, zeros n, 0)
  else
    let (st, d, count) := h.r.readChunked chunk (n + 1) h.st n [] 0
    if count ≤ (h.frames - h.pos) * h.r.ch then ({ h with st := st, pos := h.pos + count / h.r.ch }, d, count)
    else
      let c := (h.frames - h.pos) * h.r.ch
      ({ h with st := st, pos := h.frames }, d.take c ++ zeros (n - c), c)

/-- `sf_seek (…, SEEK_SET)` to frame k (0 ≤ k ≤ frames checked by the caller) -/
def RHandle.seek (h : RHandle) (k : Nat) : RHandle := { h with st := h.r.seek k, pos := k }

/-! ## write side of the block codecs: all calls of a handle, then close -/

/-- one call: caller values already converted to the codec's ints -/
def wcall (w : Writer σ) (chunk : Nat) (st : WState σ) (xs : List Int) : WState σ :=
  let n := xs.length
  w.writeChunked chunk (n + 1) st xs n

def paf24Data (ch : Nat) (big : Bool) (calls : List (Nat × List Int)) : List Byte :=
  let w := Paf24.writer ch big
  let st := calls.foldl (fun st (c : Nat × List Int) => wcall w c.1 st c.2) (w.init (List.replicate ch (0, 0)))
  (w.close false st).bytes

/-- whole SDS file: header (written last, with the number of items passed to the write calls) + packets -/
def sdsFile (bitwidth sr : Nat) (calls : List (Nat × List Int)) : List Byte :=
  let w := Sds.writer (Sds.widthOf bitwidth)
  let st := calls.foldl (fun st (c : Nat × List Int) => wcall w c.1 st c.2) (w.init 0)
  let total := calls.foldl (fun a (c : Nat × List Int) => a + c.2.length) 0
  Sds.header bitwidth sr total ++ (w.close true st).bytes

/-! ## byte-stream codecs with running state -/

structure DpcmR where
  wide   : Bool
  rest   : List Byte
  last16 : Int := 0
  pos    : Nat := 0
  frames : Nat

def DpcmR.open (wide : Bool) (data : List Byte) : DpcmR :=
  { wide := wide, rest := data, frames := data.length / (if wide then 2 else 1) }

/-- `sf_read_T`: returns the items delivered (cells beyond them are left untouched) and the return value -/
def DpcmR.read (h : DpcmR) (c : Conv) (ty : Ty) (n : Nat) : DpcmR × Option (List Int) × Nat :=
  if n = 0 then (h, some [], 0)
  else if h.pos ≥ h.frames then (h, none, 0)             -- memset 0 of the whole request
  else
    let bw := if h.wide then 2 else 1
    let k := min n (h.rest.length / bw)
    let (l, vs) := Dpcm.read h.wide c ty h.last16 (h.rest.take (k * bw))
    ({ h with rest := h.rest.drop (k * bw), last16 := l, pos := h.pos + k }, some vs, k)

structure VoxR where
  rest   : List Byte
  st     : Oki.St := {}
  carry  : Option Int := none          -- VOX_PRIVATE.have_carry / carry: the second sample of the byte an odd call ended in
  pos    : Nat := 0
  frames : Nat

def VoxR.open (data : List Byte) : VoxR := { rest := data, frames := 2 * data.length }

/-- `vox_read_s/i/f/d` staging + the wrapper; `none` = whole request zero-filled -/
def voxReadCall (chunk : Nat) : Nat → Oki.St → Option Int → List Byte → Nat → Oki.St × Option Int × List Byte × List Int × Nat
  | 0, st, c, bytes, _ => (st, c, bytes, [], 0)
  | fuel + 1, st, c, bytes, n =>
    if n = 0 then (st, c, bytes, [], 0)
    else
      let rc := if chunk = 0 then n else min chunk n
      let (s1, c1, rest, xs, cnt) := Oki.readBlock (rc + 1) st c bytes rc
      if cnt ≠ rc then (s1, c1, rest, xs, cnt)
      else
        let (s2, c2, rest2, ys, t) := voxReadCall chunk fuel s1 c1 rest (n - rc)
        (s2, c2, rest2, xs ++ ys, cnt + t)

def VoxR.read (h : VoxR) (c : Conv) (ty : Ty) (n : Nat) : VoxR × Option (List Int) × Nat :=
  if n = 0 then (h, some [], 0)
  else if h.pos ≥ h.frames then (h, none, 0)
  else
    let (s, cy, rest, xs, cnt) := voxReadCall (Oki.chunkOf ty) (n + 1) h.st h.carry h.rest n
    let ret := if cnt ≤ h.frames - h.pos then cnt else h.frames - h.pos
    ({ h with rest := rest, st := s, carry := cy, pos := if cnt ≤ h.frames - h.pos then h.pos + cnt else h.frames },
     some ((xs.take ret).map (Oki.toCaller c ty)), ret)

end Sf.Block
