/-
  SFC_TEST_IEEE_FLOAT_REPLACE on a handle that has already transferred audio (src/sndfile.c, case
  SFC_TEST_IEEE_FLOAT_REPLACE; src/float32.c float32_init, src/double64.c double64_init).

  The command re-runs the codec's init function to install the other set of conversion functions.  The tail of
  both init functions also derives `psf->datalength` and `psf->sf.frames` from `psf->filelength`, which sf_open
  records and the write calls never update.  Since the round-9 repair the command keeps both values (`Rule.current`);
  before it the handle fell back to the length the file had at open (`Rule.old`): 0 frames for a new file, and the
  close functions that serialise `psf->sf.frames` (wav_close, rf64_close, caf_close) wrote that into the header.

  `P` holds exactly the fields the init tail reads and writes plus the two the sf_write_* wrappers maintain.
-/
namespace Sf.IeeeReinit

structure P where
  filelength : Int      -- recorded by sf_open; not maintained by the write calls
  dataoffset : Int
  dataend : Int
  blockwidth : Int
  datalength : Int
  frames : Int          -- psf->sf.frames
  writeCur : Int        -- psf->write_current
deriving Repr, DecidableEq, Inhabited

/-- `psf->datalength` as the init tail computes it -/
def initLen (p : P) : Int :=
  if p.filelength > p.dataoffset then (if p.dataend > 0 then p.dataend - p.dataoffset else p.filelength - p.dataoffset) else 0

/-- the tail of float32_init / double64_init -/
def codecInit (p : P) : P :=
  { p with datalength := initLen p, frames := if p.blockwidth > 0 then initLen p / p.blockwidth else 0 }

inductive Rule | current | old
deriving Repr, DecidableEq

/-- the command on a FLOAT / DOUBLE handle -/
def command : Rule → P → P
  | .old, p => codecInit p
  | .current, p => { codecInit p with frames := p.frames, datalength := p.datalength }

/-- sf_write_* accepting `k` frames: `write_current += k ; if (write_current > sf.frames) sf.frames = write_current` -/
def write (p : P) (k : Nat) : P :=
  let w := p.writeCur + k
  { p with writeCur := w, frames := if w > p.frames then w else p.frames }

inductive Op
  | write (k : Nat)
  | cmd
deriving Repr, DecidableEq

def step (r : Rule) (p : P) : Op → P
  | .write k => write p k
  | .cmd => command r p

def run (r : Rule) (p : P) (ops : List Op) : P := ops.foldl (step r) p

/-- the frames the write calls of a history accepted -/
def written : List Op → Nat
  | [] => 0
  | .write k :: t => k + written t
  | .cmd :: t => written t

/-- a handle whose write pointer stands at the end of the audio (every fresh SFM_WRITE handle: both 0; every fresh
    SFM_RDWR handle: both the frame count of the file) -/
def AtEnd (p : P) : Prop := p.writeCur = p.frames
instance (p : P) : Decidable (AtEnd p) := by unfold AtEnd; infer_instance

/-- sf_open (SFM_WRITE) of a new FLOAT file of `ch` channels behind a header of `off` bytes -/
def openNew (ch off : Nat) : P :=
  { filelength := 0, dataoffset := off, dataend := 0, blockwidth := 4 * ch, datalength := 0, frames := 0, writeCur := 0 }

/-- sf_open (SFM_RDWR) of a FLOAT file of `n` frames -/
def openOld (ch off n : Nat) : P :=
  { filelength := off + 4 * ch * n, dataoffset := off, dataend := 0, blockwidth := 4 * ch, datalength := 4 * ch * n, frames := n, writeCur := n }

end Sf.IeeeReinit
