/-
  SfModel.W64 — the Sony Wave64 container (src/w64.c, the 'fmt ' reader of src/wavlike.c) for the
  sample-granular encodings, byte exact: `hdr` (w64_write_header), no tailer (w64_close only rewrites the
  header: the data chunk is NOT padded to 8 bytes), `parse` (guess_file_type, w64_read_header,
  wavlike_read_fmt_chunk, the codec's init, validate_sfinfo / validate_psf), and the small write session.

  Every chunk size field counts the 24-byte chunk header (16-byte GUID + 8-byte size).

  Not described (parse answers `unmodelled`): WAVE_FORMAT_EXTENSIBLE and the block codecs, bit widths the
  writer never produces, chunk sizes 1..23, anything after the 'data' chunk other than what ends the scan.
-/
import SfModel.Basic
import SfModel.HdrRead
namespace Sf.W64
open Sf.HdrRd

structure Cfg where
  codec : Nat       -- SF_FORMAT subtype code
  ch : Nat
  sr : Nat
deriving Repr, DecidableEq, Inhabited

def codecs : List Nat := [0x05, 0x02, 0x03, 0x04, 0x06, 0x07, 0x10, 0x11]

def bytewidth : Nat → Nat
  | 0x05 => 1 | 0x02 => 2 | 0x03 => 3 | 0x04 => 4 | 0x06 => 4 | 0x07 => 8 | 0x10 => 1 | 0x11 => 1 | _ => 0

def Cfg.bw (c : Cfg) : Nat := bytewidth c.codec * c.ch
def Cfg.wf (c : Cfg) : Prop := c.codec ∈ codecs ∧ 1 ≤ c.ch ∧ c.ch ≤ 1024 ∧ 1 ≤ c.sr ∧ c.sr ≤ 0x7FFFFFFF
instance (c : Cfg) : Decidable c.wf := by unfold Cfg.wf; infer_instance

/-! ## writer -/

def guidTail1 : List Byte := [0x2E, 0x91, 0xCF, 0x11, 0xA5, 0xD6, 0x28, 0xDB, 0x04, 0xC1, 0x00, 0x00]
def guidTail2 : List Byte := [0xF3, 0xAC, 0xD3, 0x11, 0x8C, 0xD1, 0x00, 0xC0, 0x4F, 0x8E, 0xDB, 0x8A]
def riffG : List Byte := [114, 105, 102, 102] ++ guidTail1     -- 'riff'
def waveG : List Byte := [119, 97, 118, 101] ++ guidTail2      -- 'wave'
def fmtG  : List Byte := [102, 109, 116, 32] ++ guidTail2      -- 'fmt '
def factG : List Byte := [102, 97, 99, 116] ++ guidTail2       -- 'fact'
def dataG : List Byte := [100, 97, 116, 97] ++ guidTail2       -- 'data'

def formatTag : Nat → Nat
  | 0x06 | 0x07 => 3 | 0x10 => 7 | 0x11 => 6 | _ => 1
def hasFact (codec : Nat) : Bool := codec == 0x06 || codec == 0x07 || codec == 0x10 || codec == 0x11
def bitsOf (codec : Nat) : Nat := if codec == 0x10 || codec == 0x11 then 8 else 8 * bytewidth codec

def le (n : Nat) (v : Int) : List Byte := leBytes n (wrapU (8 * n) v)

def hdrLen (c : Cfg) : Nat := 80 + (if hasFact c.codec then 32 else 0) + 24

/-- `w64_write_header` for given psf->filelength, psf->datalength, psf->sf.frames -/
def hdrRaw (c : Cfg) (filelength datalength frames : Int) : List Byte :=
  riffG ++ le 8 filelength ++ waveG ++ fmtG ++ le 8 40 ++
    le 2 (formatTag c.codec) ++ le 2 c.ch ++ le 4 c.sr ++ le 4 (c.sr * bytewidth c.codec * c.ch) ++
    le 2 (bytewidth c.codec * c.ch) ++ le 2 (bitsOf c.codec) ++
    (if hasFact c.codec then factG ++ le 8 32 ++ le 8 frames else []) ++
    dataG ++ le 8 (datalength + 24)

/-- the header of a closed (or updated) file holding `frames` frames -/
def hdr (c : Cfg) (frames : Nat) : List Byte :=
  hdrRaw c ((hdrLen c + frames * c.bw : Nat) : Int) ((frames * c.bw : Nat) : Int) frames

/-- nothing follows the audio data -/
def tail (_c : Cfg) (_frames : Nat) : List Byte := []

def image (c : Cfg) (frames : Nat) (data : List Byte) : List Byte := hdr c frames ++ data ++ tail c frames

/-! ## reader -/

structure Info where
  fmtWord : Nat
  ch : Nat
  sr : Int
  frames : Nat
  dataoffset : Nat
  datalength : Nat
deriving Repr, DecidableEq, Inhabited

inductive ParseRes
  | ok (i : Info)
  | err
  | unmodelled
deriving Repr, DecidableEq, Inhabited

/-- the 'h' conversion: XOR of byte k shifted left by k -/
def hash16 (b : List Byte) : Nat := (List.range 16).foldl (fun acc k => acc ^^^ (b.getD k 0 <<< k)) 0

def riffH : Nat := hash16 riffG
def waveH : Nat := hash16 waveG
def fmtH  : Nat := hash16 fmtG
def factH : Nat := hash16 factG
def dataH : Nat := hash16 dataG
def acidH : Nat := hash16 [0x6D, 0x07, 0x1C, 0xEA, 0xA3, 0xEF, 0x78, 0x4C, 0x90, 0x57, 0x7F, 0x79, 0xEE, 0x25, 0x2A, 0xAE]

/-- 16-byte marker: the hash (0 on a short read) and the count `header_read` returned -/
def rdHash (bs : List Byte) (r : Rd) : Nat × Nat × Rd :=
  match rdN bs r 16 with
  | (some b, n, r') => (hash16 b, n, r')
  | (none, n, r') => (0, n, r')

structure Scan where
  haveRiff : Bool := false
  haveWave : Bool := false
  haveFmt : Bool := false
  tag : Nat := 0
  ch : Nat := 0
  sr : Nat := 0
  bits : Nat := 0
  bytew : Nat := 0
  dataoffset : Int := -1
deriving Repr, DecidableEq, Inhabited

inductive Walk
  | done (s : Scan)
  | err
  | unmodelled
deriving Repr, DecidableEq, Inhabited

/-- the `while (! done)` loop of w64_read_header -/
def walk (bs : List Byte) : Nat → Rd → Scan → Walk
  | 0, _, _ => .unmodelled
  | fuel+1, r, s =>
    let flen : Int := bs.length
    let r := if r.indx % 8 != 0 then skip bs r (8 - r.indx % 8 : Nat) else r
    let (marker, n1, r) := rdHash bs r
    let (size, r) :=
      match rdN bs r 8 with
      | (some b, n, r') => ((ofLE b, n), r')
      | (none, n, r') => ((0, n), r')
    if n1 + size.2 == 0 then .done s else
    let csize : Int := sext 64 size.1
    -- what follows the switch, for a chunk that leaves `csize` (possibly reset to 0) behind
    let fin (r : Rd) (s : Scan) (csize : Int) : Walk :=
      if csize ≥ flen then .done s
      else if (ftell bs r : Int) ≥ flen - 8 then .done s
      else if csize > 0 ∧ csize < 0xffff0000 then
        if csize < 24 ∨ (r.indx : Int) + csize > cacheLimit then .unmodelled
        else walk bs fuel (skip bs r (csize - 24)) s
      else walk bs fuel r s
    if marker == riffH then
      if s.haveRiff ∨ s.haveWave ∨ s.haveFmt then .err       -- `if (parsestage) return SFE_W64_NO_RIFF`
      else
        let (m2, _, r) := rdHash bs r
        fin r { s with haveRiff := true, haveWave := m2 == waveH } 0
    else if marker == acidH then .err
    else if marker == fmtH then
      if !(s.haveRiff ∧ s.haveWave) then .err else
      if csize < 0 then .unmodelled else
      let fsz : Int := csize - 24                          -- (int) chunk_size: the identity in the range kept here
      if (r.indx : Int) + fsz > cacheLimit then .unmodelled else
      if fsz < 16 then .err else
      match rdSeq bs [2, 2, 4, 4, 2, 2] r with              -- "224422"
      | ([tagB, chB, srB, _, _, bitsB], r) =>
      let tag := ofLE tagB
      let ch := ofLE chB
      let sr := ofLE srB
      let bits := ofLE bitsB
      -- a short read here ends the scan at this iteration with no data chunk seen (or with an error from the fmt reader)
      if r.failed then (if s.dataoffset > 0 then .unmodelled else .err) else
      if tag == 1 ∨ tag == 3 then
        let r := skip bs r (fsz - 16)
        let r := if (csize - 24) % 8 != 0 then skip bs r (8 - (csize - 24) % 8) else r
        fin r { s with haveFmt := true, tag := tag, ch := ch, sr := sr, bits := bits, bytew := (bits + 7) / 8 } 0
      else if tag == 6 ∨ tag == 7 then
        let (r, got) := if fsz ≥ 18 then ((rdLE bs r 2).2, 18) else (r, 16)
        if r.failed then (if s.dataoffset > 0 then .unmodelled else .err) else
        let r := skip bs r (fsz - got)
        let r := if (csize - 24) % 8 != 0 then skip bs r (8 - (csize - 24) % 8) else r
        fin r { s with haveFmt := true, tag := tag, ch := ch, sr := sr, bits := bits, bytew := 1 } 0
      else .unmodelled
      | _ => .unmodelled
    else if marker == factH then
      fin (rdLE bs r 8).2 s 0
    else if marker == dataH then
      if !(s.haveRiff ∧ s.haveWave ∧ s.haveFmt) then .err else
      if csize < 0 ∨ csize ≥ 2 ^ 62 then .unmodelled else
      let off : Int := ftell bs r
      let rounded : Int := if csize % 8 != 0 then csize + (8 - csize % 8) else csize
      -- psf_fseek (chunk_size, SEEK_CUR): the file position leaves the cache behind; the scan must end here
      if off + rounded ≥ flen - 8 then .done { s with dataoffset := off } else .unmodelled
    else fin r s csize          -- levl, list, junk, bext, marker, summary list, unknown: only logged

def codecOf (s : Scan) : Option Nat :=
  match s.tag, s.bits with
  | 1, 8 => some 0x05 | 1, 16 => some 0x02 | 1, 24 => some 0x03 | 1, 32 => some 0x04
  | 3, 32 => some 0x06 | 3, 64 => some 0x07
  | 7, _ => some 0x10 | 6, _ => some 0x11
  | _, _ => none

def parse (bs : List Byte) : ParseRes :=
  if bs.length < 12 then .err else
  if bs.take 4 != [114, 105, 102, 102] then .unmodelled else
  match walk bs bs.length {} {} with
  | .err => .err
  | .unmodelled => .unmodelled
  | .done s =>
    if s.dataoffset ≤ 0 then .err else
    if s.ch < 1 then .err else
    if s.ch > 1024 then .err else
    match codecOf s with
    | none => .unmodelled
    | some codec =>
      let off := s.dataoffset.toNat
      -- the codec's init: psf->dataend is never set by this reader, so the data runs to the end of the file
      let dl : Nat := if bs.length > off then bs.length - off else 0
      if s.sr < 1 ∨ s.sr > 0x7FFFFFFF then .err else
      .ok { fmtWord := 0x0B0000 + codec, ch := s.ch, sr := s.sr, frames := dl / (s.bytew * s.ch), dataoffset := off, datalength := dl }

/-! ## write session -/

structure St where
  bytes : List Byte := []
  pos : Nat := 0
  frames : Int := 0
  wpos : Int := 0
  dataoffset : Int := -1       -- as psf_open_file initialises them: w64_open does not reset these for PCM & co.
  datalength : Int := -1
  filelength : Int := 0
  auto : Bool := false
  written : Bool := false
deriving Repr, DecidableEq, Inhabited

def zeros (n : Nat) : List Byte := List.replicate n 0
def writeAt (bs : List Byte) (pos : Nat) (data : List Byte) : List Byte :=
  let pre := if pos ≤ bs.length then bs.take pos else bs ++ zeros (pos - bs.length)
  pre ++ data ++ bs.drop (pos + data.length)

/-- `w64_write_header (psf, calc_length)` (psf->dataend stays 0 in a write-only session) -/
def writeHeader (c : Cfg) (s : St) (calcLen : Bool) : St :=
  let cur := s.pos
  let s := if calcLen then
      let fl : Int := s.bytes.length
      let dl := fl - s.dataoffset
      { s with filelength := fl, datalength := dl, frames := Int.tdiv dl (c.bw : Int) }
    else s
  let h := hdrRaw c s.filelength s.datalength s.frames
  let s := { s with bytes := writeAt s.bytes 0 h, dataoffset := h.length }
  { s with pos := if cur > 0 then cur else h.length }

/-- w64_open in write mode on an empty store (since the repair of w64_open: filelength, datalength, dataoffset and sf.frames
    are reset as in wav_open / caf_open, so the caller's SF_INFO.frames is not used) -/
def openW (c : Cfg) (_staleFrames : Int) : St :=
  let s : St := { frames := 0, datalength := 0, dataoffset := 0 }
  let s := writeHeader c s false
  { s with datalength := 0, frames := 0 }

/-- the rule before the repair: sf.frames still held the CALLER's value and datalength was −1 when the first header was
    written (they reached the 'fact' chunk and the 'data' size of that header), then the codec's init zeroed them -/
def openW_old (c : Cfg) (staleFrames : Int) : St :=
  let s : St := { frames := staleFrames }
  let s := writeHeader c s false
  { s with datalength := 0, frames := 0 }

inductive Op
  | write (frames : Nat) (data : List Byte)
  | update
  | auto (on : Bool)
deriving Repr, DecidableEq, Inhabited

def step (c : Cfg) (s : St) : Op → St
  | .write k data =>
    if k == 0 then s else
    let s := if !s.written then writeHeader c s false else s
    let s := { s with written := true }
    let s := { s with bytes := writeAt s.bytes s.pos data, pos := s.pos + data.length, wpos := s.wpos + k }
    let s := if s.wpos > s.frames then { s with frames := s.wpos } else s
    if s.auto then writeHeader c s true else s
  | .update => writeHeader c s true
  | .auto on => { s with auto := on }

def run (c : Cfg) (s : St) (ops : List Op) : St := ops.foldl (step c) s

/-- w64_close -/
def close (c : Cfg) (s : St) : St := writeHeader c s true

def Op.frames : Op → Nat | .write k _ => k | _ => 0
def Op.data : Op → List Byte | .write k d => if k == 0 then [] else d | _ => []
def Op.valid (c : Cfg) : Op → Prop
  | .write k d => d.length = k * c.bw
  | _ => True
instance (c : Cfg) (o : Op) : Decidable (o.valid c) := by cases o <;> unfold Op.valid <;> infer_instance

def sessFrames (ops : List Op) : Nat := (ops.map Op.frames).sum
def sessData (ops : List Op) : List Byte := ops.flatMap Op.data

end Sf.W64
