/-
  SfModel.Gsm — the GSM 06.10 full-rate DECODER of src/GSM610 (add.c, table.c, gsm_decode.c, decode.c, rpe.c,
  long_term.c, short_term.c) as libsndfile compiles it (gsm610_priv.h: WAV49, FAST and USE_FLOAT_MUL are defined; the
  run-time flag `S->fast` is never set by libsndfile, so the integer filters run).

  `word` = int16_t, `longword` = int32_t.  Values are `Int`; every assignment to an `int16_t` object is an explicit
  `w16` (C conversion, gcc: two's-complement wrap); `>>` on a negative value is gcc's arithmetic shift (`Sf.asr`,
  floor division) — the C relies on it in GSM_MULT_R, GSM_MULT, SASR_W / SASR_L (which are written to be portable:
  `~((~x) >> by)` equals the arithmetic shift) and in `prod >>= 15` of gsm_mult_r.

  Layout of the two frame formats (gsm_decode.c):
    * 33-byte frame: 4-bit magic 0xD, then the 76 parameters most-significant-bit first;
    * WAV49: two frames in 65 bytes, parameters least-significant-bit first; the first gsm_decode call consumes 33
      bytes (260 bits + 4 bits kept in `frame_chain`), the second 32 bytes.
  Both are written here as a bit reader over the field-width list `fieldWidths`; the correspondence campaign
  (vlib/gsm.py) compares them with the straight-line C on thousands of frames per run.

  Core Lean only.
-/
import SfModel.Basic
namespace Sf.Gsm

/-! ## arithmetic layer (gsm610_priv.h inline functions, add.c) -/

/-- conversion to `int16_t` -/
def w16 (x : Int) : Int := wrapS 16 x
/-- conversion to `int32_t` -/
def w32 (x : Int) : Int := wrapS 32 x

/-- `saturate (x)` of add.c -/
def sat (x : Int) : Int := if x < -32768 then -32768 else if x > 32767 then 32767 else x

/-- `GSM_ADD (a, b)`: `ltmp >= MAX_WORD → MAX_WORD`, `ltmp <= MIN_WORD → MIN_WORD` -/
def add (a b : Int) : Int :=
  let l := a + b
  if l ≥ 32767 then 32767 else if l ≤ -32768 then -32768 else l

/-- `GSM_SUB (a, b)` -/
def sub (a b : Int) : Int :=
  let l := a - b
  if l ≥ 32767 then 32767 else if l ≤ -32768 then -32768 else l

/-- `GSM_MULT_R (a, b)` = `(a * b + 16384) >> 15` in int32 — NO special case for MIN_WORD × MIN_WORD (the value is
    then 32768 and the caller's `int16_t` assignment wraps it) -/
def multR (a b : Int) : Int := asr (a * b + 16384) 15

/-- `GSM_MULT (a, b)` = `(a * b) >> 15` -/
def mult (a b : Int) : Int := asr (a * b) 15

/-- `GSM_ABS` -/
def gabs (a : Int) : Int := if a > 0 then a else if a = -32768 then 32767 else -a

/-- `gsm_add`, `gsm_sub` of add.c -/
def gsmAdd (a b : Int) : Int := sat (a + b)
def gsmSub (a b : Int) : Int := sat (a - b)

/-- `gsm_mult_r` of add.c / the open-coded twin in Short_term_synthesis_filtering:
    `a == MIN_WORD && b == MIN_WORD ? MAX_WORD : 0xFFFF & ((a * b + 16384) >> 15)`, stored in an `int16_t` -/
def gsmMultR (a b : Int) : Int :=
  if a = -32768 ∧ b = -32768 then 32767 else w16 ((wrapU 16 (asr (a * b + 16384) 15) : Nat) : Int)

/-- `gsm_mult` of add.c -/
def gsmMult (a b : Int) : Int := if a = -32768 ∧ b = -32768 then 32767 else w16 (asr (a * b) 15)

/-- `SASR_W (x, by)`, `SASR_L (x, by)`: arithmetic shift right -/
def sasr (x : Int) (by_ : Nat) : Int := asr x by_

/-- `gsm_asr (a, n)` (int16 result) -/
def gsmAsr (a : Int) (n : Int) : Int :=
  if n ≥ 16 then (if a < 0 then -1 else 0)
  else if n ≤ -16 then 0
  else if n < 0 then w16 (a * 2 ^ (-n).toNat)
  else asr a n.toNat

/-- `gsm_asl (a, n)` (int16 result) -/
def gsmAsl (a : Int) (n : Int) : Int :=
  if n ≥ 16 then 0
  else if n ≤ -16 then (if a < 0 then -1 else 0)
  else if n < 0 then gsmAsr a (-n)
  else w16 (a * 2 ^ n.toNat)

/-- `arith_shift_left (x, shift)` = `(int32_t) ((uint32_t) x << shift)` -/
def shl32 (x : Int) (k : Nat) : Int := w32 (x * 2 ^ k)

/-! ## tables (table.c; the decoder's uses are inlined constants in short_term.c, checked equal below) -/

def tabA    : List Int := [20480, 20480, 20480, 20480, 13964, 15360, 8534, 9036]
def tabB    : List Int := [0, 0, 2048, -2560, 94, -1792, -341, -1144]
def tabMIC  : List Int := [-32, -32, -16, -16, -8, -8, -4, -4]
def tabMAC  : List Int := [31, 31, 15, 15, 7, 7, 3, 3]
def tabINVA : List Int := [13107, 13107, 13107, 13107, 19223, 17476, 31454, 29708]
def tabDLB  : List Int := [6554, 16384, 26214, 32767]
def tabQLB  : List Int := [3277, 11469, 21299, 32767]
def tabH    : List Int := [-134, -374, 0, 2054, 5741, 8192, 5741, 2054, 0, -374, -134]
def tabNRFAC : List Int := [29128, 26215, 23832, 21846, 20165, 18725, 17476, 16384]
def tabFAC  : List Int := [18431, 20479, 22527, 24575, 26623, 28671, 30719, 32767]

/-- table access `t [i]`; the decoder invariants (SfProps/C06Gsm.lean) prove `0 ≤ i < t.length` at every use -/
def tab (t : List Int) (i : Int) : Int := t.getD i.toNat 0

/-! ## frame parameters and bit unpacking (gsm_decode.c) -/

structure Sub where
  nc    : Int
  bc    : Int
  mc    : Int
  xmaxc : Int
  xmc   : List Int            -- 13 values
deriving Repr, DecidableEq

structure Params where
  larc : List Int             -- 8 values
  subs : List Sub             -- 4 sub-frames
deriving Repr, DecidableEq

/-- widths of the 76 parameters in transmission order -/
def subWidths : List Nat := [7, 2, 2, 6, 3, 3, 3, 3, 3, 3, 3, 3, 3, 3, 3, 3, 3]
def fieldWidths : List Nat := [6, 6, 5, 5, 4, 4, 3, 3] ++ subWidths ++ subWidths ++ subWidths ++ subWidths

/-- bits of a byte, most significant first -/
def bitsMsb (b : Nat) : List Bool := (List.range 8).map fun i => (b / 2 ^ (7 - i)) % 2 = 1
/-- bits of a byte, least significant first -/
def bitsLsb (b : Nat) : List Bool := (List.range 8).map fun i => (b / 2 ^ i) % 2 = 1

/-- value of a bit string, first bit least significant -/
def valLsb : List Bool → Nat
  | [] => 0
  | b :: bs => (if b then 1 else 0) + 2 * valLsb bs
/-- value of a bit string, first bit most significant -/
def valMsb (bs : List Bool) : Nat := valLsb bs.reverse

/-- cut a bit string into fields -/
def fields (val : List Bool → Nat) : List Nat → List Bool → List Int
  | [], _ => []
  | w :: ws, bs => (val (bs.take w) : Int) :: fields val ws (bs.drop w)

/-- sub-frame parameters from the flat list of 76 values, starting at index `b` -/
def mkSub (l : List Int) (b : Nat) : Sub :=
  { nc := l.getD b 0, bc := l.getD (b + 1) 0, mc := l.getD (b + 2) 0, xmaxc := l.getD (b + 3) 0,
    xmc := (List.range 13).map fun i => l.getD (b + 4 + i) 0 }

def mkParams (l : List Int) : Params :=
  { larc := (List.range 8).map fun i => l.getD i 0,
    subs := [mkSub l 8, mkSub l 25, mkSub l 42, mkSub l 59] }

/-- the 33-byte layout: `none` = the magic nibble is not 0xD (`gsm_decode` returns −1 before touching anything) -/
def unpack33 (c : List Byte) : Option Params :=
  if (c.getD 0 0) / 16 % 16 ≠ 13 then none
  else some (mkParams (fields valMsb fieldWidths ((c.flatMap bitsMsb).drop 4)))

/-- WAV49, `frame_index` odd after the toggle (first half): 33 bytes; returns the parameters and `frame_chain` -/
def unpack49a (c : List Byte) : Params × Nat :=
  let bits := (c.take 33).flatMap bitsLsb
  (mkParams (fields valLsb fieldWidths bits), valLsb ((bits.drop 260).take 4))

/-- WAV49, second half: the 4 carried bits, then 32 bytes -/
def unpack49b (chain : Nat) (c : List Byte) : Params :=
  let bits := (bitsLsb chain).take 4 ++ (c.take 32).flatMap bitsLsb
  mkParams (fields valLsb fieldWidths bits)

/-! ## decoder state (`struct gsm_state`, the fields the decoder reads or writes) -/

structure State where
  dp0    : List Int := List.replicate 280 0   -- decoder: `drp [-120 .. -1]` = dp0 [0 .. 120)
  v      : List Int := List.replicate 9 0     -- short_term.c, synthesis
  msr    : Int := 0                           -- decode.c, Postprocessing
  larpp0 : List Int := List.replicate 8 0     -- LARpp [0]
  larpp1 : List Int := List.replicate 8 0     -- LARpp [1]
  j      : Nat := 0
  nrp    : Int := 40                          -- long_term.c, synthesis
  wavFmt : Bool := false
  frameIndex : Nat := 0
  frameChain : Nat := 0
  -- encoder-only fields (SfModel/GsmEnc.lean)
  z1     : Int := 0
  lz2    : Int := 0
  mp     : Int := 0
  u      : List Int := List.replicate 8 0
  e      : List Int := List.replicate 50 0
deriving Repr, DecidableEq

/-- `gsm_create` / `gsm_init`: everything zero, `nrp = 40` -/
def State.init : State := {}
/-- `gsm_option (…, GSM_OPT_WAV49, &true_flag)` -/
def State.initWav : State := { wavFmt := true }

/-! ## RPE decoding (rpe.c) -/

/-- `while (mant <= 7) { mant = mant << 1 | 1 ; expon-- ; }`  (`fuel`: at most 3 rounds are ever needed, see
    `expMant_loop_done` in SfProps/C06Gsm.lean) -/
def normLoop : Nat → Int → Int → Int × Int
  | 0, expon, mant => (expon, mant)
  | fuel + 1, expon, mant => if mant ≤ 7 then normLoop fuel (w16 (expon - 1)) (w16 (2 * mant + 1)) else (expon, mant)

/-- `APCM_quantization_xmaxc_to_exp_mant` : (expon, mant) -/
def expMant (xmaxc : Int) : Int × Int :=
  let expon0 : Int := if xmaxc > 15 then w16 (sasr xmaxc 3 - 1) else 0
  let mant0 : Int := w16 (xmaxc - expon0 * 8)
  if mant0 = 0 then (-4, 7)
  else
    let (e, m) := normLoop 16 expon0 mant0
    (e, w16 (m - 8))

/-- `APCM_inverse_quantization` -/
def apcmInv (xmc : List Int) (mant expon : Int) : List Int :=
  let temp1 := tab tabFAC mant
  let temp2 := gsmSub 6 expon
  let temp3 := gsmAsl 1 (gsmSub temp2 1)
  xmc.map fun x =>
    let t := w16 (2 * x - 7)
    let t := w16 (shl32 t 12)
    let t := w16 (multR temp1 t)
    let t := w16 (add t temp3)
    gsmAsr t temp2

/-- `RPE_grid_positioning`: `ep [Mc + 3 i] = xMp [i]`, the other 27 of the 40 cells are zero -/
def gridPos (mc : Int) (xmp : List Int) : List Int :=
  (List.range 40).map fun (k : Nat) =>
    let d : Int := (k : Int) - mc
    if 0 ≤ d ∧ d % 3 = 0 ∧ d / 3 < 13 then xmp.getD (d / 3).toNat 0 else 0

/-- `Gsm_RPE_Decoding` -/
def rpeDecode (xmaxc mc : Int) (xmc : List Int) : List Int :=
  let (expon, mant) := expMant xmaxc
  gridPos mc (apcmInv xmc mant expon)

/-! ## long-term synthesis (long_term.c) -/

/-- `Nr = Ncr < 40 || Ncr > 120 ? S->nrp : Ncr` -/
def nrOf (nrp ncr : Int) : Int := if ncr < 40 ∨ ncr > 120 then nrp else ncr

/-- `Gsm_Long_Term_Synthesis_Filtering` on the history `hist = drp [-120 .. -1]`:
    returns (the new history, `drp [0 .. 39]`).  Because `Nr ≥ 40`, `drp [k - Nr]` is always a cell of the old history. -/
def ltSynth (hist : List Int) (nr bcr : Int) (erp : List Int) : List Int × List Int :=
  let brp := tab tabQLB bcr
  let old := (hist.drop (120 - nr).toNat).take 40
  let drp := List.zipWith (fun e d => w16 (add e (w16 (multR brp d)))) erp old
  ((hist ++ drp).drop 40, drp)

/-! ## short-term synthesis (short_term.c) -/

/-- one `STEP (B, MIC, INVA)` of `Decoding_of_the_coded_Log_Area_Ratios` -/
def larStep (larc b mic inva : Int) : Int :=
  let t := w16 (shl32 (add larc mic) 10)
  let t := w16 (sub t (b * 2))
  let t := w16 (multR inva t)
  w16 (add t t)

def decodeLar (larc : List Int) : List Int :=
  (List.range 8).map fun i => larStep (larc.getD i 0) (tab tabB i) (tab tabMIC i) (tab tabINVA i)

def coeff0_12 (p c : List Int) : List Int :=
  List.zipWith (fun a b => w16 (add (w16 (add (sasr a 2) (sasr b 2))) (sasr a 1))) p c
def coeff13_26 (p c : List Int) : List Int :=
  List.zipWith (fun a b => w16 (add (sasr a 1) (sasr b 1))) p c
def coeff27_39 (p c : List Int) : List Int :=
  List.zipWith (fun a b => w16 (add (w16 (add (sasr a 2) (sasr b 2))) (sasr b 1))) p c

/-- `LARp_to_rp`, one coefficient -/
def larpToRp (x : Int) : Int :=
  let f (temp : Int) : Int :=
    if temp < 11059 then temp * 2 else if temp < 20070 then temp + 11059 else add (w16 (asr temp 2)) 26112
  if x < 0 then
    let temp := if x = -32768 then 32767 else -x
    w16 (- f temp)
  else w16 (f x)

/-- the inner loop `for (i = 8 ; i-- ; )` of `Short_term_synthesis_filtering` over the pairs `(rrp [i], v [i])`
    given for i = 7, 6, …, 0; returns (sri, [v' [8], v' [7], …, v' [1]]) -/
def synStep : List (Int × Int) → Int → Int × List Int
  | [], sri => (sri, [])
  | (r, vi) :: rest, sri =>
    let tmp2 := gsmMultR r vi
    let sri := w16 (sub sri tmp2)
    let tmp1 := gsmMultR r sri
    let vnew := w16 (add vi tmp1)
    let (s, vs) := synStep rest sri
    (s, vnew :: vs)

/-- `Short_term_synthesis_filtering (S, rrp, k, wt, sr)`: (v', sr) -/
def synFilter (rrp : List Int) : List Int → List Int → List Int × List Int
  | v, [] => (v, [])
  | v, w :: ws =>
    let (sri, vs) := synStep ((rrp.zip v).reverse) w
    let (vf, out) := synFilter rrp (sri :: vs.reverse) ws
    (vf, sri :: out)

/-- `Gsm_Short_Term_Synthesis_Filter`: returns (state, s [0 .. 159]) -/
def shortTermSynth (st : State) (larcr : List Int) (wt : List Int) : State × List Int :=
  let cur := decodeLar larcr
  let prev := if st.j = 0 then st.larpp1 else st.larpp0         -- LARpp [j ^ 1]
  let st1 : State := if st.j = 0 then { st with larpp0 := cur, j := 1 } else { st with larpp1 := cur, j := 0 }
  let (v1, s1) := synFilter ((coeff0_12 prev cur).map larpToRp) st.v (wt.take 13)
  let (v2, s2) := synFilter ((coeff13_26 prev cur).map larpToRp) v1 ((wt.drop 13).take 14)
  let (v3, s3) := synFilter ((coeff27_39 prev cur).map larpToRp) v2 ((wt.drop 27).take 13)
  let (v4, s4) := synFilter (cur.map larpToRp) v3 ((wt.drop 40).take 120)
  ({ st1 with v := v4 }, s1 ++ s2 ++ s3 ++ s4)

/-! ## post-processing and the frame decoder (decode.c) -/

/-- `Postprocessing`: de-emphasis, upscaling, truncation: (msr', samples) -/
def postproc : Int → List Int → Int × List Int
  | msr, [] => (msr, [])
  | msr, s :: ss =>
    let tmp := w16 (multR msr 28180)
    let msr := w16 (add s tmp)
    let out := w16 (((wrapU 16 (add msr msr) / 8 * 8 : Nat) : Int))      -- `GSM_ADD (msr, msr) & 0xFFF8`
    let (m, rest) := postproc msr ss
    (m, out :: rest)

/-- the four sub-frames of `Gsm_Decoder`: (nrp', history', wt so far) -/
def subLoop : List Sub → Int → List Int → Int × List Int × List Int
  | [], nrp, hist => (nrp, hist, [])
  | sb :: rest, nrp, hist =>
    let erp := rpeDecode sb.xmaxc sb.mc sb.xmc
    let nr := nrOf nrp sb.nc
    let (hist1, drp) := ltSynth hist nr sb.bc erp
    let (n, h, wt) := subLoop rest nr hist1
    (n, h, drp ++ wt)

/-- `Gsm_Decoder`: 160 samples -/
def decodeParams (st : State) (p : Params) : State × List Int :=
  let hist := st.dp0.take 120
  let (nrp, hist1, wt) := subLoop p.subs st.nrp hist
  -- dp0 [120 .. 160) keeps the last `drp [0 .. 39]`, which equals the tail of the new history
  let st1 : State := { st with nrp := nrp, dp0 := hist1 ++ hist1.drop 80 ++ st.dp0.drop 160 }
  let (st2, s) := shortTermSynth st1 p.larc wt
  let (msr, out) := postproc st2.msr s
  ({ st2 with msr := msr }, out)

/-- `gsm_decode (s, c, target)`: `none` = returned −1 (bad magic; state and target untouched) -/
def gsmDecode (st : State) (c : List Byte) : State × Option (List Int) :=
  if st.wavFmt then
    let fi := 1 - st.frameIndex                       -- `s->frame_index = !s->frame_index`
    if fi = 1 then
      let (p, chain) := unpack49a c
      let (st1, out) := decodeParams { st with frameIndex := fi, frameChain := chain } p
      (st1, some out)
    else
      let p := unpack49b st.frameChain c
      let (st1, out) := decodeParams { st with frameIndex := fi } p
      (st1, some out)
  else
    match unpack33 c with
    | none => (st, none)
    | some p =>
      let (st1, out) := decodeParams st p
      (st1, some out)

/-- decode a sequence of 33-byte frames from a fresh state (a frame with a bad magic delivers nothing) -/
def decodeAll33 : State → List (List Byte) → List (List Int)
  | _, [] => []
  | st, c :: cs =>
    let (st1, o) := gsmDecode st c
    (o.getD []) :: decodeAll33 st1 cs

/-- decode a sequence of 65-byte WAV49 blocks: two `gsm_decode` calls per block, at `block` and `block + 33` -/
def decodeAll49 : State → List (List Byte) → List (List Int)
  | _, [] => []
  | st, c :: cs =>
    let (st1, o1) := gsmDecode st c
    let (st2, o2) := gsmDecode st1 (c.drop 33)
    (o1.getD [] ++ o2.getD []) :: decodeAll49 st2 cs

end Sf.Gsm
