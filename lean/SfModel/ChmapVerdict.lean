/-
  SfModel.ChmapVerdict — SFC_SET_CHANNEL_MAP_INFO / SFC_GET_CHANNEL_MAP_INFO as a state machine over psf->channel_map, WITH the
  container's verdict (property C09: a call that answers SF_FALSE has no effect; C12 / C16 / C17 use the same rule).

  Code-shaped model of
    src/sndfile.c   sf_command, case SFC_SET_CHANNEL_MAP_INFO (guards, copy, psf->command, the refusal branch) and
                    case SFC_GET_CHANNEL_MAP_INFO
    src/wavlike.c   wavlike_gen_channel_mask over channel_mask_bits []      (wav_command, rf64_command)
    src/chanmap.c   aiff_caf_find_channel_layout_tag                         (aiff_command, caf_command; `Sf.MetaX.findTag`
                    over the table extracted from the tree under test)
  Three rules for the refusal branch are kept side by side:
    `Rule.erase`   before fe675bd: the new map is stored, the old one freed, whatever the container answers;
    `Rule.keepNew` fe675bd: an old map is put back, but with no old map the refused one stays in psf->channel_map
                   (KF-C09-CHMAP-REFUSED-KEPT);
    `Rule.noEffect` the repaired code: the refused map is freed, psf->channel_map is what it was.
  `sfmodel chmap` (lean/Driver/Chmap.lean) runs it against the library (vlib/chmapfix.py).   Core Lean only.
-/
import SfModel.MetaX
namespace Sf.ChmapVerdict
open Sf

/-- the SF_CHANNEL_MAP_* ids of channel_mask_bits [] in src/wavlike.c, bit 0 first:
    L R C LFE Ls Rs Lc Rc Cs Sl Sr Tc Tfl Tfc Tfr Trl Trc Trr -/
def maskIds : List Nat := [2, 3, 4, 11, 9, 10, 12, 13, 8, 14, 15, 16, 17, 19, 18, 20, 22, 21]

/-- `for (k = from ; k < ARRAY_LEN (channel_mask_bits) ; k++) if (id == channel_mask_bits [k].id) …`: the first such k -/
def findFrom (id : Nat) (frm : Nat) : Option Nat :=
  match (maskIds.drop frm).findIdx? (· = id) with
  | some i => some (frm + i)
  | none => none

/-- the loop of wavlike_gen_channel_mask; `next` = bit + 1.  A channel whose id is not found behind the bit of the channel
    before it ("bad sequence") makes the whole mask 0. -/
def genMaskAux : List Nat → Nat → Nat → Nat
  | [], _, mask => mask
  | c :: rest, next, mask =>
    match findFrom c next with
    | none => 0
    | some k => genMaskAux rest (k + 1) (mask + 2 ^ k)

/-- wavlike_gen_channel_mask (psf->channel_map, psf->sf.channels) -/
def genChannelMask (map : List Nat) : Nat := genMaskAux map 0 0

def cWAV : Nat := 0x010000
def cAIFF : Nat := 0x020000
def cWAVEX : Nat := 0x130000
def cCAF : Nat := 0x180000
def cRF64 : Nat := 0x220000

/-- psf->command != NULL in a build without the external libraries -/
def hasHook (container : Nat) : Bool :=
  container = cWAV || container = cWAVEX || container = cRF64 || container = cAIFF || container = cCAF

/-- what `psf->command (psf, SFC_SET_CHANNEL_MAP_INFO, NULL, 0)` answers for the map in psf->channel_map: wav_command /
    rf64_command: the mask is not 0; aiff_command / caf_command: a layout tag exists; no handler: not asked (refused) -/
def containerAccepts (container : Nat) (map : List Nat) : Bool :=
  if container = cWAV ∨ container = cWAVEX ∨ container = cRF64 then genChannelMask map != 0
  else if container = cAIFF ∨ container = cCAF then MetaX.findTag map != 0
  else false

inductive Rule | erase | keepNew | noEffect
  deriving DecidableEq, Repr

/-- the handle as far as the two commands go -/
structure St where
  container : Nat
  ch : Nat
  haveWritten : Bool
  map : Option (List Nat)          -- psf->channel_map
deriving DecidableEq, Repr

def eBadParam : Nat := 30          -- SFE_BAD_COMMAND_PARAM
def eHasData : Nat := 48           -- SFE_CMD_HAS_DATA  (numbers as in SfModel/Command.lean)

structure Out where
  ret : Nat
  err : Option Nat                 -- psf->error where the call sets it
  st : St
deriving DecidableEq, Repr

/-- every entry is a valid SF_CHANNEL_MAP_* code -/
def validEntries (m : List Int) : Bool := m.all fun v => 0 < v && v < 27

/-- SFC_SET_CHANNEL_MAP_INFO with `size` = datasize and `m` = the ints behind data (`none` = NULL) -/
def setMapW (rule : Rule) (s : St) (size : Nat) (m : Option (List Int)) : Out :=
  if s.haveWritten then ⟨0, some eHasData, s⟩
  else match m with
    | none => ⟨0, some eBadParam, s⟩
    | some m =>
      if size ≠ 4 * s.ch ∨ m.length ≠ s.ch then ⟨0, some eBadParam, s⟩
      else if ¬ validEntries m then ⟨0, some eBadParam, s⟩
      else
        let new := m.map Int.toNat
        if containerAccepts s.container new then ⟨1, none, { s with map := some new }⟩
        else match rule with
          | .erase => ⟨0, none, { s with map := some new }⟩
          | .keepNew => ⟨0, none, { s with map := match s.map with | some old => some old | none => some new }⟩
          | .noEffect => ⟨0, none, s⟩

/-- the code as it is now -/
def setMap : St → Nat → Option (List Int) → Out := setMapW .noEffect

/-- SFC_GET_CHANNEL_MAP_INFO: (return value, the ints copied to data) -/
def getMap (s : St) (size : Nat) (dataNull : Bool) : Nat × Option (List Nat) × Option Nat :=
  match s.map with
  | none => (0, none, none)
  | some m => if dataNull ∨ size ≠ 4 * s.ch then (0, none, some eBadParam) else (1, some m, none)

/-! ## what reaches the file: the map SFC_GET_CHANNEL_MAP_INFO returns on the re-opened file -/

/-- the default channel mask of wavex / rf64 write_header for a handle without a mask -/
def defaultMask : Nat → Nat
  | 1 => 0x4 | 2 => 0x3 | 4 => 0x33 | 6 => 0x3F | 8 => 0xFF | _ => 0

/-- wavlike_read_fmt_chunk: the ids of the set bits, lowest first, as many as there are channels (calloc: the rest 0) -/
def mapOfMask (mask ch : Nat) : List Nat :=
  let ids := (maskIds.zipIdx.filter fun p => mask.testBit p.2).map (·.1)
  (ids ++ List.replicate ch 0).take ch

/-- the channel map of the closed and re-opened file for a write handle whose psf->channel_map was `map` at the header write
    (PCM file, no ambisonic flag).  WAV (WAVE_FORMAT_PCM) stores no mask; WAVEX / RF64 store the mask of the map or the default
    one; AIFF / CAF store the layout tag and hand back the tag's table entry. -/
def reopenMap (container ch : Nat) (map : Option (List Nat)) : Option (List Nat) :=
  if container = cWAVEX ∨ container = cRF64 then
    let mask := match map with | some m => genChannelMask m | none => 0
    let mask := if mask = 0 then defaultMask ch else mask
    if mask = 0 then none else some (mapOfMask mask ch)
  else if container = cAIFF ∨ container = cCAF then
    match map with
    | some m => if MetaX.findTag m = 0 then none else MetaX.readChan (container = cCAF) ch (MetaX.be4 (MetaX.findTag m))
    | none => none
  else none

end Sf.ChmapVerdict
