/-
  SfModel.AlacCodec — the ALAC codec core (Sf.AlacCore: `encode` with its search and coefficient state, `decodeFresh`)
  as an instance of the parameter `Sf.Alac.Codec` of the wrapper model of src/alac.c (SfModel/AlacFile.lean): with it
  `Sf.Alac.closedBytes` is the whole CAF/ALAC file the library writes, byte for byte, and `Sf.Alac.RHandle` what it
  reads back, with no reference run of the library in between.
-/
import SfModel.AlacDec
import SfModel.AlacEnc
namespace Sf.AlacCore

def coreCodec (cfg : Config) : Sf.Alac.Codec EncState (List Int) :=
  { init := EncState.init cfg.numChannels,
    enc := fun st frames => let r := encode cfg st frames; (r.2, r.1),
    dec := decodeFresh cfg }

end Sf.AlacCore
