/-
  SfModel.Ieee — the portable IEEE-754 serialisers of float32.c / double64.c and the byte-order
  helpers of sfendian.h.  Core Lean only (the driver links against it).

  Two layers, as for G.711:
  * `Spec.*`   : the binary interchange format of IEEE 754-2008 §3.4 (field layout, value of a bit
                 string, byte strings of both orders), written from the standard.
  * lib-shaped : `float32_be_read … double64_le_write` as the C computes them (bug for bug; the rules before the `fix:` commits
                 — `fabs (in) < 1e-30` flush of the writers, hidden bit for exponent field 0 in the readers — are kept as `…Old`;
                 the writers between that repair and the repair of KF-C01-ieee-tiny / KF-C18-PEAK-SUBNORMAL — early `return`
                 on `fabs (in) < FLT_MIN`, i.e. no encoding for exponent field 0 — are kept as `…TinyOld`),
                 `f2bf_array`/`bf2f_array` + `endswap_*_array` as the `replace_*` paths use them,
                 `ENDSWAP_16/32/64`, `psf_put_be*`, `psf_get_be*/le*`.

  A floating value is its bit pattern (`Nat`), exact arithmetic is `Sf.Float.Dy`, and a C floating
  operation is "exact result, then one `Fmt.ofDy` rounding".  Where the C performs several operations
  whose intermediate results are exactly representable (scaling by powers of two of a significand of at
  most 24 / 53 bits) the model keeps the exact `Dy` and rounds once, at the place the C can round.
-/
import SfModel.Basic
import SfModel.Float
namespace Sf.Ieee
open Sf Sf.Float

/-! ## Spec — IEEE 754-2008 §3.4 binary interchange formats -/
namespace Spec

/-- the three fields of a binary interchange bit string: sign S (1 bit), biased exponent E (w bits),
    trailing significand T (t = p − 1 bits) -/
structure Fields where
  S : Bool
  E : Nat
  T : Nat
deriving Repr, DecidableEq

/-- k-bit string, most significant first: S, then E, then T (Figure 3.1) -/
def encode (f : Fmt) (x : Fields) : Nat :=
  (if x.S then 1 else 0) * 2 ^ (f.ebits + f.mbits) + x.E * 2 ^ f.mbits + x.T

def fields (f : Fmt) (b : Nat) : Fields :=
  ⟨b / 2 ^ (f.ebits + f.mbits) % 2 = 1, b / 2 ^ f.mbits % 2 ^ f.ebits, b % 2 ^ f.mbits⟩

inductive Val
  | nan
  | inf (neg : Bool)
  | fin (d : Dy)
deriving Repr, DecidableEq

/-- §3.4 a)–e): the datum represented.  bias = 2^(w−1) − 1, emin = 1 − bias, p = t + 1.
    E = 2^w − 1, T ≠ 0: NaN;  E = 2^w − 1, T = 0: (−1)^S ∞;
    1 ≤ E ≤ 2^w − 2: (−1)^S · 2^(E − bias) · (1 + 2^(1−p) T);   E = 0: (−1)^S · 2^emin · 2^(1−p) T. -/
def value (f : Fmt) (x : Fields) : Val :=
  let bias : Int := 2 ^ (f.ebits - 1) - 1
  if x.E = 2 ^ f.ebits - 1 then (if x.T = 0 then .inf x.S else .nan)
  else if x.E = 0 then .fin ⟨x.S, x.T, 1 - bias - f.mbits⟩
  else .fin ⟨x.S, 2 ^ f.mbits + x.T, (x.E : Int) - bias - f.mbits⟩

/-- a normal number: 1 ≤ E ≤ 2^w − 2 -/
def isNormal (f : Fmt) (b : Nat) : Bool := decide (1 ≤ (fields f b).E ∧ (fields f b).E ≤ 2 ^ f.ebits - 2)

/-- the byte strings of a pattern in the two byte orders (most / least significant byte first) -/
def bytesBE (f : Fmt) (b : Nat) : List Byte := beBytes (f.width / 8) b
def bytesLE (f : Fmt) (b : Nat) : List Byte := leBytes (f.width / 8) b

end Spec

/-! ## float32.c -/

/-- `float32_be_read` / `float32_le_read` (float32.c) after the byte indices are resolved:
    `c0` carries sign and the high exponent bits, `c3` the low mantissa byte.
    `x & 0x80`, `x & 0x7F`, `<<`, `|` on bytes are written as `/`, `%`, `*`, `+`.
    `old = true` is the code before the two reader repairs (kept for the `…_old_rule` theorems):
    `return 0.0` whatever the sign bit, and `mantissa |= 0x800000 ; exponent = exponent ? exponent - 127 : 0`. -/
def f32ReadCoreWith (old : Bool) (c0 c1 c2 c3 : Byte) : Nat :=
  let negative := c0 / 128 % 2
  let exponent := (c0 % 128) * 2 + c1 / 128 % 2
  let mantissa := (c1 % 128) * 65536 + (c2 % 256) * 256 + c3 % 256
  if exponent = 0 ∧ mantissa = 0 then
    (if old then 0 else if negative = 1 then 0x80000000 else 0)      -- `return negative ? -0.0 : 0.0` (old: `return 0.0`)
  else
    -- `if (exponent) { mantissa |= 0x800000 ; exponent -= 127 ; } else exponent = -126 ;`
    let me : Nat × Int :=
      if old then (mantissa + 0x800000, if exponent ≠ 0 then (exponent : Int) - 127 else 0)
      else if exponent ≠ 0 then (mantissa + 0x800000, (exponent : Int) - 127) else (mantissa, -126)
    -- fvalue = (float) mantissa / (float) 0x800000 : exact (mantissa ≠ 0 here);  `fvalue *= -1`
    let fv : Dy := ⟨negative = 1, me.1, -23⟩
    -- `fvalue *= pow (2.0, e)` / `fvalue /= pow (2.0, -e)`: formed in double (exact: 24-bit significand, |e| ≤ 128),
    -- converted to float by the assignment: one rounding to binary32 (exact for every finite pattern), overflow gives ±Inf (e = 128)
    f32.ofDy ⟨fv.neg, fv.m, fv.e + me.2⟩

def f32ReadCore := f32ReadCoreWith false
def f32ReadCoreOld := f32ReadCoreWith true

def f32BeRead : List Byte → Nat
  | [a, b, c, d] => f32ReadCore a b c d
  | _ => 0
def f32LeRead : List Byte → Nat
  | [a, b, c, d] => f32ReadCore d c b a
  | _ => 0
def f32BeReadOld : List Byte → Nat
  | [a, b, c, d] => f32ReadCoreOld a b c d
  | _ => 0
def f32LeReadOld : List Byte → Nat
  | [a, b, c, d] => f32ReadCoreOld d c b a
  | _ => 0

/-- the `double` constant `1e-30` (0x39B4484BFEEBC2A0 = 5708990770823840 · 2^-152): the writers' threshold before the repair -/
def flushBoundOld : Dy := ⟨false, 5708990770823840, -152⟩

/-- `FLT_MIN` = 2^-126 / `DBL_MIN` = 2^-1022: the smallest normal number of the format -/
def flushBound (f : Fmt) : Dy := ⟨false, 1, 1 - (f.bias : Int)⟩

/-- `in < FLT_MIN` (`DBL_MIN`) after the sign is stripped — before the repair of KF-C01-ieee-tiny `fabs (in) < FLT_MIN` —
    for a finite argument (the comparison is made in double; binary32 widens exactly):
    true exactly for zeros and subnormals (theorem `flushes_iff_not_normal`) -/
def flushes (f : Fmt) (b : Nat) : Bool := f.isFinite b && (f.toDy b).abs.lt (flushBound f)

/-- `fabs (in) < 1e-30`: the rule before the repair -/
def flushesOld (f : Fmt) (b : Nat) : Bool := f.isFinite b && (f.toDy b).abs.lt flushBoundOld

/-- `frexp` of a non-zero finite value m·2^e: fraction m / 2^L in [1/2, 1), exponent e + L, L = bitLen m.
    Returned as (L, exponent). -/
def frexpOf (d : Dy) : Nat × Int := (bitLen d.m, d.e + (bitLen d.m : Int))

/-- sign, biased exponent and 23-bit mantissa as `float32_*_write` computed them BEFORE the repair of KF-C01-ieee-tiny
    (`fl` = the flush rule); `none` = the early `return` that leaves the four zero bytes of the `memset`.
    Inf and NaN (outside every theorem, kept for the correspondence): glibc `frexp` returns the argument and
    exponent 0, `(int) in` is the x86-64 "integer indefinite" 0x80000000 whose low 23 bits are 0. -/
def f32WriteFieldsWith (fl : Nat → Bool) (b : Nat) : Option (Nat × Nat × Nat) :=
  if !f32.isFinite b then
    some ((if f32.frac b = 0 ∧ f32.sign b then 1 else 0), 126, 0)      -- `in < 0.0` is false for NaN
  else if fl b then none
  else
    let d := f32.toDy b
    let negative := if d.neg then 1 else 0                              -- `if (in < 0.0) { in *= -1.0 ; negative = 1 ; }`
    let (L, ex) := frexpOf d                                            -- `in = frexp (in, &exponent)`
    let exponent := (ex + 126).toNat                                    -- `exponent += 126`  (≥ 1 here)
    let scaled := d.m * 0x1000000 / 2 ^ L                               -- `(int) (in * (float) 0x1000000)` truncates
    some (negative, exponent, scaled % 0x800000)                        -- `& 0x7FFFFF`

/-- the four output bytes, most significant first (`out [0..3]` of `float32_be_write`), from sign, exponent field, mantissa -/
def f32FieldBytes : Nat × Nat × Nat → List Byte
  | (negative, exponent, mantissa) =>
    [negative * 128 + exponent / 2 % 128,                               -- `|= 0x80`, `|= (exponent >> 1) & 0x7F`
     (exponent % 2) * 128 + mantissa / 65536 % 128,                     -- `if (exponent & 1) |= 0x80`, `|= (mantissa >> 16) & 0x7F`
     mantissa / 256 % 256,
     mantissa % 256]

/-- the writers with an early `return` (the two rules before the repair of KF-C01-ieee-tiny) -/
def f32WriteBytesWith (fl : Nat → Bool) (b : Nat) : List Byte :=
  match f32WriteFieldsWith fl b with
  | none => [0, 0, 0, 0]
  | some x => f32FieldBytes x

/-- `(int) x` of the non-negative dyadic m · 2^e · 2^k (truncation; exact whenever e + k ≥ 0) -/
def truncScaled (d : Dy) (k : Nat) : Nat :=
  if 0 ≤ d.e + (k : Int) then d.m * 2 ^ (d.e + (k : Int)).toNat else d.m / 2 ^ (-(d.e + (k : Int))).toNat

/-- sign, exponent field and 23-bit mantissa as the REPAIRED `float32_*_write` computes them (no early return any more):
    `if (signbit (in)) { in *= -1.0 ; negative = 1 ; }` — the sign BIT, so −0.0 keeps it;
    `if (in < FLT_MIN) { in = ldexp (in, 125) ; exponent = 0 ; } else { in = frexp (in, &exponent) ; exponent += 126 ; }` —
    zero and subnormals: exponent field 0 and, after the common `in *= (float) 0x1000000`, `(int) in` = in · 2^149 (every step
    is a scaling by a power of two of a value with at most 23 significant bits that stays inside the normal range: exact).
    Inf and NaN (outside every theorem, kept for the correspondence): `in < FLT_MIN` is false, glibc `frexp` returns the
    argument and exponent 0, `(int) in` is the x86-64 "integer indefinite" 0x80000000 whose low 23 bits are 0; the sign is the
    sign bit (also for a NaN, since the repair). -/
def f32WriteFields (b : Nat) : Nat × Nat × Nat :=
  let negative := if f32.sign b then 1 else 0
  if !f32.isFinite b then (negative, 126, 0)
  else
    let d := f32.toDy b
    if flushes f32 b then (negative, 0, truncScaled d 149 % 0x800000)  -- zero / subnormal
    else
      let (L, ex) := frexpOf d                                            -- `in = frexp (in, &exponent)`
      (negative, (ex + 126).toNat, d.m * 0x1000000 / 2 ^ L % 0x800000)  -- `exponent += 126`; `(int) (in * 2^24) & 0x7FFFFF`

def f32WriteBytes (b : Nat) : List Byte := f32FieldBytes (f32WriteFields b)
def f32BeWrite (b : Nat) : List Byte := f32WriteBytes b
def f32LeWrite (b : Nat) : List Byte := (f32WriteBytes b).reverse
/-- the writers before the first repair (`fabs (in) < 1e-30`) -/
def f32BeWriteOld (b : Nat) : List Byte := f32WriteBytesWith (flushesOld f32) b
def f32LeWriteOld (b : Nat) : List Byte := (f32WriteBytesWith (flushesOld f32) b).reverse
/-- the writers before the repair of KF-C01-ieee-tiny / KF-C18-PEAK-SUBNORMAL (`if (fabs (in) < FLT_MIN) return ;`, `if (in < 0.0)`) -/
def f32BeWriteTinyOld (b : Nat) : List Byte := f32WriteBytesWith (flushes f32) b
def f32LeWriteTinyOld (b : Nat) : List Byte := (f32WriteBytesWith (flushes f32) b).reverse

/-! ## double64.c -/

/-- the floating-point part of `double64_*_read`, from the extracted integers.
    `old = true`: before the reader repairs (`return 0.0`; `dvalue += 0x10000000 ; exponent -= 0x3FF` unconditionally). -/
def f64ReadValueWith (old : Bool) (negative exponent upper lower : Nat) : Nat :=
  if exponent = 0 ∧ upper = 0 ∧ lower = 0 then
    (if old then 0 else if negative = 1 then 0x8000000000000000 else 0)  -- `return negative ? -0.0 : 0.0`
  else
    -- dvalue = upper + lower / 2^24 ; `if (exponent) { dvalue += 0x10000000 ; exponent -= 0x3FF ; } else exponent = -0x3FE ;`
    -- dvalue /= 0x10000000 : all exact (≤ 53 bits)
    let hidden : Nat := if old ∨ exponent ≠ 0 then 0x10000000000000 else 0
    let dv : Dy := ⟨negative = 1, hidden + upper * 16777216 + lower, -52⟩
    let e : Int := if old ∨ exponent ≠ 0 then (exponent : Int) - 0x3FF else -0x3FE
    -- `dvalue *= pow (2.0, e)` (e = 1024: pow gives +Inf, the product ±Inf) or `dvalue /= pow (2.0, -e)`:
    -- one rounding to binary64 (exact for every finite pattern under the current rule)
    f64.ofDy ⟨dv.neg, dv.m, dv.e + e⟩

def f64ReadValue := f64ReadValueWith false

/-- `double64_be_read` / `double64_le_read` (double64.c:283–345); `c0` = sign / high exponent byte. -/
def f64ReadCoreWith (old : Bool) (c0 c1 c2 c3 c4 c5 c6 c7 : Byte) : Nat :=
  let negative := c0 / 128 % 2
  let exponent := (c0 % 128) * 16 + c1 / 16 % 16
  let upper := (c1 % 16) * 16777216 + (c2 % 256) * 65536 + (c3 % 256) * 256 + c4 % 256
  let lower := (c5 % 256) * 65536 + (c6 % 256) * 256 + c7 % 256
  f64ReadValueWith old negative exponent upper lower

def f64ReadCore := f64ReadCoreWith false
def f64ReadCoreOld := f64ReadCoreWith true

def f64BeRead : List Byte → Nat
  | [a, b, c, d, e, f, g, h] => f64ReadCore a b c d e f g h
  | _ => 0
def f64LeRead : List Byte → Nat
  | [a, b, c, d, e, f, g, h] => f64ReadCore h g f e d c b a
  | _ => 0
def f64BeReadOld : List Byte → Nat
  | [a, b, c, d, e, f, g, h] => f64ReadCoreOld a b c d e f g h
  | _ => 0
def f64LeReadOld : List Byte → Nat
  | [a, b, c, d, e, f, g, h] => f64ReadCoreOld h g f e d c b a
  | _ => 0

/-- sign, biased exponent, upper 29-bit integer (`psf_lrint (floor (in * 0x20000000))`, hidden bit at 2^28)
    and lower 24-bit integer (`psf_lrint (floor (fmod (in, 1.0) * 0x1000000))`).
    Inf / NaN: exponent 0 + 1022, both `psf_lrint` calls answer 0x80000000 (`cvtsd2si`), whose bits 0..27 are 0. -/
def f64WriteFieldsWith (fl : Nat → Bool) (b : Nat) : Option (Nat × Nat × Nat × Nat) :=
  if !f64.isFinite b then
    some ((if f64.frac b = 0 ∧ f64.sign b then 1 else 0), 1022, 0, 0)
  else if fl b then none
  else
    let d := f64.toDy b
    let negative := if d.neg then 1 else 0
    let (L, ex) := frexpOf d
    let exponent := (ex + 1022).toNat
    let scaled := d.m * 0x20000000                                       -- numerator of in * 2^29 over 2^L
    let hi := scaled / 2 ^ L
    let lo := (scaled % 2 ^ L) * 0x1000000 / 2 ^ L
    some (negative, exponent, hi, lo)

/-- the eight output bytes, most significant first, from sign, exponent field, upper and lower mantissa integers -/
def f64FieldBytes : Nat × Nat × Nat × Nat → List Byte
  | (negative, exponent, hi, lo) =>
    [negative * 128 + exponent / 16 % 128,                              -- `|= 0x80`, `|= (exponent >> 4) & 0x7F`
     (exponent % 16) * 16 + hi / 16777216 % 16,                         -- `|= (exponent << 4) & 0xF0`, `|= (mantissa >> 24) & 0xF`
     hi / 65536 % 256, hi / 256 % 256, hi % 256,
     lo / 65536 % 256, lo / 256 % 256, lo % 256]

/-- the writers with an early `return` (the two rules before the repair of KF-C01-ieee-tiny) -/
def f64WriteBytesWith (fl : Nat → Bool) (b : Nat) : List Byte :=
  match f64WriteFieldsWith fl b with
  | none => [0, 0, 0, 0, 0, 0, 0, 0]
  | some x => f64FieldBytes x

/-- `floor (x)` and `floor (fmod (x, 1.0) * 2^k)` of the non-negative dyadic x = m · 2^e -/
def splitScaled (m : Nat) (e : Int) (k : Nat) : Nat × Nat :=
  if 0 ≤ e then (m * 2 ^ e.toNat, 0)
  else (m / 2 ^ (-e).toNat, (m % 2 ^ (-e).toNat) * 2 ^ k / 2 ^ (-e).toNat)

/-- the REPAIRED `double64_*_write`: `if (signbit (in)) { in *= -1.0 ; out [0] |= 0x80 ; }`;
    `if (in < DBL_MIN) { in = ldexp (in, 1021) ; exponent = 0 ; } else { in = frexp (in, &exponent) ; exponent += 1022 ; }`;
    then as before `in *= 0x20000000`, upper = `psf_lrint (floor (in))`, lower = `psf_lrint (floor (fmod (in, 1.0) * 0x1000000))`
    (for a zero / subnormal value in · 2^1021 · 2^29 = in · 2^1050, all scalings exact).
    Inf / NaN: exponent 0 + 1022, both `psf_lrint` calls answer 0x80000000 (`cvtsd2si`), whose bits 0..27 are 0; sign = sign bit. -/
def f64WriteFields (b : Nat) : Nat × Nat × Nat × Nat :=
  let negative := if f64.sign b then 1 else 0
  if !f64.isFinite b then (negative, 1022, 0, 0)
  else
    let d := f64.toDy b
    if flushes f64 b then
      let hl := splitScaled d.m (d.e + 1050) 24
      (negative, 0, hl.1, hl.2)
    else
      let (L, ex) := frexpOf d
      let scaled := d.m * 0x20000000                                     -- numerator of in * 2^29 over 2^L
      (negative, (ex + 1022).toNat, scaled / 2 ^ L, (scaled % 2 ^ L) * 0x1000000 / 2 ^ L)

def f64WriteBytes (b : Nat) : List Byte := f64FieldBytes (f64WriteFields b)
def f64BeWrite (b : Nat) : List Byte := f64WriteBytes b
def f64LeWrite (b : Nat) : List Byte := (f64WriteBytes b).reverse
def f64BeWriteOld (b : Nat) : List Byte := f64WriteBytesWith (flushesOld f64) b
def f64LeWriteOld (b : Nat) : List Byte := (f64WriteBytesWith (flushesOld f64) b).reverse
/-- before the repair of KF-C01-ieee-tiny (`if (fabs (in) < DBL_MIN) return ;`, `if (in < 0.0)`) -/
def f64BeWriteTinyOld (b : Nat) : List Byte := f64WriteBytesWith (flushes f64) b
def f64LeWriteTinyOld (b : Nat) : List Byte := (f64WriteBytesWith (flushes f64) b).reverse

/-! ## sfendian.h — byte-order helpers

`ENDSWAP_*` are glibc `bswap_*` on this build; the model is the arithmetic of the header's own fall-back macros
(`((x >> 24) & 0xFF) + ((x >> 8) & 0xFF00) + …`), which is the definition of a byte swap.  Values are the
unsigned residues (`Nat`); the `BitVec` forms are for the statement "exact involution on every bit pattern". -/

def endswap16 (x : Nat) : Nat := x / 256 % 256 + (x % 256) * 256
def endswap32 (x : Nat) : Nat :=
  x / 16777216 % 256 + (x / 65536 % 256) * 256 + (x / 256 % 256) * 65536 + (x % 256) * 16777216
/-- the header's portable `ENDSWAP_64`: swap the two 32-bit halves, byte-swapping each -/
def endswap64 (x : Nat) : Nat :=
  endswap32 (x / 4294967296 % 4294967296) + endswap32 (x % 4294967296) * 4294967296

def bswap16 (x : BitVec 16) : BitVec 16 := BitVec.ofNat 16 (endswap16 x.toNat)
def bswap32 (x : BitVec 32) : BitVec 32 := BitVec.ofNat 32 (endswap32 x.toNat)
def bswap64 (x : BitVec 64) : BitVec 64 := BitVec.ofNat 64 (endswap64 x.toNat)

/-- BitVec-level definitions: the byte fields re-assembled in reverse order (proved equal to `bswap*` in SfProps/C20Ieee.lean) -/
def bvswap16 (x : BitVec 16) : BitVec 16 := x.extractLsb' 0 8 ++ x.extractLsb' 8 8
def bvswap32 (x : BitVec 32) : BitVec 32 := x.extractLsb' 0 8 ++ x.extractLsb' 8 8 ++ x.extractLsb' 16 8 ++ x.extractLsb' 24 8
def bvswap64 (x : BitVec 64) : BitVec 64 :=
  x.extractLsb' 0 8 ++ x.extractLsb' 8 8 ++ x.extractLsb' 16 8 ++ x.extractLsb' 24 8 ++
  x.extractLsb' 32 8 ++ x.extractLsb' 40 8 ++ x.extractLsb' 48 8 ++ x.extractLsb' 56 8

/-- `(uint8_t) (value >> k)` -/
def byteAt (value : Int) (k : Nat) : Byte := wrapU 8 (asr value k)

def putBe16 (v : Int) : List Byte := [byteAt v 8, byteAt v 0]
def putBe32 (v : Int) : List Byte := [byteAt v 24, byteAt v 16, byteAt v 8, byteAt v 0]
def putBe64 (v : Int) : List Byte :=
  [byteAt v 56, byteAt v 48, byteAt v 40, byteAt v 32, byteAt v 24, byteAt v 16, byteAt v 8, byteAt v 0]

/-- `(int16_t) (ptr [0] << 8) + ptr [1]`, returned as `int16_t` -/
def getBe16 : List Byte → Int
  | [a, b] => wrapS 16 (wrapS 16 ((a % 256 : Nat) * 256) + (b % 256 : Nat))
  | _ => 0
def getBe32 : List Byte → Int
  | [a, b, c, d] => wrapS 32 ((a % 256 : Nat) * 16777216 + (b % 256 : Nat) * 65536 + (c % 256 : Nat) * 256 + (d % 256 : Nat))
  | _ => 0
def getLe32 : List Byte → Int
  | [a, b, c, d] => wrapS 32 ((d % 256 : Nat) * 16777216 + (c % 256 : Nat) * 65536 + (b % 256 : Nat) * 256 + (a % 256 : Nat))
  | _ => 0
/-- 24-bit readers put the three bytes into the TOP of the `int32_t` (pcm.c shifts them down again) -/
def getBe24 : List Byte → Int
  | [a, b, c] => wrapS 32 ((a % 256 : Nat) * 16777216 + (b % 256 : Nat) * 65536 + (c % 256 : Nat) * 256)
  | _ => 0
def getLe24 : List Byte → Int
  | [a, b, c] => wrapS 32 ((c % 256 : Nat) * 16777216 + (b % 256 : Nat) * 65536 + (a % 256 : Nat) * 256)
  | _ => 0
/-- two 32-bit halves, the upper shifted by 32 as `uint64_t` -/
def getBe64 : List Byte → Int
  | [a, b, c, d, e, f, g, h] =>
    let up := (a % 256) * 16777216 + (b % 256) * 65536 + (c % 256) * 256 + d % 256
    let lo := (e % 256) * 16777216 + (f % 256) * 65536 + (g % 256) * 256 + h % 256
    wrapS 64 ((up * 4294967296 + lo : Nat) : Int)
  | _ => 0
def getLe64 : List Byte → Int
  | [a, b, c, d, e, f, g, h] => getBe64 [h, g, f, e, d, c, b, a]
  | _ => 0

/-! ## the `replace_*` paths on a little-endian host (FLOAT32_READ = float32_le_read &c.)

`replace_write_f`: copy the caller's floats, `f2bf_array` (each value is overwritten in place by the four bytes
`float32_le_write` produces), `endswap_int_array` when the file is big-endian, `psf_fwrite`.
`replace_read_f`: `psf_fread`, `endswap_int_array` when the file is big-endian, `bf2f_array`. -/

def replaceWriteF32 (fileBE : Bool) (xs : List Nat) : List Byte :=
  xs.flatMap fun x =>
    let v := ofLE (f32LeWrite x)                       -- the int the host sees in the staging buffer
    leBytes 4 (if fileBE then endswap32 v else v)
def replaceWriteF64 (fileBE : Bool) (xs : List Nat) : List Byte :=
  xs.flatMap fun x =>
    let v := ofLE (f64LeWrite x)
    leBytes 8 (if fileBE then endswap64 v else v)
def replaceReadF32 (fileBE : Bool) (bytes : List Byte) : List Nat :=
  (groups 4 bytes).map fun g =>
    let v := ofLE g
    f32LeRead (leBytes 4 (if fileBE then endswap32 v else v))
def replaceReadF64 (fileBE : Bool) (bytes : List Byte) : List Nat :=
  (groups 8 bytes).map fun g =>
    let v := ofLE g
    f64LeRead (leBytes 8 (if fileBE then endswap64 v else v))

/-- the native (`host_*`) paths: the value's own bits in file order -/
def hostWrite (f : Fmt) (fileBE : Bool) (xs : List Nat) : List Byte :=
  xs.flatMap fun x => if fileBE then Spec.bytesBE f x else Spec.bytesLE f x

end Sf.Ieee
