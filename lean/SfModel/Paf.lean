/-
  SfModel.Paf — stand-alone byte-exact (L1) model of the header side of the Ensoniq PARIS container of src/paf.c
  (2048-byte header; PCM S8 / 16 and the 24-bit block encoding; either byte order; up to 1024 channels):

  * `hdr`                        paf_write_header: all 2048 bytes (written once, at open: every later call returns
                                 at `psf_ftell (psf) >= PAF_HEADER_LENGTH`; the header holds no length)
  * `spec`                       paf_open (SFM_WRITE); nothing is written at close by the container (the 24-bit codec
                                 flushes its last block — that block is part of the audio bytes here)
  * `parse`                      sf_open (SFM_READ): guess_file_type, paf_read_header, pcm_init or paf24_init
                                 (frame count of the 24-bit encoding: `Sf.Paf24.maxBlocks`), validate_sfinfo / validate_psf

  Core Lean only; names live in `Sf.Paf`.
-/
import SfModel.Basic
import SfModel.SmallSession
import SfModel.Paf24
namespace Sf.Paf
open Sf Sf.Small

structure Cfg where
  codec : Nat          -- SF_CODEC (format): 0x01 PCM_S8, 0x02 PCM_16, 0x03 PCM_24
  endian : Nat         -- endian bits of the format word: 0 FILE, 1 LITTLE, 2 BIG, 3 CPU
  ch : Nat
  sr : Nat
deriving Repr, DecidableEq, Inhabited

/-- `sf_format_check` for SF_FORMAT_PAF -/
def accepted (c : Cfg) : Bool := (c.codec = 0x01 ∨ c.codec = 0x02 ∨ c.codec = 0x03) ∧ c.endian < 4 ∧ c.ch ≤ 1024

def Cfg.wf (c : Cfg) : Prop := accepted c = true ∧ 1 ≤ c.ch ∧ 1 ≤ c.sr ∧ c.sr ≤ 0x7FFFFFFF
instance (c : Cfg) : Decidable c.wf := by unfold Cfg.wf; infer_instance

/-- psf->endian == SF_ENDIAN_LITTLE: PAF is big-endian unless LITTLE (or CPU on this host) was asked for -/
def Cfg.little (c : Cfg) : Bool := c.endian = 1 ∨ c.endian = 3
def Cfg.bytewidth (c : Cfg) : Nat := c.codec              -- 1, 2, 3 bytes per sample
def Cfg.bw (c : Cfg) : Nat := c.bytewidth * c.ch
def Cfg.fmtWord (c : Cfg) : Nat := (if c.little then 0x10000000 else 0x20000000) + 0x050000 + c.codec

/-- PAF_PCM_16 = 0, PAF_PCM_24 = 1, PAF_PCM_S8 = 2 -/
def pafFormat (codec : Nat) : Nat := if codec = 0x02 then 0 else if codec = 0x03 then 1 else 2

def hdrLen : Nat := 2048

/-- `paf_write_header` -/
def hdr (c : Cfg) : List Byte :=
  (if c.little then mk4 "fap " ++ le32 0 ++ le32 1 ++ le32 c.sr ++ le32 (pafFormat c.codec) ++ le32 c.ch ++ le32 0
   else mk4 " paf" ++ be32 0 ++ be32 0 ++ be32 c.sr ++ be32 (pafFormat c.codec) ++ be32 c.ch ++ be32 0) ++
  List.replicate 2020 0

def spec (c : Cfg) : Spec :=
  { hdr := fun _ _ _ => hdr c, hdrLen := hdrLen, bw := c.bw, useCalc := false, closeHdr := false }

/-! ## reader -/

/-- the codec init of paf_open, validate_sfinfo, validate_psf -/
def finish (flen : Nat) (little : Bool) (ch : Nat) (rate : Int) (fmt : Nat) : ParseRes :=
  let word := (if little then 0x10000000 else 0x20000000) + 0x050000
  if fmt = 2 ∨ fmt = 0 then
    let bytewidth : Nat := if fmt = 2 then 1 else 2
    let r := codecFrames flen 2048 0 ((bytewidth * ch : Nat) : Int)
    if rate < 1 ∨ r.2 < 0 ∨ r.1 < 0 then .err else
    .ok { ch := ch, fmt := word + (if fmt = 2 then 0x01 else 0x02), sr := rate.toNat, frames := r.2.toNat }
  else if fmt = 1 then
    if rate < 1 then .err else
    .ok { ch := ch, fmt := word + 0x03, sr := rate.toNat, frames := Paf24.spb * Paf24.maxBlocks ch (flen - 2048) }
  else .err                                                      -- SFE_PAF_UNKNOWN_FORMAT

/-- `sf_open_virtual (SFM_READ)` on `bs` -/
def parse (bs : List Byte) : ParseRes :=
  if bs.length < 12 then .err else                               -- guess_file_type: SFE_BAD_FILE_READ
  let m := bs.take 4
  if m ≠ mk4 " paf" ∧ m ≠ mk4 "fap " then .unmodelled else
  if bs.length < 2048 then .err else                             -- SFE_PAF_SHORT_HEADER
  let fld (off : Nat) : Nat := if m = mk4 " paf" then ofBE (slice bs off 4) else ofLE (slice bs off 4)
  if fld 4 ≠ 0 then .err else                                    -- SFE_PAF_VERSION
  let ch : Int := sext 32 (fld 20)
  if ch < 1 ∨ ch > 1024 then .err else                           -- SFE_PAF_BAD_CHANNELS
  finish bs.length (fld 8 ≠ 0) ch.toNat (sext 32 (fld 12)) (fld 16)

end Sf.Paf
