/-
  SfModel.Handle — the handle state machine of sndfile.c (the 16 read/write wrappers, sf_seek,
  the commands that matter to positions, open and close) over a byte store, for the
  sample-granular encodings in the containers whose header bytes are modelled (RAW, AU, WAV).

  Everything is a total function; `step : World → Op → World × Out`.
-/
import SfModel.Basic
import SfModel.Float
import SfModel.Pcm
namespace Sf

/-! ## byte store (what the SF_VIRTUAL_IO callbacks see) -/

structure Store where
  bytes : List Byte := []
  pos   : Nat := 0
deriving Repr, Inhabited

def zeros (n : Nat) : List Byte := List.replicate n 0

/-- write `data` at `pos`, zero-filling a hole if `pos` is past the end -/
def writeAt (bs : List Byte) (pos : Nat) (data : List Byte) : List Byte :=
  let pre := if pos ≤ bs.length then bs.take pos else bs ++ zeros (pos - bs.length)
  pre ++ data ++ bs.drop (pos + data.length)

def Store.write (s : Store) (data : List Byte) : Store :=
  if data.isEmpty then s else { bytes := writeAt s.bytes s.pos data, pos := s.pos + data.length }

/-- read up to `n` bytes at the current position -/
def Store.read (s : Store) (n : Nat) : List Byte × Store :=
  let got := (s.bytes.drop s.pos).take n
  (got, { s with pos := s.pos + got.length })

def Store.seekSet (s : Store) (p : Nat) : Store := { s with pos := p }

/-! ## formats -/

inductive Mode | r | w | rw
deriving Repr, DecidableEq, Inhabited

inductive Container | raw | au | wav
deriving Repr, DecidableEq, Inhabited

def containerOf (fmt : Nat) : Option Container :=
  match fmt / 0x10000 % 0x1000 with
  | 0x04 => some .raw | 0x03 => some .au | 0x01 => some .wav | _ => none

def Container.code : Container → Nat | .raw => 0x040000 | .au => 0x030000 | .wav => 0x010000

def endianOf (fmt : Nat) : Nat := fmt / 0x10000000 % 4      -- 0 FILE, 1 LITTLE, 2 BIG, 3 CPU
def codecOf (fmt : Nat) : Nat := fmt % 0x10000

/-- data byte order chosen by raw_open / au_open / wav_open in write mode (host is little-endian) -/
def dataBig (c : Container) (fmt : Nat) : Bool :=
  match c with
  | .raw => endianOf fmt == 2
  | .au  => !(endianOf fmt == 1 || endianOf fmt == 3)
  | .wav => endianOf fmt == 2

/-- the sample encoding for a codec code, or none if this container does not offer it (sf_format_check) -/
def encOf (c : Container) (codec : Nat) (big : Bool) : Option Enc :=
  match codec with
  | 0x01 => if c == .wav then none else some (.pcm ⟨8, false, big⟩)
  | 0x05 => if c == .au then none else some (.pcm ⟨8, true, big⟩)
  | 0x02 => some (.pcm ⟨16, false, big⟩)
  | 0x03 => some (.pcm ⟨24, false, big⟩)
  | 0x04 => some (.pcm ⟨32, false, big⟩)
  | 0x06 => some (.flt big)
  | 0x07 => some (.dbl big)
  | 0x10 => some .ulaw
  | 0x11 => some .alaw
  | _ => none

def Enc.isFloatData : Enc → Bool | .flt _ | .dbl _ => true | _ => false

/-! ## the handle -/

structure Peak where
  value : Nat := 0        -- binary64 bits of peaks[ch].value
  position : Int := 0
deriving Repr, Inhabited

structure H where
  store : Nat
  mode : Mode
  container : Container
  enc : Enc
  big : Bool                       -- data/header byte order
  ch : Nat
  sr : Int
  fmtWord : Nat                    -- sf.format as reported
  frames : Int
  rpos : Int := 0
  wpos : Int := 0
  lastOp : Mode
  haveWritten : Bool := false
  autoHeader : Bool := false
  error : Int := 0
  conv : Conv := {}
  dataoffset : Int := 0
  datalength : Int := 0
  dataend : Int := 0
  filelength : Int := 0
  peak : Option (List Peak) := none       -- only WAV float/double opened for write
  peakAtStart : Bool := true
  canTruncate : Bool := false             -- ftruncate works on descriptors, not on SF_VIRTUAL_IO
deriving Repr, Inhabited

def H.nb (h : H) : Nat := h.enc.nbytes
def H.bw (h : H) : Nat := h.enc.nbytes * h.ch

structure World where
  stores : List Store := List.replicate 64 {}
  handles : List (Option H) := List.replicate 16 none
  sfErrno : Int := 0                       -- the process-wide sf_errno
deriving Inhabited

def World.store (w : World) (i : Nat) : Store := w.stores.getD i {}
def World.setStore (w : World) (i : Nat) (s : Store) : World := { w with stores := w.stores.set i s }
def World.setHandle (w : World) (i : Nat) (h : Option H) : World := { w with handles := w.handles.set i h }

/-! ## header writers -/

def u32 (big : Bool) (v : Int) : List Byte := if big then beBytes 4 (wrapU 32 v) else leBytes 4 (wrapU 32 v)
def u16 (big : Bool) (v : Int) : List Byte := if big then beBytes 2 (wrapU 16 v) else leBytes 2 (wrapU 16 v)
def marker (s : String) : List Byte := s.toList.map Char.toNat

def auEncoding : Nat → Nat
  | 0x01 => 2 | 0x02 => 3 | 0x03 => 4 | 0x04 => 5 | 0x06 => 6 | 0x07 => 7 | 0x10 => 1 | 0x11 => 27 | _ => 0

/-- `au_write_header`: 24 bytes -/
def auHeader (h : H) : List Byte :=
  let dl : Int := if h.datalength < 0 ∨ h.datalength > 0x7FFFFFFF then -1 else h.datalength
  (if h.big then marker ".snd" else marker "dns.") ++ u32 h.big 24 ++ u32 h.big dl ++
    u32 h.big (auEncoding (codecOf h.fmtWord)) ++ u32 h.big h.sr ++ u32 h.big h.ch

def wavFormatTag : Nat → Nat
  | 0x06 | 0x07 => 3 | 0x10 => 7 | 0x11 => 6 | _ => 1

def hasFact (codec : Nat) : Bool := codec == 0x06 || codec == 0x07 || codec == 0x10 || codec == 0x11

/-- the `f` of psf_binheader_writef goes through float32_le_write / float32_be_write.  Since the repair 71c426d these write the
    binary32 bit string of every finite value (subnormals and zero included: `Sf.PeakExact.wrF32`, SfProps/C20Ieee `ieee_write_finite_f32`);
    a PEAK value is the binary32 of a maximum of absolute values, so the field is the bit string itself.  Before 71c426d the field
    stayed zero when `fabs (in) < FLT_MIN` (`wrF32TinyOld`), before ec5379c when `< 1e-30` (`wrF32Old`). -/
def wrF32 (b : Nat) : Nat := b
def wrF32TinyOld (b : Nat) : Nat := if b % 2 ^ 31 < 0x00800000 then 0 else b
/-- 0x0DA2425F is the largest binary32 below the double 1e-30 -/
def wrF32Old (b : Nat) : Nat := if b % 2 ^ 31 < 0x0DA24260 then 0 else b

/-- `wavlike_write_peak_chunk`: value as binary32 (through the portable serialiser), 4-byte position;
    timestamp is the pinned clock of the harness -/
def peakChunk (h : H) (ps : List Peak) : List Byte :=
  marker "PEAK" ++ u32 h.big (8 + 8 * h.ch) ++ u32 h.big 1 ++ u32 h.big 1000000000 ++
    ps.flatMap fun p => u32 h.big (wrF32 (Float.f64to32 p.value)) ++ u32 h.big p.position

/-- `wav_write_header` (WAV container, the chunks this model knows: fmt, fact, PEAK, data) -/
def wavHeader (h : H) : List Byte :=
  let codec := codecOf h.fmtWord
  let b := h.big
  let riffLen : Int := if h.filelength < 8 then 8 else (if h.filelength - 8 < 0xFFFFFFFF then h.filelength - 8 else 0xFFFFFFFF)
  let bwid : Int := h.nb
  let fmtBody := u16 b (wavFormatTag codec) ++ u16 b h.ch ++ u32 b h.sr ++ u32 b (h.sr * bwid * h.ch) ++
                 u16 b (bwid * h.ch) ++ u16 b (if codec == 0x10 || codec == 0x11 then 8 else bwid * 8)
  let fmtChunk := if codec == 0x10 || codec == 0x11 then u32 b 18 ++ fmtBody ++ u16 b 0 else u32 b 16 ++ fmtBody
  let fact := if hasFact codec then marker "fact" ++ u32 b 4 ++ u32 b h.frames else []
  let peak := match h.peak with
    | some ps => if h.peakAtStart then peakChunk h ps else []
    | none => []
  let dlen : Int := if h.datalength < 0xFFFFFFFF then h.datalength else 0xFFFFFFFF
  (if b then marker "RIFX" else marker "RIFF") ++ u32 b riffLen ++ marker "WAVE" ++ marker "fmt " ++ fmtChunk ++
    fact ++ peak ++ marker "data" ++ u32 b dlen

/-! ## header parsers (the subset of files these writers produce; anything else: `none` = not modelled) -/

structure Parsed where
  fmtWord : Nat
  ch : Nat
  sr : Int
  big : Bool
  dataoffset : Nat
  datalength : Int
  dataend : Int
  filelength : Int
  peak : Option (List Peak) := none
  peakAtStart : Bool := true
deriving Repr

inductive ParseRes
  | ok (p : Parsed)
  | err                      -- the library refuses the file
  | unmodelled               -- outside what this model describes
deriving Repr

def rd32 (big : Bool) (bs : List Byte) (off : Nat) : Nat :=
  let b := (bs.drop off).take 4
  if big then ofBE b else ofLE b
def rd16 (big : Bool) (bs : List Byte) (off : Nat) : Nat :=
  let b := (bs.drop off).take 2
  if big then ofBE b else ofLE b

def auCodec : Nat → Option Nat
  | 1 => some 0x10 | 2 => some 0x01 | 3 => some 0x02 | 4 => some 0x03 | 5 => some 0x04
  | 6 => some 0x06 | 7 => some 0x07 | 27 => some 0x11 | _ => none

/-- `au_read_header` for a plain (not embedded) file -/
def auParse (bs : List Byte) : ParseRes :=
  let m := bs.take 4
  if bs.length < 24 then (if m == marker ".snd" ∨ m == marker "dns." then .unmodelled else .err) else
  let big := m == marker ".snd"
  if !(big ∨ m == marker "dns.") then .err else
  let dataoffset := rd32 big bs 4
  let datasize : Int := sext 32 (rd32 big bs 8)
  let encoding := rd32 big bs 12
  let sr : Int := sext 32 (rd32 big bs 16)
  let ch : Int := sext 32 (rd32 big bs 20)
  let flen : Int := bs.length
  let dataEnd : Int := (sext 32 dataoffset) + datasize
  let flen' : Int := if datasize == -1 ∨ dataEnd == flen then flen else if dataEnd < flen then dataEnd else flen
  match auCodec encoding with
  | none => .unmodelled
  | some codec =>
    if ch < 1 ∨ ch > 1024 then .err else
    if dataoffset != 24 then .unmodelled else
    .ok { fmtWord := (if big then 0 else 0x10000000) + 0x030000 + codec, ch := ch.toNat, sr := sr, big := big,
          dataoffset := dataoffset, datalength := flen' - dataoffset, dataend := 0, filelength := flen' }

/-- walk of RIFF chunks as `wav_read_header` performs it, for the chunk kinds fmt / fact / PEAK / data / PAD -/
structure WavScan where
  fmtTag : Nat := 0
  ch : Nat := 0
  sr : Int := 0
  bits : Nat := 0
  haveFmt : Bool := false
  dataoffset : Nat := 0
  datalength : Int := 0
  dataend : Int := 0
  peak : Option (List Peak) := none
  peakAtStart : Bool := true
  haveData : Bool := false
deriving Repr

def parsePeaks (big : Bool) (bs : List Byte) (off : Nat) : Nat → List Peak
  | 0 => []
  | n+1 => { value := Float.f32to64 (rd32 big bs off), position := rd32 big bs (off + 4) } :: parsePeaks big bs (off + 8) n

/-- returns none when a chunk outside the modelled subset is met -/
def wavScan (big : Bool) (bs : List Byte) (flen : Nat) : Nat → Nat → WavScan → Option WavScan
  | 0, _, s => some s
  | fuel+1, pos, s =>
    if pos + 8 > flen then some s else
    let m := (bs.drop pos).take 4
    let size := rd32 big bs (pos + 4)
    let body := pos + 8
    let next (s : WavScan) (sz : Nat) : Option WavScan :=
      let p := body + sz
      -- the parser stops when fewer than 4 bytes remain (`psf_ftell >= filelength - 4`)
      if sz ≥ flen then some s
      else if p + 4 ≥ flen + 0 ∧ p ≥ flen - 4 then some s
      else wavScan big bs flen fuel (p + sz % 2) s
    if m == marker "fmt " then
      if s.haveFmt then next s size else
      if size < 16 then none else
      next { s with fmtTag := rd16 big bs body, ch := rd16 big bs (body + 2), sr := rd32 big bs (body + 4),
                    bits := rd16 big bs (body + 14), haveFmt := true } size
    else if m == marker "fact" then next s size
    else if m == marker "PAD " then next s size
    else if m == marker "PEAK" then
      if !s.haveFmt ∨ size != 8 + 8 * s.ch then none else
      next { s with peak := some (parsePeaks big bs (body + 8) s.ch), peakAtStart := !s.haveData } size
    else if m == marker "data" then
      if !s.haveFmt then none else
      let avail : Int := (flen : Int) - body
      let dl : Int := if (size : Int) > avail then avail else size
      let dend : Int := if dl + body < flen then dl + body else 0
      let dl' := dl + size % 2
      let s' := { s with dataoffset := body, datalength := dl', dataend := dend, haveData := true }
      -- seek past the data and go on
      let p : Int := body + dl'
      if p.toNat + 4 ≥ flen ∧ p.toNat ≥ flen - 4 then some s'
      else wavScan big bs flen fuel p.toNat s'
    else none

def wavParse (bs : List Byte) : ParseRes :=
  let m := bs.take 4
  let big := m == marker "RIFX"
  if !(big ∨ m == marker "RIFF") then .err else
  if bs.length < 12 then .unmodelled else
  if (bs.drop 8).take 4 != marker "WAVE" then .err else
  match wavScan big bs bs.length 64 12 {} with
  | none => .unmodelled
  | some s =>
    if !s.haveData ∨ !s.haveFmt then .unmodelled else
    let codec : Option Nat :=
      match s.fmtTag, s.bits with
      | 1, 8 => some 0x05 | 1, 16 => some 0x02 | 1, 24 => some 0x03 | 1, 32 => some 0x04
      | 3, 32 => some 0x06 | 3, 64 => some 0x07 | 7, 8 => some 0x10 | 6, 8 => some 0x11
      | _, _ => none
    match codec with
    | none => .unmodelled
    | some c =>
      if s.ch < 1 ∨ s.ch > 1024 then .err else
      .ok { fmtWord := (if big then 0x20000000 else 0) + 0x010000 + c, ch := s.ch, sr := s.sr, big := big,
            dataoffset := s.dataoffset, datalength := s.datalength, dataend := s.dataend, filelength := bs.length,
            peak := s.peak, peakAtStart := s.peakAtStart }

/-! ## write_header / close -/

/-- `xxx_write_header (psf, calc_length)`: recompute lengths, rewrite the header at offset 0, restore the
    position. Returns the new handle and store. -/
def writeHeader (h : H) (s : Store) (calcLen : Bool) : H × Store :=
  match h.container with
  | .raw => (h, s)
  | .au =>
    let cur := s.pos
    let h := if calcLen then
        let fl : Int := s.bytes.length
        let dl := fl - h.dataoffset
        { h with filelength := fl, datalength := if h.dataend != 0 then dl - (fl - h.dataend) else dl }
      else h
    let s := (s.seekSet 0).write (auHeader h)
    let h := { h with dataoffset := 24 }
    (h, if cur > 0 then s.seekSet cur else s)
  | .wav =>
    let cur := s.pos
    let hasData : Bool := (cur : Int) > h.dataoffset
    let h := if calcLen then
        let fl : Int := s.bytes.length
        let dl := fl - h.dataoffset
        let dl := if h.dataend != 0 then dl - (fl - h.dataend) else h.frames * h.nb * h.ch
        { h with filelength := fl, datalength := dl }
      else h
    let hdr := wavHeader h
    let s := (s.seekSet 0).write hdr
    -- (has_data && dataoffset != header length) would be SFE_INTERNAL; it cannot happen for this chunk set
    let h := { h with dataoffset := hdr.length }
    (h, if !hasData then s.seekSet hdr.length else if cur > 0 then s.seekSet cur else s)

/-- `wav_write_tailer` -/
def wavTailer (h : H) (s : Store) : H × Store :=
  let dl : Int := h.frames * h.nb * h.ch
  let h := { h with datalength := dl, dataend := h.dataoffset + dl }
  let s := if h.dataend > 0 then s.seekSet h.dataend.toNat else s.seekSet s.bytes.length
  let h := if h.dataend > 0 then h else { h with dataend := s.bytes.length }
  let pad : List Byte := if h.dataend % 2 == 1 then [0] else []
  let peak : List Byte := match h.peak with
    | some ps => if !h.peakAtStart then peakChunk h ps else []
    | none => []
  (h, s.write (pad ++ peak))

def closeHandle (h : H) (s : Store) : Store :=
  if h.mode == .r then s else
  match h.container with
  | .raw => s
  | .au => (writeHeader h s true).2
  | .wav =>
    let (h, s) := wavTailer h s
    let (h, s) := if h.mode == .rw then
        let cur := s.pos
        if (cur : Int) < h.filelength then
          ({ h with filelength := cur }, if h.canTruncate then { s with bytes := s.bytes.take cur } else s)
        else (h, s)
      else (h, s)
    (writeHeader h s true).2

/-! ## open -/

inductive OpenRes
  | ok (h : H) (s : Store)
  | fail (s : Store)            -- sf_open returned NULL
  | unmodelled

def initFrames (dataoffset dataend filelength : Int) (bw : Nat) : Int × Int :=
  let dl := if filelength > dataoffset then (if dataend > 0 then dataend - dataoffset else filelength - dataoffset) else 0
  (dl, if bw > 0 then dl / bw else 0)

def mkPeaks (ch : Nat) : List Peak := List.replicate ch {}

def openHandle (storeIx : Nat) (s : Store) (mode : Mode) (fmt : Nat) (ch : Int) (sr : Int) : OpenRes :=
  let s := s.seekSet 0
  let flen := s.bytes.length
  let fresh := mode == .w ∨ (mode == .rw ∧ flen == 0)
  if fresh ∨ containerOf fmt == some .raw then
    -- SF_INFO must describe the file: sf_format_check
    match containerOf fmt with
    | none => .unmodelled
    | some c =>
      if ch < 1 ∨ ch > 1024 ∨ sr < 0 then .fail s else
      let big := dataBig c fmt
      match encOf c (codecOf fmt) big with
      | none => .unmodelled
      | some enc =>
        if sr < 1 then .fail s else
        let chn := ch.toNat
        let bw := enc.nbytes * chn
        let h0 : H := { store := storeIx, mode := mode, container := c, enc := enc, big := big, ch := chn, sr := sr,
                        fmtWord := fmt, frames := 0, lastOp := mode }
        match c with
        | .raw =>
          let (dl, fr) := initFrames 0 0 flen bw
          .ok { h0 with datalength := dl, frames := fr, filelength := flen, wpos := if mode == .rw then fr else 0,
                        haveWritten := mode == .rw ∧ fr > 0 } s
        | .au =>
          -- au_open writes a header at once (datalength unknown = -1), then codec init sees filelength 0
          let h1 := { h0 with datalength := -1, dataoffset := -1 }
          let (h1, s) := writeHeader h1 s false
          .ok { h1 with datalength := 0, frames := 0 } s
        | .wav =>
          let peak := if mode == .w ∧ enc.isFloatData then some (mkPeaks chn) else none
          let h1 := { h0 with peak := peak, filelength := 0, datalength := 0, dataoffset := 0 }
          let (h1, s) := writeHeader h1 s false
          .ok h1 s
  else
    -- existing file: parse the header (read or rdwr)
    let parsed : ParseRes :=
      let m := s.bytes.take 4
      if m == marker "RIFF" ∨ m == marker "RIFX" then wavParse s.bytes
      else if m == marker ".snd" ∨ m == marker "dns." then auParse s.bytes
      else .unmodelled
    match parsed with
    | .err => .fail s
    | .unmodelled => .unmodelled
    | .ok p =>
      match containerOf p.fmtWord with
      | none => .unmodelled
      | some c =>
        match encOf c (codecOf p.fmtWord) p.big with
        | none => .unmodelled
        | some enc =>
          if p.sr < 1 then .fail s else
          let bw := enc.nbytes * p.ch
          let (dl, fr) := initFrames p.dataoffset p.dataend p.filelength bw
          let h : H := { store := storeIx, mode := mode, container := c, enc := enc, big := p.big, ch := p.ch, sr := p.sr,
                         fmtWord := p.fmtWord, frames := fr, lastOp := mode, dataoffset := p.dataoffset, datalength := dl,
                         dataend := p.dataend, filelength := p.filelength,
                         peak := p.peak, peakAtStart := p.peakAtStart,
                         wpos := if mode == .rw then fr else 0, haveWritten := mode == .rw ∧ fr > 0 }
          .ok h (s.seekSet p.dataoffset)

/-! ## operations -/

inductive Op
  | read  (h : Nat) (ty : Ty) (frameCall : Bool) (n : Int)
  | write (h : Nat) (ty : Ty) (frameCall : Bool) (n : Int) (data : List Int)
  | seek  (h : Nat) (off : Int) (whence : Int)
  | cmdFlag (h : Nat) (cmd : Nat) (size : Int)          -- commands that carry their argument in `datasize`
  | truncate (h : Nat) (frames : Int)
  | close (h : Nat)
deriving Repr

/-- what a call returns and leaves in the caller's buffer -/
structure Out where
  ret : Int := 0
  err : Int := 0
  data : List Int := []        -- buffer contents after a read (`pattern` where untouched)
  hasData : Bool := false
deriving Repr, Inhabited

/-- buffer cell the harness pre-fills (0xA5 bytes) -/
def pattern (ty : Ty) : Int :=
  match ty with
  | .s16 => sext 16 0xA5A5 | .s32 => sext 32 0xA5A5A5A5 | .f32 => 0xA5A5A5A5 | .f64 => 0xA5A5A5A5A5A5A5A5

-- symbolic error numbers (the transcript only distinguishes zero / non-zero)
def E_NOT_READMODE : Int := 1001
def E_NOT_WRITEMODE : Int := 1002
def E_BAD_ALIGN : Int := 1003
def E_NEG_LEN : Int := 1004
def E_BAD_SEEK : Int := 1005
def E_WRONG_SEEK : Int := 1006
def E_AMBIGUOUS_SEEK : Int := 1007
def E_BAD_CMD : Int := 1008

/-- `psf_default_seek` on the store -/
def defaultSeek (h : H) (s : Store) (frame : Int) : Store :=
  s.seekSet (h.dataoffset + (h.bw : Int) * frame).toNat

/-- PEAK bookkeeping of float32.c / double64.c for one write call.  `float32_peak_update` / `double64_peak_update` run once
    per staging buffer when the caller's type is not the file's type, once per call otherwise; they take item k of the
    buffer for channel k % channels.  The running maximum `fmaxval` has the sample's own type (a `double` in
    double64.c since the repair of KF-C18-DOUBLE-NARROW), and the staging buffer is cut at a whole number of frames
    (repair of KF-C18-STAGING-MISALIGN).  The rules before the repairs are `peakChunkUpdateOld` / `peakUpdateOld` below. -/
def absBits (f : Float.Fmt) (b : Nat) : Nat := b % 2 ^ (f.ebits + f.mbits)

def peakChunkUpdate (f : Float.Fmt) (ch : Nat) (wcur : Int) (indx : Int) (vals : List Nat) (ps : List Peak) : List Peak :=
  -- vals: the file-typed values of this buffer (bit patterns of `f`); `fmaxval` is a value of the same type
  let widen (v : Nat) : Nat := if f == Float.f32 then Float.f32to64 v else v          -- peaks [chan].value is a double
  (List.range ch).map fun c =>
    let p := ps.getD c {}
    let first := absBits f (vals.getD c 0)
    let idxs := (List.range ((vals.length + ch - 1 - c) / ch)).map fun j => c + j * ch
    let (mx, pos) := idxs.foldl (fun (acc : Nat × Nat) k =>
        let v := absBits f (vals.getD k 0)
        if (f.toDy acc.1).lt (f.toDy v) then (v, k) else acc) (first, 0)
    let mx64 := widen mx
    if (Float.f64.toDy p.value).lt (Float.f64.toDy mx64) then
      { value := mx64, position := wcur + indx + (pos / ch : Nat) }
    else p

def chunksOf (n : Nat) (l : List α) : List (List α) :=
  if n == 0 then [l] else
  (List.range ((l.length + n - 1) / n)).map fun i => (l.drop (i * n)).take n

/-- items per staging buffer: `bufferlen = ARRAY_LEN (ubuf.Xbuf) ; bufferlen -= bufferlen % channels` -/
def stagingLen (f : Float.Fmt) (ch : Nat) : Nat := 8192 / (f.width / 8) - 8192 / (f.width / 8) % ch

def peakUpdate (h : H) (ty : Ty) (vals : List Int) : Option (List Peak) :=
  match h.peak with
  | none => none
  | some ps =>
    let (f, fileTy) : Float.Fmt × Ty := match h.enc with | .dbl _ => (Float.f64, .f64) | _ => (Float.f32, .f32)
    -- file-typed values
    let conv (v : Int) : Nat :=
      match h.enc with
      | .flt _ => (match ty with | .s16 | .s32 => floatOfInt Float.f32 h.conv.scaleIF ty v | .f32 => v.toNat | .f64 => Float.f64to32 v.toNat)
      | _ => (match ty with | .s16 | .s32 => floatOfInt Float.f64 h.conv.scaleIF ty v | .f32 => Float.f32to64 v.toNat | .f64 => v.toNat)
    let fv := vals.map conv
    let whole := ty == fileTy           -- host_write_f / host_write_d update once for the whole call
    let csz := if whole then 0 else stagingLen f h.ch
    let cs := chunksOf csz fv
    let (ps, _) := cs.foldl (fun (acc : List Peak × Nat) c =>
        (peakChunkUpdate f h.ch h.wpos ((acc.2 / h.ch : Nat) : Int) c acc.1, acc.2 + c.length)) (ps, 0)
    some ps

/-! ### the rules before the repairs (kept for the `…_old_rule` theorems of C18 / C07) -/

/-- `float fmaxval` in double64.c: a double sample was narrowed when it became the running maximum, but the comparison
    `fmaxval < fabs (buffer [k])` was made against the un-narrowed sample -/
def peakChunkUpdateOld (f : Float.Fmt) (ch : Nat) (wcur : Int) (indx : Int) (vals : List Nat) (ps : List Peak) : List Peak :=
  let narrow (v : Nat) : Nat := if f == Float.f32 then v else Float.f64to32 v
  let dyOf (v : Nat) : Float.Dy := f.toDy v
  (List.range ch).map fun c =>
    let p := ps.getD c {}
    let first := narrow (absBits f (vals.getD c 0))
    let idxs := (List.range ((vals.length + ch - 1 - c) / ch)).map fun j => c + j * ch
    let (mx, pos) := idxs.foldl (fun (acc : Nat × Nat) k =>
        let v := absBits f (vals.getD k 0)
        if (Float.f32.toDy acc.1).lt (dyOf v) then (narrow v, k) else acc) (first, 0)
    let mx64 := Float.f32to64 mx
    if (Float.f64.toDy p.value).lt (Float.f64.toDy mx64) then
      { value := mx64, position := wcur + indx + (pos / ch : Nat) }
    else p

/-- staging buffers of 8192 / sizeof (file sample) items whatever the channel count -/
def peakUpdateOld (h : H) (ty : Ty) (vals : List Int) : Option (List Peak) :=
  match h.peak with
  | none => none
  | some ps =>
    let (f, fileTy) : Float.Fmt × Ty := match h.enc with | .dbl _ => (Float.f64, .f64) | _ => (Float.f32, .f32)
    let conv (v : Int) : Nat :=
      match h.enc with
      | .flt _ => (match ty with | .s16 | .s32 => floatOfInt Float.f32 h.conv.scaleIF ty v | .f32 => v.toNat | .f64 => Float.f64to32 v.toNat)
      | _ => (match ty with | .s16 | .s32 => floatOfInt Float.f64 h.conv.scaleIF ty v | .f32 => Float.f32to64 v.toNat | .f64 => v.toNat)
    let fv := vals.map conv
    let whole := ty == fileTy
    let csz := if whole then 0 else 8192 / (f.width / 8)
    let cs := chunksOf csz fv
    let (ps, _) := cs.foldl (fun (acc : List Peak × Nat) c =>
        (peakChunkUpdateOld f h.ch h.wpos ((acc.2 / h.ch : Nat) : Int) c acc.1, acc.2 + c.length)) (ps, 0)
    some ps

def stepRead (h : H) (s : Store) (ty : Ty) (frameCall : Bool) (n : Int) : H × Store × Out :=
  if n == 0 then (h, s, { ret := 0, err := h.error }) else        -- returns before the handle is even looked at
  let h := { h with error := 0 }
  let len : Int := if frameCall then n * h.ch else n
  let blank : List Int := List.replicate len.toNat (pattern ty)
  if n < 0 then ({ h with error := E_NEG_LEN }, s, { ret := 0, err := E_NEG_LEN, data := [], hasData := true }) else
  if h.mode == .w then ({ h with error := E_NOT_READMODE }, s, { ret := 0, err := E_NOT_READMODE, data := blank, hasData := true }) else
  if !frameCall ∧ len % h.ch != 0 then ({ h with error := E_BAD_ALIGN }, s, { ret := 0, err := E_BAD_ALIGN, data := blank, hasData := true }) else
  if h.rpos ≥ h.frames then (h, s, { ret := 0, err := 0, data := List.replicate len.toNat 0, hasData := true }) else
  let s := if h.lastOp != .r then defaultSeek h s h.rpos else s
  -- codec read: `len` items straight from the current position
  let (got, s) := s.read (len.toNat * h.nb)
  let count : Int := got.length / h.nb
  let vals := h.enc.decodeAll h.conv ty got
  let (count, rpos, tail) :=
    if count ≤ (h.frames - h.rpos) * h.ch then (count, h.rpos + count / h.ch, List.replicate (len - count).toNat (pattern ty))
    else
      let c := (h.frames - h.rpos) * h.ch
      (c, h.frames, List.replicate (len - c).toNat 0)
  let h := { h with rpos := rpos, lastOp := .r }
  (h, s, { ret := if frameCall then count / h.ch else count, err := 0, data := vals.take count.toNat ++ tail, hasData := true })

def stepWrite (h : H) (s : Store) (ty : Ty) (frameCall : Bool) (n : Int) (data : List Int) : H × Store × Out :=
  if n == 0 then (h, s, { ret := 0, err := h.error }) else
  let h := { h with error := 0 }
  let len : Int := if frameCall then n * h.ch else n
  if n < 0 then ({ h with error := E_NEG_LEN }, s, { ret := 0, err := E_NEG_LEN }) else
  if h.mode == .r then ({ h with error := E_NOT_WRITEMODE }, s, { ret := 0, err := E_NOT_WRITEMODE }) else
  if !frameCall ∧ len % h.ch != 0 then ({ h with error := E_BAD_ALIGN }, s, { ret := 0, err := E_BAD_ALIGN }) else
  let s := if h.lastOp != .w then defaultSeek h s h.wpos else s
  let (h, s) := if !h.haveWritten ∧ h.container != .raw then writeHeader h s false else (h, s)
  let h := { h with haveWritten := true }
  let vals := data.take len.toNat
  let peak := peakUpdate h ty vals
  let s := s.write (h.enc.encodeAll h.conv ty vals)
  let count := len
  let wpos := h.wpos + count / h.ch
  let h := { h with wpos := wpos, lastOp := .w, peak := peak }
  let h := if wpos > h.frames then { h with frames := wpos, dataend := 0 } else h
  let (h, s) := if h.autoHeader ∧ h.container != .raw then writeHeader h s true else (h, s)
  (h, s, { ret := if frameCall then count / h.ch else count, err := 0 })

def modeBits : Mode → Int | .r => 0x10 | .w => 0x20 | .rw => 0x30

def stepSeek (h : H) (s : Store) (off : Int) (whence : Int) : H × Store × Out :=
  let h := { h with error := 0 }
  let wm := whence % 0x100 / 0x10 * 0x10        -- whence & SFM_MASK (0x30)
  let wm := wm % 0x40
  let fail (e : Int) : H × Store × Out := ({ h with error := e }, s, { ret := -1, err := e })
  if (wm == 0x20 ∧ h.mode == .r) ∨ (wm == 0x10 ∧ h.mode == .w) then fail E_WRONG_SEEK else
  -- (frames from start, or an immediate return value)
  let r : Except Int (Sum Int Int) :=
    if whence == 0 ∨ whence == 0x10 ∨ whence == 0x20 ∨ whence == 0x30 then .ok (.inl off)
    else if whence == 1 then
      if off == 0 ∧ h.mode == .r then .ok (.inr h.rpos)
      else if off == 0 ∧ h.mode == .w then .ok (.inr h.wpos)
      else if h.mode == .r then .ok (.inl (h.rpos + off)) else .ok (.inl (h.wpos + off))
    else if whence == 0x11 then (if off == 0 then .ok (.inr h.rpos) else .ok (.inl (h.rpos + off)))
    else if whence == 0x21 then (if off == 0 then .ok (.inr h.wpos) else .ok (.inl (h.wpos + off)))
    else if whence == 2 ∨ whence == 0x12 ∨ whence == 0x22 then .ok (.inl (h.frames + off))
    else .error E_BAD_SEEK
  match r with
  | .error e => fail e
  | .ok (.inr v) => (h, s, { ret := v, err := 0 })
  | .ok (.inl target) =>
    if (h.mode == .rw ∨ h.mode == .w) ∧ target < 0 then fail E_BAD_SEEK
    else if h.mode == .r ∧ (target < 0 ∨ target > h.frames) then fail E_BAD_SEEK
    else
      let newMode : Int := if wm != 0 then wm else modeBits h.mode
      let s := defaultSeek h s target
      let h := if newMode == 0x10 then { h with rpos := target, lastOp := .r }
               else if newMode == 0x20 then { h with wpos := target, lastOp := .w }
               else { h with rpos := target, wpos := target, lastOp := .r }
      (h, s, { ret := target, err := 0 })

/-- SFC_SET_NORM_FLOAT … : the argument travels in `datasize`; returns as sf_command does -/
def stepCmdFlag (h : H) (s : Store) (cmd : Nat) (size : Int) : H × Store × Out :=
  let h := { h with error := 0 }
  let b := size != 0
  let ofB (x : Bool) : Int := if x then 1 else 0
  match cmd with
  | 0x1013 => ({ h with conv := { h.conv with normF := b } }, s, { ret := ofB h.conv.normF })
  | 0x1012 => ({ h with conv := { h.conv with normD := b } }, s, { ret := ofB h.conv.normD })
  | 0x1011 => (h, s, { ret := ofB h.conv.normF })
  | 0x1010 => (h, s, { ret := ofB h.conv.normD })
  | 0x10C0 => ({ h with conv := { h.conv with clip := b } }, s, { ret := ofB b })
  | 0x10C1 => (h, s, { ret := ofB h.conv.clip })
  | 0x1015 => ({ h with conv := { h.conv with scaleIF := b } }, s, { ret := ofB h.conv.scaleIF })
  | 0x1061 => ({ h with autoHeader := b }, s, { ret := ofB b })
  | 0x1060 =>
    let (h, s) := if h.mode != .r ∧ h.container != .raw then writeHeader h s true else (h, s)
    (h, s, { ret := 0 })
  | _ => (h, s, { ret := 0, err := 0 })

/-- ftruncate: cut, or extend with zero bytes -/
def truncBytes (bs : List Byte) (n : Nat) : List Byte :=
  if n ≤ bs.length then bs.take n else bs ++ zeros (n - bs.length)

/-- SFC_FILE_TRUNCATE with a valid 8-byte argument -/
def stepTruncate (h : H) (s : Store) (frames : Int) : H × Store × Out :=
  let h := { h with error := 0 }
  if h.mode == .r then (h, s, { ret := 1 }) else
  -- since the TRUNC-VIO repair: SF_VIRTUAL_IO has no truncate callback; refused before the seek and before sf.frames is touched
  if !h.canTruncate then (h, s, { ret := 1 }) else
  let (h, s, o) := stepSeek h s frames 0
  if o.ret != frames then (h, s, { ret := 1, err := h.error }) else
  let h := { h with frames := frames }
  (h, { s with bytes := truncBytes s.bytes s.pos }, { ret := 0, err := 0 })

end Sf
