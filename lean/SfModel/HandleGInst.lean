/-
  SfModel.HandleGInst — instances of the generic handle machine (SfModel/HandleG.lean).

  * `rawSpec`, `auSpec`, `wavSpec`: the three containers of `Sf.Handle`, rebuilt as `Spec`s from the same header
    writers / parsers (`auHeader`, `wavHeader`, `auParse`, `wavParse`, `wavTailer`); SfProofs/HandleGRefine.lean shows
    that they reproduce `Sf.writeHeader` / `Sf.closeHandle` / `Sf.stepWrite` / `Sf.stepCmdFlag`.
  * thin adapters around the stand-alone container models: AVR (`Sf.Avr`), IRCAM (`Sf.Ircam`), PAF 8/16 (`Sf.Paf`),
    HTK (`Sf.Htk`), AIFF / AIFF-C (`Sf.Aiff`), CAF (`Sf.Caf`), W64 (`Sf.W64`): header bytes from the model's `hdr`,
    the re-open geometry from the model's parser.

  Core Lean only; names live in `Sf.HandleG`.
-/
import SfModel.HandleG
import SfModel.FormatCheck
import SfModel.Avr
import SfModel.Ircam
import SfModel.Paf
import SfModel.Htk
import SfModel.Aiff
import SfModel.Caf
import SfModel.W64
namespace Sf.HandleG
open Sf

/-! ## RAW, AU, WAV -/

/-- the SF_INFO tests of `Sf.openHandle` for a new file (and for RAW in every mode) -/
def classicAccept (c : Container) (fmt : Nat) (ch sr : Int) : Accept :=
  if ch < 1 ∨ ch > 1024 ∨ sr < 0 then .refuse else
  match encOf c (codecOf fmt) (dataBig c fmt) with
  | none => .unmodelled
  | some enc => if sr < 1 then .refuse else .ok enc (dataBig c fmt)

def rawSpec : Spec :=
  { name := "raw", tag := .raw, hasHeader := false,
    accept := classicAccept .raw,
    hdr := fun _ => [], recalc := fun h _ => h, restore := restoreNone,
    parse := fun fmt ch sr bs =>
      match classicAccept .raw fmt ch sr with
      | .ok enc big => .ok { fmtWord := fmt, ch := ch.toNat, sr := sr, big := big, dataoffset := 0, datalength := 0,
                              dataend := 0, filelength := bs.length } enc
      | .refuse => .err
      | .unmodelled => .unmodelled }

def ofClassicParse : ParseRes → ParseG
  | .err => .err
  | .unmodelled => .unmodelled
  | .ok p =>
    match containerOf p.fmtWord with
    | none => .unmodelled
    | some c =>
      match encOf c (codecOf p.fmtWord) p.big with
      | none => .unmodelled
      | some enc => .ok p enc

def auSpec : Spec :=
  { name := "au", tag := .au,
    accept := classicAccept .au,
    initW := fun h => { h with datalength := -1, dataoffset := -1 },
    hdr := auHeader,
    recalc := calcStd false,
    offAfter := fun _ _ => 24,
    restore := restoreCur,
    parse := fun _ _ _ bs =>
      if bs.take 4 == marker ".snd" ∨ bs.take 4 == marker "dns." then ofClassicParse (auParse bs) else .unmodelled }

/-- `wav_close`: tailer, then the cut of an SFM_RDWR file at the current position -/
def wavCloseTail (h : H) (s : Store) : H × Store :=
  let (h, s) := wavTailer h s
  if h.mode == .rw then
    let cur := s.pos
    if (cur : Int) < h.filelength then
      ({ h with filelength := cur }, if h.canTruncate then { s with bytes := s.bytes.take cur } else s)
    else (h, s)
  else (h, s)

def wavCalc (h : H) (fl : Int) : H :=
  let dl := fl - h.dataoffset
  let dl := if h.dataend != 0 then dl - (fl - h.dataend) else h.frames * h.nb * h.ch
  { h with filelength := fl, datalength := dl }

def wavSpec : Spec :=
  { name := "wav", tag := .wav,
    accept := classicAccept .wav,
    initW := fun h => { h with peak := if h.mode == .w ∧ h.enc.isFloatData then some (mkPeaks h.ch) else none,
                               filelength := 0, datalength := 0, dataoffset := 0 },
    hdr := wavHeader,
    recalc := wavCalc,
    restore := restoreHasData,
    tailer := wavCloseTail,
    parse := fun _ _ _ bs =>
      if bs.take 4 == marker "RIFF" ∨ bs.take 4 == marker "RIFX" then ofClassicParse (wavParse bs) else .unmodelled }

/-! ## helpers for the adapters -/

/-- sf_format_check (SfModel/FormatCheck.lean) and the rate test of sf_open; `enc`: the encoding and data byte order
    the container's open function selects -/
def acceptBy (enc : Nat → Option (Enc × Bool)) (fmt : Nat) (ch sr : Int) : Accept :=
  if !Sf.Fmt.check fmt ch sr then .refuse else
  if sr < 1 then .refuse else
  match enc fmt with
  | none => .unmodelled
  | some (e, big) => .ok e big

def pcmEnc (codec : Nat) (big : Bool) : Option Enc := encOf .raw codec big

/-- geometry + parameters of an accepted existing file -/
def mkParsed (fmtWord ch : Nat) (sr : Int) (big : Bool) (dataoffset : Nat) (dataend : Int) (flen : Nat) : ParseG :=
  match pcmEnc (codecOf fmtWord) big with
  | none => .unmodelled
  | some enc => .ok { fmtWord := fmtWord, ch := ch, sr := sr, big := big, dataoffset := dataoffset, datalength := 0,
                      dataend := dataend, filelength := flen } enc

def ofSmall (r : Small.ParseRes) (big : Nat → Bool) (dataoffset : Nat) (flen : Nat) : ParseG :=
  match r with
  | .err => .err
  | .unmodelled => .unmodelled
  | .ok i => mkParsed i.fmt i.ch i.sr (big i.fmt) dataoffset 0 flen

def ofSmall2 (r : Small2.ParseRes) (big : Nat → Bool) (dataoffset : Nat) (flen : Nat) : ParseG :=
  match r with
  | .err => .err
  | .unmodelled => .unmodelled
  | .ok i => mkParsed i.fmt i.ch i.sr (big i.fmt) dataoffset 0 flen

/-! ## AVR -/

def avrCfg (h : H) : Avr.Cfg := { codec := codecOf h.fmtWord, endian := endianOf h.fmtWord, ch := h.ch, sr := h.sr.toNat }

def avrSpec : Spec :=
  { name := "avr",
    accept := acceptBy fun fmt => (pcmEnc (codecOf fmt) true).map fun e => (e, true),
    zeroFrames := false,
    hdr := fun h => Avr.hdr (avrCfg h) h.frames.toNat,
    recalc := calcStd true,
    restore := restoreCur,
    parse := fun _ _ _ bs => ofSmall (Avr.parse bs) (fun _ => true) 128 bs.length }

/-! ## IRCAM -/

def ircamCfg (h : H) : Ircam.Cfg := { codec := codecOf h.fmtWord, endian := endianOf h.fmtWord, ch := h.ch, sr := h.sr.toNat }

def ircamSpec : Spec :=
  { name := "ircam",
    accept := acceptBy fun fmt => (pcmEnc (codecOf fmt) (endianOf fmt == 2)).map fun e => (e, endianOf fmt == 2),
    zeroFrames := false,
    initW := fun h => { h with dataoffset := 1024 },
    hdr := fun h => Ircam.hdr (ircamCfg h),
    recalc := fun h _ => h,
    offAfter := fun h _ => h.dataoffset,
    restore := restoreCur,
    closeHdr := false,
    parse := fun _ _ _ bs => ofSmall (Ircam.parse bs) (fun f => endianOf f == 2) 1024 bs.length }

/-! ## PAF (8 and 16 bit; the 24-bit packing is a block codec, `Sf.Paf24`) -/

def pafCfg (h : H) : Paf.Cfg := { codec := codecOf h.fmtWord, endian := endianOf h.fmtWord, ch := h.ch, sr := h.sr.toNat }

def pafBig (fmt : Nat) : Bool := !(endianOf fmt == 1 || endianOf fmt == 3)

def pafSpec : Spec :=
  { name := "paf",
    accept := acceptBy fun fmt =>
      if codecOf fmt == 0x01 ∨ codecOf fmt == 0x02 then (pcmEnc (codecOf fmt) (pafBig fmt)).map fun e => (e, pafBig fmt) else none,
    zeroFrames := false,
    initW := fun h => { h with dataoffset := 2048 },
    skipAt := fun cur => cur ≥ 2048,
    hdr := fun h => Paf.hdr (pafCfg h),
    recalc := fun h _ => h,
    offAfter := fun _ _ => 2048,
    restore := restoreNone,
    closeHdr := false,
    parse := fun _ _ _ bs =>
      match Paf.parse bs with
      | .ok i => if codecOf i.fmt == 0x03 then .unmodelled else mkParsed i.fmt i.ch i.sr (pafBig i.fmt) 2048 0 bs.length
      | .err => .err
      | .unmodelled => .unmodelled }

/-! ## HTK -/

def htkSpec : Spec :=
  { name := "htk",
    accept := acceptBy fun fmt => (pcmEnc (codecOf fmt) true).map fun e => (e, true),
    zeroFrames := false,
    hdr := fun h => Htk.hdr h.sr.toNat { frames := h.frames, filelength := h.filelength, datalength := h.datalength },
    recalc := fun h fl => { h with filelength := fl },
    restore := restoreCur,
    parse := fun _ _ _ bs => ofSmall2 (Htk.parse bs) (fun _ => true) 12 bs.length }

/-! ## AIFF / AIFF-C -/

def aiffCfg (h : H) : Aiff.Cfg := { codec := codecOf h.fmtWord, endian := endianOf h.fmtWord, ch := h.ch, sr := h.sr.toNat }

def aiffPeaks (h : H) : Option (List Aiff.Peak) :=
  match h.peak with
  | some ps => if h.peakAtStart then some (ps.map fun p => { v32 := Float.f64to32 p.value, pos := p.position.toNat }) else none
  | none => none

def aiffHdr (h : H) : List Byte :=
  match Aiff.kindOf (aiffCfg h) with
  | some k => Aiff.hdrRaw (aiffCfg h) k h.frames.toNat h.filelength h.datalength (aiffPeaks h)
  | none => []

/-- `aiff_write_tailer` without PEAK / strings at the end -/
def aiffTailer (h : H) (s : Store) : H × Store :=
  let filelen := s.bytes.length
  let (h, s) := if h.dataend ≤ 0 ∨ h.dataend > filelen then ({ h with dataend := filelen }, s.seekSet filelen)
                else (h, s.seekSet h.dataend.toNat)
  (h, if h.dataend % 2 == 1 then s.write [0] else s)

def aiffEnc (fmt : Nat) : Option (Enc × Bool) :=
  match Aiff.kindOf { codec := codecOf fmt, endian := endianOf fmt, ch := 1, sr := 1 } with
  | none => none
  | some k => (pcmEnc (codecOf fmt) (!k.little)).map fun e => (e, !k.little)

/-- the chunk walk of `Sf.Aiff.parse`, keeping the geometry -/
def aiffScan (bs : List Byte) : Option (Option Aiff.Sc) :=
  if bs.length < 12 then some none else
  if bs.take 4 ≠ Aiff.mk4 "FORM" then none else
  let t := (bs.drop 8).take 4
  if t = Aiff.mk4 "8SVX" ∨ t = Aiff.mk4 "16SV" then none else
  if t ≠ Aiff.mk4 "AIFF" ∧ t ≠ Aiff.mk4 "AIFC" then some none else
  let s0 : Aiff.Sc := { pos := 12 }
  if (12 : Int) ≥ (bs.length : Int) - 8 then some (some s0) else Aiff.walk bs bs.length s0

def aiffParse (bs : List Byte) : ParseG :=
  match aiffScan bs with
  | none => .unmodelled
  | some none => .err
  | some (some sc) =>
    match Aiff.finish bs.length sc with
    | .err => .err
    | .unmodelled => .unmodelled
    | .ok i => mkParsed i.fmt i.ch i.sr (i.fmt / 0x10000000 % 4 != 1) sc.dataoffset.toNat sc.dataend bs.length

def aiffSpec : Spec :=
  { name := "aiff",
    accept := acceptBy aiffEnc,
    rdwrExisting := false,
    minLen := some 40,
    initW := fun h => { h with peak := if h.mode == .w ∧ h.enc.isFloatData then some (mkPeaks h.ch) else none },
    hdr := aiffHdr,
    recalc := calcStd true,
    restore := restoreHasData,
    tailer := aiffTailer,
    parse := fun _ _ _ bs => aiffParse bs }

/-! ## CAF -/

def cafCfg (h : H) : Caf.Cfg := { codec := codecOf h.fmtWord, endian := endianOf h.fmtWord, ch := h.ch, sr := h.sr.toNat }

def cafPeaks (h : H) : List Caf.Peak :=
  match h.peak with
  | some ps => ps.map fun p => { value := p.value, position := p.position }
  | none => []

/-- the `calc_length` block of caf_write_header (sf.seekable is true on every route the harness offers) -/
def cafCalc (h : H) (fl : Int) : H :=
  let dl := fl - h.dataoffset
  let dl := if h.dataend != 0 then dl - (fl - h.dataend) else h.frames * h.nb * h.ch
  { h with filelength := fl, datalength := dl, frames := dl / (h.nb * h.ch : Nat) }

/-- `caf_write_tailer` -/
def cafTailer (h : H) (s : Store) : H × Store :=
  let dl : Int := h.frames * h.nb * h.ch
  let h := { h with datalength := dl, dataend := h.dataoffset + dl }
  let (h, s) := if h.dataend > 0 then (h, s.seekSet h.dataend.toNat)
                else ({ h with dataend := s.bytes.length }, s.seekSet s.bytes.length)
  (h, if h.dataend % 2 == 1 then s.write [0] else s)

def cafLittle (fmt : Nat) : Bool := endianOf fmt == 1 || endianOf fmt == 3

def cafSpec : Spec :=
  { name := "caf",
    accept := acceptBy fun fmt => (pcmEnc (codecOf fmt) (!cafLittle fmt)).map fun e => (e, !cafLittle fmt),
    minLen := some 44,
    initW := fun h => { h with peak := if h.mode == .w ∧ h.enc.isFloatData then some (mkPeaks h.ch) else none },
    hdr := fun h => Caf.hdrRaw (cafCfg h) h.datalength (cafPeaks h),
    recalc := cafCalc,
    restore := restoreCaf,
    tailer := cafTailer,
    parse := fun _ _ _ bs =>
      match Caf.parse bs with
      | .err => .err
      | .unmodelled => .unmodelled
      | .ok i =>
        let dend : Int := if i.dataoffset + i.datalength < bs.length then ((i.dataoffset + i.datalength : Nat) : Int) else 0
        mkParsed i.fmtWord i.ch i.sr (!cafLittle i.fmtWord) i.dataoffset dend bs.length }

/-! ## W64 -/

def w64Cfg (h : H) : W64.Cfg := { codec := codecOf h.fmtWord, ch := h.ch, sr := h.sr.toNat }

def w64Spec : Spec :=
  { name := "w64",
    accept := acceptBy fun fmt => (pcmEnc (codecOf fmt) false).map fun e => (e, false),
    minLen := some 44,
    hdr := fun h => W64.hdrRaw (w64Cfg h) h.filelength h.datalength h.frames,
    recalc := calcStd true,
    restore := restoreCur,
    parse := fun _ _ _ bs =>
      match W64.parse bs with
      | .err => .err
      | .unmodelled => .unmodelled
      | .ok i => mkParsed i.fmtWord i.ch i.sr false i.dataoffset 0 bs.length }

/-! ## the table -/

/-- the instance that writes a new file of this major format -/
def specOfMajor (fmt : Nat) : Option Spec :=
  match fmt / 0x10000 % 0x1000 with
  | 0x04 => some rawSpec | 0x03 => some auSpec | 0x01 => some wavSpec
  | 0x12 => some avrSpec | 0x0A => some ircamSpec | 0x05 => some pafSpec | 0x10 => some htkSpec
  | 0x02 => some aiffSpec | 0x18 => some cafSpec | 0x0B => some w64Spec
  | _ => none

def allSpecs : List Spec := [wavSpec, auSpec, aiffSpec, cafSpec, w64Spec, avrSpec, ircamSpec, pafSpec, htkSpec]

/-- the instance whose parser takes an existing file (`guess_file_type`): the first one that does not answer
    `unmodelled` (every parser starts with its own signature test) -/
def specOfBytes (bs : List Byte) : Option Spec :=
  allSpecs.find? fun sp => match sp.parse 0 0 0 bs with | .unmodelled => false | _ => true

end Sf.HandleG
