/-
  SfModel.AbsMeta — the contracts of properties C12 (metadata set before the audio survives close and re-open) and C13
  (custom chunks: any number set, all retrievable, audio untouched) as decidable Boolean checkers over what the metadata and
  chunk campaigns (vlib/props/c12.py, c13.py) record of ONE script:

    * what the write handle was opened with (container, channels, rate, encoding, the library's package string);
    * the SET calls in the order they were made, each with what was handed over, whether it came before or after the first
      audio write (`late`) and whether the library's answer said "accepted";
    * the audio write, sf_close, the re-open of the closed file, the `getmeta` answers of the re-opened handle (sf_get_string for
      the ten types, SFC_GET_BROADCAST_INFO / CART_INFO / CUE_COUNT / CUE / INSTRUMENT / CHANNEL_MAP_INFO), the audio read back;
    * the TWIN run: the same script without the calls that were refused or must be ignored (late, or a kind the container has
      no place for) — "never alters the audio data or other metadata";
    * the PERMUTED run: the same SET calls before the audio in another order — "forall orders of setting the items".

  Nothing here knows bytes of headers: the checkers JUDGE what the library answered against the clauses of the two statements
  (quoted from properties.jsonl next to each clause) and name the clauses that fail (`Fail.tag`).  `normalise…` are the
  documented normalisations as explicit functions of what the caller handed over.  The compiled driver (`sfmodel abs-meta`,
  lean/Driver/AbsMeta.lean) evaluates exactly `judge` / `Chunks.judge`; lean/SfProofs/AbsMeta*.lean and lean/SfProps/C12Abs.lean,
  C13Abs.lean prove what an accepted record means and that what the concrete models (Sf.Meta, Sf.MetaX, Sf.Chunk) produce is accepted.

  Core Lean only (no Mathlib): the driver links this file.
-/
import SfModel.Meta
import SfModel.MetaX
import SfModel.MetaFix
import SfModel.Chunk
namespace Sf.AbsMeta
open Sf Sf.Meta

/-! ## containers and the support matrix of the statement -/

inductive Cont | wav | wavex | rf64 | rifx | aiff | caf | w64 | au | other
deriving DecidableEq, Repr, Inhabited

/-- the ten SF_STR_* types -/
def STR_TYPES : List Nat := [1, 2, 3, 4, 5, 6, 7, 8, 9, 16]

/-- C12: "support matrix from docs and code: strings in WAV/WAVEX/RF64/AIFF/CAF" — the string types the container has a field
    for (RIFF INFO has no id for LICENSE; AIFF has NAME, (c), APPL, AUTH, ANNO; CAF stores every key) -/
def strSupport : Cont → List Nat
  | .wav | .wavex | .rf64 | .rifx => [1, 2, 3, 4, 5, 6, 7, 9, 16]
  | .aiff => [1, 2, 3, 4, 5]
  | .caf => STR_TYPES
  | _ => []

def hasStrings (c : Cont) : Bool := c == .wav || c == .wavex || c == .rf64 || c == .rifx || c == .aiff || c == .caf
/-- "bext in WAV/WAVEX/RF64" -/
def bextSupport (c : Cont) : Bool := c == .wav || c == .wavex || c == .rf64 || c == .rifx
/-- "cart in WAV/RF64" -/
def cartSupport (c : Cont) : Bool := c == .wav || c == .rf64 || c == .rifx
/-- "cues and instrument in WAV and AIFF" -/
def cueSupport (c : Cont) : Bool := c == .wav || c == .wavex || c == .rifx || c == .aiff
def instSupport (c : Cont) : Bool := cueSupport c
/-- "channel map in WAVEX/RF64/AIFF/CAF" -/
def chmapSupport (c : Cont) : Bool := c == .wavex || c == .rf64 || c == .aiff || c == .caf

/-- what the writer was opened with; `pkgName` / `pkgVersion`: the library's package string (SFC_GET_LIB_VERSION) cut at the
    first '-' -/
structure Geom where
  cont : Cont := .other
  ch : Nat := 1
  sr : Nat := 0
  sub : Nat := 2                 -- encoding (format word & 0xffff)
  pkgName : List Byte := []
  pkgVersion : List Byte := []

def Geom.package (g : Geom) : List Byte := g.pkgName ++ [45] ++ g.pkgVersion

/-! ## what the campaign records -/

inductive Kind
  | str (ty : Int)
  | bext | cart | cues | inst | chmap
deriving DecidableEq, Repr

/-- one SET call on the write handle -/
structure SetCall where
  kind : Kind
  late : Bool := false                 -- made after the first audio write
  ok : Bool := false                   -- the library's answer said "accepted" (sf_set_string: 0; sf_command: SF_TRUE)
  text : Option (List Byte) := none    -- sf_set_string: NULL, or the C string handed over
  blob : List Byte := []               -- bext / cart / instrument / channel map: the bytes handed over (cut to `size`)
  size : Nat := 0                      -- the datasize argument
  cues : List Cue := []                -- SFC_SET_CUE: the cue points (names as C strings of at most 255 bytes)
deriving Repr

/-- the answers of the GET calls on the re-opened handle (one `getmeta` line) -/
structure Got where
  strs : List (Nat × Option (List Byte)) := []      -- sf_get_string per type
  bext : Option (List Byte) := none                  -- SFC_GET_BROADCAST_INFO: none = SF_FALSE
  cart : Option (List Byte) := none
  cueCount : Nat × Nat := (0, 0)                      -- SFC_GET_CUE_COUNT: (return value, count)
  cues : Option (Nat × List Cue) := none              -- SFC_GET_CUE: (cue_count field, the points)
  inst : Option (List Byte) := none
  chmap : Option (List Byte) := none
deriving Repr, Inhabited

def Got.str (m : Got) (ty : Nat) : Option (List Byte) := (m.strs.find? (·.1 == ty)).bind (·.2)

structure ReInfo where
  ok : Bool := false
  frames : Int := -1
deriving Repr, Inhabited

structure ReadBack where
  ret : Int := -1
  err : Int := 0
  data : List Nat := []          -- the items of the requested region (16-bit cells)
deriving Repr, Inhabited, DecidableEq

/-- what a read call delivered: return value, error, and the items it returned (the rest of the caller's buffer is outside the
    statement: a short read may or may not zero it) -/
def ReadBack.delivered (r : ReadBack) : Int × Int × List Nat := (r.ret, r.err, r.data.take r.ret.toNat)

def sameAudio (a b : Option ReadBack) : Bool := a.map (·.delivered) == b.map (·.delivered)

/-- one write session and the re-open of its file -/
structure Run where
  complete : Bool := true          -- every script line has its transcript line; no CRASH / ABORT / TIMEOUT
  openOk : Bool := false
  sets : List SetCall := []
  items : List Nat := []           -- the 16-bit items handed to the one audio write call
  wret : Option (Int × Int) := none      -- what it returned, sf_error
  close : Option Int := none
  reopen : Option ReInfo := none
  got : Option Got := none
  read : Option ReadBack := none
deriving Repr, Inhabited

structure Record where
  g : Geom := {}
  main : Run := {}
  twin : Option Run := none
  perm : Option Run := none

/-- a clause that fails: its tag (= the failure signature the known-finding classes are keyed on) and which run it was found in
    (1 main, 2 twin, 3 permuted) -/
structure Fail where
  tag : String
  run : Nat := 1
deriving Repr, DecidableEq

/-! ## the documented normalisations, as explicit functions of what the caller handed over

C12: "only the documented normalisations apply (library suffix on the software string, added coding-history line, CR/LF line
ends, even-byte padding)". -/

/-- bytes `[off, off + n)` of a block, zero-filled when the block is shorter -/
def seg (b : List Byte) (off n : Nat) : List Byte := fixW n (b.drop off)

def decimal (n : Nat) : List Byte := ascii (toString n)

/-- the line gen_coding_history adds (src/broadcast.c) -/
def historyLine (g : Geom) : List Byte :=
  let sub := g.sub
  let width : Nat := if sub = 1 ∨ sub = 5 then 8 else if sub = 2 then 16 else if sub = 3 then 24 else if sub = 4 then 32
    else if sub = 6 then 24 else if sub = 7 then 53 else if sub = 0x10 ∨ sub = 0x11 then 12 else 42
  let chn := if g.ch = 1 then ascii "mono" else if g.ch = 2 then ascii "stereo" else decimal g.ch ++ ascii "chn"
  ascii "A=PCM,F=" ++ decimal g.sr ++ ascii ",W=" ++ decimal width ++ ascii ",M=" ++ chn ++ ascii ",T=" ++ g.package ++ [13, 10]

/-- "library suffix on the software string" -/
def normString (g : Geom) (ty : Nat) (s : List Byte) : List Byte :=
  if ty = 3 then softwareText g.pkgName g.pkgVersion s else s

/-- SF_BROADCAST_INFO as it must come back: the fixed fields as set (struct layout: 2 alignment bytes at 338,
    coding_history_size at 604), `version` 2 and the reserved bytes zero (fields the chunk format defines as writer's version /
    reserved), the coding history with "CR/LF line ends", a line end added when missing, the "added coding-history line" and
    "even-byte padding" -/
def normBext (g : Geom) (blob : List Byte) : List Byte :=
  let hist := normHistory .write (historyLine g) (blob.drop 608)
  seg blob 0 338 ++ [0, 0] ++ seg blob 340 8 ++ le2 2 ++ seg blob 350 74 ++ zeros 180 ++ le4 hist.length ++ hist

/-- SF_CART_INFO as it must come back: the fixed fields as set, reserved bytes zero, the tag text with CR/LF line ends, a line
    end added when missing, and NUL padding to an even length (one or two NULs) -/
def normCart (blob : List Byte) : List Byte :=
  let tag := normTag 0 (blob.drop 2052)
  seg blob 0 748 ++ zeros 276 ++ seg blob 1024 1024 ++ le4 tag.length ++ tag

/-- the byte after the terminator of an even-length tag text is never written by cart_var_set (a malloc'ed block): it is
    outside the comparison -/
def maskCart (b : List Byte) : List Byte :=
  if b.length ≥ 2054 ∧ b.getD (b.length - 2) 1 = 0 then b.take (b.length - 1) ++ [0] else b

/-- a cue point as a WAV file must return it: every field, the name as the C string of `name [256]` -/
def normCueWav (c : Cue) : Cue := MetaFix.Cue.normName c

/-- a cue point as an AIFF file must return it: a MARK chunk holds a 16-bit id, a position and a name; position / fcc_chunk /
    chunk_start / block_start are outside the container's representation (0 / 'data' / 0 / 0) -/
def normCueAiff (c : Cue) : Cue := ⟨c.indx % 65536, 0, 0x61746164, 0, 0, c.sampleOffset, c.name⟩

def normCues (c : Cont) (cs : List Cue) : List Cue := if c == .aiff then cs.map normCueAiff else cs.map normCueWav

/-- the six numeric fields of a cue point -/
def cueNums (c : Cue) : List Nat := [c.indx, c.position, c.fcc, c.chunkStart, c.blockStart, c.sampleOffset]

/-- loop_count of an SF_INSTRUMENT block, clamped to the 16 loops the struct holds -/
def instLoopCount (blob : List Byte) : Nat :=
  let lc := sext 32 (ofLE (seg blob 12 4))
  if lc < 0 then 0 else min 16 lc.toNat

def normLoopMode (m : List Byte) : List Byte :=
  let v := sext 32 (ofLE m)
  if v = 801 ∨ v = 802 ∨ v = 803 then m else le4 800

def normLoopsGo (blob : List Byte) : Nat → Nat → List Byte
  | _, 0 => []
  | k, n+1 => normLoopMode (seg blob (16 + 16 * k) 4) ++ seg blob (20 + 16 * k) 12 ++ normLoopsGo blob (k + 1) n

/-- SF_INSTRUMENT as it must come back: gain, basenote, detune, velocity and key ranges as set, the first `loop_count` loops
    (at most 16) with an unknown mode read as SF_LOOP_NONE, everything behind them zero -/
def normInst (blob : List Byte) : List Byte :=
  let lc := instLoopCount blob
  seg blob 0 10 ++ [0, 0] ++ le4 lc ++ normLoopsGo blob 0 lc ++ zeros (16 * (16 - lc))

/-! ## what must come back: the last accepted value of every item -/

/-- (type, text as stored, set after the audio) in the order the types were last set -/
abbrev StrSlot := Nat × List Byte × Bool

structure Exp where
  slots : List StrSlot := []
  bext : Option (List Byte) := none
  cart : Option (List Byte) := none
  cues : Option (List Cue) := none
  inst : Option (List Byte) := none
  chmap : Option (List Byte) := none
deriving Repr

def validStrType (ty : Int) : Bool := STR_TYPES.any fun t => (t : Int) == ty

def Exp.step (g : Geom) (e : Exp) (c : SetCall) : Exp :=
  if !c.ok then e else
  match c.kind with
  | .str ty =>
    match c.text with
    | some s =>
      if validStrType ty then
        { e with slots := e.slots.filter (fun x => x.1 != ty.toNat) ++ [(ty.toNat, normString g ty.toNat s, c.late)] }
      else e
    | none => e
  | .bext => { e with bext := some c.blob }
  | .cart => { e with cart := some c.blob }
  | .cues => { e with cues := some c.cues }
  | .inst => { e with inst := some c.blob }
  | .chmap => { e with chmap := some c.blob }

def expOf (g : Geom) (sets : List SetCall) : Exp := sets.foldl (Exp.step g) {}

def Exp.slot (e : Exp) (ty : Nat) : Option StrSlot := e.slots.find? (·.1 == ty)

/-- the strings the container must return: those of a type it has a field for -/
def Exp.stored (g : Geom) (e : Exp) : List StrSlot := e.slots.filter fun x => (strSupport g.cont).contains x.1

/-! ## known-finding classes of a script (decidable; exactly the excluded regions of the `…_partial` theorems) -/

def HEADER_MARGIN : Nat := 6400

/-- estimate of the header a script asks for (id + size + NUL + pad per string; the fixed parts of bext / cart / cue / smpl) -/
def headerEstimate (g : Geom) (e : Exp) : Nat :=
  (e.slots.map fun x => x.2.1.length + 14).sum +
  (match e.bext with | some b => if bextSupport g.cont then 610 + (normHistory .write (historyLine g) (b.drop 608)).length else 0 | none => 0) +
  (match e.cart with | some b => if cartSupport g.cont then 2056 + (normTag 0 (b.drop 2052)).length else 0 | none => 0) +
  (match e.cues with
   | some cs =>
     -- WAV: the names travel in a LIST/adtl chunk, one labl entry (id, size, cue id, text, NUL, pad) per named cue point
     if cueSupport g.cont then
       12 + (if g.cont == .aiff then (cs.map fun q => 8 + q.name.length).sum
             else 24 * cs.length + ((cs.filter fun q => !q.name.isEmpty).map fun q => 14 + q.name.length).sum)
     else 0
   | none => 0) +
  (match e.inst with | some b => if instSupport g.cont then 44 + 24 * instLoopCount b else 0 | none => 0)

def sbyte (b : List Byte) (off : Nat) : Int := sext 8 (b.getD off 0)

def classesOf (g : Geom) (e : Exp) : List String :=
  (if g.cont == .aiff && (e.stored g).any (fun x => (x.1 == 2 || x.1 == 3) && !x.2.1.all MetaX.isPrint) then ["aiff-sanitize"] else []) ++
  (match e.inst with
   | some b =>
     if instSupport g.cont then
       (if g.cont == .aiff then ["aiff-inst"] else []) ++
       (if sext 32 (ofLE (seg b 0 4)) != 1 || sbyte b 6 != 0 || sbyte b 7 != 127 || sbyte b 8 != 0 || sbyte b 9 != 127 then ["smpl-ranges"] else []) ++
       (if sbyte b 5 < 0 || sbyte b 5 > 99 then ["smpl-detune"] else [])
     else []
   | none => []) ++
  (if headerEstimate g e + HEADER_MARGIN ≥ HEADER_CAP then ["header-cache"] else [])

/-! ## the clauses of C12 -/

/-- a string call the statement wants accepted: a non-NULL text (not empty, except for the software string, to which the
    library adds its own name) of one of the ten types on a container with a string table, within the 32 entries of the table
    (`room`: accepted string calls made before it) -/
def validStrCall (g : Geom) (c : SetCall) (room : Nat) : Bool :=
  match c.kind, c.text with
  | .str ty, some s => hasStrings g.cont && validStrType ty && (!s.isEmpty || ty == 3) && room < SF_MAX_STRINGS
  | _, _ => false

/-- a SET block the statement wants accepted: the sizes are consistent with the struct (fixed part present, the declared text
    inside the block, at most 16 KiB of text) -/
def validBlock (c : SetCall) : Bool :=
  match c.kind with
  | .bext => 608 ≤ c.size && 608 + ofLE (seg c.blob 604 4) ≤ c.size && c.size < BEXT_STRUCT_16K && c.blob.length == c.size
  | .cart => 2052 ≤ c.size && 2052 + ofLE (seg c.blob 2048 4) ≤ c.size && c.size < CART_STRUCT_16K && c.blob.length == c.size
  | .inst => c.size == 272 && c.blob.length == 272
  | .cues => true
  | _ => false

def kindSupported (g : Geom) : Kind → Bool
  | .str _ => hasStrings g.cont
  | .bext => bextSupport g.cont
  | .cart => cartSupport g.cont
  | .cues => cueSupport g.cont
  | .inst => instSupport g.cont
  | .chmap => chmapSupport g.cont

def isStrKind : Kind → Bool
  | .str _ => true
  | _ => false

/-- C12: "for every container documented or implemented to store that item and for all field contents within the documented
    size limits" — a valid item set before the audio on a container that stores the kind must be accepted -/
def refusedValidGo (g : Geom) : Nat → List SetCall → List Fail
  | _, [] => []
  | room, c :: cs =>
    let bad := !c.late && !c.ok && kindSupported g c.kind && (if isStrKind c.kind then validStrCall g c room else validBlock c)
    (if bad then [{ tag := "refused-valid" }] else []) ++ refusedValidGo g (if isStrKind c.kind && c.ok then room + 1 else room) cs

/-- C12: "text strings … is returned unchanged by the matching get calls after close and re-open" (a string set after the audio
    may be ignored, it must not come back altered) -/
def strFail (m : Got) (x : StrSlot) : List Fail :=
  let got := m.str x.1
  if x.2.2 && got.isNone then []
  else if got == some x.2.1 then []
  else
    let stale := x.1 == 3 && (match got with | some s => x.2.1.isPrefixOf s && s.length - x.2.1.length ≤ 4 | none => false)
    [{ tag := if stale then "str-3-stale-suffix" else "str-" ++ toString x.1 }]

def bextFail (g : Geom) (e : Exp) (m : Got) : List Fail :=
  match e.bext with
  | some b =>
    if !bextSupport g.cont then [] else
    match m.bext with
    | none => [{ tag := "bext-missing" }]
    | some r => if r == normBext g b then [] else [{ tag := "bext-differs" }]
  | none => []

def cartFail (g : Geom) (e : Exp) (m : Got) : List Fail :=
  match e.cart with
  | some b =>
    if !cartSupport g.cont then [] else
    match m.cart with
    | none => [{ tag := "cart-missing" }]
    | some r => if maskCart r == maskCart (normCart b) then [] else [{ tag := "cart-differs" }]
  | none => []

/-- names are outside the comparison where the container cannot attach them: RIFF labels go by cue point id, which must be
    unique; an AIFF marker name is a pascal string of at most 255 bytes (253 before the repair of KF-C12-AIFF-CUE-NAME-254) -/
def cueNamesJudged (c : Cont) (cs : List Cue) : Bool :=
  if c == .aiff then cs.all fun q => q.name.length ≤ 255 else (cs.map (·.indx)).eraseDups.length == cs.length

def cuesFail (g : Geom) (e : Exp) (m : Got) : List Fail :=
  match e.cues with
  | some cs =>
    if !cueSupport g.cont then [] else
    let want := normCues g.cont cs
    match m.cues with
    | none => [{ tag := "cues-missing" }]
    | some (cnt, got) =>
      if got.map cueNums != want.map cueNums || cnt != want.length || m.cueCount != (1, want.length) then [{ tag := "cues-differ" }]
      else if got.map (·.name) != want.map (·.name) && cueNamesJudged g.cont cs then
        [{ tag := if got.all (·.name.isEmpty) then "cue-names-empty" else "cue-names-differ" }]
      else []
  | none => []

/-- which parts of an SF_INSTRUMENT differ: gain, basenote, detune, velocity range, key range, loop count, loops -/
def instDiff (a b : List Byte) : List String :=
  (if seg a 0 4 != seg b 0 4 then ["gain"] else []) ++ (if seg a 4 1 != seg b 4 1 then ["basenote"] else []) ++
  (if seg a 5 1 != seg b 5 1 then ["detune"] else []) ++ (if seg a 6 2 != seg b 6 2 then ["vel"] else []) ++
  (if seg a 8 2 != seg b 8 2 then ["key"] else []) ++ (if seg a 12 4 != seg b 12 4 then ["loop_count"] else []) ++
  (if a.drop 16 != b.drop 16 then ["loops"] else [])

def instFail (g : Geom) (e : Exp) (m : Got) : List Fail :=
  match e.inst with
  | some b =>
    if !instSupport g.cont then [] else
    let want := normInst b
    match m.inst with
    | none => [{ tag := "inst-missing" }]
    | some r =>
      if r == want then [] else
      let d := instDiff r want
      let ranges := ["gain", "vel", "key"]
      let defaults := seg r 0 4 == le4 1 && seg r 6 4 == [0, 127, 0, 127]
      [{ tag := if d.all ranges.contains && defaults then "inst-ranges-default"
                else if d == ["detune"] then "inst-detune"
                else if d.all (ranges ++ ["detune"]).contains then "inst-ranges-detune" else "inst-differs" }]
  | none => []

def chmapFail (g : Geom) (e : Exp) (m : Got) : List Fail :=
  match e.chmap with
  | some b => if !chmapSupport g.cont then [] else if m.chmap == some b then [] else [{ tag := "chmap" }]
  | none => []

/-- was any call of the kind accepted (before or after the audio)? -/
def everSet (sets : List SetCall) (p : Kind → Bool) : Bool := sets.any fun c => c.ok && p c.kind

/-- containers whose format chunk always carries a channel mask (WAVEFORMATEXTENSIBLE: WAVEX, and RF64, which is written with the
    extensible format chunk): the library fills in the default mask of the channel count and the reader returns it as a channel map -/
def hasDefaultChmap (c : Cont) : Bool := c == .wavex || c == .rf64

/-- C12: the getters of kinds that were never set answer "absent" (nothing appears in a file that nobody put there) -/
def absentFails (c : Cont) (sets : List SetCall) (m : Got) : List Fail :=
  (STR_TYPES.filter fun (ty : Nat) => !everSet sets (· == .str (ty : Int)) && (m.str ty).isSome).map (fun ty => { tag := "absent-str-" ++ toString ty }) ++
  (if !everSet sets (· == .bext) && m.bext.isSome then [{ tag := "absent-bext" }] else []) ++
  (if !everSet sets (· == .cart) && m.cart.isSome then [{ tag := "absent-cart" }] else []) ++
  (if !everSet sets (· == .cues) && (m.cues.isSome || m.cueCount.1 != 0) then [{ tag := "absent-cues" }] else []) ++
  (if !everSet sets (· == .inst) && m.inst.isSome then [{ tag := "absent-inst" }] else []) ++
  (if !hasDefaultChmap c && !everSet sets (· == .chmap) && m.chmap.isSome then [{ tag := "absent-chmap" }] else [])

/-- C12 "audio samples unchanged": the frame count of the re-opened file and the items read back -/
def audioFails (g : Geom) (r : Run) (ri : ReInfo) : List Fail :=
  (if ri.frames == ((r.items.length / max 1 g.ch : Nat) : Int) then [] else [{ tag := "audio" }]) ++
  (match r.read with
   | some rb => if rb.ret == (r.items.length : Int) && rb.err == 0 && rb.data.take r.items.length == r.items then [] else [{ tag := "audio" }]
   | none => [])

/-- the audio write accepted what it was handed -/
def writeFails (r : Run) : List Fail :=
  match r.wret with
  | some (ret, err) => if ret == (r.items.length : Int) && err == 0 then [] else [{ tag := "write" }]
  | none => []

def closeFails (r : Run) : List Fail :=
  match r.close with
  | some c => if c == 0 then [] else [{ tag := "close" }]
  | none => []

/-- the item clauses on the answers of the re-opened handle -/
def itemFails (g : Geom) (r : Run) (m : Got) : List Fail :=
  let e := expOf g r.sets
  (e.stored g).flatMap (strFail m) ++ bextFail g e m ++ cartFail g e m ++ cuesFail g e m ++ instFail g e m ++ chmapFail g e m ++
  absentFails g.cont r.sets m

def gotFails (g : Geom) (r : Run) : List Fail :=
  match r.got with
  | none => []
  | some m => itemFails g r m

def reopenFails (g : Geom) (r : Run) : List Fail :=
  match r.reopen with
  | none => [{ tag := "reopen-null" }]
  | some ri => if !ri.ok then [{ tag := "reopen-null" }] else audioFails g r ri ++ refusedValidGo g 0 r.sets ++ gotFails g r

/-- the clauses on one run -/
def judgeRun (g : Geom) (r : Run) : List Fail :=
  if !r.complete then [{ tag := "crash" }]
  else if !r.openOk then [{ tag := "open-write" }]
  else writeFails r ++ closeFails r ++ reopenFails g r

/-! ### the twin: "Setting an item the container cannot store, or too late, is reported as failure or ignored, but never alters the
audio data or other metadata." -/

/-- a call the twin run leaves out: refused, or made after the audio, or of a kind the container has no place for -/
def SetCall.removed (g : Geom) (c : SetCall) : Bool :=
  !c.ok || c.late || (match c.kind with | .str _ => false | k => !kindSupported g k)

/-- the calls of the twin run -/
def twinSets (g : Geom) (sets : List SetCall) : List SetCall := sets.filter fun c => !c.removed g

/-- kinds an ACCEPTED removed call touched: that item itself may have been stored (a string behind the audio, a block of the same
    size) -/
def touched (g : Geom) (sets : List SetCall) (k : Kind) : Bool := sets.any fun c => c.ok && c.removed g && c.kind == k

def sameCalls (a b : List SetCall) : Bool :=
  a.length == b.length && (a.zip b).all fun p => p.1.kind == p.2.kind && p.1.text == p.2.text && p.1.blob == p.2.blob && p.1.cues == p.2.cues

def twinFails (g : Geom) (main twin : Run) : List Fail :=
  if !twin.complete || !twin.openOk then [{ tag := "twin-record", run := 2 }]
  else if !sameCalls (twinSets g main.sets) twin.sets then [{ tag := "twin-record", run := 2 }]
  else
    let t := touched g main.sets
    (if sameAudio main.read twin.read && (main.reopen.map (·.frames)) == (twin.reopen.map (·.frames)) then [] else [{ tag := "twin-audio", run := 2 }]) ++
    (match main.got, twin.got with
     | some a, some b =>
       (STR_TYPES.filter fun (ty : Nat) => !t (.str (ty : Int)) && a.str ty != b.str ty).map (fun ty => { tag := "twin-str-" ++ toString ty, run := 2 }) ++
       (if !t .bext && a.bext != b.bext then [{ tag := "twin-bext", run := 2 }] else []) ++
       (if !t .cart && a.cart.map maskCart != b.cart.map maskCart then [{ tag := "twin-cart", run := 2 }] else []) ++
       (if !t .cues && (a.cues != b.cues || a.cueCount != b.cueCount) then [{ tag := "twin-cues", run := 2 }] else []) ++
       (if !t .inst && a.inst != b.inst then [{ tag := "twin-inst", run := 2 }] else []) ++
       (if !t .chmap && a.chmap != b.chmap then [{ tag := "twin-chmap", run := 2 }] else [])
     | _, _ => [{ tag := "twin-record", run := 2 }])

/-! ### order independence: "forall orders of setting the items" -/

/-- the key of the item a call sets -/
def keyOf (c : SetCall) : Kind := c.kind

def countCalls (c : SetCall) (l : List SetCall) : Nat :=
  (l.filter fun d => d.kind == c.kind && d.text == c.text && d.blob == c.blob && d.cues == c.cues && d.late == c.late).length

/-- the permuted run made the same calls (as a multiset), the calls of one item in their original relative order, the late
    ones where they were -/
def isReorder (a b : List SetCall) : Bool :=
  a.length == b.length && a.all (fun c => countCalls c a == countCalls c b) &&
  a.all (fun c => sameCalls (a.filter fun d => d.kind == c.kind) (b.filter fun d => d.kind == c.kind))

def gotSame (a b : Got) : Bool :=
  a.strs == b.strs && a.bext == b.bext && a.cart.map maskCart == b.cart.map maskCart && a.cues == b.cues && a.cueCount == b.cueCount &&
  a.inst == b.inst && a.chmap == b.chmap

def permFails (main perm : Run) : List Fail :=
  if !perm.complete || !perm.openOk then [{ tag := "order-record", run := 3 }]
  else if !isReorder main.sets perm.sets then [{ tag := "order-record", run := 3 }]
  else
    (if sameAudio main.read perm.read && (main.reopen.map (·.frames)) == (perm.reopen.map (·.frames)) then [] else [{ tag := "order-audio", run := 3 }]) ++
    (match main.got, perm.got with
     | some a, some b => if gotSame a b then [] else [{ tag := "order-meta", run := 3 }]
     | _, _ => [{ tag := "order-record", run := 3 }])

/-- THE PREDICATE of C12: every clause that fails on one record -/
def judge (r : Record) : List Fail :=
  let fs := judgeRun r.g r.main
  fs ++
  (if r.main.complete && r.main.openOk && (r.main.reopen.map (·.ok)) == some true then
     (match r.twin with | some t => twinFails r.g r.main t | none => []) ++
     (match r.perm with | some p => permFails r.main p | none => [])
   else [])

def accepted (r : Record) : Bool := (judge r).isEmpty

/-- classes of the script of a record -/
def classes (r : Record) : List String := classesOf r.g (expOf r.g r.main.sets)

/-! # C13 — custom chunks -/

namespace Chunks
open Sf.Chunk (pad4)

inductive CCont | wav | rf64 | aiff | caf
deriving DecidableEq, Repr, Inhabited

def toModel : CCont → Sf.Chunk.Container
  | .wav => .wav | .rf64 => .rf64 | .aiff => .aiff | .caf => .caf

/-- the marker an id is stored under and found again by: the C string, cut to four characters, padded with spaces -/
def storedId (id : List Byte) : List Byte := (Sf.Chunk.markerOf id).bytes

/-- sndfile.h: sf_set_chunk "will fail for format specific reserved chunks": the markers the container's own header parser
    interprets -/
def reservedIds (c : CCont) : List (List Byte) := (Sf.Chunk.reserved (toModel c)).map (·.bytes)

/-- ids for which the statement / the documentation allow sf_set_chunk to fail: format-reserved ids, the empty id, and ids the
    container cannot represent (a byte outside printable ASCII in WAV, RF64, AIFF) -/
def mayRefuse (c : CCont) (id : List Byte) : Bool :=
  let m := storedId id
  m == [32, 32, 32, 32] || (reservedIds c).contains m || (c != .caf && m.any fun b => b < 0x20 || b > 0x7e)

structure SetChunk where
  id : List Byte
  data : List Byte
  late : Bool := false
  ret0 : Bool := false          -- the transcript line is exactly `ret=0 err=0`
  refused : Bool := false       -- a non-zero return value
deriving Repr

/-- what sf_get_chunk_size / sf_get_chunk_data answered for the chunk an iterator points at; `buflen` = the caller's datalen,
    `data` = the caller's buffer afterwards (pre-filled with 0xA5) -/
structure Entry where
  sizeRet : Int := 0
  size : Nat := 0
  dataRet : Int := 0
  id : List Byte := []
  buflen : Nat := 0
  data : List Byte := []
deriving Repr, DecidableEq, Inhabited

inductive Query
  | all (id : Option (List Byte)) (it : Bool) (ents : List Entry) (endN : Int)     -- get_iterator, then size / data / next until NULL
  | iter (id : Option (List Byte)) (it : Bool)                                    -- sf_get_chunk_iterator alone
  | next (it : Bool)                                                               -- sf_next_chunk_iterator
  | data (e : Option Entry)                                                        -- size + data at the iterator (none: no iterator)
  | getstr (ty : Nat) (s : Option (List Byte))
deriving Repr

structure CRun where
  complete : Bool := true
  sets : List SetChunk := []
  frames : Nat := 0                         -- items handed to the audio write (mono)
  items : List Nat := []
  wret : Option (Int × Int) := none
  close : Option Int := none
  reopen : Option ReInfo := none
  queries : List Query := []
  readN : Nat := 0                          -- items the read-back asked for
  read : Option ReadBack := none
deriving Repr, Inhabited

structure CRecord where
  c : CCont := .wav
  main : CRun := {}
  own : List (List Byte × Nat) := []        -- chunks of a custom id the container adds itself behind the audio (id, how many)
  strings : List (Nat × List Byte) := []    -- strings the script set besides the chunks
  twin : Option CRun := none                -- the same script without any sf_set_chunk

/-- the chunks the file must hold: accepted before the audio, in order, under their stored marker -/
def stored : List SetChunk → List (List Byte × List Byte)
  | [] => []
  | s :: ss => if s.ret0 && !s.late then (storedId s.id, s.data) :: stored ss else stored ss

/-- C13: "a chunk set after audio has been written is refused or ignored"; sndfile.h: reserved ids fail.  Any other call must
    return 0. -/
def setFails (c : CCont) : List SetChunk → List Fail
  | [] => []
  | s :: ss =>
    (if s.ret0 then [] else if s.refused && (s.late || mayRefuse c s.id) then [] else [{ tag := "set" }]) ++ setFails c ss

/-- C13: "with identical size and payload bytes (padded to the container's alignment)" and "sf_get_chunk_data copies at most the
    caller's datalen bytes": the caller's buffer holds the first min (datalen, padded size) bytes of the padded payload and is
    otherwise untouched -/
def wantData (payload : List Byte) (buflen : Nat) : List Byte :=
  let full := payload ++ List.replicate (pad4 payload.length - payload.length) 0
  full.take buflen ++ List.replicate (buflen - full.length) 0xA5

def entryFails (e : Entry) (x : List Byte × List Byte) : List Fail :=
  if e.id != x.1 then [{ tag := "ids" }]
  else if e.size != pad4 x.2.length then [{ tag := "size" }]
  else if e.data != wantData x.2 e.buflen then [{ tag := "data" }]
  else if e.sizeRet != 0 || e.dataRet != 0 then [{ tag := "ret" }]
  else []

def entriesFail : List Entry → List (List Byte × List Byte) → List Fail
  | e :: es, x :: xs => (match entryFails e x with | [] => entriesFail es xs | f => f)
  | _, _ => []

def ownCount (own : List (List Byte × Nat)) (id : List Byte) : Nat := ((own.find? (·.1 == id)).map (·.2)).getD 0

/-- drop the container's own trailing chunks of a custom id from a full iteration: when exactly `n` more entries than set were
    visited and the last `n` carry that id -/
def dropOwn (own : List (List Byte × Nat)) (want : Nat) (mine : List Entry) : List Entry :=
  own.foldl (fun m o => if m.length == want + o.2 && (m.drop want).all (·.id == o.1) then m.take want else m) mine

/-- the container's audio chunk: the last entry of the read table -/
def ownLast : CCont → List Byte
  | .wav | .rf64 | .caf => [100, 97, 116, 97]
  | .aiff => [83, 83, 78, 68]

/-- C13: "after re-opening each one is found by the chunk iterator functions - by identifier and by full iteration - with
    identical size and payload bytes … Iteration visits every stored chunk exactly once" — one complete iteration -/
def allFails (r : CRecord) (chunks : List (List Byte × List Byte)) (id : Option (List Byte)) (ents : List Entry) (endN : Int) : List Fail :=
  if endN != (ents.length : Int) then [{ tag := "iter-end" }] else
  let ids := chunks.map (·.1)
  match id with
  | none =>
    let mine := ents.filter fun e => ids.contains e.id
    let mine := dropOwn r.own chunks.length mine
    let mine := if r.c == .caf && ids.contains [102, 114, 101, 101] && mine.length == chunks.length + 1 &&
                   (mine.getLast?.map (·.id)) == some [102, 114, 101, 101] then mine.take chunks.length else mine
    -- the container's audio chunk is a chunk of the file like any other: a full iteration visits it exactly once
    (if (ents.filter (·.id == ownLast r.c)).length != 1 && !ids.contains (ownLast r.c) then [{ tag := "all-last" }] else []) ++
    (if mine.length != chunks.length then [{ tag := "count" }] else entriesFail mine chunks)
  | some q =>
    let q := storedId q
    let expect := chunks.filter (·.1 == q)
    if !ids.contains q then
      (if q == ownLast r.c && ents.length != 1 then [{ tag := "own-last" }] else [])
    else
      let mine := if r.c == .caf && q == [102, 114, 101, 101] && ents.length == expect.length + 1 then ents.take expect.length else ents
      let own := ownCount r.own q
      if own != 0 && mine.length != expect.length + own then [{ tag := "count" }] else
      let mine := if own != 0 then mine.take expect.length else mine
      if mine.length != expect.length then [{ tag := "count" }] else entriesFail mine expect

/-- the reference of the single-step operations: the entries the FIRST complete iteration with the same id visited -/
def refListing : List Query → Option (List Byte) → Option (List Entry)
  | [], _ => none
  | .all id _ ents _ :: qs, want => if id.map storedId == want.map storedId then some ents else refListing qs want
  | _ :: qs, want => refListing qs want

/-- state of the handle's one iterator as the statement sees it: the listing it walks and the position in it -/
structure Cursor where
  ref : Option (List Entry) := none         -- none: no complete iteration to compare with
  pos : Nat := 0
  live : Bool := false
deriving Repr

/-- C13 "forall iterator usage patterns (by id, NULL id, next after last, get_data with short buffers)": the single-step calls
    walk the same chunks as the complete iteration; `sf_next_chunk_iterator` after the last one returns NULL; the data call
    copies min (datalen, size) bytes -/
def stepFails (all : List Query) : Cursor → List Query → List Fail
  | _, [] => []
  | cur, q :: qs =>
    match q with
    | .iter id it =>
      let ref := refListing all id
      (match ref with
       | some l => if it == !l.isEmpty then [] else [{ tag := "step-iter" }]
       | none => []) ++ stepFails all { ref := ref, pos := 0, live := it } qs
    | .next it =>
      if !cur.live then (if it then [{ tag := "step-next" }] else []) ++ stepFails all { cur with live := false } qs
      else
        (match cur.ref with
         | some l => if it == decide (cur.pos + 1 < l.length) then [] else [{ tag := "step-next" }]
         | none => []) ++ stepFails all { cur with pos := cur.pos + 1, live := it } qs
    | .data e =>
      (match e, cur.live with
       | none, false => []
       | none, true => [{ tag := "step-data" }]
       | some _, false => [{ tag := "step-data" }]
       | some e, true =>
         match cur.ref.bind (·[cur.pos]?) with
         | some w =>
           -- the same chunk as the complete iteration visited at that position; where both buffers cover it, the same bytes
           let n := min (min e.buflen w.buflen) e.size
           if e.id != w.id || e.size != w.size || e.sizeRet != 0 || e.dataRet != 0 then [{ tag := "step-data" }]
           else if e.data.take n != w.data.take n || (e.data.drop (min e.buflen e.size)).any (· != 0xA5) then [{ tag := "step-data" }]
           else []
         | none => []) ++ stepFails all cur qs
    | .all _ _ _ _ => stepFails all { ref := none, pos := 0, live := false } qs
    | .getstr _ _ => stepFails all cur qs

def audioOf (frames : Nat) : List Nat := (List.range frames).map fun k => (k * 257 + 1) % 65536

def writeFails (m : CRun) : List Fail :=
  match m.wret with
  | some (ret, err) => if ret == (m.frames : Int) && err == 0 then [] else [{ tag := "write" }]
  | none => []

def closeFails (m : CRun) : List Fail :=
  match m.close with
  | some c => if c == 0 then [] else [{ tag := "close" }]
  | none => []

/-- C13: "without disturbing audio": the items read back are the items written, the rest of the buffer untouched -/
def readFails (m : CRun) : List Fail :=
  match m.read with
  | some rb =>
    if rb.ret == (m.frames : Int) && rb.err == 0 && rb.data == m.items ++ List.replicate (m.readN - m.frames) 0xA5A5 then []
    else [{ tag := "audio" }]
  | none => []

def queryFails (r : CRecord) (chunks : List (List Byte × List Byte)) : Query → List Fail
  | .all id _ ents endN => allFails r chunks id ents endN
  | .getstr ty s =>
    (match r.strings.find? (·.1 == ty) with
     | some w => if s == some w.2 then [] else [{ tag := "strings" }]
     | none => [])
  | _ => []

/-- the clauses on the re-opened file -/
def reopenedFails (r : CRecord) (m : CRun) (ri : ReInfo) : List Fail :=
  (if m.wret.isSome && ri.frames != (m.frames : Int) then [{ tag := "frames" }] else []) ++
  readFails m ++ m.queries.flatMap (queryFails r (stored m.sets)) ++ stepFails m.queries {} m.queries

def reopenFails (r : CRecord) (m : CRun) : List Fail :=
  match m.reopen with
  | none => []
  | some ri => if !ri.ok then [{ tag := "reopen" }] else reopenedFails r m ri

/-- THE PREDICATE of C13 on one run -/
def judgeRun (r : CRecord) (m : CRun) : List Fail :=
  if !m.complete then [{ tag := "crash" }]
  else setFails r.c m.sets ++ writeFails m ++ closeFails m ++ reopenFails r m

/-- C13 "audio untouched … without disturbing audio or other metadata": the twin without any chunk reads the same audio -/
def twinFails (m t : CRun) : List Fail :=
  if !t.complete || !t.sets.isEmpty then [{ tag := "twin-record", run := 2 }]
  else if sameAudio m.read t.read && (m.reopen.map (·.frames)) == (t.reopen.map (·.frames)) then
    (if (m.queries.filterMap fun q => match q with | .getstr ty s => some (ty, s) | _ => none) ==
        (t.queries.filterMap fun q => match q with | .getstr ty s => some (ty, s) | _ => none) then [] else [{ tag := "twin-strings", run := 2 }])
  else [{ tag := "twin-audio", run := 2 }]

def judge (r : CRecord) : List Fail :=
  judgeRun r r.main ++
  (match r.twin with
   | some t => if r.main.complete && (r.main.reopen.map (·.ok)) == some true then twinFails r.main t else []
   | none => [])

def accepted (r : CRecord) : Bool := (judge r).isEmpty

end Chunks

end Sf.AbsMeta
