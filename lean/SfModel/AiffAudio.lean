/-
  SfModel.AiffAudio — the audio bytes of an AIFF / AIFF-C write session: which sample encoder of SfModel.Pcm
  `aiff_open` installs for a configuration (pcm_init / float32_init / double64_init / ulaw_init / alaw_init with
  psf->endian as aiff_write_header set it), and a write call as "encode the caller's samples, then `Sf.Aiff.write`".
-/
import SfModel.Pcm
import SfModel.Aiff
namespace Sf.Aiff
open Sf

/-- the encoder behind `sf_write_*` for this configuration (byte order = `psf->endian`) -/
def encOf (c : Cfg) (k : Kind) : Option Enc :=
  match c.codec with
  | 0x01 => some (.pcm ⟨8, false, !k.little⟩)
  | 0x05 => some (.pcm ⟨8, true, !k.little⟩)
  | 0x02 => some (.pcm ⟨16, false, !k.little⟩)
  | 0x03 => some (.pcm ⟨24, false, !k.little⟩)
  | 0x04 => some (.pcm ⟨32, false, !k.little⟩)
  | 0x06 => some (.flt (!k.little))
  | 0x07 => some (.dbl (!k.little))
  | 0x10 => some .ulaw
  | 0x11 => some .alaw
  | _ => none

/-- one `sf_write_short/int/float/double` call: `vals` are the caller's items (whole frames), `conv` the handle's
    conversion settings, `peaks` the PEAK table the call leaves behind -/
def writeSamples (c : Cfg) (k : Kind) (s : St) (e : Enc) (conv : Conv) (ty : Ty) (vals : List Int)
    (peaks : Option (List Peak)) (auto : Bool) : St :=
  write c k s (e.encodeAll conv ty vals) peaks auto

end Sf.Aiff
