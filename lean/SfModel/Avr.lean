/-
  SfModel.Avr — stand-alone byte-exact (L1) model of the AVR container of src/avr.c (Audio Visual Research,
  128-byte big-endian header; PCM S8 / U8 / 16; one or two channels):

  * `hdr`                      avr_write_header: every byte, for every accepted encoding / channel count / rate
  * `spec`, session            avr_open (SFM_WRITE), the write calls, header updates, avr_close (SfModel.SmallSession)
  * `parse`                    sf_open (SFM_READ) of a byte string: guess_file_type, avr_read_header, pcm_init,
                               validate_sfinfo / validate_psf

  Core Lean only; names live in `Sf.Avr`.
-/
import SfModel.Basic
import SfModel.SmallSession
namespace Sf.Avr
open Sf Sf.Small

structure Cfg where
  codec : Nat          -- SF_CODEC (format): 0x01 PCM_S8, 0x02 PCM_16, 0x05 PCM_U8
  endian : Nat         -- endian bits of the format word: 0 FILE, 1 LITTLE, 2 BIG, 3 CPU
  ch : Nat
  sr : Nat
deriving Repr, DecidableEq, Inhabited

/-- `sf_format_check` for SF_FORMAT_AVR -/
def accepted (c : Cfg) : Bool :=
  (c.codec = 0x01 ∨ c.codec = 0x02 ∨ c.codec = 0x05) ∧ (c.endian = 0 ∨ c.endian = 2) ∧ c.ch ≤ 2

/-- a configuration `sf_open (SFM_WRITE)` accepts -/
def Cfg.wf (c : Cfg) : Prop := accepted c = true ∧ 1 ≤ c.ch ∧ 1 ≤ c.sr ∧ c.sr ≤ 0x7FFFFFFF
instance (c : Cfg) : Decidable c.wf := by unfold Cfg.wf; infer_instance

def Cfg.bytewidth (c : Cfg) : Nat := if c.codec = 0x02 then 2 else 1
def Cfg.bw (c : Cfg) : Nat := c.bytewidth * c.ch
/-- the format word a reader reports: AVR never records a byte order in `sf.format` -/
def Cfg.fmtWord (c : Cfg) : Nat := 0x120000 + c.codec

def hdrLen : Nat := 128

/-- `avr_write_header`: "2BIT", 8 name bytes (zero), mono flag, resolution, sign flag, loop, midi, rate, frames,
    loop begin / end, three reserved shorts, 20 + 64 bytes of zero -/
def hdr (c : Cfg) (frames : Nat) : List Byte :=
  mk4 "2BIT" ++ List.replicate 8 0 ++
  be16 (if c.ch = 2 then 0xFFFF else 0) ++ be16 (c.bytewidth * 8) ++ be16 (if c.codec = 0x05 then 0 else 0xFFFF) ++
  be16 0 ++ be16 0xFFFF ++
  be32 c.sr ++ be32 frames ++ be32 0 ++ be32 0 ++
  be16 0 ++ be16 0 ++ be16 0 ++ List.replicate 20 0 ++ List.replicate 64 0

def spec (c : Cfg) : Spec := { hdr := fun fr _ _ => hdr c fr, hdrLen := hdrLen, bw := c.bw }

/-! ## reader -/

/-- `switch (arith_shift_left (hdr.rez, 16) + (hdr.sign & 1))`: (codec, bytewidth) -/
def selOf (rez sign : Nat) : Option (Nat × Nat) :=
  if rez = 8 ∧ sign % 2 = 0 then some (0x05, 1)
  else if rez = 8 ∧ sign % 2 = 1 then some (0x01, 1)
  else if rez = 16 ∧ sign % 2 = 1 then some (0x02, 2)
  else none

/-- pcm_init (it recomputes datalength and frames from the file length), validate_sfinfo, validate_psf -/
def finish (flen ch : Nat) (srate : Int) (codec bytewidth : Nat) : ParseRes :=
  let bw : Int := ((bytewidth * ch : Nat) : Int)
  let r := codecFrames flen 128 0 bw
  if srate < 1 ∨ r.2 < 0 ∨ r.1 < 0 then .err else
  .ok { ch := ch, fmt := 0x120000 + codec, sr := srate.toNat, frames := r.2.toNat }

/-- `sf_open_virtual (SFM_READ)` on `bs` -/
def parse (bs : List Byte) : ParseRes :=
  if bs.length < 12 then .err else                               -- guess_file_type: SFE_BAD_FILE_READ
  if bs.take 4 ≠ mk4 "2BIT" then .unmodelled else                -- some other container, or none
  if htkCoincidence bs then .unmodelled else
  let mono := ofBE (slice bs 12 2)
  let rez := ofBE (slice bs 14 2)
  let sign := ofBE (slice bs 16 2)
  let srate : Int := sext 32 (ofBE (slice bs 22 4))
  match selOf rez sign with
  | none => .err                                                 -- SFE_AVR_BAD_REZ_SIGN
  | some (codec, bytewidth) => finish bs.length (mono % 2 + 1) srate codec bytewidth

end Sf.Avr
