/-
  SfModel.CodecWorld — several live handles on the three modelled stateful block codecs (G.721 / G.723, NMS ADPCM,
  GSM 06.10), for property C19.  SfModel/World.lean treats these codecs as opaque; here the codec side of a handle —
  what hangs off `psf->codec_data`: G72x_PRIVATE (with its g72x_state), NMS_ADPCM_PRIVATE (nms_adpcm_state), GSM610_PRIVATE
  (gsm_state, `e [50]` included) — is the state of a slot, and a call on slot i runs the REAL model functions of
  G72xFile / NmsFile / GsmFile on that slot.

  What static storage the three codecs have in the C (src/G72x/*.c, src/GSM610/*.c, src/nms_adpcm.c, src/g72x.c,
  src/gsm610.c; `grep -n static` + the file-scope definitions without `static`):
    * tables, declared without `const` but never written: G72x `qtab_721`, `_dqlntab`, `_witab`, `_fitab` (× 4 files),
      `power2`; GSM610/table.c `gsm_A … gsm_FAC` (external linkage); nms_adpcm.c `table_expn`, `table_scale_factor_step`,
      `table_step`, `table_step_search`; `bitoff` (const).  They are tied to the model's tables on every run
      (`g72x_tables_extracted`, `gsm_tables_extracted`, `nms_tables_extracted`): a write to one of them by the library
      would show as a table difference only if it happened before the extraction — what the merged-vs-solo campaign of
      vlib/codecpairs.py observes instead is its EFFECT on another live handle of the same codec;
    * no function-local `static` in any of these files (g72x_test.c, not compiled into the library, has two);
    * no other file-scope variable.
  So a slot's step is a function of the slot alone: `cstep` below has no other component to read.

  Core Lean only.
-/
import SfModel.G72xFile
import SfModel.NmsFile
import SfModel.GsmFile
namespace Sf.CodecWorld
open Sf Sf.Block

/-- the codec side of one live handle -/
inductive CodecSt
  | g72xW (r : G72x.Rate) (cv : Conv) (st : WState G72x.St)
  | g72xR (cv : Conv) (h : G72x.RHandle)
  | nmsW (r : Nms.Rate) (cv : Conv) (st : WState Nms.St)
  | nmsR (cv : Conv) (h : RHandle)
  | gsmW (c : Gsm.Cfg) (cv : Conv) (st : WState Gsm.State)
  | gsmR (cv : Conv) (h : RHandle)

/-- one call on a handle -/
inductive COp
  | write (ty : Ty) (vals : List Int)
  | read (ty : Ty) (n : Nat)
  | close

inductive COut
  | wrote (n : Nat)
  | data (cells : List Int) (ret : Nat)
  | closed (region : List Byte)          -- the data region the close leaves (write handles)
  | refused                              -- a read on a write handle / a write on a read handle
deriving Repr, DecidableEq

/-- the step of ONE handle: (new state — `none` after close —, result) -/
def step1 : CodecSt → COp → Option CodecSt × COut
  | .g72xW r cv st, .write ty vs => (some (.g72xW r cv (G72x.writeCall r cv ty st vs)), .wrote vs.length)
  | .g72xW r _ st, .close => (none, .closed ((G72x.writer r).close true st).bytes)
  | .g72xR cv h, .read ty n =>
    let res := h.read ty n
    (some (.g72xR cv res.1), .data (res.2.1.map (G72x.toCaller cv ty)) res.2.2)
  | .nmsW r cv st, .write ty vs => (some (.nmsW r cv (Nms.writeCall r cv st (ty, vs))), .wrote vs.length)
  | .nmsW r _ st, .close => (none, .closed (Nms.closeW r st).bytes)
  | .nmsR cv h, .read ty n =>
    let res := Nms.read cv ty h n
    (some (.nmsR cv res.1), .data res.2.1 res.2.2)
  | .gsmW c cv st, .write ty vs => (some (.gsmW c cv (Gsm.writeCall c cv ty st vs)), .wrote vs.length)
  | .gsmW c _ st, .close => (none, .closed (Gsm.closeBytes c st))
  | .gsmR cv h, .read ty n =>
    let res := Gsm.readCall h cv ty n
    (some (.gsmR cv res.1), .data res.2.1 res.2.2)
  | .g72xR _ _, .close | .nmsR _ _, .close | .gsmR _ _, .close => (none, .closed [])
  | s, _ => (some s, .refused)

/-- the world: a slot table, nothing else -/
structure CW where
  slots : Nat → Option CodecSt := fun _ => none

abbrev Ev := Nat × COp

def upd (f : Nat → Option CodecSt) (i : Nat) (v : Option CodecSt) : Nat → Option CodecSt := fun j => if j = i then v else f j

/-- a call on slot `ev.1` -/
def cstep (w : CW) (ev : Ev) : CW × COut :=
  match w.slots ev.1 with
  | none => (w, .refused)
  | some s =>
    let r := step1 s ev.2
    ({ slots := upd w.slots ev.1 r.1 }, r.2)

/-- a history: final world and the transcript tagged with the calling slot -/
def crun (w : CW) : List Ev → CW × List (Nat × COut)
  | [] => (w, [])
  | ev :: evs =>
    let r := cstep w ev
    let rest := crun r.1 evs
    (rest.1, (ev.1, r.2) :: rest.2)

/-- the calls of slot i -/
def proj (i : Nat) (evs : List Ev) : List Ev := evs.filter fun ev => ev.1 == i
/-- the transcript lines of slot i -/
def view (i : Nat) (tr : List (Nat × COut)) : List COut := (tr.filter fun x => x.1 == i).map (·.2)

end Sf.CodecWorld
