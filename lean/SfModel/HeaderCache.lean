/-
  SfModel.HeaderCache — the growable header cache every parser reads through
  (src/common.c: psf_allocate, psf_bump_header_allocation, header_read, header_seek, header_gets,
  psf_binheader_readf).

  State: the three integers psf->header.{indx,end,len}; the buffer contents are NOT part of the state
  (C03 is about where the code touches the buffer, not what it finds there).  Every primitive is a total
  function returning the new state and the list of events it performs, in program order:

    rd off n   n bytes read from the header buffer at offset off   (memcpy out of it / ptr[k] = hdr[indx])
    wr off n   psf_fread asked to store up to n bytes at offset off (the whole range must be valid)
    ioRead req got / ioSeek off whence / ioSkip n    calls into the I/O layer
    denied newlen   the log line "Request for header allocation of %D denied."
    short           the log line "Error : psf_fread returned short count."

  Everything the C code cannot know in advance is an ORACLE argument:
    alloc k  does the k-th realloc of this call succeed
    io k     what the k-th psf_fread of this call would deliver (clamped to the request: the read
             callback contract `0 ≤ result ≤ count`; nothing else is assumed — 0 forever, short
             counts, anything)
    nl k     is the k-th byte header_gets looks at a '\n'
  so the theorems in SfProps/C03.lean hold for every I/O behaviour and every file content.

  Integers are mathematical (`Int`).  The C computes in sf_count_t (64 bit) with `int` arguments
  (|arg| < 2^31) and len ≤ 102400, so no intermediate value can leave the 64-bit range; see
  `SfProps.C03.bump_newlen_small`.
-/
namespace Sf.HeaderCache

/-- `#define INITIAL_HEADER_SIZE 256` -/
def INITIAL : Int := 256
/-- the cap in psf_bump_header_allocation: `if (newlen > 100 * 1024)` -/
def CAP : Int := 100 * 1024

structure St where
  indx : Int
  end_ : Int
  len  : Int
deriving Repr, DecidableEq, Inhabited

/-- psf_allocate: calloc (1, INITIAL_HEADER_SIZE), indx = end = 0 -/
def St.init : St := ⟨0, 0, INITIAL⟩

inductive Ev where
  | rd (off n : Int)
  | wr (off n : Int)
  | ioRead (req got : Int)
  | ioSeek (off : Int) (whence : Int)
  | ioSkip (n : Int)
  | denied (newlen : Int)
  | short
deriving Repr, DecidableEq, Inhabited

structure Oracle where
  alloc : Nat → Bool
  io    : Nat → Nat
  nl    : Nat → Bool

/-- the oracle seen by a later part of the same call: answers already consumed are dropped -/
def Oracle.shiftAlloc (o : Oracle) (k : Nat) : Oracle := { o with alloc := fun i => o.alloc (i + k) }
def Oracle.shiftIo (o : Oracle) (k : Nat) : Oracle := { o with io := fun i => o.io (i + k), nl := fun i => o.nl (i + k) }

/-- what psf_fread returns for a request of `req` bytes when the backing store would deliver `ans`:
    the callback contract (0 ≤ r ≤ count); a non-positive request transfers nothing -/
def clampIO (ans : Nat) (req : Int) : Int :=
  if req ≤ 0 then 0 else if (ans : Int) ≤ req then (ans : Int) else req

/-- psf_bump_header_allocation (psf, needed): (state, nonzero-return?, events).
    Since the repair ("fix: the 100k header buffer refused requests that would have fit"): when the doubled request passes the
    cap the buffer grows to the cap itself, provided `header.indx + needed` fits; denied otherwise (the log line still prints
    the doubled size). -/
def bump (s : St) (needed : Int) (allocOk : Bool) : St × Bool × List Ev :=
  let smallest := INITIAL
  let newlen := if needed > s.len then 2 * (if needed > smallest then needed else smallest) else 2 * s.len
  if newlen > CAP ∧ s.indx + needed > CAP then (s, true, [Ev.denied newlen])
  else if !allocOk then (s, true, [])
  else ({ s with len := if newlen > CAP then CAP else newlen }, false, [])

/-- the rule before the repair: denied as soon as the doubled request passes the cap -/
def bumpOld (s : St) (needed : Int) (allocOk : Bool) : St × Bool × List Ev :=
  let smallest := INITIAL
  let newlen := if needed > s.len then 2 * (if needed > smallest then needed else smallest) else 2 * s.len
  if newlen > CAP then (s, true, [Ev.denied newlen])
  else if !allocOk then (s, true, [])
  else ({ s with len := newlen }, false, [])

/-- `if (indx + n >= len && psf_bump_header_allocation (psf, n))` — the recurring guard.
    Returns (state, guard-fired?, events).  `&&` short-circuits: no bump when there is room. -/
def guard (s : St) (n : Int) (allocOk : Bool) : St × Bool × List Ev :=
  if s.indx + n ≥ s.len then bump s n allocOk else (s, false, [])

/-- header_read (psf, ptr, bytes): (state, events, return value) -/
def headerRead (s : St) (bytes : Int) (o : Oracle) : St × List Ev × Int :=
  let (s1, failed, ev1) := guard s bytes (o.alloc 0)
  if failed then (s1, ev1, 0)
  else if s1.indx + bytes > s1.end_ then
    let req := bytes - (s1.end_ - s1.indx)
    let count := clampIO (o.io 0) req
    let ev2 := ev1 ++ [Ev.wr s1.end_ req, Ev.ioRead req count]
    if count ≠ req then (s1, ev2 ++ [Ev.short], count)
    else
      let s2 := { s1 with end_ := s1.end_ + count }
      ({ s2 with indx := s2.indx + bytes }, ev2 ++ [Ev.rd s2.indx bytes], bytes)
  else
    ({ s1 with indx := s1.indx + bytes }, ev1 ++ [Ev.rd s1.indx bytes], bytes)

/-- header_seek (psf, position, whence); whence 0 = SEEK_SET, 1 = SEEK_CUR, anything else logs
    "Bad whence".  `pipe` is psf->is_pipe.  The result of the bump is ignored, as in the C. -/
def headerSeek (pipe : Bool) (s : St) (position : Int) (whence : Int) (o : Oracle) : St × List Ev :=
  if whence = 0 then
    let (s1, _, ev1) := guard s position (o.alloc 0)
    if position > s1.len then
      ({ s1 with indx := 0, end_ := 0 }, ev1 ++ [Ev.ioSeek position 0])
    else if position > s1.end_ then
      let req := position - s1.end_
      let got := clampIO (o.io 0) req
      ({ s1 with end_ := s1.end_ + got, indx := position }, ev1 ++ [Ev.wr s1.end_ req, Ev.ioRead req got])
    else
      ({ s1 with indx := position }, ev1)
  else if whence = 1 then
    let (s1, _, ev1) := guard s position (o.alloc 0)
    if s1.indx + position < 0 then (s1, ev1)
    else if s1.indx ≥ s1.len then (s1, ev1 ++ [Ev.ioSeek position 1])
    else if s1.indx + position ≤ s1.end_ then ({ s1 with indx := s1.indx + position }, ev1)
    else if s1.indx + position > s1.len then
      let position' := position - (s1.end_ - s1.indx)
      -- pipe: `while (skip) psf_fread (junk, 1, min (skip, 16384))` into a 16 KiB stack buffer,
      -- ceil (position' / 16384) iterations; otherwise one psf_fseek (position', SEEK_CUR)
      ({ s1 with indx := s1.end_ }, ev1 ++ [if pipe then Ev.ioSkip position' else Ev.ioSeek position' 1])
    else
      let req := position - (s1.end_ - s1.indx)
      let got := clampIO (o.io 0) req
      let e2 := s1.end_ + got
      ({ s1 with end_ := e2, indx := e2 }, ev1 ++ [Ev.wr s1.end_ req, Ev.ioRead req got])
  else (s, [])

/-- the `for (k = 0 ; k < bufsize - 1 ; k++)` loop of header_gets; `fuel` = iterations left,
    `k` = iteration number (index into the oracle) -/
def getsLoop (o : Oracle) : Nat → Nat → St → List Ev → St × List Ev × Nat
  | 0, k, s, ev => (s, ev, k)
  | fuel + 1, k, s, ev =>
    let (s', ev') :=
      if s.indx < s.end_ then
        ({ s with indx := s.indx + 1 }, ev ++ [Ev.rd s.indx 1])
      else
        let got := clampIO (o.io k) 1
        let e2 := s.end_ + got
        ({ s with end_ := e2, indx := e2 }, ev ++ [Ev.wr s.end_ 1, Ev.ioRead 1 got, Ev.rd s.indx 1])
    if o.nl k then (s', ev', k) else getsLoop o fuel (k + 1) s' ev'

/-- header_gets (psf, ptr, bufsize): (state, events, return value k) -/
def headerGets (s : St) (bufsize : Int) (o : Oracle) : St × List Ev × Int :=
  let (s1, failed, ev1) := guard s bufsize (o.alloc 0)
  if failed then (s1, ev1, 0)
  else
    let (s2, ev2, k) := getsLoop o (bufsize - 1).toNat 0 s1 ev1
    (s2, ev2, k)

/-! ## psf_binheader_readf, one format character at a time -/

inductive Item where
  | endian              -- 'e' / 'E'
  | fixed (n : Nat)     -- 'm' 4, 'h' 16, '1' 1, '2' 2, '3' 3, '4' 4, '8' 8, 'f' 4, 'd' 8
  | b (count : Int)     -- raw bytes
  | G (count : Int)     -- header_gets
  | p (count : Int)     -- header_seek SEEK_SET
  | j (count : Int)     -- header_seek SEEK_CUR
  | bang                -- '!'
  | nop                 -- 's', 'z': log only
  | bad                 -- unknown specifier: psf->error = SFE_INTERNAL
deriving Repr, DecidableEq, Inhabited

def INT_MAX : Int := 2147483647

structure Rf where
  st : St
  byteCount : Int := 0
  internalErr : Bool := false   -- psf->error = SFE_INTERNAL was set
  stopped : Bool := false       -- the while loop was left by `break`
deriving Repr, DecidableEq, Inhabited

/-- `case 'G'`: `if (indx + count >= len && bump (count)) break ;` (leaves the switch only), then
    header_gets with its own guard -/
def getsItem (s0 : St) (count : Int) (o1 : Oracle) : St × List Ev × Int :=
  let g := guard s0 count (o1.alloc 0)
  if g.2.1 then (g.1, g.2.2, 0)
  else let r := headerGets g.1 count (o1.shiftAlloc 1); (r.1, g.2.2 ++ r.2.1, r.2.2)

/-- the `switch (c)` body: (state, events, read_bytes, byte_count, SFE_INTERNAL set?) -/
def itemBody (pipe : Bool) (s0 : St) (byteCount : Int) (o1 : Oracle) : Item → St × List Ev × Int × Int × Bool
  | .endian => (s0, [], 0, byteCount, false)
  | .fixed n => let r := headerRead s0 n o1; (r.1, r.2.1, r.2.2, byteCount, false)
  | .b count => let r := headerRead s0 count o1; (r.1, r.2.1, r.2.2, byteCount, false)
  | .G count => let r := getsItem s0 count o1; (r.1, r.2.1, r.2.2, byteCount, false)
  | .p count => let r := headerSeek pipe s0 count 0 o1; (r.1, r.2, 0, count, false)
  | .j count => let r := headerSeek pipe s0 count 1 o1; (r.1, r.2, count, byteCount, false)
  | .bang => ({ s0 with indx := 0, end_ := 0 }, [], 0, byteCount, false)
  | .nop => (s0, [], 0, byteCount, false)
  | .bad => (s0, [], 0, byteCount, true)

/-- one trip round the `while ((c = *format++))` loop -/
def readfItem (pipe : Bool) (r : Rf) (it : Item) (o : Oracle) : Rf × List Ev :=
  if r.stopped then (r, []) else
  -- if (indx + 16 >= len && bump (16)) break ;
  let g := guard r.st 16 (o.alloc 0)
  if g.2.1 then ({ r with st := g.1, stopped := true }, g.2.2) else
  let b := itemBody pipe g.1 r.byteCount (o.shiftAlloc 1) it
  let readBytes := b.2.2.1
  let byteCount1 := b.2.2.2.1
  if readBytes > 0 ∧ byteCount1 > INT_MAX - readBytes then
    ({ st := b.1, byteCount := byteCount1, internalErr := true, stopped := true }, g.2.2 ++ b.2.1)
  else
    ({ st := b.1, byteCount := byteCount1 + readBytes, internalErr := r.internalErr || b.2.2.2.2, stopped := false }, g.2.2 ++ b.2.1)

/-- a whole call: the items of the format string, each with its own oracle -/
def readf (pipe : Bool) (s : St) (l : List (Item × Oracle)) : Rf × List Ev :=
  l.foldl (fun (acc : Rf × List Ev) (io : Item × Oracle) =>
            let (r, ev) := readfItem pipe acc.1 io.1 io.2
            (r, acc.2 ++ ev)) ({ st := s }, [])

/-! ## primitive operations as data (for "all sequences of primitives") -/

inductive Op where
  | read (bytes : Int)
  | seek (pipe : Bool) (position : Int) (whence : Int)
  | gets (bufsize : Int)
  | bump (needed : Int)
  | reset
  | item (pipe : Bool) (it : Item)    -- one psf_binheader_readf format character, guards included
deriving Repr, DecidableEq, Inhabited

def step (s : St) (op : Op) (o : Oracle) : St × List Ev :=
  match op with
  | .read b => let (s', ev, _) := headerRead s b o; (s', ev)
  | .seek pipe p w => headerSeek pipe s p w o
  | .gets n => let (s', ev, _) := headerGets s n o; (s', ev)
  | .bump n => let (s', _, ev) := bump s n (o.alloc 0); (s', ev)
  | .reset => ({ s with indx := 0, end_ := 0 }, [])
  | .item pipe it => let (r, ev) := readfItem pipe { st := s } it o; (r.st, ev)

/-- run a sequence; the result lists, per step, the state *after* the step and the step's events
    (an access is judged against the buffer length in force when it happens, which is the length
    after the step's own bumps: every primitive bumps before it touches the buffer) -/
def run (s : St) : List (Op × Oracle) → List (St × List Ev)
  | [] => []
  | (op, o) :: rest => let (s', ev) := step s op o; (s', ev) :: run s' rest

def finalState (s : St) : List (Op × Oracle) → St
  | [] => s
  | (op, o) :: rest => finalState (step s op o).1 rest

/-! ## the argument ranges under which the code is safe

The C would overrun for a negative `bytes` in header_read (memcpy with a huge size_t) and for a
negative SEEK_SET position (indx becomes negative, the next read starts before the buffer).  Those
are the hypotheses the proofs force; SfProps/C03.lean proves both that they suffice and (by concrete
counter-example) that they are necessary.  Call-site review: every 'p' argument in src/*.c is a
constant ≥ 0, `(int) psf->dataoffset` = PAF_HEADER_LENGTH, or the ID3 length (4 × 7 bits + 10);
'b'/fixed sizes are sizeof-style constants or values range-checked by the caller — with ONE exception
found by the C03 fuzz runs: caf_read_strings on non-seekable input (its range check uses
psf->filelength, which is SF_COUNT_MAX on a pipe): SfProps/C03.lean §8, known finding KF-C03-caf-info-pipe. -/
def Item.argsOk : Item → Prop
  | .b count => 0 ≤ count
  | .p count => 0 ≤ count
  | _ => True

instance : (it : Item) → Decidable it.argsOk
  | .b _ => by unfold Item.argsOk; infer_instance
  | .p _ => by unfold Item.argsOk; infer_instance
  | .endian | .fixed _ | .G _ | .j _ | .bang | .nop | .bad => by unfold Item.argsOk; infer_instance

def Op.argsOk : Op → Prop
  | .read b => 0 ≤ b
  | .seek _ p w => w = 0 → 0 ≤ p
  | .item _ it => it.argsOk
  | _ => True

instance : (op : Op) → Decidable op.argsOk
  | .read _ => by unfold Op.argsOk; infer_instance
  | .seek _ _ _ => by unfold Op.argsOk; infer_instance
  | .item _ _ => by unfold Op.argsOk; infer_instance
  | .gets _ | .bump _ | .reset => by unfold Op.argsOk; infer_instance

/-- the invariant -/
def Inv (s : St) : Prop :=
  0 ≤ s.indx ∧ s.indx ≤ s.len ∧ 0 ≤ s.end_ ∧ s.end_ ≤ s.len ∧ INITIAL ≤ s.len ∧ s.len ≤ CAP

instance (s : St) : Decidable (Inv s) := by unfold Inv; infer_instance

/-- a buffer access lies inside a buffer of `len` bytes -/
def Ev.inBounds (len : Int) : Ev → Prop
  | .rd off n => 0 ≤ off ∧ 0 ≤ n ∧ off + n ≤ len
  | .wr off n => 0 ≤ off ∧ 0 ≤ n ∧ off + n ≤ len
  | _ => True

instance (len : Int) : (e : Ev) → Decidable (e.inBounds len)
  | .rd _ _ => by unfold Ev.inBounds; infer_instance
  | .wr _ _ => by unfold Ev.inBounds; infer_instance
  | .ioRead _ _ | .ioSeek _ _ | .ioSkip _ | .denied _ | .short => by unfold Ev.inBounds; infer_instance

end Sf.HeaderCache
