/-
  SfModel.Nist — stand-alone byte-exact (L1) model of the NIST / SPHERE container of src/nist.c: a 1024-byte header
  holding "key -type value" text lines, NUL filled, then the audio (PCM_S8 / 16 / 24 / 32 in either byte order,
  u-law, A-law).

  * `text`, `hdr`, `fmt`   nist_write_header (psf_asciiheader_printf of every line, "z" fill to 1024 bytes)
  * `session…`             nist_open sets `psf->sf.frames = 0` before it writes the first header, so the caller's
                           stale SF_INFO.frames never reaches the store: the session is `Sf.Small2.run (fmt c)`
                           started from `Sf.Small2.openW (fmt c) 0`
  * `strstr`, `scanWord`   the C library calls of the reader (`scanInt` = one "%d" is shared with SfModel/Pvf.lean)
  * `parse`                sf_open (SFM_READ): guess_file_type, nist_read_header (strstr / sscanf over the header
                           text up to its first NUL, cut after "end_head"), the codec init, validate_sfinfo / _psf
-/
import SfModel.Small2
import SfModel.Pvf
namespace Sf.Nist
open Sf Sf.Small2
open Sf.Pvf (digits scanInt skipWs isWs)

/-! ## configuration -/

structure Cfg where
  codec : Nat          -- PCM_S8 = 1, PCM_16 = 2, PCM_24 = 3, PCM_32 = 4, ULAW = 0x10, ALAW = 0x11
  endian : Nat         -- endian bits of the format word: 0 FILE, 1 LITTLE, 2 BIG, 3 CPU
  ch : Nat
  sr : Nat
deriving Repr, DecidableEq, Inhabited

def bytewidth (codec : Nat) : Nat := if codec = 2 then 2 else if codec = 3 then 3 else if codec = 4 then 4 else 1

/-- psf->endian: FILE and CPU mean little endian on this host -/
def Cfg.big (c : Cfg) : Bool := c.endian = 2

def Cfg.wf (c : Cfg) : Prop :=
  (c.codec = 1 ∨ c.codec = 2 ∨ c.codec = 3 ∨ c.codec = 4 ∨ c.codec = 0x10 ∨ c.codec = 0x11) ∧ c.endian < 4 ∧
  1 ≤ c.ch ∧ c.ch ≤ 1024 ∧ 1 ≤ c.sr ∧ c.sr ≤ 0x7FFFFFFF
instance (c : Cfg) : Decidable c.wf := by unfold Cfg.wf; infer_instance

def Cfg.bw (c : Cfg) : Nat := bytewidth c.codec * c.ch

/-- the `sf.format` word a reader reports: the byte order is recorded for the multi-byte PCM encodings only -/
def Cfg.fmtWord (c : Cfg) : Nat :=
  (if c.codec = 2 ∨ c.codec = 3 ∨ c.codec = 4 then (if c.big then 0x20000000 else 0x10000000) else 0) + 0x070000 + c.codec

/-! ## writer -/

/-- printf "%ld" -/
def sdigits (v : Int) : List Byte := if v < 0 then 0x2D :: digits v.natAbs else digits v.toNat

/-- the lines between sample_rate and sample_count: the `switch (SF_CODEC (psf->sf.format))` of nist_write_header -/
def codecBlock (codec : Nat) (big : Bool) : List Byte :=
  if codec = 1 then asc "sample_coding -s3 pcm\nsample_n_bytes -i 1\nsample_sig_bits -i 8\n"
  else if codec = 0x11 then asc "sample_coding -s4 alaw\nsample_n_bytes -s1 1\n"
  else if codec = 0x10 then asc "sample_coding -s4 ulaw\nsample_n_bytes -s1 1\n"
  else if codec = 2 then asc "sample_n_bytes -i 2\nsample_sig_bits -i 16\nsample_coding -s3 pcm\nsample_byte_format -s2 " ++ (if big then asc "10\n" else asc "01\n")
  else if codec = 3 then asc "sample_n_bytes -i 3\nsample_sig_bits -i 24\nsample_coding -s3 pcm\nsample_byte_format -s3 " ++ (if big then asc "10\n" else asc "01\n")
  else asc "sample_n_bytes -i 4\nsample_sig_bits -i 32\nsample_coding -s3 pcm\nsample_byte_format -s4 " ++ (if big then asc "10\n" else asc "01\n")

def headA : List Byte := asc "NIST_1A\n   1024\nchannel_count -i "
def headB : List Byte := asc "\nsample_rate -i "
def headC : List Byte := asc "sample_count -i "
def headD : List Byte := asc "\nend_head\n"

/-- the header text: every psf_asciiheader_printf call of nist_write_header, in order (`samples` is a 64-bit long) -/
def text (c : Cfg) (frames : Int) : List Byte :=
  headA ++ (digits c.ch ++ (headB ++ (digits c.sr ++ (0x0A :: (codecBlock c.codec c.big ++ (headC ++ (sdigits (wrapS 64 frames) ++ headD)))))))

/-- nist_write_header: the text, zero filled to NIST_HEADER_LENGTH (the text of an accepted configuration is
    shorter than 200 bytes) -/
def hdr (c : Cfg) (f : Fields) : List Byte := (text c f.frames ++ List.replicate 1024 0).take 1024

/-- `calc_length`: filelength, datalength = filelength − dataoffset (dataend is 0 on a write handle),
    frames = datalength / (bytewidth * channels) -/
def fmt (c : Cfg) : Fmt :=
  { hdrLen := 1024, bw := c.bw, hdr := hdr c,
    recalc := fun n _ => { filelength := n, datalength := (n : Int) - 1024, frames := ((n : Int) - 1024) / ((c.bw : Nat) : Int) } }

/-- nist_open: `psf->sf.frames = 0` comes before the first nist_write_header, so the caller's value is dropped -/
def openW (c : Cfg) (_stale : Nat) : St := Small2.openW (fmt c) 0

def closedBytes (c : Cfg) (stale : Nat) (ops : List WOp) : List Byte := (close (fmt c) (run (fmt c) (openW c stale) ops)).bytes
def snapshotBytes (c : Cfg) (stale : Nat) (ops : List WOp) : List Byte := (update (fmt c) (run (fmt c) (openW c stale) ops)).bytes

/-- the rate is stored as decimal text: every rate is exact -/
def quant (sr : Nat) : Nat := sr

/-! ## reader -/

def isPrefix : List Byte → List Byte → Bool
  | [], _ => true
  | _ :: _, [] => false
  | p :: ps, b :: bs => p = b && isPrefix ps bs

/-- strstr: the suffix that starts at the first occurrence of `pat` -/
def strstr (pat : List Byte) : List Byte → Option (List Byte)
  | [] => if pat = [] then some [] else none
  | b :: r => if isPrefix pat (b :: r) then some (b :: r) else strstr pat r

/-- what follows the first occurrence of `key` -/
def after (key text : List Byte) : Option (List Byte) := (strstr key text).map (·.drop key.length)

/-- one "%<max>s" of sscanf: white space, then up to `max` characters that are not white space -/
def scanWord (max : Nat) (s : List Byte) : List Byte := ((skipWs s).takeWhile (fun b => !isWs b)).take max

def inInt (v : Int) : Bool := -0x80000000 ≤ v ∧ v ≤ 0x7FFFFFFF

/-- `if ((cptr = strstr (hdr, key))) sscanf (cptr, key "%d", &field)` on a field whose value was `dflt`;
    `none`: the conversion overflows an int -/
def intField (key text : List Byte) (dflt : Int) : Option Int :=
  match after key text with
  | none => some dflt
  | some r =>
    match scanInt r with
    | none => some dflt
    | some (v, _) => if inInt v then some v else none

def kEnd : List Byte := asc "end_head"
def kBad : List Byte := asc "NIST_1A\r\n   1024\r\n"
def kMagic : List Byte := asc "NIST_1A\n"
def kCoding : List Byte := asc "sample_coding -s"
def kChan : List Byte := asc "channel_count -i "
def kRate : List Byte := asc "sample_rate -i "
def kBytes : List Byte := asc "sample_n_bytes -i "
def kOrder : List Byte := asc "sample_byte_format -s"
def kInter : List Byte := asc "channels_interleaved -s5 FALSE"

/-- the header as the C string nist_read_header works on: the first 1024 bytes up to the first NUL, cut one
    character after "end_head" -/
def headerText (bs : List Byte) : List Byte :=
  let t := (bs.take 1024).takeWhile (· ≠ 0)
  match strstr kEnd t with
  | some suf => t.take (t.length - suf.length + 9)
  | none => t

/-- the `encoding` variable: 5 (PCM_U8) = "PCM, width known later", 0 = unknown -/
def encodingOf (t : List Byte) : Nat :=
  match after kCoding t with
  | none => 5
  | some r =>
    match scanInt r with
    | none => 0
    | some (_, r2) =>
      let w := scanWord 63 r2
      if w = asc "pcm" then 5 else if w = asc "alaw" then 0x11 else if w = asc "ulaw" ∨ w = asc "mu-law" then 0x10 else 0

/-- the byte-order block: (bytewidth, endian bits to OR into the format word) or an error / an unmodelled case -/
inductive Order
  | ok (bytewidth : Int) (bits : Nat)
  | err
  | unmodelled
deriving Repr, DecidableEq, Inhabited

def orderOf (t : List Byte) (bytewidth : Int) : Order :=
  match after kOrder t with
  | none => .ok bytewidth 0
  | some r =>
    match scanInt r with
    | none => .ok bytewidth 0                                   -- sscanf returns 0
    | some (bytes, r2) =>
      if bytes < 0 ∨ bytes > 0x7FFFFFFF then .unmodelled else    -- "%u" of a signed or huge number
      let w := scanWord 8 r2
      if w = [] then .ok bytewidth 0 else                        -- sscanf returns 1
      if bytes > 1 then
        if bytewidth ≠ 0 ∧ bytewidth ≠ bytes then .err           -- SFE_NIST_BAD_ENCODING
        else if w = asc "01" then .ok bytes 0x10000000
        else if w = asc "10" then .ok bytes 0x20000000
        else .err
      else .ok bytewidth 0x10000000                              -- `psf->sf.format |= psf->endian` (the default)

/-- nist_read_header + nist_open + the codec init + validate_sfinfo + validate_psf -/
def readHeader (bs : List Byte) : ParseRes :=
  -- psf_binheader_readf "b" clears the destination (memset) before header_read, and a short header_read copies nothing:
  -- on a file shorter than the header `psf_header` is 1024 NUL bytes, "Not a NIST file." (SFE_NIST_BAD_HEADER)
  if bs.length < 1024 then .err else
  let t := headerText bs
  if isPrefix kBad t then .err else                               -- SFE_NIST_CRLF_CONVERISON
  if !isPrefix kMagic t then .err else                            -- SFE_NIST_BAD_HEADER
  let off : Option Int := match scanInt (t.drop 7) with           -- sscanf "NIST_1A\n%d\n"
    | none => some 1024
    | some (v, _) => if inInt v then some v else none
  match off, intField kChan t 0, intField kRate t 0, intField kBytes t 0 with
  | some dataoffset, some ch, some sr, some nbytes =>
    let enc := encodingOf t
    match orderOf t nbytes with
    | .unmodelled => .unmodelled
    | .err => .err
    | .ok bytewidth bits =>
      if (strstr kInter t).isSome then .err else                  -- SFE_NIST_BAD_ENCODING
      if enc = 0 then .err else                                   -- SFE_UNIMPLEMENTED
      if ch < 1 ∨ ch > 1024 then .err else                        -- pcm_init / validate_sfinfo
      let codec : Nat := if enc = 5 then (if bytewidth = 1 then 1 else if bytewidth = 2 then 2 else if bytewidth = 3 then 3
                                          else if bytewidth = 4 then 4 else 0) else enc
      if codec = 0 then .err else                                 -- nist_open: SFE_UNIMPLEMENTED
      let word : Nat := if codec = 0x10 ∨ codec = 0x11 then 0x070000 + codec else bits + 0x070000 + codec
      let bw : Int := if enc = 5 then bytewidth * ch else ch
      if sr < 1 ∨ dataoffset < 0 then .err else                   -- validate_sfinfo, validate_psf
      .ok { ch := ch.toNat, fmt := word, sr := sr.toNat, frames := (framesOf bs.length dataoffset 0 bw).toNat }
  | _, _, _, _ => .unmodelled

/-- `sf_open_virtual (SFM_READ)` on `bs` -/
def parse (bs : List Byte) : ParseRes :=
  if bs.length < 12 then .err else                    -- guess_file_type: SFE_BAD_FILE_READ
  match guess bs with
  | some (.fmt 0x070000) => readHeader bs
  | _ => .unmodelled

end Sf.Nist
