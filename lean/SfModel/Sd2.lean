/-
  SD2 (src/sd2.c): Sound Designer II.  The data file is raw big-endian PCM (8 / 16 / 24 / 32 bits); everything a
  reader needs -- sample size, sample rate, channel count -- lives in the Macintosh RESOURCE FORK, which the library
  keeps in a side file `._<name>` (path route only; sf_open_fd / sf_open_virtual refuse SD2).

  Writer: `rsrc c` = the bytes sd2_write_rsrc_fork puts into the side file, bug for bug:
    * the fork is assembled in psf->header (256 bytes at that moment, memset to 0xEA; every later
      psf_bump_header_allocation zero-fills what it adds): bytes nobody writes are 0xEA below offset 256 and 0 above
      (`fill`; `rsrcWith f` = the fork over an arbitrary background `f`, `rsrcOn zeroNew mem` = over a given heap);
    * the second copy of the four header longs ("very start of resource map") is written at 0x5A, right behind
      the 'Sd2f' 'lsf1' markers, not at map_offset;
    * the Pascal names of the resources are written with 'p' (length byte + an odd number of bytes) but the offset
      advances by strlen only: each name overwrites the tail of its predecessor and the last one is cut (`strArea`);
    * the item list has room for five items, four are written (the fifth stays background);
    * the values are Pascal strings "<len><decimal text>" (rate: "%d.000000"), the 'sdML' item is 8 zero bytes.
  Reader: `parseFork len` = sd2_parse_rsrc_fork + parse_str_rsrc as a PROGRAM OF BYTE READS (`Prog`: a tree whose
  only effect is `read i` = one access to rsrc_data [i]); `Prog.run g` interprets it over the bytes `g` and returns the
  answer together with the list of offsets it touched.  The guards are the C guards (read_rsrc_char / _short / _int /
  _marker / _str return 0 / "" when the offset is outside), C `int` additions of file-supplied numbers wrap
  (`wrapS 32`, what gcc does; they are signed overflows, i.e. undefined, in C).  Every other addition is exact: it
  cannot overflow for forks shorter than 2^30 bytes.
  `openInfo` = the rest of sd2_open (format word, pcm_init, validate_sfinfo) on the parsed triple and the length of
  the data file.
-/
import SfModel.Basic
import SfModel.Small2
import SfModel.Pvf

namespace Sf.Sd2
open Sf Sf.Small2
open Sf.Pvf (digits scanInt)

/-! ## programs of byte reads -/

inductive Prog (α : Type) where
  | pure : α → Prog α
  | read : Nat → (Byte → Prog α) → Prog α

namespace Prog

def bind : Prog α → (α → Prog β) → Prog β
  | .pure a, f => f a
  | .read i k, f => .read i (fun b => (k b).bind f)

instance : Monad Prog where
  pure := Prog.pure
  bind := Prog.bind

/-- the answer and the offsets read, in order -/
def run (g : Nat → Byte) : Prog α → α × List Nat
  | .pure a => (a, [])
  | .read i k => let r := (k (g i)).run g; (r.1, i :: r.2)

/-- every `read` the program can ever perform, whatever the bytes are, lies below `len` -/
inductive Bounded (len : Nat) : Prog α → Prop where
  | pure (a : α) : Bounded len (.pure a)
  | read (i : Nat) (k : Byte → Prog α) : i < len → (∀ b, Bounded len (k b)) → Bounded len (.read i k)

end Prog

/-! ## writer -/

structure Cfg where
  size : Nat            -- psf->bytewidth: 1 … 4
  rate : Nat
  ch : Nat
  name : List Byte := []   -- psf->file.name (no NUL)
deriving Repr, DecidableEq, Inhabited

/-- what sf_open accepts for SD2 in write mode (the name bound keeps the Pascal file name below offset 0x100) -/
def Cfg.wf (c : Cfg) : Prop :=
  1 ≤ c.size ∧ c.size ≤ 4 ∧ 1 ≤ c.ch ∧ c.ch ≤ 1024 ∧ 1 ≤ c.rate ∧ c.rate ≤ 0x7FFFFFFF ∧ c.name.length ≤ 200

instance (c : Cfg) : Decidable c.wf := by unfold Cfg.wf; infer_instance

/-- SF_FORMAT_PCM_S8 / 16 / 24 / 32 of a byte width -/
def codecOf (size : Nat) : Nat := size

/-- 'p' of psf_binheader_writef on a NUL-terminated string that lies in a zeroed array -/
def pascal (s : List Byte) : List Byte :=
  let n := s.length
  let sz := min (if n % 2 = 1 then n else n + 1) 254
  sz :: (s ++ List.replicate 255 0).take sz

/-- `buf` with `bs` stored at `off` -/
def poke (buf : List Byte) (off : Nat) (bs : List Byte) : List Byte := buf.take off ++ bs ++ buf.drop (off + bs.length)

/-- the decimal texts of resources 1000 / 1001 / 1002 -/
def sizeText (c : Cfg) : List Byte := digits c.size
def rateText (c : Cfg) : List Byte := digits c.rate ++ asc ".000000"
def chText (c : Cfg) : List Byte := digits c.ch

/-- `snprintf (value, 32, "_%d…")`, then value [0] = strlen - 1 -/
def pstr (t : List Byte) : List Byte := t.length :: t

/-- the four values: three Pascal strings and the eight zero bytes of 'sdML' 1000 -/
def values (c : Cfg) : List (List Byte) := [pstr (sizeText c), pstr (rateText c), pstr (chText c), List.replicate 8 0]

/-- one resource in the data region: length, bytes -/
def entry (v : List Byte) : List Byte := be32 v.length ++ v

def dataRegion (c : Cfg) : List Byte := entry (pstr (sizeText c)) ++ entry (pstr (rateText c)) ++ entry (pstr (chText c)) ++ entry (List.replicate 8 0)

/-- offsets of the four resources inside the data region -/
def off0 (_ : Cfg) : Nat := 0
def off1 (c : Cfg) : Nat := 5 + (sizeText c).length
def off2 (c : Cfg) : Nat := off1 c + 5 + (rateText c).length
def off3 (c : Cfg) : Nat := off2 c + 5 + (chText c).length
def dataLen (c : Cfg) : Nat := off3 c + 12
def mapOff (c : Cfg) : Nat := 256 + dataLen c
def mapLen : Nat := 147
def total (c : Cfg) : Nat := mapOff c + mapLen

/-- `n` background bytes from offset `start` -/
def gap (f : Nat → Byte) (start n : Nat) : List Byte := (List.range n).map (fun j => f (start + j))

/-- the 41 bytes the overlapping 'p' writes of "_sample-size" "_sample-rate" "_channels" "_Markers" leave, cut at
    map_length -/
def strArea : List Byte :=
  [0x0d, 0x0b] ++ asc "sample-siz" ++ [0x0d, 0x0b] ++ asc "sample-rat" ++ [0x09, 0x08] ++ asc "channel" ++ [0x09, 0x07] ++ asc "Marker"

/-- one 12-byte reference-list item: id, name offset, data offset, 4 bytes nobody writes -/
def item (f : Nat → Byte) (pos id nameOff dataOff : Nat) : List Byte :=
  be16 id ++ be16 nameOff ++ be32 dataOff ++ gap f (pos + 8) 4

def mapRegion (f : Nat → Byte) (c : Cfg) : List Byte :=
  let m := mapOff c
  gap f m 12 ++ be32 mapLen ++ [1, 0x12, 0x34, 0x56, 0x78, 0xab, 0xcd, 0] ++ be16 28 ++ be16 106 ++ be16 1
  ++ asc "STR " ++ be16 2 ++ be16 0x12 ++ asc "sdML" ++ be16 0 ++ be16 0x36
  ++ item f (m + 46) 1000 0 (off0 c) ++ item f (m + 58) 1001 12 (off1 c) ++ item f (m + 70) 1002 24 (off2 c)
  ++ item f (m + 82) 1000 33 (off3 c) ++ gap f (m + 94) 12 ++ strArea

/-- the first 256 bytes -/
def head (f : Nat → Byte) (c : Cfg) : List Byte :=
  let m : Int := mapOff c
  let d : Int := dataLen c
  let b1 := poke (gap f 0 256) 0x30 (pascal c.name)
  let b2 := poke b1 0x50 ([0, 0] ++ asc "Sd2f" ++ asc "lsf1" ++ be32 m ++ be32 256 ++ be32 m ++ be32 d)
  poke b2 0 (be32 256 ++ be32 m ++ be32 d ++ be32 mapLen)

/-- the fork over the background `f` -/
def rsrcWith (f : Nat → Byte) (c : Cfg) : List Byte := head f c ++ dataRegion c ++ mapRegion f c

/-- the header buffer before the first write: `memset (…, 0xea, 256)`, then psf_bump_header_allocation doubles it to
    512 bytes and (`zeroNew`, the current code) clears the new half; `mem` = what the heap held -/
def fill (zeroNew : Bool) (mem : Nat → Byte) (i : Nat) : Byte :=
  if i < 256 then 0xEA else if i < 512 ∧ zeroNew then 0 else mem i

def rsrcOn (zeroNew : Bool) (mem : Nat → Byte) (c : Cfg) : List Byte := rsrcWith (fill zeroNew mem) c

/-- the resource fork sd2_write_rsrc_fork writes -/
def rsrc (c : Cfg) : List Byte := rsrcOn true (fun _ => 0) c

/-! ## reader -/

/-- the SFE_SD2_* codes of sd2_parse_rsrc_fork / parse_str_rsrc -/
inductive E
  | badDataOffset | badMapOffset | badDataLength | badMapLength | badRsrc | badSampleSize
deriving Repr, DecidableEq, Inhabited

structure Params where
  size : Int
  rate : Int
  ch : Int
deriving Repr, DecidableEq, Inhabited

inductive PRes
  | ok (p : Params)
  | err (e : E)
  | fuel                     -- the loop bound of the model was too small (never: `parse_never_fuel`)
deriving Repr, DecidableEq, Inhabited

def isPrint (b : Byte) : Bool := 0x20 ≤ b ∧ b ≤ 0x7E

section reads
variable (len : Int)

/-- `data [off]` for an offset the guard has let through -/
def byteAt (off : Int) : Prog Int := .read off.toNat (fun b => .pure (b : Int))

def rdChar (off : Int) : Prog Int :=
  if off < 0 ∨ off ≥ len then pure 0 else byteAt off

def rdShort (off : Int) : Prog Int :=
  if off < 0 ∨ off + 1 ≥ len then pure 0 else do
    let a ← byteAt off
    let b ← byteAt (off + 1)
    pure (a * 256 + b)

def rdInt (off : Int) : Prog Int :=
  if off < 0 ∨ off + 3 ≥ len then pure 0 else do
    let a ← byteAt off
    let b ← byteAt (off + 1)
    let c ← byteAt (off + 2)
    let d ← byteAt (off + 3)
    pure (wrapS 32 (a * 16777216 + b * 65536 + c * 256 + d))

/-- read_rsrc_marker compared with a four-character code: the four bytes, or `none` when the guard refuses -/
def rdMarker (off : Int) : Prog (Option (List Int)) :=
  if off < 0 ∨ off + 3 ≥ len then pure none else do
    let a ← byteAt off
    let b ← byteAt (off + 1)
    let c ← byteAt (off + 2)
    let d ← byteAt (off + 3)
    pure (some [a, b, c, d])

/-- the copy loop of read_rsrc_str: `n` = buffer_len - 1 characters at most, stops at (and has read) the first
    character that is not printable -/
def copyLoop : Nat → Int → Prog (List Byte)
  | 0, _ => pure []
  | n + 1, off => .read off.toNat (fun b => if isPrint b then (copyLoop n (off + 1)).bind (fun r => .pure (b :: r)) else .pure [])

def rdStr (off : Int) (bufLen : Int) : Prog (List Byte) :=
  if off < 0 ∨ off + bufLen ≥ len then pure [] else copyLoop (bufLen - 1).toNat off

end reads

/-- `strstr (value, "Photoshop")` -/
def hasInfix (pat : List Byte) : List Byte → Bool
  | [] => pat.isEmpty
  | b :: r => pat.isPrefixOf (b :: r) || hasInfix pat r

/-- `(int) strtol (value, NULL, 10)` on a string of printable characters: no digits = 0, LONG range saturates -/
def strtol (s : List Byte) : Int :=
  match scanInt s with
  | none => 0
  | some (v, _) =>
    let l : Int := if v > 0x7FFFFFFFFFFFFFFF then 0x7FFFFFFFFFFFFFFF else if v < -0x8000000000000000 then -0x8000000000000000 else v
    wrapS 32 l

structure LoopSt where
  strOff : Int
  dataOff : Int := 0
  dataLen : Int := 0
  size : Int := 0
  rate : Int := 0
  ch : Int := 0
deriving Repr, DecidableEq, Inhabited

/-- the `for (k = 0 ; data_offset + data_len < rsrc_len ; k++)` loop of parse_str_rsrc; `some s` = the loop has
    ended in state `s`, `none` = out of fuel -/
def strLoopK (len rsrcDataOff itemOff : Int) : Nat → Int → LoopSt → Prog (Option LoopSt)
  | 0, _, _ => pure none
  | fuel + 1, k, s =>
    if ¬ (s.dataOff + s.dataLen < len) then pure (some s) else do
      let slen ← rdChar len s.strOff
      let _name ← rdStr len (s.strOff + 1) (min 32 (slen + 1))
      let strOff := s.strOff + slen + 1
      let idOff := itemOff + k * 12
      if idOff < 0 ∨ idOff + 1 ≥ len then pure (some { s with strOff := strOff }) else do
        let id ← rdShort len idOff
        let rel ← rdInt len (itemOff + k * 12 + 4)
        let dataOff := wrapS 32 (rsrcDataOff + rel)
        if dataOff < 0 ∨ dataOff > len then pure (some { s with strOff := strOff, dataOff := dataOff }) else do
          let dataLen ← rdInt len dataOff
          if dataLen < 0 ∨ dataLen > len then pure (some { s with strOff := strOff, dataOff := dataOff, dataLen := dataLen }) else do
            let vlen ← rdChar len (dataOff + 4)
            let value ← rdStr len (dataOff + 5) (min 32 (vlen + 1))
            let s1 := { s with strOff := strOff, dataOff := dataOff, dataLen := dataLen }
            if hasInfix (asc "Photoshop") value then pure (some s1) else
              let s2 : LoopSt :=
                if id = 1000 ∧ s1.size = 0 then { s1 with size := strtol value }
                else if id = 1001 ∧ s1.rate = 0 then { s1 with rate := strtol value }
                else if id = 1002 ∧ s1.ch = 0 then { s1 with ch := strtol value }
                else s1
              strLoopK len rsrcDataOff itemOff fuel (k + 1) s2

/-- what parse_str_rsrc does with the three numbers once the loop has ended -/
def finish (s : LoopSt) : PRes :=
  let (rate, size) := if s.rate ≤ 4 ∧ s.size > 4 then (s.size, s.rate) else (s.rate, s.size)
  if rate < 0 then .err .badRsrc else
  if s.ch < 0 then .err .badRsrc else
  if size = 1 ∨ size = 2 ∨ size = 3 ∨ size = 4 then .ok { size := size, rate := rate, ch := s.ch } else .err .badSampleSize

/-- iterations of the string loop a fork of `len` bytes can make: iteration k needs item_offset + 12 k + 1 < len -/
def loopFuel (len : Int) : Nat := len.toNat / 12 + 2

def parseStr (len rsrcDataOff itemOff strOff : Int) : Prog PRes := do
  match ← strLoopK len rsrcDataOff itemOff (loopFuel len) 0 { strOff := strOff } with
  | none => pure .fuel
  | some s => pure (finish s)

/-- the type-list loop: the first 'STR ' type starts parse_str_rsrc -/
def typeLoop (len rsrcDataOff typeOff itemOff strOff : Int) : Nat → Int → Prog PRes
  | 0, _ => pure (.err .badRsrc)                                    -- "No 'STR ' resource."
  | n + 1, k => do
    let m ← rdMarker len (typeOff + k * 8)
    if m = some [0x53, 0x54, 0x52, 0x20] then do
      let _strCount ← rdShort len (typeOff + k * 8 + 4)
      parseStr len rsrcDataOff itemOff strOff
    else typeLoop len rsrcDataOff typeOff itemOff strOff n (k + 1)

/-- sd2_parse_rsrc_fork on a fork of `len` bytes (the two `goto cleanup` with error = 0 -- "Bad map offset." after the
    string offset and "Bad rsrc marker." inside the type loop -- cannot be reached: the tests before them are stronger) -/
def parseFork (len : Int) : Prog PRes := do
  let d0 ← rdInt len 0
  let m0 ← rdInt len 4
  let dl0 ← rdInt len 8
  let ml0 ← rdInt len 12
  let (dOff, mOff, dLen, mLen) ←
    (if d0 = 0x51607 ∧ m0 = 0x20000 then do
      let a ← rdInt len 0x52
      let b ← rdInt len (0x52 + 4)
      let c ← rdInt len (0x52 + 8)
      let d ← rdInt len (0x52 + 12)
      pure (wrapS 32 (a + 0x52), wrapS 32 (b + 0x52), c, d)
    else pure (d0, m0, dl0, ml0) : Prog (Int × Int × Int × Int))
  if dOff > len then pure (.err .badDataOffset) else
  if mOff > len then pure (.err .badMapOffset) else
  if dLen > len then pure (.err .badDataLength) else
  if mLen > len then pure (.err .badMapLength) else
  if wrapS 32 (dOff + dLen) ≠ mOff ∨ wrapS 32 (mOff + mLen) ≠ len then pure (.err .badRsrc) else
  if mOff + 28 ≥ len then pure (.err .badRsrc) else do
    let so ← rdShort len (mOff + 26)
    let strOff := mOff + so
    if strOff > len then pure (.err .badRsrc) else do
      let typeOff := mOff + 30
      let tc ← rdShort len (mOff + 28)
      let typeCount := tc + 1
      if typeCount < 1 then pure (.err .badRsrc) else
        let itemOff := typeOff + typeCount * 8
        if itemOff < 0 ∨ itemOff > len then pure (.err .badRsrc) else
          typeLoop len dOff typeOff itemOff strOff typeCount.toNat 0

/-- the parser on a byte string: answer and offsets read -/
def parseRun (bs : List Byte) : PRes × List Nat := (parseFork bs.length).run (fun i => bs.getD i 0)

def parseRsrc (bs : List Byte) : PRes := (parseRun bs).1

/-- the offsets of the fork the parser reads on `bs` -/
def parseReads (bs : List Byte) : List Nat := (parseRun bs).2

/-! ## the rest of sd2_open (read mode) -/

/-- SF_INFO of the handle, given the parsed parameters and the length of the data file: format word, pcm_init
    (frames = file length / block width), validate_sfinfo -/
def openInfo (p : Params) (dataFileLen : Nat) : ParseRes :=
  if p.ch < 1 ∨ p.ch > 1024 ∨ p.rate < 1 then .err else
  .ok { ch := p.ch.toNat, fmt := 0x160000 + codecOf p.size.toNat, sr := p.rate.toNat,
        frames := dataFileLen / (p.size.toNat * p.ch.toNat) }

/-- re-open of an SD2 file whose data file was recognised as nothing else: fork bytes + data file length -/
def reopen (fork : List Byte) (dataFileLen : Nat) : ParseRes :=
  if fork = [] then .err else                        -- no (or an empty) side file: not an SD2 file
  match parseRsrc fork with
  | .ok p => openInfo p dataFileLen
  | .err _ => .err
  | .fuel => .unmodelled

/-- the tests of guess_file_type that lie between the HTK test and try_resource_fork, on a file of at least 12 bytes:
    `some true` = the resource fork is tried, `some false` = another branch decides, `none` = not described here (ID3
    tags are skipped and the test restarts) -/
def laterTests (data : List Byte) : Option Bool :=
  match Small2.guess data with
  | some _ => some false
  | none =>
    let a := data.take 4
    let b := (data.drop 4).take 4
    let c := (data.drop 8).take 4
    if a = asc "fLaC" ∨ a = asc "2BIT" ∨ (a = asc "RF64" ∧ c = asc "WAVE") then some false
    else if a.take 3 = asc "ID3" ∧ (a.getD 3 0 = 2 ∨ a.getD 3 0 = 3 ∨ a.getD 3 0 = 4) then none
    else if (a = asc "SOUN" ∧ b = asc "D SA") ∨ a = asc "SY80" ∨ a = asc "SY85" ∨ a = asc "ajkg" then some false
    else some true

/-- does guess_file_type reach try_resource_fork on this data file?  A file too short for the 12-byte probe has no
    header of any kind: the resource fork is tried (the repaired rule) -/
def reachesFork (data : List Byte) : Option Bool :=
  if data.length < 12 then some true else laterTests data

/-- before the repair of KF-C04-SD2-SHORT-DATA: a short probe read ended the open with SFE_BAD_FILE_READ -/
def reachesForkOld (data : List Byte) : Option Bool :=
  if data.length < 12 then some false else laterTests data

/-- sf_open (SFM_READ) on the data file `data` with the side file `fork` -/
def reopenFileWith (rf : List Byte → Option Bool) (data fork : List Byte) : ParseRes :=
  match rf data with
  | some true => reopen fork data.length
  | some false => if data.length < 12 then .err else .unmodelled     -- another container's reader decides
  | none => .unmodelled

def reopenFile (data fork : List Byte) : ParseRes := reopenFileWith reachesFork data fork
def reopenFileOld (data fork : List Byte) : ParseRes := reopenFileWith reachesForkOld data fork

end Sf.Sd2
