/-
  SfModel.Mat5 — stand-alone byte-exact (L1) model of the MATLAB 5 container of src/mat5.c.

  The file the writer makes (264 header bytes, then the audio, nothing padded):

      0   124-byte text ("MATLAB 5.0 MAT-file, written by <package>-<version>, <date>" NUL, space fill): a parameter
    124   version 0x0100 and the endian marker "IM" (little) / "MI" (big), both in the byte order of the file
    128   miMATRIX 64 | miUINT32 8 : 6 0 | miINT32 8 : 1 1 | miINT8 10 : "samplerate" + 6 zero bytes
    192   the rate as a *compressed* element: 0x00020004 rate16 0000 (rate ≤ 65535) or 0x00040006 rate32
    200   miMATRIX datasize+64 | miUINT32 8 : 6 0 | miINT32 8 : channels frames | miINT8 8 : "wavedata"
    256   <encoding> datasize (clamped to 0x7FFFFFFF)            — all 32-bit fields hold the low 32 bits
    264   audio

  * `hdr`, `fmt`     mat5_write_header; the write session is `Sf.Small2.run (fmt c)`.
  * `readHeader`     mat5_read_header on the header cache of SfModel/HdrRead.lean (so files that end inside any
                     field are described too: a short read leaves zeros), every variant the reader accepts: names as
                     miINT8 elements (up to 31 bytes, padded to 8) or compressed (up to 4 bytes), the rate as a
                     double, a compressed 16-bit or a compressed 32-bit value, and the "no sample rate" layout (first
                     matrix not 1 x 1: it is taken for the audio matrix at 44100 Hz).
                     The reader ignores every size field and both names; frames come from the file length.
                     Reads that the C code skips after an early `return` are harmless in the model (the answer is
                     `.err` whatever the cache holds), so fixed runs of fields are read in one `rdSeq`.
  * `parse`          sf_open (SFM_READ): guess_file_type, mat5_read_header, the codec init, validate_sfinfo.
-/
import SfModel.Small2
import SfModel.Mat4
import SfModel.HdrRead
import SfModel.Ieee
namespace Sf.Mat5
open Sf Sf.Small2 Sf.HdrRd
open Sf.Mat4 (w32 r32)

structure Cfg where
  codec : Nat          -- PCM_U8 = 5, PCM_16 = 2, PCM_32 = 4, FLOAT = 6, DOUBLE = 7
  endian : Nat         -- endian bits of the format word: 0 FILE, 1 LITTLE, 2 BIG, 3 CPU
  ch : Nat
  sr : Nat
  text : List Byte     -- the 124 bytes of descriptive text
deriving Repr, DecidableEq, Inhabited

def bytewidth (codec : Nat) : Nat := if codec = 5 then 1 else if codec = 2 then 2 else if codec = 7 then 8 else 4

/-- MAT5_TYPE_UCHAR / INT16 / INT32 / FLOAT / DOUBLE -/
def encoding (codec : Nat) : Nat := if codec = 5 then 2 else if codec = 2 then 3 else if codec = 4 then 5 else if codec = 6 then 7 else 9

/-- psf->endian: FILE and CPU mean little endian on this host -/
def Cfg.little (c : Cfg) : Bool := c.endian ≠ 2

/-- the text is 124 bytes, starts with the eight bytes guess_file_type looks at, and holds a NUL (the date string's
    terminator), which is what the reader's `strlen (buffer) >= 124` test wants -/
def Cfg.wf (c : Cfg) : Prop :=
  (c.codec = 5 ∨ c.codec = 2 ∨ c.codec = 4 ∨ c.codec = 6 ∨ c.codec = 7) ∧ c.endian < 4 ∧ 1 ≤ c.ch ∧ c.ch ≤ 1024 ∧
  1 ≤ c.sr ∧ c.sr ≤ 0x7FFFFFFF ∧ c.text.length = 124 ∧ c.text.take 8 = [0x4D, 0x41, 0x54, 0x4C, 0x41, 0x42, 0x20, 0x35] ∧ 0 ∈ c.text
instance (c : Cfg) : Decidable c.wf := by unfold Cfg.wf; infer_instance

def Cfg.bw (c : Cfg) : Nat := bytewidth c.codec * c.ch
def Cfg.fmtWord (c : Cfg) : Nat := (if c.little then 0x10000000 else 0x20000000) + 0x0D0000 + c.codec

def w16 (little : Bool) (v : Int) : List Byte := if little then le16 v else be16 v
def r16 (little : Bool) (b : List Byte) : Nat := if little then ofLE b else ofBE b

/-- "IM" / "MI" -/
def marker (little : Bool) : List Byte := if little then [0x49, 0x4D] else [0x4D, 0x49]

/-- "samplerate" in a 16-byte field, "wavedata" -/
def srName : List Byte := [0x73, 0x61, 0x6D, 0x70, 0x6C, 0x65, 0x72, 0x61, 0x74, 0x65, 0, 0, 0, 0, 0, 0]
def wdName : List Byte := [0x77, 0x61, 0x76, 0x65, 0x64, 0x61, 0x74, 0x61]

/-- the rate element: MAT5_TYPE_COMP_UINT above 0xFFFF, else MAT5_TYPE_COMP_USHORT -/
def rateElem (l : Bool) (sr : Nat) : List Byte :=
  if sr > 0xFFFF then w32 l 0x00040006 ++ w32 l sr else w32 l 0x00020004 ++ (w16 l sr ++ w16 l 0)

/-- `datasize = psf->sf.frames * psf->sf.channels * psf->bytewidth` (sf_count_t) -/
def datasize (c : Cfg) (f : Fields) : Int := f.frames * c.ch * bytewidth c.codec

/-- version 0x0100 and the endian marker (offsets 124 … 127) -/
def verMark (l : Bool) : List Byte := w16 l 0x0100 ++ marker l

/-- the front of a matrix element: miMATRIX size | miUINT32 8 : 6 0 | miINT32 8 : rows cols | miINT8 (the name's type word) -/
def mxFields (l : Bool) (size rows cols : Int) : List (List Byte) :=
  [w32 l 14, w32 l size, w32 l 6, w32 l 8, w32 l 6, w32 l 0, w32 l 5, w32 l 8, w32 l rows, w32 l cols, w32 l 1]

/-- the 76 bytes from the version word to the rate element (offsets 124 … 199) -/
def hdrA (c : Cfg) : List Byte :=
  let l := c.little
  verMark l ++ ((mxFields l 64 1 1).flatten ++ (w32 l 10 ++ (srName ++ rateElem l c.sr)))

/-- the data element's size field -/
def dataField (c : Cfg) (f : Fields) : Int := if datasize c f > 0x7FFFFFFF then 0x7FFFFFFF else datasize c f

/-- the 64 bytes of the audio matrix up to the audio (offsets 200 … 263) -/
def hdrB (c : Cfg) (f : Fields) : List Byte :=
  let l := c.little
  (mxFields l (datasize c f + 64) c.ch f.frames).flatten ++ (w32 l 8 ++ (wdName ++ (w32 l (encoding c.codec) ++ w32 l (dataField c f))))

/-- mat5_write_header -/
def hdr (c : Cfg) (f : Fields) : List Byte := c.text ++ (hdrA c ++ hdrB c f)

def fmt (c : Cfg) : Fmt :=
  { hdrLen := 264, bw := c.bw, hdr := hdr c,
    recalc := fun n _ => { filelength := n, datalength := (n : Int) - 264, frames := ((n : Int) - 264) / ((c.bw : Nat) : Int) } }

/-- both rate elements hold the rate itself: every rate in [1, 2^31 − 1] is exact -/
def quant (sr : Nat) : Nat := if sr > 0xFFFF then wrapU 32 sr else wrapU 16 sr

/-! ## reader -/

/-- the name sub-element: `type` has been read.  miINT8: a 32-bit size (at most 31), the bytes, pad to a multiple
    of 8; compressed (low half 1): the size in the high half (at most 4), four bytes.  `none` = SFE_MAT5_NO_BLOCK. -/
def readName (bs : List Byte) (little : Bool) (ty : Nat) (r : Rd) : Option Rd :=
  if ty = 1 then
    let (szb, r) := rdRaw bs r 4
    let size := r32 little szb
    if size > 31 then none else
    let (_, r) := rdRaw bs r size
    some (skip bs r (((8 - size % 8) % 8 : Nat) : Int))
  else if ty % 65536 = 1 then
    if ty / 65536 > 4 then none else
    let (_, r) := rdRaw bs r 4
    some r
  else none

/-- the `switch (type)` on the data element: (codec, bytewidth) -/
def codecOf (ty : Nat) : Option (Nat × Nat) :=
  if ty = 9 then some (7, 8) else if ty = 7 then some (6, 4) else if ty = 5 then some (4, 4)
  else if ty = 3 then some (2, 2) else if ty = 2 then some (5, 1) else none

/-- `psf->sf.samplerate = psf_lrint (samplerate)` of the double the portable reader `double64_{le,be}_read` makes of
    eight bytes (SfModel/Ieee.lean; SSE2 build: `_mm_cvtsd_si32`, out of range and non-finite values give INT_MIN) -/
def rateOfDouble (little : Bool) (d : List Byte) : Int :=
  let b := if little then Ieee.f64LeRead d else Ieee.f64BeRead d
  if Float.f64.isFinite b then Float.lrintInt .sse2 (Float.f64.toDy b) else -2147483648

/-- the tail of mat5_read_header (`skip_samplerate :`) + mat5_open + the codec init + validate_sfinfo -/
def finish (bs : List Byte) (little : Bool) (rows cols : Nat) (ty : Nat) (sr : Int) (r : Rd) : ParseRes :=
  let ch : Int := sext 32 rows
  if rows = 0 ∧ cols = 0 then .err else                                    -- SFE_CHANNEL_COUNT_ZERO
  match codecOf ty with
  | none => .err                                                           -- SFE_UNIMPLEMENTED
  | some (codec, bytew) =>
    let dataoffset := ftell bs r
    if ch < 1 ∨ ch > 1024 ∨ sr < 1 then .err else                          -- codec init, validate_sfinfo
    .ok { ch := ch.toNat, fmt := (if little then 0x10000000 else 0x20000000) + 0x0D0000 + codec, sr := sr.toNat,
          frames := (framesOf bs.length dataoffset 0 (((bytew : Nat) : Int) * ch)).toNat }

/-- mat5_read_header from the first byte on -/
def readHeader (bs : List Byte) : ParseRes :=
  -- "pb" 124 bytes of text, "E22" version and endian marker, then ten 32-bit fields and the type of the name
  let (text, r) := rdRaw bs {} 124
  if 0 ∉ text then .err else                                               -- strlen (buffer) >= 124: SFE_UNIMPLEMENTED
  let (ve, r) := rdSeq bs [2, 2] r
  let endian := ofBE (ve.getD 1 [])
  if endian ≠ 0x4D49 ∧ endian ≠ 0x494D then .err else                      -- SFE_MAT5_BAD_ENDIAN
  let little : Bool := endian = 0x494D
  let (a, r) := rdSeq bs [4, 4, 4, 4, 4, 4, 4, 4, 4, 4, 4] r
  let g := fun (i : Nat) => r32 little (a.getD i [])
  if g 0 ≠ 14 then .err else                                               -- SFE_MAT5_NO_BLOCK
  if g 2 ≠ 6 then .err else
  if g 6 ≠ 5 then .err else
  let rows1 := g 8
  let cols1 := g 9
  let haveRate : Bool := rows1 = 1 ∧ cols1 = 1
  match readName bs little (g 10) r with
  | none => .err
  | some r =>
  let (ts, r) := rdSeq bs [4, 4] r
  let ty := r32 little (ts.getD 0 [])
  let size := r32 little (ts.getD 1 [])
  if !haveRate then finish bs little rows1 cols1 ty 44100 r else
  -- the rate element
  let rate : Option (Int × Rd) :=
    if ty = 9 then
      let (d, r) := rdRaw bs r 8
      some (rateOfDouble little d, r)
    else if ty = 0x00020004 then
      let r := skip bs r (-4)
      let (s, r) := rdRaw bs r 2
      some ((r16 little s : Nat), skip bs r 2)
    else if ty = 0x00040006 then some (sext 32 size, r)
    else none
  match rate with
  | none => .err                                                           -- SFE_MAT5_SAMPLE_RATE
  | some (sr, r) =>
  let (b, r) := rdSeq bs [4, 4, 4, 4, 4, 4, 4, 4, 4, 4, 4] r
  let h := fun (i : Nat) => r32 little (b.getD i [])
  if h 0 ≠ 14 then .err else
  if h 2 ≠ 6 then .err else
  if h 6 ≠ 5 then .err else
  match readName bs little (h 10) r with
  | none => .err
  | some r =>
  let (td, r) := rdSeq bs [4, 4] r
  finish bs little (h 8) (h 9) (r32 little (td.getD 0 [])) sr r

/-- `sf_open_virtual (SFM_READ)` on `bs` -/
def parse (bs : List Byte) : ParseRes :=
  if bs.length < 12 then .err else                    -- guess_file_type: SFE_BAD_FILE_READ
  match guess bs with
  | some (.fmt 0x0D0000) => readHeader bs
  | _ => .unmodelled

end Sf.Mat5
