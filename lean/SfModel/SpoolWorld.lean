/-
  SfModel.SpoolWorld — the temporary directory the ALAC writers of one process share (src/alac.c alac_writer_init / alac_encode_block
  / alac_close, src/common.c psf_open_tmpfile).

  Every CAF/ALAC handle open for writing spools its packets through a file <TMPDIR>/<name>-alac.tmp:
    fopenWb   `fopen (name, "wb+")` — no O_EXCL: an EXISTING name is opened and its file truncated (the same file another FILE* may
              be writing), a new name gets a new file;
    fwrite    alac_encode_block: `fwrite` at the stream's own position (a position beyond the end zero-fills, as a file does);
    closeCopy alac_close: rewind, copy the WHOLE file behind the CAF header, fclose, `remove (name)`.
  The name is a parameter (`Namer`): the code as it is takes two values of the process-wide generator psf_rand_int32 (an LCG of full
  period 2^31, advanced 4–11 steps per call: the names of two handles alive in one process differ); a name computed from anything
  that two live handles can share — the base name of the output file, "" for descriptor and virtual-I/O handles — makes them share one
  spool.  vlib/fdworld.py (NAMES kinds, nameless fd routes) and vlib/spoolcamp.py are the campaigns.
-/
import SfModel.Basic
namespace Sf.SpoolWorld
open Sf

abbrev Name := Nat

structure Dir where
  names  : List (Name × Nat) := []     -- directory entries: name -> file id
  files  : List (List Byte) := []      -- contents by file id (an unlinked file lives on while a stream holds it)
deriving Repr, DecidableEq

/-- one writer's `FILE *enctmp` -/
structure H where
  name : Name
  fid  : Nat
  pos  : Nat := 0
deriving Repr, DecidableEq

def setAt (l : List α) (k : Nat) (v : α) : List α := l.set k v

def lookup (d : Dir) (n : Name) : Option Nat := (d.names.find? (fun e => e.1 == n)).map (·.2)

/-- `fopen (name, "wb+")` -/
def fopenWb (d : Dir) (n : Name) : Dir × H :=
  match lookup d n with
  | some k => ({ d with files := setAt d.files k [] }, { name := n, fid := k })
  | none => ({ names := d.names ++ [(n, d.files.length)], files := d.files ++ [[]] }, { name := n, fid := d.files.length })

def writeAt (f : List Byte) (off : Nat) (bs : List Byte) : List Byte :=
  f.take off ++ List.replicate (off - f.length) 0 ++ bs ++ f.drop (off + bs.length)

/-- `fwrite (bytes, 1, n, enctmp)` -/
def fwrite (d : Dir) (h : H) (bs : List Byte) : Dir × H :=
  ({ d with files := setAt d.files h.fid (writeAt (d.files.getD h.fid []) h.pos bs) }, { h with pos := h.pos + bs.length })

/-- alac_close: the bytes copied behind the header; the name is removed -/
def closeCopy (d : Dir) (h : H) : Dir × List Byte :=
  ({ d with names := d.names.filter (fun e => e.1 != h.name) }, d.files.getD h.fid [])

/-- how a handle (numbered in order of opening) names its spool -/
abbrev Namer := Nat → Name

/-- the code as it is, abstractly: a name no other handle of the process gets -/
def freshNamer : Namer := fun i => i
/-- a name derived from the output file's base name: here every handle writes a file called the same ("take.caf" in two directories),
    or has no name at all (descriptor, virtual I/O) -/
def baseNameNamer : Namer := fun _ => 0

/-- two writers, the history the campaigns run: open A, open B, A spools `a`, B spools `b`, A closes, B spools `b2`, B closes:
    (what A's file gets, what B's file gets) -/
def twoWriters (nm : Namer) (a b b2 : List Byte) : List Byte × List Byte :=
  let (d1, ha) := fopenWb {} (nm 0)
  let (d2, hb) := fopenWb d1 (nm 1)
  let (d3, ha) := fwrite d2 ha a
  let (d4, hb) := fwrite d3 hb b
  let (d5, outA) := closeCopy d4 ha
  let (d6, hb) := fwrite d5 hb b2
  let (_, outB) := closeCopy d6 hb
  (outA, outB)

end Sf.SpoolWorld
