/-
  SfModel.SpoolWorld — the temporary directory the ALAC writers of one process share (src/alac.c alac_writer_init / alac_encode_block
  / alac_close, src/common.c psf_open_tmpfile).

  Every CAF/ALAC handle open for writing spools its packets through a file <TMPDIR>/<name>-alac.tmp:
    fopenWb   `fopen (name, "wb+")` — no O_EXCL: an EXISTING name is opened and its file truncated (the same file another FILE* may
              be writing), a new name gets a new file;
    fwrite    alac_encode_block: `fwrite` at the stream's own position (a position beyond the end zero-fills, as a file does);
    closeCopy alac_close: rewind, copy the WHOLE file behind the CAF header, fclose, `remove (name)`.
  The name is a parameter (`Namer`): the code as it is takes two values of the process-wide generator psf_rand_int32 (an LCG of full
  period 2^31, advanced 4–11 steps per call: the names of two handles alive in one process differ); a name computed from anything
  that two live handles can share — the base name of the output file, "" for descriptor and virtual-I/O handles — makes them share one
  spool.  vlib/fdworld.py (NAMES kinds, nameless fd routes) and vlib/spoolcamp.py are the campaigns.

  The directory is a pair of finite maps written as functions (name ↦ file id, file id ↦ contents; `next` = the first unused id), so
  that "everything else is untouched" is an `if`.
-/
import SfModel.Basic
namespace Sf.SpoolWorld
open Sf

abbrev Name := Nat

structure Dir where
  names : Name → Option Nat := fun _ => none     -- directory entries
  files : Nat → List Byte := fun _ => []         -- contents by file id (an unlinked file lives on while a stream holds it)
  next  : Nat := 0

/-- one writer's `FILE *enctmp` -/
structure H where
  name : Name
  fid  : Nat
  pos  : Nat := 0
deriving Repr, DecidableEq

/-- `fopen (name, "wb+")` -/
def fopenWb (d : Dir) (n : Name) : Dir × H :=
  match d.names n with
  | some k => ({ d with files := fun j => if j = k then [] else d.files j }, { name := n, fid := k })
  | none => ({ names := fun m => if m = n then some d.next else d.names m,
               files := fun j => if j = d.next then [] else d.files j, next := d.next + 1 }, { name := n, fid := d.next })

def writeAt (f : List Byte) (off : Nat) (bs : List Byte) : List Byte :=
  f.take off ++ List.replicate (off - f.length) 0 ++ bs ++ f.drop (off + bs.length)

/-- `fwrite (bytes, 1, n, enctmp)` -/
def fwrite (d : Dir) (h : H) (bs : List Byte) : Dir × H :=
  ({ d with files := fun j => if j = h.fid then writeAt (d.files h.fid) h.pos bs else d.files j }, { h with pos := h.pos + bs.length })

/-- alac_close: the bytes copied behind the header; the name is removed -/
def closeCopy (d : Dir) (h : H) : Dir × List Byte :=
  ({ d with names := fun m => if m = h.name then none else d.names m }, d.files h.fid)

/-- how a handle (numbered by the caller) names its spool -/
abbrev Namer := Nat → Name

/-- the code as it is, abstractly: a name no other handle of the process gets -/
def freshNamer : Namer := fun i => i
/-- a name derived from the output file's base name: here every handle writes a file called the same ("take.caf" in two directories),
    or has no name at all (descriptor, virtual I/O) -/
def baseNameNamer : Namer := fun _ => 0

/-! ## a process with any number of ALAC writers -/

inductive Op
  | open (i : Nat)                      -- sf_open (…, SFM_WRITE, CAF/ALAC) on handle slot i
  | write (i : Nat) (bs : List Byte)    -- a write call that completes a packet: its bytes go to the spool
  | close (i : Nat)                     -- sf_close
deriving Repr, DecidableEq

structure W where
  dir  : Dir := {}
  live : Nat → Option H := fun _ => none
  out  : Nat → Option (List Byte) := fun _ => none     -- the audio bytes handle i's file received at close

def step (nm : Namer) (w : W) : Op → W
  | .open i =>
    let r := fopenWb w.dir (nm i)
    { w with dir := r.1, live := fun j => if j = i then some r.2 else w.live j }
  | .write i bs =>
    match w.live i with
    | some h =>
      let r := fwrite w.dir h bs
      { w with dir := r.1, live := fun j => if j = i then some r.2 else w.live j }
    | none => w
  | .close i =>
    match w.live i with
    | some h =>
      let r := closeCopy w.dir h
      { dir := r.1, live := fun j => if j = i then none else w.live j, out := fun j => if j = i then some r.2 else w.out j }
    | none => w

def run (nm : Namer) (w : W) (ops : List Op) : W := ops.foldl (step nm) w

/-! ## the specification: one independent machine per handle (what each handle does ALONE) -/

structure A where
  acc : Nat → Option (List Byte) := fun _ => none      -- open handle: the bytes it spooled so far
  out : Nat → Option (List Byte) := fun _ => none

def astep (a : A) : Op → A
  | .open i => { a with acc := fun j => if j = i then some [] else a.acc j }
  | .write i bs =>
    match a.acc i with
    | some x => { a with acc := fun j => if j = i then some (x ++ bs) else a.acc j }
    | none => a
  | .close i =>
    match a.acc i with
    | some x => { acc := fun j => if j = i then none else a.acc j, out := fun j => if j = i then some x else a.out j }
    | none => a

def arun (a : A) (ops : List Op) : A := ops.foldl astep a

def Op.handle : Op → Nat
  | .open i => i
  | .write i _ => i
  | .close i => i

/-- no handle slot is opened while it is open (the caller's own discipline: a slot holds one SNDFILE*) -/
def wellFormed : A → List Op → Prop
  | _, [] => True
  | a, op :: ops => (match op with | .open i => a.acc i = none | _ => True) ∧ wellFormed (astep a op) ops

/-- the history of the campaigns, as a list: open A, open B, A spools, B spools, A closes, B spools, B closes -/
def twoWriters (nm : Namer) (a b b2 : List Byte) : Option (List Byte) × Option (List Byte) :=
  let w := run nm {} [.open 0, .open 1, .write 0 a, .write 1 b, .close 0, .write 1 b2, .close 1]
  (w.out 0, w.out 1)

end Sf.SpoolWorld
