/-
  SfModel.Dwvw — Delta Word Variable Width (src/dwvw.c), bit level: the encoder (`dwvw_encode_data`,
  `dwvw_encode_store_bits`, the 12-zero-sample flush of `dwvw_close`) and the decoder (`dwvw_decode_data`,
  `dwvw_decode_load_bits` with its end-of-data behaviour), for the bit widths 12 / 16 / 24.

  State variables are the ones of DWVW_PRIVATE: `last_delta_width` (ldw), `last_sample` (last), the bit reservoir
  `bits` / `bit_count` and the byte buffer `b`.  Two representation choices, both exact:

  * the reservoir is the list `pend` of its `bit_count` live bits, most significant first (`bit_count = pend.length`,
    `bits mod 2^bit_count = ofBits pend`).  The C never reads a bit of `bits` above `bit_count` (every read is
    masked or tests one bit below it), and `bit_count ≤ 30` in both directions, so the 32-bit `int` never loses a
    live bit;
  * the 256-byte buffer `b.buffer` with `b.index` / `b.end` is the list of bytes not yet taken from the file (`inp`,
    reader) resp. the list of bytes emitted so far (`out`, writer); the one thing the C *tests* about the buffer,
    `b.end == 0` ("nothing has been read yet, or the last refill found the end of the file"), is the flag `endZero`.

  A sample handed to the encoder is the caller's 32-bit value (`ptr [count]`), the decoder delivers
  `sample << (32 - bit_width)`.

  Core Lean only.
-/
import SfModel.Basic
namespace Sf.Dwvw

structure Cfg where
  w : Nat                      -- bit_width
deriving Repr, DecidableEq, Inhabited

def Cfg.maxDelta (c : Cfg) : Int := 2 ^ (c.w - 1)       -- max_delta = 1 << (bitwidth - 1)
def Cfg.span (c : Cfg) : Int := 2 ^ c.w                 -- span = 1 << bitwidth
def Cfg.dwmMax (c : Cfg) : Nat := c.w / 2               -- dwm_maxsize = bitwidth / 2
def Cfg.shift (c : Cfg) : Nat := 32 - c.w
/-- the widths the library uses (AIFF / RAW sub-formats DWVW_12, DWVW_16, DWVW_24) -/
def Cfg.ok (c : Cfg) : Prop := c.w = 12 ∨ c.w = 16 ∨ c.w = 24

/-- C `a % b` for `b > 0` (truncating) -/
def cmod (a b : Int) : Int := if a ≥ 0 then a % b else -((-a) % b)

/-- C `abs` -/
def iabs (a : Int) : Int := if a < 0 then -a else a

/-- `HIGHEST_BIT (x, count)`: number of right shifts until `x` is zero; `fuel` ≥ the width of `x` -/
def hbF : Nat → Nat → Nat
  | 0, _ => 0
  | f + 1, y => if y = 0 then 0 else hbF f (y / 2) + 1

def highestBit (y : Nat) : Nat := hbF 32 y

/-- the `n` low bits of `v`, most significant first (what `dwvw_encode_store_bits (v, n)` shifts in) -/
def bitsMSB : Nat → Nat → List Bool
  | 0, _ => []
  | n + 1, v => (v / 2 ^ n % 2 == 1) :: bitsMSB n v

def ofBitsAcc : Nat → List Bool → Nat
  | a, [] => a
  | a, b :: l => ofBitsAcc (2 * a + (if b then 1 else 0)) l

/-- value of a bit list, most significant first -/
def ofBits (l : List Bool) : Nat := ofBitsAcc 0 l

def zerosB (n : Nat) : List Bool := List.replicate n false

/-! ## encoder -/

/-- the three results of the case distinction on `delta` -/
structure Delta where
  delta : Int        -- magnitude that is stored
  neg   : Bool       -- delta_negative
  extra : Int        -- extra_bit (-1: none)
deriving Repr, DecidableEq

/-- `delta` after the case distinction on the raw difference `d0 = sample - last_sample` -/
def deltaMag (c : Cfg) (d0 : Int) : Int :=
  let M := c.maxDelta
  if d0 < -M then M + cmod d0 M
  else if d0 = -M then M - 1
  else if d0 > M then iabs (c.span - d0)
  else if d0 = M then M - 1
  else if d0 < 0 then iabs d0
  else d0

/-- `delta_negative` after the same case distinction -/
def deltaNeg (c : Cfg) (d0 : Int) : Bool :=
  let M := c.maxDelta
  if d0 < -M then false
  else if d0 = -M then true
  else if d0 > M then true
  else if d0 = M then false
  else if d0 < 0 then true
  else false

/-- `extra_bit` after the same case distinction (−1: none yet) -/
def extra0 (c : Cfg) (d0 : Int) : Int :=
  let M := c.maxDelta
  if d0 < -M then -1 else if d0 = -M then 1 else if d0 > M then -1 else if d0 = M then 1 else -1

/-- `delta`, `delta_negative`, `extra_bit` from the raw difference `d0 = sample - last_sample`, including
    `if (delta == max_delta - 1 && extra_bit == -1) extra_bit = 0` -/
def deltaOf (c : Cfg) (d0 : Int) : Delta :=
  ⟨deltaMag c d0, deltaNeg c d0, if deltaMag c d0 = c.maxDelta - 1 ∧ extra0 c d0 = -1 then 0 else extra0 c d0⟩

/-- `delta_width_modifier` -/
def dwmOf (c : Cfg) (dw ldw : Int) : Int :=
  let m0 := cmod (dw - ldw) c.w
  let m1 := if m0 > c.dwmMax then m0 - c.w else m0
  if m1 < -(c.dwmMax : Int) then m1 + c.w else m1

/-- the bits written for a width modifier: `|dwm|` zeros, the terminating one unless `|dwm| = dwm_maxsize`,
    then the sign (1 = negative) unless `dwm = 0` -/
def dwmBits (c : Cfg) (dwm : Int) : List Bool :=
  zerosB (iabs dwm).toNat ++ (if iabs dwm ≠ c.dwmMax then [true] else []) ++
    (if dwm < 0 then [true] else []) ++ (if dwm > 0 then [false] else [])

/-- "Write delta and delta sign bit", "Write extra bit" -/
def deltaBits (dw : Nat) (r : Delta) : List Bool :=
  (if dw ≠ 0 then bitsMSB (dw - 1) r.delta.toNat ++ [r.neg] else []) ++
    (if r.extra ≥ 0 then [r.extra == 1] else [])

structure Code where
  bits : List Bool
  ldw  : Int
  last : Int

/-- one iteration of the loop of `dwvw_encode_data` on the caller value `ptr`: the bits stored (in order) and the
    new `last_delta_width`, `last_sample` -/
def encSample (c : Cfg) (ldw last : Int) (ptr : Int) : Code :=
  let s := asr ptr c.shift
  let r := deltaOf c (s - last)
  let dw := highestBit r.delta.toNat
  let dwm := dwmOf c dw ldw
  ⟨dwmBits c dwm ++ deltaBits dw r, dw, s⟩

/-- writer state: `last_delta_width`, `last_sample`, the bit reservoir and the bytes emitted (newest first) -/
structure ESt where
  ldw  : Int := 0
  last : Int := 0
  pend : List Bool := []
  out  : List Byte := []
deriving Repr

/-- "Transfer bit to buffer": while `bit_count >= 8` emit the top eight bits -/
def drain : Nat → List Bool → List Byte → List Bool × List Byte
  | 0, l, acc => (l, acc)
  | f + 1, l, acc => if l.length < 8 then (l, acc) else drain f (l.drop 8) (ofBits (l.take 8) :: acc)

/-- `dwvw_encode_store_bits`: shift the bits in, move whole bytes out -/
def storeBits (e : ESt) (bs : List Bool) : ESt :=
  let l := e.pend ++ bs
  let (p, o) := drain (l.length / 8 + 1) l e.out
  { e with pend := p, out := o }

def encStep (c : Cfg) (e : ESt) (ptr : Int) : ESt :=
  let k := encSample c e.ldw e.last ptr
  { storeBits e k.bits with ldw := k.ldw, last := k.last }

/-- `dwvw_encode_data (ptr, len)` -/
def encodeData (c : Cfg) (e : ESt) (xs : List Int) : ESt := xs.foldl (encStep c) e

/-- `dwvw_close`: twelve zero samples, then the byte buffer goes to the file (the bits still in the reservoir,
    fewer than eight, are dropped) -/
def closeBytes (c : Cfg) (e : ESt) : List Byte := (encodeData c e (List.replicate 12 0)).out.reverse

/-- everything the file holds after writing `xs` (in any number of calls) and closing -/
def encodeAll (c : Cfg) (xs : List Int) : List Byte := closeBytes c (encodeData c {} xs)

/-! ## decoder -/

structure DSt where
  ldw  : Int := 0
  last : Int := 0
  pend : List Bool := []       -- bit reservoir
  inp  : List Byte             -- bytes of the file not yet loaded into the reservoir
  endZero : Bool := true       -- `b.end == 0`
  padBits : Nat := 0           -- `pad_bits`: zero bits shifted in behind the end of the file so far
deriving Repr

/-- state after `dwvw_read_reset` (open, seek to 0) with the file positioned at the start of `data` -/
def DSt.init (data : List Byte) : DSt := { inp := data }

/-- "Load bits in bit reseviour": `while (bit_count < n)`; `false` = the `return -1` (end of input and `n < 8`).
    A request of eight bits or more never fails: zero bits are shifted in instead (and counted in `pad_bits`). -/
def fill : Nat → Nat → DSt → DSt × Bool
  | 0, _, d => (d, true)
  | f + 1, n, d =>
    if d.pend.length ≥ n then (d, true)
    else match d.inp with
      | b :: rest => fill f n { d with pend := d.pend ++ bitsMSB 8 b, inp := rest, endZero := false }
      | [] =>
        if n < 8 then ({ d with endZero := true }, false)
        else fill f n { d with pend := d.pend ++ zerosB 8, endZero := true, padBits := d.padBits + 8 }

/-- `dwvw_decode_load_bits (bit_count = n ≥ 0)`: the value of the next `n` bits, or −1 -/
def getBits (n : Nat) (d : DSt) : DSt × Int :=
  let (d1, ok) := fill (n + 1) n d
  if ok then ({ d1 with pend := d1.pend.drop n }, ofBits (d1.pend.take n)) else (d1, -1)

/-- count zero bits up to `k`; a one bit ends the count and is consumed -/
def scan : Nat → List Bool → Nat × List Bool
  | 0, l => (0, l)
  | _ + 1, [] => (0, [])
  | _ + 1, true :: l => (0, l)
  | k + 1, false :: l => let (n, r) := scan k l; (n + 1, r)

/-- `dwvw_decode_load_bits (-1)`: make `dwm_maxsize` bits available, then count zeros -/
def getDwm (c : Cfg) (d : DSt) : DSt × Int :=
  let (d1, ok) := fill (c.dwmMax + 1) c.dwmMax d
  if ok then
    let (k, rest) := scan c.dwmMax d1.pend
    ({ d1 with pend := rest }, k)
  else (d1, -1)

inductive Out
  | stop (d : DSt)                  -- `break` before a sample was produced
  | sample (d : DSt) (x : Int)      -- `ptr [count] = x`

/-- one iteration of the loop of `dwvw_decode_data`.  The end test: the bit loader has found the end of the file
    (`b.end == 0`) AND a zero bit shifted in behind it has been consumed (`bit_count < pad_bits`: padding sits below
    the real bits of the reservoir) — the real input is exhausted.  (Before the repair of KF-DWVW-TAIL-CALL the second
    half was `count == 0`: SfModel/DwvwOld.lean.)  A −1 from the bit loader is used as a value exactly as the C does
    (a non-zero flag, `-1 | x = -1`). -/
def decStep (c : Cfg) (d : DSt) : Out :=
  let M := c.maxDelta
  let (d1, m) := getDwm c d
  if m < 0 ∨ (d1.endZero ∧ d1.pend.length < d1.padBits) then .stop d1
  else
    let (d2, dwm) : DSt × Int :=
      if m ≠ 0 then (let (e, s) := getBits 1 d1; (e, if s ≠ 0 then -m else m)) else (d1, m)
    let dw := cmod (d2.ldw + dwm + c.w) c.w
    let (d3, delta) : DSt × Int :=
      if dw ≠ 0 then
        let (e1, v) := getBits (dw - 1).toNat d2
        let delta0 : Int := if v < 0 then -1 else v + 2 ^ (dw - 1).toNat          -- v | (1 << (dw - 1))
        let (e2, neg) := getBits 1 e1
        let (e3, delta1) : DSt × Int :=
          if delta0 = M - 1 then (let (e, x) := getBits 1 e2; (e, delta0 + x)) else (e2, delta0)
        (e3, if neg ≠ 0 then -delta1 else delta1)
      else (d2, 0)
    let s0 := d3.last + delta
    let s := if s0 ≥ M then s0 - c.span else if s0 < -M then s0 + c.span else s0
    .sample { d3 with ldw := dw, last := s } (s * 2 ^ c.shift)

/-- the loop of `dwvw_decode_data` for `len` cells: the samples *counted* (a sample decoded when the input has
    ended and the reservoir is empty is stored but not counted, yet it stays in `last_sample`) -/
def decLoop (c : Cfg) : Nat → DSt → DSt × List Int
  | 0, d => (d, [])
  | n + 1, d =>
    match decStep c d with
    | .stop d1 => (d1, [])
    | .sample d1 x =>
      if d1.endZero ∧ d1.pend.length = 0 then (d1, [])
      else
        let (d2, xs) := decLoop c n d1
        (d2, x :: xs)

/-- `dwvw_decode_data (ptr, len)` -/
def decodeData (c : Cfg) (len : Nat) (d : DSt) : DSt × List Int := decLoop c len d

/-- one read of `n` samples (`dwvw_read_i`) from a freshly opened decoder over `bytes` -/
def decodeAll (c : Cfg) (bytes : List Byte) (n : Nat) : List Int := (decodeData c n (DSt.init bytes)).2

/-- successive calls of `dwvw_decode_data` with the lengths `ns` on one decoder; the samples delivered, call by call -/
def decodeCalls (c : Cfg) : DSt → List Nat → List (List Int)
  | _, [] => []
  | d, n :: ns => let (d1, xs) := decodeData c n d; xs :: decodeCalls c d1 ns

end Sf.Dwvw
