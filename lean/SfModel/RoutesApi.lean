/-
  SfModel.RoutesApi — C14: the two public calls that reach the I/O shim most directly, written over an arbitrary
  "stepper" (a function performing one shim operation), so that the SAME definition runs on a concrete route
  (Sf.Routes.step on a shim and a world) and on the logical file (Sf.Routes.absStep).

    sf_seek (SFM_READ handle, whence SEEK_SET / SEEK_CUR / SEEK_END without mode bits)   sndfile.c:1500-1625
    psf_default_seek                                                                     common.c:1190-1211
    sf_read_raw                                                                          sndfile.c:1710-1756
    sf_close of a read handle = psf_fclose (nothing else touches the descriptor)

  `Core` holds what the container's open function left in SF_PRIVATE: dataoffset, blockwidth, channels*bytewidth,
  SF_INFO.frames, and the running read_current / last_op.
-/
import SfModel.Routes
namespace Sf.Routes
open Sf

structure Core where
  dataoffset : Int
  blockwidth : Int
  align : Int            -- channels * max (bytewidth, 1)
  frames : Int
  rcur : Int := 0        -- read_current
  lastRead : Bool := false   -- last_op == SFM_READ
  seekable : Bool := true
deriving DecidableEq, Repr, Inhabited

abbrev Stepper (σ : Type) := σ → Op → Obs × σ

/-- the concrete stepper: one primitive on (shim, world) -/
def concStep : Stepper (Shim × World) := fun s op =>
  (((step s.1 s.2 op).ret, (step s.1 s.2 op).data), ((step s.1 s.2 op).sh, (step s.1 s.2 op).w))

structure GRes (σ : Type) where
  ret : Int
  data : List Byte
  err : Bool
  c : Core
  s : σ

/-- psf_default_seek -/
def gDefaultSeek {σ : Type} (st : Stepper σ) (c : Core) (s : σ) (sfs : Int) : Int × σ :=
  if c.blockwidth = 0 ∨ c.dataoffset < 0 then (-1, s) else
  if !c.seekable then (-1, s) else
  if (st s (.seek (c.dataoffset + c.blockwidth * sfs) 0)).1.1 = c.dataoffset + c.blockwidth * sfs
  then (sfs, (st s (.seek (c.dataoffset + c.blockwidth * sfs) 0)).2)
  else (-1, (st s (.seek (c.dataoffset + c.blockwidth * sfs) 0)).2)

/-- sf_seek on a handle opened SFM_READ -/
def gSeek {σ : Type} (st : Stepper σ) (c : Core) (s : σ) (off : Int) (wh : Nat) : GRes σ :=
  if wh = 1 ∧ off = 0 then ⟨c.rcur, [], false, c, s⟩ else
  if 2 < wh then ⟨-1, [], true, c, s⟩ else
  if (if wh = 0 then off else if wh = 1 then c.rcur + off else c.frames + off) < 0 ∨
     (if wh = 0 then off else if wh = 1 then c.rcur + off else c.frames + off) > c.frames then ⟨-1, [], true, c, s⟩ else
  if (gDefaultSeek st c s (if wh = 0 then off else if wh = 1 then c.rcur + off else c.frames + off)).1 < 0
  then ⟨-1, [], true, c, (gDefaultSeek st c s (if wh = 0 then off else if wh = 1 then c.rcur + off else c.frames + off)).2⟩
  else ⟨(gDefaultSeek st c s (if wh = 0 then off else if wh = 1 then c.rcur + off else c.frames + off)).1, [], false,
        { c with rcur := (gDefaultSeek st c s (if wh = 0 then off else if wh = 1 then c.rcur + off else c.frames + off)).1, lastRead := true },
        (gDefaultSeek st c s (if wh = 0 then off else if wh = 1 then c.rcur + off else c.frames + off)).2⟩

/-- the tail of sf_read_raw once the position is right: psf_fread (ptr, 1, bytes), then the clamp at SF_INFO.frames
    (since d9097b4 the test is on the byte count: `count <= (frames - read_current) * blockwidth`) -/
def gReadTail {σ : Type} (st : Stepper σ) (c : Core) (s : σ) (bytes : Int) : GRes σ :=
  let bw := if c.blockwidth > 0 then c.blockwidth else 1
  let r := st s (.read 1 bytes)
  if r.1.1 ≤ (c.frames - c.rcur) * bw
  then ⟨r.1.1, r.1.2.take r.1.1.toNat, false, { c with rcur := c.rcur + cdiv r.1.1 bw, lastRead := true }, r.2⟩
  else ⟨(c.frames - c.rcur) * bw, r.1.2.take ((c.frames - c.rcur) * bw).toNat, false, { c with rcur := c.frames, lastRead := true }, r.2⟩

/-- the rule before d9097b4: the test was on whole frames (`read_current + count / blockwidth <= frames`), which let up to
    blockwidth - 1 bytes from beyond the audio data through -/
def gReadTailOld {σ : Type} (st : Stepper σ) (c : Core) (s : σ) (bytes : Int) : GRes σ :=
  let bw := if c.blockwidth > 0 then c.blockwidth else 1
  let r := st s (.read 1 bytes)
  if c.rcur + cdiv r.1.1 bw ≤ c.frames
  then ⟨r.1.1, r.1.2.take r.1.1.toNat, false, { c with rcur := c.rcur + cdiv r.1.1 bw, lastRead := true }, r.2⟩
  else ⟨(c.frames - c.rcur) * bw, r.1.2.take ((c.frames - c.rcur) * bw).toNat, false, { c with rcur := c.frames, lastRead := true }, r.2⟩

/-- sf_read_raw on a handle opened SFM_READ -/
def gReadRaw {σ : Type} (st : Stepper σ) (c : Core) (s : σ) (bytes : Int) : GRes σ :=
  if bytes = 0 then ⟨0, [], false, c, s⟩ else
  if bytes < 0 ∨ c.rcur ≥ c.frames then ⟨0, [], false, c, s⟩ else
  if bytes % c.align ≠ 0 then ⟨0, [], true, c, s⟩ else
  if c.lastRead then gReadTail st c s bytes else
  if (gDefaultSeek st c s c.rcur).1 < 0 then ⟨0, [], true, c, (gDefaultSeek st c s c.rcur).2⟩
  else gReadTail st c (gDefaultSeek st c s c.rcur).2 bytes

inductive ApiOp
  | seek (off : Int) (wh : Nat)
  | readRaw (bytes : Int)
deriving Repr, Inhabited

def gApi {σ : Type} (st : Stepper σ) (c : Core) (s : σ) : ApiOp → GRes σ
  | .seek off wh => gSeek st c s off wh
  | .readRaw n => gReadRaw st c s n

/-- what the caller sees of one call: return value, delivered bytes, whether sf_error is set -/
abbrev ApiObs := Int × List Byte × Bool

def gRun {σ : Type} (st : Stepper σ) : Core → σ → List ApiOp → List ApiObs × Core × σ
  | c, s, [] => ([], c, s)
  | c, s, op :: ops =>
    let r := gApi st c s op
    let rest := gRun st r.c r.s ops
    ((r.ret, r.data, r.err) :: rest.1, rest.2)

/-- a whole read session through sf_open_fd: open (route part), the calls, sf_close.
    Returns the open error, the observations, and the world afterwards. -/
def fdSession (w : World) (fd : Int) (cd : Bool) (major : Nat) (c : Core) (ops : List ApiOp) : Err × List ApiObs × World :=
  let o := openFd w fd .r cd major
  if o.err ≠ .none then (o.err, [], o.w) else
  let r := gRun concStep c (o.sh, o.w) ops
  (.none, r.1, (fclose r.2.2.1 r.2.2.2).w)

end Sf.Routes
