/-
  SfModel.Ircam — stand-alone byte-exact (L1) model of the IRCAM / Berkeley SF container of src/ircam.c
  (1024-byte header; PCM 16 / 32, FLOAT, ULAW, ALAW; either byte order; up to 256 channels; the sample rate is a
  binary32 number):

  * `rateBits`, `f2i`, `rateQ`   the rate as it is stored (`(float) samplerate` capped at 2^31 − 128, float32_{be,le}_write) and read back
                                 (float32_{be,le}_read, `(int) samplerate`)
  * `hdr`                        ircam_write_header: all 1024 bytes
  * `spec`                       ircam_open (SFM_WRITE); the header never changes afterwards, ircam_close writes nothing
  * `parse`                      sf_open (SFM_READ): guess_file_type, ircam_read_header (byte order is guessed from the
                                 channel count, not from the magic number), the codec init, validate_sfinfo / validate_psf

  Core Lean only; names live in `Sf.Ircam`.
-/
import SfModel.Basic
import SfModel.Float
import SfModel.Ieee
import SfModel.SmallSession
namespace Sf.Ircam
open Sf Sf.Small Sf.Float

structure Cfg where
  codec : Nat          -- SF_CODEC (format): 0x02 PCM_16, 0x04 PCM_32, 0x06 FLOAT, 0x10 ULAW, 0x11 ALAW
  endian : Nat         -- endian bits of the format word: 0 FILE, 1 LITTLE, 2 BIG, 3 CPU
  ch : Nat
  sr : Nat
deriving Repr, DecidableEq, Inhabited

/-- `sf_format_check` for SF_FORMAT_IRCAM -/
def accepted (c : Cfg) : Bool :=
  (c.codec = 0x02 ∨ c.codec = 0x04 ∨ c.codec = 0x06 ∨ c.codec = 0x10 ∨ c.codec = 0x11) ∧ c.endian < 4 ∧ c.ch ≤ 256

def Cfg.wf (c : Cfg) : Prop := accepted c = true ∧ 1 ≤ c.ch ∧ 1 ≤ c.sr ∧ c.sr ≤ 0x7FFFFFFF
instance (c : Cfg) : Decidable c.wf := by unfold Cfg.wf; infer_instance

/-- psf->endian == SF_ENDIAN_BIG (FILE and CPU mean little-endian on this host) -/
def Cfg.big (c : Cfg) : Bool := c.endian = 2
def Cfg.bytewidth (c : Cfg) : Nat := if c.codec = 0x02 then 2 else if c.codec = 0x04 ∨ c.codec = 0x06 then 4 else 1
def Cfg.bw (c : Cfg) : Nat := c.bytewidth * c.ch
/-- the format word a reader reports: the byte order is always recorded -/
def Cfg.fmtWord (c : Cfg) : Nat := (if c.big then 0x20000000 else 0x10000000) + 0x0A0000 + c.codec

/-- `get_encoding` -/
def encodingOf (codec : Nat) : Nat :=
  if codec = 0x02 then 0x00002 else if codec = 0x04 then 0x40004 else if codec = 0x06 then 0x00004
  else if codec = 0x10 then 0x20001 else if codec = 0x11 then 0x10001 else 0

/-! ## the sample rate -/

/-- `samplerate = psf->sf.samplerate` : int → float, round to nearest even (binary32 bits).  This is all the writer did
    before the repair of KF-C10-ircam-rate. -/
def rateBitsOld (sr : Nat) : Nat := f32.ofInt (sr : Int)

/-- 2147483520.0f = 2^31 − 128, the largest binary32 number below 2^31 -/
def rateCapBits : Nat := 0x4EFFFFFF

/-- … followed by `if (samplerate > 2147483520.0f) samplerate = 2147483520.0f` : rates from 2^31 − 64 up round to 2^31,
    which does not fit the reader's int -/
def rateBits (sr : Nat) : Nat :=
  let b := rateBitsOld sr
  if Dy.lt (f32.toDy rateCapBits) (f32.toDy b) then rateCapBits else b

/-- `(int) x` for a binary32 `x` (cvttss2si): truncation; NaN, ±Inf and everything outside the int range give INT_MIN -/
def f2i (b : Nat) : Int :=
  if !f32.isFinite b then -2147483648 else
  let d := f32.toDy b
  let mag : Nat := if d.e ≥ 0 then d.m * 2 ^ d.e.toNat else d.m / 2 ^ (-d.e).toNat
  if mag ≥ 2147483648 then -2147483648 else if d.neg then -(mag : Int) else (mag : Int)

/-- the rate a re-open reports for a file written with rate `sr`, as an int (either byte order: the two writers and
    the two readers differ in the order of the bytes only) -/
def rateBack (sr : Nat) : Int := f2i (Ieee.f32BeRead (Ieee.f32BeWrite (rateBits sr)))

/-- the container's rate quantiser: none = the file cannot be re-opened (validate_sfinfo: samplerate < 1) -/
def rateQ (sr : Nat) : Option Nat := if rateBack sr < 1 then none else some (rateBack sr).toNat

/-- the same before the repair of KF-C10-ircam-rate (no cap in the writer) -/
def rateBackOld (sr : Nat) : Int := f2i (Ieee.f32BeRead (Ieee.f32BeWrite (rateBitsOld sr)))
def rateQOld (sr : Nat) : Option Nat := if rateBackOld sr < 1 then none else some (rateBackOld sr).toNat

/-! ## header writer -/

def hdrLen : Nat := 1024

/-- `ircam_write_header` -/
def hdr (c : Cfg) : List Byte :=
  (if c.big then [0x64, 0xA3, 0x02, 0x00] ++ Ieee.f32BeWrite (rateBits c.sr) ++ be32 c.ch ++ be32 (encodingOf c.codec)
   else [0x64, 0xA3, 0x03, 0x00] ++ Ieee.f32LeWrite (rateBits c.sr) ++ le32 c.ch ++ le32 (encodingOf c.codec)) ++
  List.replicate 1008 0

def spec (c : Cfg) : Spec :=
  { hdr := fun _ _ _ => hdr c, hdrLen := hdrLen, bw := c.bw, useCalc := false, closeHdr := false }

/-! ## reader -/

/-- the encoding switch of `ircam_read_header`: (codec, bytewidth) -/
def decodeEnc (enc : Nat) : Option (Nat × Nat) :=
  if enc = 0x00002 then some (0x02, 2) else if enc = 0x40004 then some (0x04, 4) else if enc = 0x00004 then some (0x06, 4)
  else if enc = 0x10001 then some (0x11, 1) else if enc = 0x20001 then some (0x10, 1) else none

/-- the codec init of ircam_open (pcm_init refuses zero channels), validate_sfinfo, validate_psf -/
def finish (flen : Nat) (big : Bool) (ch : Int) (rate : Int) (codec bytewidth : Nat) : ParseRes :=
  if (codec = 0x02 ∨ codec = 0x04) ∧ ch = 0 then .err else
  let r := codecFrames flen 1024 0 ((bytewidth : Int) * ch)
  if rate < 1 ∨ r.2 < 0 ∨ ch < 1 ∨ ch > 1024 ∨ r.1 < 0 then .err else
  .ok { ch := ch.toNat, fmt := (if big then 0x20000000 else 0x10000000) + 0x0A0000 + codec, sr := rate.toNat, frames := r.2.toNat }

/-- `sf_open_virtual (SFM_READ)` on `bs`.  `fx = true`: the current byte-order guess (a channel count below 1 or above
    SF_MAX_CHANNELS read little-endian selects the big-endian reading); `fx = false`: the guess before the repair of
    KF-IRCAM-BE-CHANNELS (only a count above SF_MAX_CHANNELS did). -/
def parseWith (fx : Bool) (bs : List Byte) : ParseRes :=
  if bs.length < 12 then .err else                               -- guess_file_type: SFE_BAD_FILE_READ
  let b0 := bs.getD 0 0; let b1 := bs.getD 1 0; let b2 := bs.getD 2 0; let b3 := bs.getD 3 0
  if ¬ ((b0 = 0x64 ∧ b1 = 0xA3 ∧ b2 < 8 ∧ b3 = 0) ∨ (b0 = 0 ∧ b1 < 8 ∧ b2 = 0xA3 ∧ b3 = 0x64)) then .unmodelled else
  -- "epmf44": everything little-endian first
  let chLE : Int := sext 32 (ofLE (slice bs 8 4))
  let big := decide (chLE > 1024) || (fx && decide (chLE < 1))   -- then "Epmf44": the same fields big-endian
  let ch : Int := if big then sext 32 (ofBE (slice bs 8 4)) else chLE
  if big ∧ (ch > 1024 ∨ (fx = true ∧ ch < 1)) then .err else     -- SFE_IRCAM_BAD_CHANNELS
  let rate : Int := f2i (if big then Ieee.f32BeRead (slice bs 4 4) else Ieee.f32LeRead (slice bs 4 4))
  let enc : Nat := if big then ofBE (slice bs 12 4) else ofLE (slice bs 12 4)
  match decodeEnc enc with
  | none => .err                                                 -- SFE_IRCAM_UNKNOWN_FORMAT
  | some (codec, bytewidth) => finish bs.length big ch rate codec bytewidth

def parse (bs : List Byte) : ParseRes := parseWith true bs

/-- the reader before the repair of KF-IRCAM-BE-CHANNELS -/
def parseOld (bs : List Byte) : ParseRes := parseWith false bs

end Sf.Ircam
