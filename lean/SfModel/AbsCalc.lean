/-
  SfModel.AbsCalc — position-level model of the SCANNING COMMANDS (SFC_CALC_SIGNAL_MAX, SFC_CALC_NORM_SIGNAL_MAX,
  SFC_CALC_MAX_ALL_CHANNELS, SFC_CALC_NORM_MAX_ALL_CHANNELS: src/command.c psf_calc_signal_max / psf_calc_max_all_channels)
  on a handle with TWO logical pointers and ONE descriptor (C08 / C17 / C18).

  `Sf.Abs` says what a command line must leave alone (`Op.other`: the abstract state is untouched).  This file says why the code
  as written does so, at the level where the three seeded regressions of round 8 live: the read pointer `read_current`, the write
  pointer `write_current`, the descriptor (counted in frames from the start of the audio) and `last_op` — the note which of the
  two pointers the descriptor stands for.  The 18 read / write wrappers re-seek ONLY when `last_op` names the other direction;
  the data a read delivers comes from where the DESCRIPTOR is, a write lands where the DESCRIPTOR is.

      read_position = psf->read_current ;
      position = (psf->file.mode == SFM_RDWR) ? psf->write_current : sf_seek (psf, 0, SEEK_CUR) ;
      sf_seek (psf, 0, (psf->file.mode == SFM_RDWR) ? (SEEK_SET | SFM_READ) : SEEK_SET) ;
      while (sf_read_double (psf, data, len) > 0) … ;
      if (psf->file.mode == SFM_RDWR) sf_seek (psf, read_position, SEEK_SET | SFM_READ) ;
      else sf_seek (psf, position, SEEK_SET) ;

  Core Lean only (the driver links SfModel).
-/
namespace Sf.AbsCalc

/-- psf->last_op -/
inductive LastOp
  | none | read | write
deriving Repr, DecidableEq

/-- qualifier ORed into `whence` -/
inductive Qual
  | plain | rd | wr
deriving Repr, DecidableEq

/-- the positional state of a handle opened SFM_READ (`rdwr = false`) or SFM_RDWR -/
structure P where
  rdwr : Bool
  frames : Nat
  rpos : Nat
  wpos : Nat
  fd : Nat
  lastOp : LastOp
deriving Repr, DecidableEq

/-- `sf_seek (psf, p, SEEK_SET | q)` with p in range: psf->seek moves the descriptor, the pointer(s) named by the mode follow,
    last_op = the mode (SFM_RDWR counts as SFM_READ) -/
def seekSet (s : P) (q : Qual) (p : Nat) : P :=
  match q, s.rdwr with
  | .rd, _ => { s with rpos := p, fd := p, lastOp := .read }
  | .wr, true => { s with wpos := p, fd := p, lastOp := .write }
  | .wr, false => s                                              -- SFE_WRONG_SEEK
  | .plain, true => { s with rpos := p, wpos := p, fd := p, lastOp := .read }
  | .plain, false => { s with rpos := p, fd := p, lastOp := .read }

/-- `sf_seek (psf, 0, SEEK_CUR)`: a pure question on a read handle; on a read/write handle it is `seek_from_start =
    write_current` with the mode of the handle — BOTH pointers go to the write pointer.  Returns (state, answer). -/
def tell (s : P) : P × Nat :=
  if s.rdwr then (seekSet s .plain s.wpos, s.wpos) else (s, s.rpos)

/-- one `sf_read_*` of n frames: (state, frame the data came from, frames delivered) -/
def readF (s : P) (n : Nat) : P × Nat × Nat :=
  let fd := if s.lastOp = .read then s.fd else s.rpos          -- if (psf->last_op != SFM_READ) psf->seek (psf, SFM_READ, psf->read_current)
  let k := min n (s.frames - s.rpos)
  ({ s with fd := fd + k, rpos := s.rpos + k, lastOp := .read }, fd, k)

/-- one `sf_write_*` of n frames: (state, frame the data landed at) -/
def writeF (s : P) (n : Nat) : P × Nat :=
  let fd := if s.lastOp = .write then s.fd else s.wpos
  ({ s with fd := fd + n, wpos := s.wpos + n, frames := max s.frames (s.wpos + n), lastOp := .write }, fd)

/-- the scan loop: reads of `len` frames until one delivers nothing -/
def scan (len : Nat) : Nat → P → P
  | 0, s => s
  | fuel + 1, s =>
    let r := readF s len
    if r.2.2 = 0 then r.1 else scan len fuel r.1

/-- the function as written (both psf_calc_signal_max and psf_calc_max_all_channels) -/
def calcCmd (len : Nat) (s : P) : P :=
  let readPosition := s.rpos
  let (s1, position) := if s.rdwr then (s, s.wpos) else tell s
  let s2 := seekSet s1 (if s.rdwr then .rd else .plain) 0
  let s3 := scan len (s2.frames + 1) s2
  if s.rdwr then seekSet s3 .rd readPosition else seekSet s3 .plain position

/-- seeded regression C08-calc-all-rdwr-position / C18-calc-all-rdwr-readpos: the "tell" idiom first, the read position saved
    after it -/
def calcTellFirst (len : Nat) (s : P) : P :=
  let (s1, position) := tell s
  let readPosition := s1.rpos
  let s2 := seekSet s1 (if s.rdwr then .rd else .plain) 0
  let s3 := scan len (s2.frames + 1) s2
  if s.rdwr then seekSet s3 .rd readPosition else seekSet s3 .plain position

/-- seeded regression C17-calc-signal-lastop: `last_op` saved in front of the scan and put back behind it -/
def calcKeepLastOp (len : Nat) (s : P) : P :=
  { calcCmd len s with lastOp := s.lastOp }

/-- the descriptor stands where `last_op` says it does (the invariant the wrappers rely on; `none`: the next call re-seeks) -/
def Coherent (s : P) : Prop :=
  (s.lastOp = .read → s.fd = s.rpos) ∧ (s.lastOp = .write → s.fd = s.wpos)

instance (s : P) : Decidable (Coherent s) := by unfold Coherent; exact inferInstance

/-- what a caller can see of the positions -/
def SamePos (a b : P) : Prop := a.rdwr = b.rdwr ∧ a.frames = b.frames ∧ a.rpos = b.rpos ∧ a.wpos = b.wpos

instance (a b : P) : Decidable (SamePos a b) := by unfold SamePos; exact inferInstance

end Sf.AbsCalc
