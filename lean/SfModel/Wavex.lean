/-
  SfModel.Wavex — WAVE_FORMAT_EXTENSIBLE files (SF_FORMAT_WAVEX: src/wav.c wav_write_header / wavex_write_fmt_chunk /
  wav_write_tailer / wav_close, src/wavlike.c PEAK chunk and GUIDs) for the sample-granular encodings, byte exact on the
  WRITE side: `hdrRaw` / `hdr`, `tail`, `image`, and the write session (wav_open for write, the write call's bookkeeping,
  SFC_UPDATE_HEADER_NOW / AUTO, wav_close).  The reader of these files is not modelled here.
  Not described: ambisonic flag, an explicit channel map, strings, bext / cart / cue / smpl chunks, custom chunks.
-/
import SfModel.Basic
import SfModel.Float
namespace Sf.Wavex

structure Cfg where
  codec : Nat
  endian : Nat      -- 0 FILE, 1 LITTLE, 2 BIG, 3 CPU: only BIG gives a RIFX file
  ch : Nat
  sr : Nat
deriving Repr, DecidableEq, Inhabited

def codecs : List Nat := [0x05, 0x02, 0x03, 0x04, 0x06, 0x07, 0x10, 0x11]
def bytewidth : Nat → Nat
  | 0x05 => 1 | 0x02 => 2 | 0x03 => 3 | 0x04 => 4 | 0x06 => 4 | 0x07 => 8 | 0x10 => 1 | 0x11 => 1 | _ => 0
def isFloat (codec : Nat) : Bool := codec == 0x06 || codec == 0x07
def Cfg.big (c : Cfg) : Bool := c.endian == 2
def Cfg.bw (c : Cfg) : Nat := bytewidth c.codec * c.ch
def Cfg.wf (c : Cfg) : Prop := c.codec ∈ codecs ∧ c.endian < 4 ∧ 1 ≤ c.ch ∧ c.ch ≤ 1024 ∧ 1 ≤ c.sr ∧ c.sr ≤ 0x7FFFFFFF
instance (c : Cfg) : Decidable c.wf := by unfold Cfg.wf; infer_instance

structure Peak where
  value : Nat := 0
  position : Int := 0
deriving Repr, DecidableEq, Inhabited

def mk (s : String) : List Byte := s.toList.map Char.toNat
def zeros (n : Nat) : List Byte := List.replicate n 0
/-- an n-byte field in the file's byte order -/
def u (big : Bool) (n : Nat) (v : Int) : List Byte := if big then beBytes n (wrapU (8 * n) v) else leBytes n (wrapU (8 * n) v)

/-- first field of the sub-format GUID -/
def guidTag : Nat → Nat
  | 0x06 | 0x07 => 3 | 0x10 => 7 | 0x11 => 6 | _ => 1
def guid (big : Bool) (codec : Nat) : List Byte :=
  u big 4 (guidTag codec) ++ u big 2 0 ++ u big 2 0x10 ++ [0x80, 0x00, 0x00, 0xaa, 0x00, 0x38, 0x9b, 0x71]

/-- the default channel mask -/
def chanMask : Nat → Nat
  | 1 => 0x4 | 2 => 0x3 | 4 => 0x33 | 6 => 0x3F | 8 => 0xFF | _ => 0

/-- 'fmt ' chunk (8 + 40 bytes) -/
def fmtChunk (big : Bool) (codec ch sr : Nat) : List Byte :=
  mk "fmt " ++ u big 4 40 ++ u big 2 0xFFFE ++ u big 2 ch ++ u big 4 sr ++ u big 4 (sr * bytewidth codec * ch) ++
    u big 2 (bytewidth codec * ch) ++ u big 2 (bytewidth codec * 8) ++ u big 2 22 ++ u big 2 (bytewidth codec * 8) ++
    u big 4 (chanMask ch) ++ guid big codec

def factChunk (big : Bool) (frames : Int) : List Byte := mk "fact" ++ u big 4 4 ++ u big 4 frames

def peakEntry (big : Bool) (p : Peak) : List Byte := u big 4 (Float.f64to32 p.value) ++ u big 4 p.position
/-- `wavlike_write_peak_chunk` (version 1, the harness clock) -/
def peakChunk (big : Bool) (ch : Nat) (pk : List Peak) : List Byte :=
  mk "PEAK" ++ u big 4 (8 + 8 * ch) ++ u big 4 1 ++ u big 4 1000000000 ++ pk.flatMap (peakEntry big)

def hdrLen (c : Cfg) : Nat := 12 + 48 + 12 + (if isFloat c.codec then 16 + 8 * c.ch else 0) + 8

/-- `wav_write_header` for given psf->filelength, psf->datalength, psf->sf.frames -/
def hdrRaw (c : Cfg) (filelength datalength frames : Int) (pk : List Peak) : List Byte :=
  (if c.big then mk "RIFX" else mk "RIFF") ++
    u c.big 4 (if filelength < 8 then 8 else (if filelength - 8 < 0xFFFFFFFF then filelength - 8 else 0xFFFFFFFF)) ++ mk "WAVE" ++
    fmtChunk c.big c.codec c.ch c.sr ++ factChunk c.big frames ++ (if isFloat c.codec then peakChunk c.big c.ch pk else []) ++
    mk "data" ++ u c.big 4 (if datalength < 0xFFFFFFFF then datalength else 0xFFFFFFFF)

def tail (c : Cfg) (frames : Nat) : List Byte := if (hdrLen c + frames * c.bw) % 2 == 1 then [0] else []

/-- the header of a closed file -/
def hdr (c : Cfg) (frames : Nat) (pk : List Peak) : List Byte :=
  hdrRaw c ((hdrLen c + frames * c.bw + (tail c frames).length : Nat) : Int) ((frames * c.bw : Nat) : Int) frames pk

def image (c : Cfg) (frames : Nat) (pk : List Peak) (data : List Byte) : List Byte := hdr c frames pk ++ data ++ tail c frames

/-- the header of a crash-point copy (no tailer yet) -/
def hdrSnap (c : Cfg) (frames : Nat) (pk : List Peak) : List Byte :=
  hdrRaw c ((hdrLen c + frames * c.bw : Nat) : Int) ((frames * c.bw : Nat) : Int) frames pk

/-! ## write session -/

structure St where
  bytes : List Byte := []
  pos : Nat := 0
  frames : Int := 0
  wpos : Int := 0
  dataoffset : Int := 0
  datalength : Int := 0
  dataend : Int := 0
  filelength : Int := 0
  peaks : List Peak := []
  auto : Bool := false
  written : Bool := false
deriving Repr, DecidableEq, Inhabited

def writeAt (bs : List Byte) (pos : Nat) (data : List Byte) : List Byte :=
  let pre := if pos ≤ bs.length then bs.take pos else bs ++ zeros (pos - bs.length)
  pre ++ data ++ bs.drop (pos + data.length)

def writeHeader (c : Cfg) (s : St) (calcLen : Bool) : St :=
  let cur := s.pos
  let hasData : Bool := (cur : Int) > s.dataoffset
  let s := if calcLen then
      let fl : Int := s.bytes.length
      let dl := fl - s.dataoffset
      let dl := if s.dataend != 0 then dl - (fl - s.dataend) else s.frames * bytewidth c.codec * c.ch
      { s with filelength := fl, datalength := dl }
    else s
  let h := hdrRaw c s.filelength s.datalength s.frames s.peaks
  let s := { s with bytes := writeAt s.bytes 0 h, dataoffset := h.length }
  { s with pos := if !hasData then h.length else if cur > 0 then cur else h.length }

/-- wav_open in write mode on an empty store: everything is reset, the caller's frames value is not used -/
def openW (c : Cfg) (_staleFrames : Int) : St :=
  let s : St := { peaks := if isFloat c.codec then List.replicate c.ch {} else [] }
  let s := writeHeader c s false
  { s with datalength := 0, frames := 0 }

inductive Op
  | write (frames : Nat) (data : List Byte) (peaks : List Peak)
  | update
  | auto (on : Bool)
deriving Repr, DecidableEq, Inhabited

def step (c : Cfg) (s : St) : Op → St
  | .write k data pk =>
    if k == 0 then s else
    let s := if !s.written then writeHeader c s false else s
    let s := { s with written := true, peaks := if isFloat c.codec then pk else s.peaks }
    let s := { s with bytes := writeAt s.bytes s.pos data, pos := s.pos + data.length, wpos := s.wpos + k }
    let s := if s.wpos > s.frames then { s with frames := s.wpos, dataend := 0 } else s
    if s.auto then writeHeader c s true else s
  | .update => writeHeader c s true
  | .auto on => { s with auto := on }

def run (c : Cfg) (s : St) (ops : List Op) : St := ops.foldl (step c) s

/-- wav_close: tailer (pad byte), then the header with the lengths recomputed -/
def close (c : Cfg) (s : St) : St :=
  let dl : Int := s.frames * bytewidth c.codec * c.ch
  let s := { s with datalength := dl, dataend := s.dataoffset + dl }
  let s := if s.dataend > 0 then { s with pos := s.dataend.toNat } else { s with pos := s.bytes.length, dataend := s.bytes.length }
  let s := if s.dataend % 2 == 1 then { s with bytes := writeAt s.bytes s.pos [0], pos := s.pos + 1 } else s
  writeHeader c s true

def Op.frames : Op → Nat | .write k _ _ => k | _ => 0
def Op.data : Op → List Byte | .write k d _ => if k == 0 then [] else d | _ => []
def Op.valid (c : Cfg) : Op → Prop
  | .write k d pk => d.length = k * c.bw ∧ pk.length = c.ch
  | _ => True
instance (c : Cfg) (o : Op) : Decidable (o.valid c) := by cases o <;> unfold Op.valid <;> infer_instance
def sessFrames (ops : List Op) : Nat := (ops.map Op.frames).sum
def sessData (ops : List Op) : List Byte := ops.flatMap Op.data
def nextPeaks (c : Cfg) (pk : List Peak) : Op → List Peak
  | .write k _ p => if k == 0 ∨ !isFloat c.codec then pk else p
  | _ => pk
def initPeaks (c : Cfg) : List Peak := if isFloat c.codec then List.replicate c.ch {} else []
def sessPeaks (c : Cfg) (ops : List Op) : List Peak := ops.foldl (nextPeaks c) (initPeaks c)

end Sf.Wavex
