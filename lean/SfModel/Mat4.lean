/-
  SfModel.Mat4 — stand-alone byte-exact (L1) model of the MATLAB 4 / GNU Octave 2.0 container of src/mat4.c: two
  matrices, each "type, rows, cols, imag, name size, name, data": a 1 x 1 double "samplerate" and the
  channels x frames matrix "wavedata" (PCM_16, PCM_32, FLOAT or DOUBLE), everything in the byte order of the file.

  * `f64OfNat`, `natOfF64`   the sample rate as a binary64: `double64_{le,be}_write ((double) samplerate)` of an
                             integer in [1, 2^31) is that integer's IEEE bit string (SfProps/C20Ieee.lean,
                             `ieee_write_f64_partial`), `psf_lrint (double64_*_read (…))` of such a bit string is
                             the integer; other doubles are outside this model
  * `hdr`, `fmt`             mat4_write_header; the write session is `Sf.Small2.run (fmt c)`
  * `parse`                  sf_open (SFM_READ): guess_file_type, mat4_read_header, the codec init, validate_sfinfo
-/
import SfModel.Small2
namespace Sf.Mat4
open Sf Sf.Small2

/-! ## the rate as a double -/

/-- IEEE-754 binary64 bit string of the integer `n` (1 ≤ n < 2^53) -/
def f64OfNat (n : Nat) : Nat :=
  if n = 0 then 0 else
  let e := Nat.log2 n
  (1023 + e) * 2 ^ 52 + (n - 2 ^ e) * 2 ^ (52 - e)

/-- the integer a binary64 bit string stands for, when it is +0 or a positive integer below 2^31 -/
def natOfF64 (b : Nat) : Option Nat :=
  if b = 0 then some 0 else
  let E := b / 2 ^ 52 % 2048
  let T := b % 2 ^ 52
  if b / 2 ^ 63 = 0 ∧ 1023 ≤ E ∧ E ≤ 1053 ∧ T % 2 ^ (52 - (E - 1023)) = 0 then some (2 ^ (E - 1023) + T / 2 ^ (52 - (E - 1023)))
  else none

/-! ## configuration -/

structure Cfg where
  codec : Nat          -- PCM_16 = 2, PCM_32 = 4, FLOAT = 6, DOUBLE = 7
  endian : Nat         -- endian bits of the format word: 0 FILE, 1 LITTLE, 2 BIG, 3 CPU
  ch : Nat
  sr : Nat
deriving Repr, DecidableEq, Inhabited

def bytewidth (codec : Nat) : Nat := if codec = 2 then 2 else if codec = 7 then 8 else 4

/-- psf->endian: FILE and CPU mean little endian on this host -/
def Cfg.little (c : Cfg) : Bool := c.endian ≠ 2

def Cfg.wf (c : Cfg) : Prop :=
  (c.codec = 2 ∨ c.codec = 4 ∨ c.codec = 6 ∨ c.codec = 7) ∧ c.endian < 4 ∧ 1 ≤ c.ch ∧ c.ch ≤ 1024 ∧ 1 ≤ c.sr ∧ c.sr ≤ 0x7FFFFFFF
instance (c : Cfg) : Decidable c.wf := by unfold Cfg.wf; infer_instance

def Cfg.bw (c : Cfg) : Nat := bytewidth c.codec * c.ch

/-- the `sf.format` word a reader reports: the container records the byte order -/
def Cfg.fmtWord (c : Cfg) : Nat := (if c.little then 0x10000000 else 0x20000000) + 0x0C0000 + c.codec

/-- 32-bit and 64-bit fields in the byte order of the file -/
def w32 (little : Bool) (v : Int) : List Byte := if little then le32 v else be32 v
def w64 (little : Bool) (v : Nat) : List Byte := if little then leBytes 8 v else beBytes 8 v
def r32 (little : Bool) (b : List Byte) : Nat := if little then ofLE b else ofBE b

/-- the type word of a matrix: MAT4_{BE,LE}_{DOUBLE,FLOAT,PCM_32,PCM_16} (BE: 1000 + 10 k as a big-endian int;
    LE: 10 k as a little-endian int) -/
def typeIdx (codec : Nat) : Nat := if codec = 7 then 0 else if codec = 6 then 1 else if codec = 4 then 2 else 3
def typeWord (little : Bool) (k : Nat) : List Byte := if little then le32 (10 * k : Nat) else be32 (1000 + 10 * k : Nat)

/-- "samplerate\0" and "wavedata\0" -/
def srName : List Byte := [0x73, 0x61, 0x6D, 0x70, 0x6C, 0x65, 0x72, 0x61, 0x74, 0x65, 0]
def wdName : List Byte := [0x77, 0x61, 0x76, 0x65, 0x64, 0x61, 0x74, 0x61, 0]

/-- mat4_write_header: "m444" double 1 1 0, "4bd" 11 "samplerate" rate, "tm484" encoding channels frames 0,
    "4b" 9 "wavedata" -/
def hdr (c : Cfg) (f : Fields) : List Byte :=
  let l := c.little
  typeWord l 0 ++ w32 l 1 ++ w32 l 1 ++ w32 l 0 ++ w32 l 11 ++ srName ++ w64 l (f64OfNat c.sr) ++
  typeWord l (typeIdx c.codec) ++ w32 l c.ch ++ w32 l f.frames ++ w32 l 0 ++ w32 l 9 ++ wdName

def fmt (c : Cfg) : Fmt :=
  { hdrLen := 68, bw := c.bw, hdr := hdr c,
    recalc := fun n _ => { filelength := n, datalength := (n : Int) - 68, frames := ((n : Int) - 68) / ((c.bw : Nat) : Int) } }

/-- the rate field is a binary64: every rate in [1, 2^31 − 1] is exact -/
def quant (sr : Nat) : Nat := (natOfF64 (f64OfNat sr)).getD 0

/-! ## reader -/

/-- the `switch (marker)` of mat4_read_header on the second matrix: (codec, bytewidth) -/
def codecOf (m : List Byte) : Option (Nat × Nat) :=
  if m = [0, 0, 0x03, 0xE8] ∨ m = [0, 0, 0, 0] then some (7, 8)
  else if m = [0, 0, 0x03, 0xF2] ∨ m = [0x0A, 0, 0, 0] then some (6, 4)
  else if m = [0, 0, 0x03, 0xFC] ∨ m = [0x14, 0, 0, 0] then some (4, 4)
  else if m = [0, 0, 0x04, 0x06] ∨ m = [0x1E, 0, 0, 0] then some (2, 2)
  else none

/-- mat4_read_header + the codec init + validate_sfinfo; files that end inside the header are not described -/
def readHeader (bs : List Byte) : ParseRes :=
  if bs.length < 20 then .unmodelled else
  let (m1, r) := cut 4 bs
  let little : Bool := m1 = [0, 0, 0, 0]
  if m1 ≠ [0, 0, 0x03, 0xE8] ∧ m1 ≠ [0, 0, 0, 0] then .err else          -- SFE_UNIMPLEMENTED
  let (rows1, r) := cut 4 r
  let (cols1, r) := cut 4 r
  let (_, r) := cut 4 r
  let (ns1b, r) := cut 4 r
  let ns1 := r32 little ns1b
  if ns1 ≥ 64 then .err else                                               -- SFE_MAT4_BAD_NAME
  if bs.length < 20 + ns1 + 8 + 20 then .unmodelled else
  let (_, r) := cut ns1 r
  let (val, r) := cut 8 r
  if r32 little rows1 ≠ 1 ∨ r32 little cols1 ≠ 1 then .err else           -- SFE_MAT4_NO_SAMPLERATE
  let (m2, r) := cut 4 r
  let (rows2, r) := cut 4 r
  let (cols2, r) := cut 4 r
  let (_, r) := cut 4 r
  let (ns2b, _) := cut 4 r
  let ns2 := r32 little ns2b
  if ns2 ≥ 64 then .err else
  let dataoffset := 20 + ns1 + 8 + 20 + ns2
  if bs.length < dataoffset then .unmodelled else
  let rows : Int := sext 32 (r32 little rows2)
  let cols : Int := sext 32 (r32 little cols2)
  if rows = 0 ∨ rows > 1024 then .err else                                 -- SFE_CHANNEL_COUNT_ZERO / SFE_CHANNEL_COUNT
  match codecOf m2 with
  | none => .err                                                           -- SFE_UNIMPLEMENTED
  | some (codec, bytew) =>
    match natOfF64 (r32 little val) with
    | none => .unmodelled                                                  -- a rate that is not a small integer
    | some sr =>
      let room : Int := (bs.length : Int) - dataoffset
      let need : Int := rows * cols * bytew
      let dataend : Int := if room > need then dataoffset + need else 0
      let dl : Int := if (bs.length : Int) > dataoffset then (if dataend > 0 then dataend - dataoffset else room) else 0
      if rows < 1 ∨ dl < 0 ∨ sr < 1 then .err else                         -- codec init, validate_sfinfo, validate_psf
      .ok { ch := rows.toNat, fmt := (if little then 0x10000000 else 0x20000000) + 0x0C0000 + codec, sr := sr,
            frames := (framesOf bs.length dataoffset dataend (bytew * rows)).toNat }

/-- `sf_open_virtual (SFM_READ)` on `bs` -/
def parse (bs : List Byte) : ParseRes :=
  if bs.length < 12 then .err else                    -- guess_file_type: SFE_BAD_FILE_READ
  match guess bs with
  | some (.fmt 0x0C0000) => readHeader bs
  | _ => .unmodelled

end Sf.Mat4
