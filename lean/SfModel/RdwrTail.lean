/-
  SfModel.RdwrTail — the length rule of a header update (`*_write_header (psf, calc_length = SF_TRUE)`) on a handle whose file
  may hold bytes BEHIND the audio (pad byte, LIST / INFO, PEAK tailer, CAF info — or what is left of such a chunk after audio was
  written over part of it in SFM_RDWR).

      psf->filelength = psf_get_filelen (psf) ;
      psf->datalength = psf->filelength - psf->dataoffset ;
      if (psf->dataend)
          psf->datalength -= psf->filelength - psf->dataend ;
      else if (psf->bytewidth > 0 && psf->sf.seekable == SF_TRUE)                          -- wav.c always; caf.c, rf64.c since the
          psf->datalength = psf->sf.frames * psf->bytewidth * psf->sf.channels ;           -- repairs FX-CAF/RF64-UPDATE-STALE-TAIL
      if (psf->bytewidth > 0)                                                              -- caf.c, rf64.c, aiff.c, w64.c, …
          psf->sf.frames = psf->datalength / (psf->bytewidth * psf->sf.channels) ;

  `dataend` is the end-of-audio mark the header parser sets when chunks follow the audio; every write entry point that grows the file
  clears it (`if (write_current > sf.frames) { sf.frames = write_current ; dataend = 0 ; }`).

  Core Lean only.
-/
namespace Sf.RdwrTail

/-- what the rule reads: file length, data offset, end-of-audio mark (0 = none), the frame count the handle maintains, bytes per
    frame (0 = no fixed width), seekable -/
structure Len where
  filelength : Nat
  dataoffset : Nat
  dataend : Nat
  frames : Nat
  width : Nat
  seekable : Bool := true
deriving Repr, DecidableEq

/-- the rule of caf.c / rf64.c BEFORE the repairs: without a mark, everything behind the data offset is audio -/
def dataLenOld (s : Len) : Nat :=
  let d := s.filelength - s.dataoffset
  if s.dataend ≠ 0 then d - (s.filelength - s.dataend) else d

/-- the rule of wav.c, and of caf.c / rf64.c since the repairs: without a mark, a fixed-width seekable file holds `frames · width`
    bytes of audio -/
def dataLen (s : Len) : Nat :=
  let d := s.filelength - s.dataoffset
  if s.dataend ≠ 0 then d - (s.filelength - s.dataend)
  else if 0 < s.width && s.seekable then s.frames * s.width
  else d

/-- `sf.frames` after the update (containers that recompute it from the data length) -/
def framesAfter (dl : Nat) (s : Len) : Nat := if 0 < s.width then dl / s.width else s.frames

/-- the guard of the write entry points: growing the file drops the mark -/
def grow (s : Len) (wpos : Nat) : Len := if s.frames < wpos then { s with frames := wpos, dataend := 0 } else s

/-- the same guard with the second assignment lost (the seeded regression C11-writef-int-dataend) -/
def growKeepsMark (s : Len) (wpos : Nat) : Len := if s.frames < wpos then { s with frames := wpos } else s

end Sf.RdwrTail
