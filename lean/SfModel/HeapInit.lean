/-
  SfModel.HeapInit — a codec's private state and staging buffer as cells that come FROM THE HEAP, with the heap as an oracle
  (the generalisation of `Junk` in SfModel/HeaderBuf.lean from the header buffer to codec state).

  `junk k` is whatever cell k of a freshly malloc'ed block holds: memory of handles closed earlier, of anything else the process did,
  an allocator's fill pattern.  `Init` is how a `*_init` function obtains its block:
      calloc            every cell 0                                             (ima_writer_init, gsm610_init, … as the code is)
      mallocClear n     malloc + a clear of the first n cells only               (n ≥ size: malloc + memset of the whole block, e.g.
                                                                                   vox_adpcm_init; n < size: a part left as found)
  Two shapes of use cover the block codecs:
    * `firstBlock`   a block writer copies the caller's samples into the staging buffer from cell 0 and the close function encodes the
                     WHOLE buffer: a first block that is never completed is caller samples ++ what the buffer held;
    * `carryIn`      a codec that holds a sample back between calls (`have_carry`, `carry`: OKI / VOX) prepends the held sample to the
                     next call iff the flag cell is non-zero.
  The campaign's counterpart is vlib/heapcodec.py (every codec, first / partial blocks, reader and writer, three allocator fills).
  Core Lean only.
-/
namespace Sf.HeapInit

abbrev Junk := Nat → Int

inductive Init
  | calloc
  | mallocClear (n : Nat)
deriving DecidableEq, Repr

/-- the block a `*_init` function starts from -/
def fresh (i : Init) (j : Junk) (size : Nat) : List Int :=
  match i with
  | .calloc => List.replicate size 0
  | .mallocClear n => (List.range size).map fun k => if k < n then 0 else j k

/-- the staging buffer when the only block is closed after `xs` were written into it (at most `size` of them) -/
def firstBlock (i : Init) (j : Junk) (size : Nat) (xs : List Int) : List Int :=
  xs.take size ++ (fresh i j size).drop (min xs.length size)

/-- the samples a call hands to the coder when the private struct has a flag cell `flagAt` and a held sample in cell `carryAt` -/
def carryIn (st : List Int) (flagAt carryAt : Nat) (xs : List Int) : List Int :=
  if st.getD flagAt 0 ≠ 0 then st.getD carryAt 0 :: xs else xs

end Sf.HeapInit
