/-
  SfModel.Pvf — stand-alone byte-exact (L1) model of the Portable Voice Format container of src/pvf.c (one text
  line "PVF1\n<channels> <rate> <bits>\n", then big-endian PCM of 8, 16 or 32 bits).

  * `digits`        printf "%d" of a non-negative int
  * `hdr`, `fmt`    pvf_write_header (the header holds no length: it is written again, unchanged, by every update;
                    pvf_close does nothing); the write session is `Sf.Small2.run (fmt c)`
  * `scanInt`       one "%d" conversion of sscanf
  * `parse`         sf_open (SFM_READ): guess_file_type (which reads 12 bytes into the header cache), pvf_read_header
                    ("pmj", the line read `header_gets`, sscanf, `psf->dataoffset = psf->header.indx`), pcm_init,
                    validate_sfinfo
-/
import SfModel.Small2
namespace Sf.Pvf
open Sf Sf.Small2

/-- decimal digits, most significant first -/
def digits (n : Nat) : List Byte :=
  if h : n < 10 then [n + 48] else digits (n / 10) ++ [n % 10 + 48]
decreasing_by omega

structure Cfg where
  codec : Nat          -- SF_FORMAT_PCM_S8 = 1, PCM_16 = 2, PCM_32 = 4
  ch : Nat
  sr : Nat
deriving Repr, DecidableEq, Inhabited

def bytewidth (codec : Nat) : Nat := if codec = 1 then 1 else if codec = 2 then 2 else 4

/-- configurations sf_open (SFM_WRITE) accepts -/
def Cfg.wf (c : Cfg) : Prop := (c.codec = 1 ∨ c.codec = 2 ∨ c.codec = 4) ∧ 1 ≤ c.ch ∧ c.ch ≤ 1024 ∧ 1 ≤ c.sr ∧ c.sr ≤ 0x7FFFFFFF
instance (c : Cfg) : Decidable c.wf := by unfold Cfg.wf; infer_instance

/-- the text between "PVF1\n" and the closing newline -/
def line (c : Cfg) : List Byte := digits c.ch ++ [0x20] ++ digits c.sr ++ [0x20] ++ digits (bytewidth c.codec * 8)

/-- pvf_write_header: snprintf "PVF1\n%d %d %d\n" -/
def hdr (c : Cfg) : List Byte := [0x50, 0x56, 0x46, 0x31, 0x0A] ++ line c ++ [0x0A]

def fmt (c : Cfg) : Fmt :=
  { hdrLen := (hdr c).length, bw := bytewidth c.codec * c.ch, hdr := fun _ => hdr c, recalc := fun _ f => f, closeRewrites := false }

/-- the rate is stored as decimal text: every rate is exact -/
def quant (sr : Nat) : Nat := sr

/-! ## reader -/

def isDigit (b : Byte) : Bool := 48 ≤ b ∧ b ≤ 57
def isWs (b : Byte) : Bool := b = 0x20 ∨ (9 ≤ b ∧ b ≤ 13)

def scanDigits (acc : Nat) : List Byte → Nat × List Byte
  | [] => (acc, [])
  | b :: r => if isDigit b then scanDigits (acc * 10 + (b - 48)) r else (acc, b :: r)

def skipWs : List Byte → List Byte
  | [] => []
  | b :: r => if isWs b then skipWs r else b :: r

/-- one "%d" of sscanf: white space, an optional sign, at least one digit; `none` = matching failure -/
def scanInt (s : List Byte) : Option (Int × List Byte) :=
  let s := skipWs s
  let neg : Bool := s.head? = some 0x2D
  let s := if s.head? = some 0x2D ∨ s.head? = some 0x2B then s.tail else s
  if (s.head?.map isDigit).getD false then
    let (v, r) := scanDigits 0 s
    some (if neg then - (v : Int) else (v : Int), r)
  else none

/-- `header_gets (psf, buffer, 32)` from the current position: the characters before the first newline among the
    next 31 (all 31 when there is none), and the number of characters consumed.  Beyond the end of the file the
    (zero-initialised) header cache delivers NUL characters. -/
def getLine : Nat → List Byte → List Byte × Nat
  | 0, _ => ([], 0)
  | fuel + 1, [] => let (l, n) := getLine fuel []; (0 :: l, n + 1)
  | fuel + 1, b :: r => if b = 0x0A then ([], 1) else let (l, n) := getLine fuel r; (b :: l, n + 1)

/-- `psf->dataoffset` after the header line has been read (`n` characters consumed behind "PVF1\n", file of `flen` ≥ 12
    bytes).  `fx = true`: `psf->header.indx`, the end of the header text.  `fx = false`, before the repair of
    KF-PVF-SHORT-HEADER: `psf_ftell (psf)` — 12 bytes are in the cache already when the type detection returns, the line
    read fetches single bytes beyond them. -/
def dataOffset (fx : Bool) (flen n : Nat) : Nat := if fx then min flen (5 + n) else max 12 (min flen (5 + n))

/-- pvf_read_header + pcm_init + validate_sfinfo on a file of at least 12 bytes that `guess_file_type` called PVF -/
def readHeaderWith (fx : Bool) (bs : List Byte) : ParseRes :=
  let (l, n) := getLine 31 (bs.drop 5)
  let text := l.takeWhile (· ≠ 0)                     -- sscanf stops at the first NUL
  match scanInt text with
  | none => .err
  | some (ch, r1) =>
  match scanInt r1 with
  | none => .err
  | some (sr, r2) =>
  match scanInt r2 with
  | none => .err                                       -- SFE_PVF_BAD_HEADER
  | some (bits, _) =>
    if ch > 0x7FFFFFFF ∨ sr > 0x7FFFFFFF ∨ bits > 0x7FFFFFFF ∨ ch < -0x7FFFFFFF ∨ sr < -0x7FFFFFFF ∨ bits < -0x7FFFFFFF
      then .unmodelled else                            -- conversion overflow
    if bits ≠ 8 ∧ bits ≠ 16 ∧ bits ≠ 32 then .err else -- SFE_PVF_BAD_BITWIDTH
    let bw : Int := bits / 8
    let dataoffset : Nat := dataOffset fx bs.length n
    if ch < 1 ∨ ch > 1024 ∨ sr < 1 then .err else      -- pcm_init (channels = 0), validate_sfinfo
    .ok { ch := ch.toNat, fmt := 0x0E0000 + (if bits = 8 then 1 else if bits = 16 then 2 else 4), sr := sr.toNat,
          frames := (framesOf bs.length dataoffset 0 (bw * ch)).toNat }

def readHeader (bs : List Byte) : ParseRes := readHeaderWith true bs

/-- `sf_open_virtual (SFM_READ)` on `bs`.  `pad = true` (the code since the repair of KF-PVF-TINY-FILE): the type detection
    probes what a file shorter than 12 bytes has, zero-padded, and only an empty file is refused outright; `pad = false`:
    every file shorter than the 12-byte probe was refused with SFE_BAD_FILE_READ before a marker was looked at. -/
def parseWithP (pad fx : Bool) (bs : List Byte) : ParseRes :=
  if bs.length < 12 ∧ (pad = false ∨ bs.length = 0) then .err else   -- guess_file_type: SFE_BAD_FILE_READ
  match guessProbe bs with
  | some (.fmt 0x0E0000) => readHeaderWith fx bs
  | _ => .unmodelled

def parseWith (fx : Bool) (bs : List Byte) : ParseRes := parseWithP true fx bs

def parse (bs : List Byte) : ParseRes := parseWith true bs

/-- the reader before the repair of KF-PVF-SHORT-HEADER -/
def parseOld (bs : List Byte) : ParseRes := parseWith false bs

/-- the reader before the repair of KF-PVF-TINY-FILE: a 12-byte probe or nothing -/
def parseProbe12 (bs : List Byte) : ParseRes := parseWithP false true bs

end Sf.Pvf
