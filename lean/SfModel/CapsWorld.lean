/-
  SfModel.CapsWorld — the capability probe of float32_init / double64_init as process-wide state.

  src/float32.c:   static int float_caps ;  …  float_caps = float32_get_capability (psf) ;      (double64.c alike)
  float32_get_capability answers FLOAT_BROKEN_* when `psf->ieee_replace` is set (SFC_TEST_IEEE_FLOAT_REPLACE on THAT handle) and
  the host's capability otherwise; the handle then gets the host read / write functions or the portable ("replace") ones.  The
  variable is `static`, i.e. it outlives the call: whether a LATER handle can see what an earlier handle's command left in it is the
  rule `Rule`:
     probeAlways          the code: assigned at the top of every init, before its only use (Sf.World.Global.floatCaps: dead across calls)
     cacheUnlessReplace   "the CPU does not change": probed when still unknown or when this handle has the test switch set
  `sf_command (SFC_TEST_IEEE_FLOAT_REPLACE)` re-runs the init of the handle it is issued on.
  The two paths differ on values outside the finite range: the host path stores the caller's bits, the portable writer
  (Sf.Ieee.f32LeWrite) does not.  Campaign: vlib/cmdreach.py (every SFC_* command on handle A, then handle B is opened and used).
  Core Lean only.
-/
import SfModel.Ieee
namespace Sf.CapsWorld
open Sf

inductive Caps | unknown | host | portable
deriving DecidableEq, Repr

inductive Rule | probeAlways | cacheUnlessReplace
deriving DecidableEq, Repr

/-- float32_get_capability on the IEEE host of the trusted base -/
def probe (ieeeReplace : Bool) : Caps := if ieeeReplace then .portable else .host

/-- float32_init: (the static before, the handle's ieee_replace) ↦ (the static after, the path this handle uses) -/
def init (r : Rule) (st : Caps) (ieeeReplace : Bool) : Caps × Caps :=
  match r with
  | .probeAlways => (probe ieeeReplace, probe ieeeReplace)
  | .cacheUnlessReplace => if st = .unknown ∨ ieeeReplace then (probe ieeeReplace, probe ieeeReplace) else (st, st)

/-- events of a process that matter here: a float handle is opened (slot i), or the test switch is set on slot i (re-init) -/
inductive Ev
  | open (i : Nat)
  | replace (i : Nat) (on : Bool)
deriving DecidableEq, Repr

structure W where
  static_ : Caps := .unknown
  flag : Nat → Bool := fun _ => false          -- psf->ieee_replace per handle
  path : Nat → Caps := fun _ => .unknown       -- which read / write functions the handle has

def step (r : Rule) (w : W) : Ev → W
  | .open i =>
    let x := init r w.static_ false
    { static_ := x.1, flag := fun k => if k = i then false else w.flag k, path := fun k => if k = i then x.2 else w.path k }
  | .replace i on =>
    let x := init r w.static_ on
    { static_ := x.1, flag := fun k => if k = i then on else w.flag k, path := fun k => if k = i then x.2 else w.path k }

def run (r : Rule) (w : W) (evs : List Ev) : W := evs.foldl (step r) w

/-- what a float handle on path `c` stores for the caller's bit pattern `b` in a little-endian file -/
def storeLE (c : Caps) (b : Nat) : List Byte :=
  match c with
  | .portable => Ieee.f32LeWrite b
  | _ => leBytes 4 b

end Sf.CapsWorld
