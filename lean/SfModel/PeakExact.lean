/-
  SfModel.PeakExact — the value field of a PEAK entry after the repair of KF-C18-PEAK-SUBNORMAL.

  Every PEAK writer (wavlike_write_peak_chunk, aiff_write_header, caf_write_header) hands the channel maximum, narrowed to
  `float`, to the 'f' of psf_binheader_writef, i.e. to `float32_le_write` / `float32_be_write` (src/float32.c) — always, also
  on hosts with native IEEE floats.  `Sf.wrF32` (SfModel/Handle.lean) is that field under the writers' former early return
  (`fabs (in) < FLT_MIN`: a subnormal maximum was stored as 0.0f); it stays there as the old rule (Handle.lean is not edited:
  hundreds of theorems are built on it).  `Sf.PeakExact.wrF32` is the field as the repaired writers compute it — literally the
  bytes of `Sf.Ieee.f32BeWrite` read as a word — and `Sf.PeakExact.chunkBytes` the PEAK chunk with that field
  (`Sf.Peak.chunkBytes` otherwise, line for line).  The two agree on every chunk without a subnormal maximum
  (SfProps/C18Exact.lean `chunk_agrees_old_rule`).  Core Lean only; `sfmodel c18 peak` prints this chunk.
-/
import SfModel.Peak
import SfModel.Ieee
namespace Sf.PeakExact
open Sf Sf.Peak

/-- the word whose bytes (in the header's byte order, `u32 big`) are the four bytes `float32_be_write` / `float32_le_write`
    store for the binary32 pattern `b` -/
def wrF32 (b : Nat) : Nat := ofBE (Ieee.f32BeWrite b)

/-- wavlike_write_peak_chunk / aiff_write_header / caf_write_header with the repaired value field -/
def chunkBytes (k : Kind) (ch : Nat) (ps : List Peak) : List Byte :=
  match k with
  | .wavLE => marker "PEAK" ++ u32 false (8 + 8 * ch) ++ u32 false 1 ++ u32 false 1000000000 ++
      ps.flatMap fun p => u32 false (wrF32 (Float.f64to32 p.value)) ++ u32 false p.position
  | .wavBE => marker "PEAK" ++ u32 true (8 + 8 * ch) ++ u32 true 1 ++ u32 true 1000000000 ++
      ps.flatMap fun p => u32 true (wrF32 (Float.f64to32 p.value)) ++ u32 true p.position
  | .aiff => marker "PEAK" ++ u32 true (8 + 8 * ch) ++ u32 true 1 ++ u32 true 1000000000 ++
      ps.flatMap fun p => u32 true (wrF32 (Float.f64to32 p.value)) ++ u32 true p.position
  | .caf => marker "peak" ++ u64be (4 + 12 * ch) ++ u32 true 0 ++
      ps.flatMap fun p => u32 true (wrF32 (Float.f64to32 p.value)) ++ u64be p.position

end Sf.PeakExact
