/-
  SfModel.MetaXState — the write handle of an AIFF or CAF file as far as metadata goes (property C12), as ONE state with a step
  function, so that `meta_roundtrip` is one theorem per container over handle states (SfProps/C12XState.lean), as it is for the
  RIFF containers (`Sf.Meta.MetaState`, SfProps/C12Round.lean).

  Code-shaped model of the guards in src/sndfile.c (sf_set_string, SFC_SET_CUE, SFC_SET_INSTRUMENT, SFC_SET_CHANNEL_MAP_INFO:
  refused once audio has been written), of what aiff_write_header / caf_write_header and caf_write_tailer / aiff_write_tailer put
  into the file for it (SfModel/MetaX.lean, MetaFix.lean) and of what the readers hand back.  `sfmodel meta` (lean/Driver/Meta.lean)
  prints `stringsBack` / `chanBack` / `Sf.MetaFix.aiffCues` for AIFF and CAF scripts.   Core Lean only.
-/
import SfModel.Meta
import SfModel.MetaX
import SfModel.MetaFix
namespace Sf.MetaXS
open Sf Sf.Meta Sf.MetaX

/-- the (type, text) pairs an AIFF / CAF file hands to psf_store_string on re-open: the header's strings, then those written
    behind the audio.  caf_close pads an odd data end with a byte the chunk walk of caf_read_header does not expect: the trailing
    `info` chunk is then lost. -/
def stringsBack (aiff : Bool) (t : Strings) (audioLen : Nat) : List (Nat × List Byte) :=
  let startE := if (t.flags &&& SF_STR_LOCATE_START) ≠ 0 then entriesOf t SF_STR_LOCATE_START else []
  let endE := if (t.flags &&& SF_STR_LOCATE_END) ≠ 0 then entriesOf t SF_STR_LOCATE_END else []
  if aiff then
    let a := aiffStrings startE
    let b := aiffStrings endE
    aiffParse (a.length + 1) a ++ aiffParse (b.length + 1) b
  else
    readCafInfo (writeCafInfo t.used startE) ++ (if audioLen % 2 = 1 then [] else readCafInfo (writeCafInfo t.used endE))

/-- the channel map a re-opened AIFF / CAF file returns for a stored map with layout tag `tag` -/
def chanBack (caf : Bool) (ch : Nat) (chmap : Option (List Nat × Nat)) : Option (List Nat) :=
  match chmap with
  | some (_, tag) => if tag = 0 then none else readChan caf ch (be4 tag)
  | none => none

structure XState where
  cont : Container                       -- .aiff or .caf
  ch : Nat
  haveWritten : Bool
  strings : Strings
  cues : Option (List Cue)
  inst : Bool                            -- SFC_SET_INSTRUMENT was accepted (AIFF writes no INST chunk: KF.aiffInst)
  chmap : Option (List Nat × Nat)        -- the stored channel map and its layout tag
  audioLen : Nat                         -- bytes of audio written so far
deriving Repr

inductive XOp
  | setString (ty : Int) (s : List Byte)
  | setCues (cs : List Cue)
  | setInst
  | setChmap (map : List Nat)
  | writeAudio (bytes : Nat)

/-- SFC_SET_CHANNEL_MAP_INFO on a handle whose stored map (with its layout tag) is `old`, for a valid map `m` with layout tag `tag`
    (0 = the container has no tag for it: the call answers SF_FALSE).  Since the repair ("fix: a refused SFC_SET_CHANNEL_MAP_INFO
    erased the channel map set before it") a map without a tag replaces nothing, and since "fix: a refused
    SFC_SET_CHANNEL_MAP_INFO on a handle without a channel map left the refused map behind" that is literally so with no map set
    before as well: psf->channel_map stays NULL (`Sf.ChmapVerdict.setMap`, which also carries SFC_GET_CHANNEL_MAP_INFO on the
    write handle, is the same rule: SfProps/C09Chmap.lean). -/
def applyChmap (old : Option (List Nat × Nat)) (m : List Nat) (tag : Nat) : Option (List Nat × Nat) :=
  if tag = 0 then old else some (m, tag)

/-- the rule before the repair: the refused map and its tag 0 replaced what was there — the map accepted before was lost -/
def applyChmapOld (_old : Option (List Nat × Nat)) (m : List Nat) (tag : Nat) : Option (List Nat × Nat) := some (m, tag)

def XState.open (c : Container) (ch : Nat) : XState :=
  ⟨c, ch, false, Strings.init (SF_STR_ALLOW_START ||| SF_STR_ALLOW_END), none, false, none, 0⟩

/-- result code (`sf_set_string`: 0 = stored; `sf_command`: 1 = SF_TRUE) and the state afterwards, over the channel-map rule -/
def xstepW (apply : Option (List Nat × Nat) → List Nat → Nat → Option (List Nat × Nat)) (pn pv : List Byte) (h : XState) : XOp → Nat × XState
  | .setString ty s =>
    let r := store ⟨.write, h.haveWritten, pn, pv⟩ h.strings ty s
    (r.1, { h with strings := r.2 })
  | .setCues cs => if h.haveWritten then (0, h) else (1, { h with cues := some cs })
  | .setInst => if h.haveWritten then (0, h) else (1, { h with inst := true })
  | .setChmap map =>
    if h.haveWritten then (0, h)
    else match setChannelMap h.ch map with
      | none => (0, h)
      | some (r, m, tag) => (r, { h with chmap := apply h.chmap m tag })
  | .writeAudio n => (n, { h with haveWritten := true, audioLen := h.audioLen + n })

def xstep : List Byte → List Byte → XState → XOp → Nat × XState := xstepW applyChmap
/-- … with the channel-map rule before the repair -/
def xstepOld : List Byte → List Byte → XState → XOp → Nat × XState := xstepW applyChmapOld

def xrun (pn pv : List Byte) (h : XState) (ops : List XOp) : XState := ops.foldl (fun h op => (xstep pn pv h op).2) h
def xrunOld (pn pv : List Byte) (h : XState) (ops : List XOp) : XState := ops.foldl (fun h op => (xstepOld pn pv h op).2) h

/-- what a re-opened file returns -/
structure XReopened where
  strings : List (Nat × List Byte)
  cues : Option (List Cue)
  chmap : Option (List Nat)
deriving Repr, DecidableEq

def xreopen (h : XState) : XReopened :=
  { strings := stringsBack (h.cont = .aiff) h.strings h.audioLen,
    cues := if h.cont = .aiff then MetaFix.aiffCues h.inst h.cues else none,
    chmap := chanBack (h.cont = .caf) h.ch h.chmap }

/-- the string types AIFF has a chunk for: NAME, (c), APPL, AUTH, ANNO -/
def aiffStored (e : Nat × List Byte) : Bool := e.1 = 1 || e.1 = 2 || e.1 = 3 || e.1 = 4 || e.1 = 5

/-- the value the re-opened file must return, as an explicit function of the handle: the strings as stored (AIFF: of the five
    types it has chunks for), header strings first; cue points as MARK keeps them (16-bit id, sample offset, name) — CAF stores
    none; the channel map when a layout tag exists for it -/
def normaliseX (h : XState) : XReopened :=
  let startE := if (h.strings.flags &&& SF_STR_LOCATE_START) ≠ 0 then entriesOf h.strings SF_STR_LOCATE_START else []
  let endE := if (h.strings.flags &&& SF_STR_LOCATE_END) ≠ 0 then entriesOf h.strings SF_STR_LOCATE_END else []
  { strings := if h.cont = .aiff then startE.filter aiffStored ++ endE.filter aiffStored
               else startE ++ (if h.audioLen % 2 = 1 then [] else endE),
    cues := if h.cont = .aiff then h.cues.map fun cs => (cs.map markOfCue).map cueOfMark else none,
    chmap := h.chmap.bind fun p => if p.2 = 0 then none else some p.1 }

end Sf.MetaXS
