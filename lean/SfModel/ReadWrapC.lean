/-
  SfModel.ReadWrapC — the end-of-data clamp of the eight read wrappers with the C's 64-bit arithmetic made explicit.

  `Sf.ReadWrap.readTail` (SfModel/ReadWrap.lean) compares the codec's item count with `(frames - rc) * ch` over the
  unbounded integers.  The C computes that product in `sf_count_t` (int64).  For a header that announces about
  2^63 / ch frames or more the product wraps — found by the thorough tier of C03 on a damaged W64 file, see
  findings/kf_c03_read_clamp_overflow.txt.  This file states both C shapes:

  * `readTailOldC` — the code between fc49efc and 58598c2: `if (count <= (frames - rc) * ch)` with the wrap;
  * `readTailC`    — the repaired code: `if (frames - rc >= requested_frames || count <= (frames - rc) * ch)`,
                     where the product is only formed when fewer than the requested frames remain.

  SfProps/C03Clamp.lean proves `readTailC = readTail` for every call inside the API contract (so the theorems about
  `readTail` are theorems about the repaired C), and exhibits the call on which `readTailOldC` leaves the buffer.
-/
import SfModel.ReadWrap
namespace Sf.ReadWrap

/-- frames requested by the call: `frames` for sf_readf_X, `len / channels` for sf_read_X -/
def reqFrames (h : H) (k : Kind) (n : Int) : Int :=
  match k with
  | .items => Int.tdiv n h.ch
  | .frames => n

/-- `(psf->sf.frames - psf->read_current) * psf->sf.channels` as the C computes it -/
def remItemsC (h : H) : Int := wrapS 64 ((h.frames - h.rc) * h.ch)

private def tailWith (h : H) (k : Kind) (n : Int) (codecRet : Int) (inside : Bool) : ROut :=
  let cap := capacity h k n
  let count := codecRet
  if inside then
    { ret := (match k with | .items => wholeItems count h.ch | .frames => Int.tdiv count h.ch),
      asked := some cap, h := { h with rc := h.rc + Int.tdiv count h.ch, lastOpRead := wholeOk count h.ch, err := 0 } }
  else
    let c2 := remItemsC h
    { ret := (match k with | .items => wholeItems c2 h.ch | .frames => Int.tdiv c2 h.ch),
      asked := some cap, zeroed := [(c2, cap - c2)], h := { h with rc := h.frames, lastOpRead := wholeOk c2 h.ch, err := 0 } }

/-- the clamp as written between fc49efc and 58598c2 -/
def readTailOldC (h : H) (k : Kind) (n : Int) (codecRet : Int) : ROut :=
  tailWith h k n codecRet (decide (codecRet ≤ remItemsC h))

/-- the repaired clamp (58598c2) -/
def readTailC (h : H) (k : Kind) (n : Int) (codecRet : Int) : ROut :=
  tailWith h k n codecRet (decide (h.frames - h.rc ≥ reqFrames h k n ∨ codecRet ≤ remItemsC h))

theorem readTailOldC_def (h : H) (k : Kind) (n c : Int) :
    readTailOldC h k n c = tailWith h k n c (decide (c ≤ remItemsC h)) := rfl

theorem readTailC_def (h : H) (k : Kind) (n c : Int) :
    readTailC h k n c = tailWith h k n c (decide (h.frames - h.rc ≥ reqFrames h k n ∨ c ≤ remItemsC h)) := rfl

theorem tailWith_true (h : H) (k : Kind) (n c : Int) :
    tailWith h k n c true =
      { ret := (match k with | .items => wholeItems c h.ch | .frames => Int.tdiv c h.ch), asked := some (capacity h k n),
        h := { h with rc := h.rc + Int.tdiv c h.ch, lastOpRead := wholeOk c h.ch, err := 0 } } := rfl

theorem tailWith_false (h : H) (k : Kind) (n c : Int) :
    tailWith h k n c false =
      { ret := (match k with | .items => wholeItems (remItemsC h) h.ch | .frames => Int.tdiv (remItemsC h) h.ch), asked := some (capacity h k n),
        zeroed := [(remItemsC h, capacity h k n - remItemsC h)],
        h := { h with rc := h.frames, lastOpRead := wholeOk (remItemsC h) h.ch, err := 0 } } := rfl

end Sf.ReadWrap
