/-
  SfModel.G711 — ITU-T G.711 µ-law / A-law.

  Two layers:
  * `Spec.*`   : the published definition (segment / step formulas, 14-bit and 13-bit magnitudes),
                 written from the Recommendation, not from libsndfile's tables.
  * lib-shaped : the entry points of ulaw.c / alaw.c for the four caller sample types, which index a
                 table with `x / 4`, `x >> 18`, `lrint (normfact * x)` &c.  The table itself is
                 `Generated.G711Tables` (obtained from the running library on every check run) and
                 `SfProps.C20` proves it equal to the spec.
-/
import SfModel.Basic
import SfModel.Float
namespace Sf.G711

/-- index of the first segment end ≥ v, or 8 -/
def segIdx (v : Nat) : List Nat → Nat
  | [] => 0
  | e :: es => if v ≤ e then 0 else 1 + segIdx v es

/-! ### µ-law -/

/-- G.711 µ-law expansion to a 16-bit linear value (14-bit magnitude scaled by 4, bias 0x84). -/
def ulawDecode (c : Nat) : Int :=
  let u := 255 - c % 256                    -- one's complement
  let t := (((u % 16) * 8 + 0x84) * 2 ^ ((u / 16) % 8) : Nat)
  if u ≥ 128 then (0x84 : Int) - t else (t : Int) - 0x84

/-- µ-law compression of a non-negative 14-bit magnitude `m` (bias 33, clip 8158), sign bit "positive". -/
def ulawEncMag (m : Nat) : Nat :=
  let m := (if m > 8158 then 8158 else m) + 33
  let s := segIdx m [0x3F, 0x7F, 0xFF, 0x1FF, 0x3FF, 0x7FF, 0xFFF, 0x1FFF]
  if s ≥ 8 then 0x80 else 255 - (s * 16 + (m / 2 ^ (s + 1)) % 16)

/-- G.711 µ-law compression of a 16-bit linear sample (the Recommendation works on x/4). -/
def ulawEncode (x : Int) : Nat :=
  if x ≥ 0 then ulawEncMag (x / 4).toNat else (ulawEncMag ((-x) / 4).toNat) % 128

/-! ### A-law -/

def alawDecode (c : Nat) : Int :=
  let a := Nat.xor (c % 256) 0x55
  let m := (a % 16) * 16
  let s := (a / 16) % 8
  let t : Nat := if s = 0 then m + 8 else if s = 1 then m + 0x108 else (m + 0x108) * 2 ^ (s - 1)
  if a ≥ 128 then (t : Int) else - (t : Int)

/-- A-law compression of a non-negative 12-bit magnitude (x/16), sign "positive" (mask 0xD5). -/
def alawEncMag (m : Nat) : Nat :=
  let s := segIdx m [0xF, 0x1F, 0x3F, 0x7F, 0xFF, 0x1FF, 0x3FF, 0x7FF]
  if s ≥ 8 then Nat.xor 0x7F 0xD5
  else Nat.xor (s * 16 + (if s < 2 then m % 16 else (m / 2 ^ (s - 1)) % 16)) 0xD5

def alawEncode (x : Int) : Nat :=
  if x ≥ 0 then alawEncMag (x / 16).toNat else (alawEncMag ((-x) / 16).toNat) % 128

/-! ### lib-shaped entry points (ulaw.c / alaw.c `*_array` functions) -/

structure Law where
  dec    : Nat → Int       -- 256-entry decode table
  encTab : Nat → Nat       -- encode table (8193 / 2049 entries)
  shift  : Nat             -- 2 for µ-law (x/4), 4 for A-law (x/16)

def ulaw : Law := ⟨ulawDecode, ulawEncMag, 2⟩
def alaw : Law := ⟨alawDecode, alawEncMag, 4⟩

/-- `s2ulaw_array` / `s2alaw_array`: `x / 4` is C truncating division, `x / -4` likewise. -/
def Law.encS16 (l : Law) (x : Int) : Nat :=
  if x ≥ 0 then l.encTab (Int.tdiv x (2 ^ l.shift)).toNat
  else (l.encTab (Int.tdiv x (-(2 ^ l.shift))).toNat) % 128

/-- `i2ulaw_array`: INT_MIN special case (it cannot be negated: the magnitude of INT_MAX is looked up, with the sign mask every
    other negative sample gets), `x >> 18` / `-x >> 18`. -/
def Law.encS32 (l : Law) (x : Int) : Nat :=
  if x = -2147483648 then (l.encTab (asr 2147483647 (16 + l.shift)).toNat) % 128
  else if x ≥ 0 then l.encTab (asr x (16 + l.shift)).toNat
  else (l.encTab (asr (-x) (16 + l.shift)).toNat) % 128

/-- the rule before the repair of KF-G711-INTMIN-SIGN: the INT_MIN case forgot the sign mask, so the most negative int was
    stored as the most POSITIVE code -/
def Law.encS32Old (l : Law) (x : Int) : Nat :=
  if x = -2147483648 then l.encTab (asr 2147483647 (16 + l.shift)).toNat
  else if x ≥ 0 then l.encTab (asr x (16 + l.shift)).toNat
  else (l.encTab (asr (-x) (16 + l.shift)).toNat) % 128

/-- float/double entry: the caller supplies `r = lrint (normfact * x)` (see `Sf.Float`); sign from x. -/
def Law.encRounded (l : Law) (nonneg : Bool) (r : Int) : Nat :=
  if nonneg then l.encTab r.toNat else (l.encTab (-r).toNat) % 128

def Law.decS16 (l : Law) (c : Nat) : Int := l.dec c
/-- `((uint32_t) table[c]) << 16` reinterpreted as int -/
def Law.decS32 (l : Law) (c : Nat) : Int := wrapS 32 (l.dec c * 65536)

/-! float / double entry points (`f2ulaw_array`, `d2ulaw_array`, `ulaw2f_array`, …) -/
open Sf.Float in
/-- normfact of the write path: `0.25 * 0x7FFF` (µ-law), `0x7FFF / 16` (A-law) when normalising, else 1/4, 1/16.
    All four constants are exactly representable in binary32. -/
def Law.wNormfact (l : Law) (norm : Bool) : Dy :=
  if norm then ⟨false, 0x7FFF, -(l.shift : Int)⟩ else ⟨false, 1, -(l.shift : Int)⟩

open Sf.Float in
/-- `buffer[i] = (ptr[i] >= 0) ? enc[lrint (normfact * ptr[i])] : 0x7F & enc[- lrint (normfact * ptr[i])]`;
    the product is formed in the caller's type `f` and rounded there. `x` is a finite bit pattern. -/
def Law.encFloat (l : Law) (f : Fmt) (v : Variant) (norm : Bool) (x : Nat) : Nat :=
  let xd := f.toDy x
  let prod := f.toDy (f.ofDy ((l.wNormfact norm).mul xd))
  l.encRounded xd.nonneg (lrintInt v prod)

open Sf.Float in
/-- read path: `normfact * table[c]` with normfact = 1/0x8000 or 1 — exact in both formats -/
def Law.decFloat (l : Law) (f : Fmt) (norm : Bool) (c : Nat) : Nat :=
  let d := Dy.ofInt (l.dec c)
  f.ofDy (if norm then ⟨d.neg, d.m, -15⟩ else d)

end Sf.G711
