/-
  SfModel.Sds — MIDI Sample Dump Standard (sds.c): 127-byte packets
      F0 7E 00 02 <packet number & 0x7F> <120 data bytes> <checksum> F7
  holding 60 / 40 / 30 samples of 2 / 3 / 4 seven-bit bytes (most significant first, offset binary), the
  21-byte header, and the close-time padding + header rewrite.
-/
import SfModel.Block
import SfModel.BlockConv
namespace Sf.Sds
open Sf.Block Sf.Float

def blockSize : Nat := 127
def dataOffset : Nat := 21

/-- bytes per sample for a bit width (sds_init) -/
def widthOf (bitwidth : Nat) : Nat := if bitwidth < 14 then 2 else if bitwidth < 21 then 3 else 4
def spbOf (w : Nat) : Nat := 120 / w

/-- `sample += 0x80000000 ; (sample >> 25) & 0x7F, (sample >> 18) & 0x7F, …` : the first `w` seven-bit groups -/
def encSample (w : Nat) (x : Int) : List Byte :=
  let u := wrapU 32 (x + 2147483648)
  ([u / 2 ^ 25 % 128, u / 2 ^ 18 % 128, u / 2 ^ 11 % 128, u / 2 ^ 4 % 128]).take w

/-- `(b0 << 25) | (b1 << 18) | …  - 0x80000000` (data bytes of a packet are 7-bit, so `|` is `+`) -/
def decSample (bs : List Byte) : Int :=
  let u : Nat := bs.getD 0 0 * 2 ^ 25 + bs.getD 1 0 * 2 ^ 18 + bs.getD 2 0 * 2 ^ 11 + bs.getD 3 0 * 2 ^ 4
  wrapS 32 ((u : Int) - 2147483648)

def xorAll (bs : List Byte) : Nat := bs.foldl Nat.xor 0

/-- checksum: 0x7E xor bytes 2 … 124, masked to 7 bits -/
def checksum (body : List Byte) : Byte := (Nat.xor 0x7E (xorAll body)) % 128

/-- `sds_Nbyte_write`: encoder state = packet counter (`write_block`) -/
def encBlock (w : Nat) (pkt : Nat) (buf : List Int) : Nat × List Byte :=
  let body := [0, 2, pkt % 128] ++ buf.flatMap (encSample w)
  (pkt + 1, [0xF0, 0x7E] ++ body ++ [checksum body, 0xF7])

/-- `sds_Nbyte_read` on a whole packet -/
def decBlock (w : Nat) (bytes : List Byte) : List Int :=
  (groups w ((bytes.drop 5).take 120)).map decSample

def writer (w : Nat) : Writer Nat := { spb := spbOf w, ch := 1, enc := encBlock w }

/-- `SDS_INT_TO_3BYTE_ENCODE` written as three little-endian bytes -/
def enc3 (x : Nat) : List Byte := [x % 128, x / 128 % 128, x / 16384 % 128]
def dec3 (bs : List Byte) : Nat := bs.getD 0 0 % 128 + bs.getD 1 0 % 128 * 128 + bs.getD 2 0 % 128 * 16384

/-- `sds_write_header` -/
def header (bitwidth sr totalWritten : Nat) : List Byte :=
  [0xF0, 0x7E, 0, 1, 0, 0, bitwidth] ++ enc3 (1000000000 / sr) ++ enc3 totalWritten ++ [0, 0, 0, 0, 0, 0, 0, 0xF7]

def splitBlocks (bsz : Nat) : Nat → List Byte → List (List Byte)
  | 0, _ => []
  | n + 1, l => let b := l.take bsz; (b ++ List.replicate (bsz - b.length) 0) :: splitBlocks bsz n (l.drop bsz)

/-- reader over a whole file: `frames` from the header's data-length field, packets from offset 21 -/
def reader (file : List Byte) : Reader :=
  let bitwidth := file.getD 6 0
  let w := widthOf bitwidth
  let frames := dec3 ((file.drop 10).take 3)
  let data := file.drop dataOffset
  let nb := (data.length + blockSize - 1) / blockSize
  let blocks := (splitBlocks blockSize nb data).toArray
  { spb := spbOf w, ch := 1, frames := frames,
    src := fun k => if k * spbOf w ≥ frames then zeros (spbOf w) else decBlock w (blocks.getD k (List.replicate blockSize 0)) }

/-! caller types (bitwidth = the header's bit width: 8, 16, 24 for files the library writes) -/

def ofCaller (bitwidth : Nat) (c : Conv) (ty : Ty) (v : Int) : Int :=
  match ty with
  | .s16 => v * 65536
  | .s32 => v
  | .f32 => truncInt (mulNf f32 (if c.normF then pow2 31 else pow2 bitwidth) v.toNat)
  | .f64 => truncInt (mulNf f64 (if c.normD then pow2 31 else pow2 bitwidth) v.toNat)

def toCaller (bitwidth : Nat) (c : Conv) (ty : Ty) (v : Int) : Int :=
  match ty with
  | .s16 => asr v 16
  | .s32 => v
  | .f32 => intTimes f32 (if c.normF then pow2 (-31) else pow2 (-(bitwidth : Int))) v
  | .f64 => intTimes f64 (if c.normD then pow2 (-31) else pow2 (-(bitwidth : Int))) v

def chunkOf (ty : Ty) : Nat := if ty = .s32 then 0 else 2048

end Sf.Sds
