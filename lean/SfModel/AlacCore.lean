/-
  SfModel.AlacCore — the ALAC codec core: packet syntax of `alac_decode` (src/ALAC/alac_decoder.c), the uncompressed
  ("escape") elements on both sides (alac_decoder.c, alac_encoder.c EncodeMono / EncodeStereoEscape, the element layout
  `sChannelMaps` of `alac_encode`) and the output conversions of matrix_dec.c the decoder ends every element with.
  The compressed elements are in SfModel/AlacAg.lean (ag_dec.c), AlacDp.lean (dp_dec.c), AlacMatrix.lean (matrix_dec.c)
  and are plugged in here (`decCompMono`, `decCompPair`).

  Integers are C `int32_t` kept as `Int` with explicit wrap (`w32`, `shl32`); caller samples are the left justified ints
  of src/alac.c (`plac->buffer`: the 16 / 20 / 24 / 32 significant bits at the top of the word).

  A decoded channel is a list of samples; the interleaved `sampleBuffer` of the C code is the list of channels (`written`,
  in channel order — the channel index only grows) laid over what the buffer held before (`applyOut`): alac.c never clears
  `plac->buffer`, and an element may write fewer samples than the last element's `numSamples` says.

  The four repairs of round 4 each keep their old rule (`Rules`): `encPair20Width` (3f07ef6), `encPair24Stale` (c268302),
  `decPairVShift` (210ad67), `decMono32Shl8` (5323441).
-/
import SfModel.AlacBits
namespace Sf.AlacCore

/-- ALACSpecificConfig (the 'kuki' chunk) as the decoder uses it -/
structure Config where
  bitDepth    : Nat
  numChannels : Nat
  pb          : Nat := 40
  mb          : Nat := 10
  kb          : Nat := 14
  maxRun      : Nat := 255
deriving Repr, DecidableEq

/-- the variants of the code before / after the round 4 repairs -/
structure Rules where
  encPair20Width : Nat  := 20       -- EncodeStereoEscape, 20 bit: width handed to BitBufferWrite (16 before 3f07ef6)
  encPair24Stale : Bool := false    -- EncodeStereoEscape, 24 bit: mix24 (mixres 0, no shift) stored nothing, the caller wrote the stale buffers `>> 8` (before c268302)
  decPairVShift  : Bool := true     -- alac_decode, escaped pair above 16 bits: the V sample's first 16 bits are moved up by 16 (not before 210ad67)
  decMono32Shl8  : Bool := false    -- copyPredictorTo32 shifted left by 8 (before 5323441)
deriving Repr, DecidableEq

def Rules.current : Rules := {}

inductive Status
  | ok | paramError | unsupportedElement | numSamplesTooBig
  | unmodelled          -- outside the model's domain (the C code's behaviour is undefined there, e.g. a shift by 32 or more)
deriving Repr, DecidableEq

def Status.code : Status → Int
  | .ok => 0 | .paramError => -50 | .unsupportedElement => -666 | .numSamplesTooBig => -668 | .unmodelled => 1

/-- kALACDefaultFramesPerPacket -/
def frameLen : Nat := 4096

/-! ## element tags -/
def ID_SCE : Nat := 0
def ID_CPE : Nat := 1
def ID_CCE : Nat := 2
def ID_LFE : Nat := 3
def ID_DSE : Nat := 4
def ID_PCE : Nat := 5
def ID_FIL : Nat := 6
def ID_END : Nat := 7

/-! ## uncompressed samples (decoder) -/

/-- one sample of an uncompressed element, `cb` = chanBits wide: up to 16 bits in one read and `(val << shift) >> shift`;
    above, 16 bits, `arith_shift_left (val, 16) >> shift`, then the remaining `cb - 16` bits or-ed in (the low `cb - 16`
    bits of the first term are zero: the `|` is an addition) -/
def rdEscSample (cb : Nat) (r : Rd) : Int × Rd :=
  if cb ≤ 16 then
    let (v, r1) := r.read cb
    (sext cb v, r1)
  else
    let (hi, r1) := r.read 16
    let (lo, r2) := r1.read (cb - 16)
    (asr (shl32 hi 16) (32 - cb) + lo, r2)

/-- the V sample of an escaped pair before 210ad67: `val = ((uint32_t) val) >> shift` without the `<< 16` -/
def rdEscSampleVOld (cb : Nat) (r : Rd) : Int × Rd :=
  if cb ≤ 16 then rdEscSample cb r
  else
    let (hi, r1) := r.read 16
    let (lo, r2) := r1.read (cb - 16)
    (w32 (((hi >>> (32 - cb)) ||| lo : Nat) : Int), r2)

def rdMonoEsc (cb : Nat) : Nat → Rd → List Int × Rd
  | 0, r => ([], r)
  | n + 1, r =>
    let (v, r1) := rdEscSample cb r
    let (vs, r2) := rdMonoEsc cb n r1
    (v :: vs, r2)

def rdPairEsc (ru : Rules) (cb : Nat) : Nat → Rd → List Int × List Int × Rd
  | 0, r => ([], [], r)
  | n + 1, r =>
    let (u, r1) := rdEscSample cb r
    let (v, r2) := if ru.decPairVShift then rdEscSample cb r1 else rdEscSampleVOld cb r1
    let (us, vs, r3) := rdPairEsc ru cb n r2
    (u :: us, v :: vs, r3)

/-- `n` fields of `w` bits (the shifted-off low bytes, `mShiftBuffer`) -/
def rdFields (w : Nat) : Nat → Rd → List Nat × Rd
  | 0, r => ([], r)
  | n + 1, r =>
    let (v, r1) := r.read w
    let (vs, r2) := rdFields w n r1
    (v :: vs, r2)

/-! ## output conversion (matrix_dec.c copyPredictorTo*, the mixres = 0 branches of unmix*) -/

/-- one channel of the mix buffer into caller ints; `sh` = the shifted-off low bits of each sample (empty when
    bytesShifted = 0); `none` = a bit depth the `switch` does not know: nothing is stored -/
def outChan (ru : Rules) (depth bytesShifted : Nat) (mix : List Int) (sh : List Nat) : Option (List Int) :=
  if depth = 16 then some (mix.map (shl32 · 16))
  else if depth = 20 then some (mix.map (shl32 · 12))
  else if depth = 24 then
    if bytesShifted ≠ 0 then some (List.zipWith (fun v (s : Nat) => shl32 (w32 (shl32 v (8 * bytesShifted) + s)) 8) mix sh)
    else some (mix.map (shl32 · 8))
  else if depth = 32 then
    if bytesShifted ≠ 0 then some (List.zipWith (fun v (s : Nat) => w32 (shl32 v (8 * bytesShifted) + s)) mix sh)
    else some (if ru.decMono32Shl8 then mix.map (shl32 · 8) else mix)
  else none

/-- the separated-stereo (mixres = 0) output of unmix16 / 20 / 24 / 32: the same per channel, but unmix32 copies -/
def outPair0 (depth bytesShifted : Nat) (u v : List Int) (shU shV : List Nat) : Option (List Int × List Int) :=
  match outChan Rules.current depth bytesShifted u shU, outChan Rules.current depth bytesShifted v shV with
  | some a, some b => some (a, b)
  | _, _ => none

/-! ## the element header -/

structure Hdr where
  bytesShifted : Nat
  escape       : Bool
  numSamples   : Nat
deriving Repr

/-- element instance tag (4), unused header (12, must be 0), headerByte (4): partial frame, bytes shifted (3 is refused),
    escape; a partial frame carries its length in 2 x 16 bits and must be below 4096 -/
def rdHeader (numSamples : Nat) (r : Rd) : Except Status Hdr × Rd :=
  let (_tag, r) := r.read 4
  let (unused, r) := r.read 12
  if unused ≠ 0 then (.error .paramError, r)
  else
    let (hb, r) := r.read 4
    let bytesShifted := hb / 2 % 4
    if bytesShifted = 3 then (.error .paramError, r)
    else
      let escape := hb % 2 = 1
      if hb / 8 ≠ 0 then
        let (a, r) := r.read 16
        let (b, r) := r.read 16
        let n := a * 65536 + b
        if n < frameLen then (.ok ⟨bytesShifted, escape, n⟩, r) else (.error .numSamplesTooBig, r)
      else (.ok ⟨bytesShifted, escape, numSamples⟩, r)

/-- the compressed elements (plugged in from AlacDec): the reader behind the header ↦ channels as caller ints -/
structure CompDec where
  mono : Config → Hdr → Rd → Except Status (Option (List Int)) × Rd
  pair : Config → Hdr → Rd → Except Status (Option (List Int × List Int)) × Rd

/-- result of one audio element -/
inductive ElemRes
  | done (numSamples : Nat) (chans : List (List Int)) (r : Rd)     -- a channel that was not stored is `[]`
  | fail (st : Status) (r : Rd)

/-- ID_SCE / ID_LFE -/
def decMono (cd : CompDec) (ru : Rules) (cfg : Config) (numSamples : Nat) (r : Rd) : ElemRes :=
  match rdHeader numSamples r with
  | (.error st, r) => .fail st r
  | (.ok h, r) =>
    if h.escape then
      let cb := cfg.bitDepth - 8 * h.bytesShifted
      let (mix, r) := rdMonoEsc cb h.numSamples r
      .done h.numSamples [(outChan ru cfg.bitDepth 0 mix []).getD []] r
    else
      match cd.mono cfg h r with
      | (.error st, r) => .fail st r
      | (.ok o, r) => .done h.numSamples [o.getD []] r

/-- ID_CPE -/
def decPair (cd : CompDec) (ru : Rules) (cfg : Config) (numSamples : Nat) (r : Rd) : ElemRes :=
  match rdHeader numSamples r with
  | (.error st, r) => .fail st r
  | (.ok h, r) =>
    if h.escape then
      let (u, v, r) := rdPairEsc ru cfg.bitDepth h.numSamples r
      match outPair0 cfg.bitDepth 0 u v [] [] with
      | some (a, b) => .done h.numSamples [a, b] r
      | none => .done h.numSamples [[], []] r
    else
      match cd.pair cfg h r with
      | (.error st, r) => .fail st r
      | (.ok (some (a, b)), r) => .done h.numSamples [a, b] r
      | (.ok none, r) => .done h.numSamples [[], []] r

/-- `alac_fill_element`: 4-bit count, 15 = escape to 15 + (8-bit count) - 1 bytes; the bytes are skipped -/
def decFill (byteSize : Nat) (r : Rd) : Status × Rd :=
  let (c, r) := r.read 4
  let (count, r) := if c = 15 then (let (e, r) := r.read 8; (15 + e - 1, r)) else (c, r)
  let r := r.advance (count * 8)
  -- `bits->cur <= bits->end`
  (if r.curByte ≤ byteSize then .ok else .paramError, r)

/-- `alac_data_stream_element` -/
def decDse (byteSize : Nat) (r : Rd) : Status × Rd :=
  let (_, r) := r.read 4
  let (align, r) := r.read 1
  let (c, r) := r.read 8
  let (count, r) := if c = 255 then (let (e, r) := r.read 8; (255 + e, r)) else (c, r)
  let r := if align ≠ 0 then r.byteAlign else r
  let r := r.advance (count * 8)
  (if r.curByte ≤ byteSize then .ok else .paramError, r)

/-- what `alac_decode` leaves behind -/
structure Res where
  status  : Status
  outNum  : Nat                 -- *outNumSamples
  written : List (List Int)     -- per channel, in channel order: the samples stored in sampleBuffer (a prefix of the channel)
  pos     : Nat                 -- bit position of the reader at the exit
deriving Repr

structure St where
  r          : Rd
  numSamples : Nat
  outNum     : Nat
  written    : List (List Int)     -- channels decoded so far

/-- `NoMoreChannels:` the remaining channels are zero filled over `numSamples` frames -/
def zeroFill (numChannels numSamples : Nat) (written : List (List Int)) : List (List Int) :=
  written ++ List.replicate (numChannels - written.length) (List.replicate numSamples 0)

/-- the `while (status == ALAC_noErr)` loop; every round consumes at least the 3 tag bits while `cur < end` -/
def decLoop (cd : CompDec) (ru : Rules) (cfg : Config) (byteSize : Nat) : Nat → St → Res
  | 0, s => ⟨.paramError, s.outNum, s.written, s.r.pos⟩
  | fuel + 1, s =>
    if s.r.curByte ≥ byteSize then ⟨.paramError, s.outNum, s.written, s.r.pos⟩         -- ran off the end of the buffer
    else
      let (tag, r) := s.r.read 3
      let audio (e : ElemRes) : Res :=
        match e with
        | .fail st r => ⟨st, s.outNum, s.written, r.pos⟩
        | .done n chans r =>
          let s1 : St := ⟨r, n, n, s.written ++ chans⟩
          if s1.written.length ≥ cfg.numChannels then ⟨.ok, n, zeroFill cfg.numChannels n s1.written, r.pos⟩
          else decLoop cd ru cfg byteSize fuel s1
      let skip (x : Status × Rd) : Res :=
        if x.1 ≠ .ok then ⟨x.1, s.outNum, zeroFill cfg.numChannels s.numSamples s.written, x.2.pos⟩
        else if s.written.length ≥ cfg.numChannels then ⟨.ok, s.outNum, zeroFill cfg.numChannels s.numSamples s.written, x.2.pos⟩
        else decLoop cd ru cfg byteSize fuel { s with r := x.2 }
      if tag = ID_SCE ∨ tag = ID_LFE then audio (decMono cd ru cfg s.numSamples r)
      else if tag = ID_CPE then
        if s.written.length + 2 > cfg.numChannels then ⟨.ok, s.outNum, zeroFill cfg.numChannels s.numSamples s.written, r.pos⟩
        else audio (decPair cd ru cfg s.numSamples r)
      else if tag = ID_CCE ∨ tag = ID_PCE then
        ⟨.unsupportedElement, s.outNum, zeroFill cfg.numChannels s.numSamples s.written, r.pos⟩
      else if tag = ID_DSE then skip (decDse byteSize r)
      else if tag = ID_FIL then skip (decFill byteSize r)
      else ⟨.ok, s.outNum, s.written, r.byteAlign.pos⟩                                 -- ID_END: `goto Exit`

/-- `alac_decode (p, bits, sampleBuffer, numSamples, &outNumSamples)` on the byte buffer `image` = the packet followed
    by what the buffer held behind it; `byteSize` = the packet size handed to BitBufferInit -/
def decodeWith (cd : CompDec) (ru : Rules) (cfg : Config) (image : List Byte) (byteSize numSamples : Nat) : Res :=
  if cfg.numChannels = 0 then ⟨.paramError, 0, [], 0⟩          -- kALAC_ZeroChannelCount, *outNumSamples untouched
  else decLoop cd ru cfg byteSize (3 * byteSize + 1) ⟨Rd.ofBytes image, numSamples, numSamples, []⟩

/-- lay the written channel prefixes over the previous content of `plac->buffer` (per channel) -/
def applyOut (old : List (List Int)) (numChannels : Nat) (written : List (List Int)) : List (List Int) :=
  (List.range numChannels).map fun c =>
    let w := written.getD c []
    w ++ (old.getD c []).drop w.length

/-- the first `n` frames of a buffer kept per channel (missing samples are the zeros of calloc) -/
def transpose : Nat → List (List Int) → List (List Int)
  | 0, _ => []
  | n + 1, chans => chans.map (·.headD 0) :: transpose n (chans.map List.tail)

/-- the frames alac.c hands out after a decode into a cleared buffer -/
def Res.frames (res : Res) (numChannels : Nat) : List (List Int) :=
  transpose res.outNum (applyOut [] numChannels res.written)

/-! ## the encoder's uncompressed elements -/

/-- one sample of an escape element: `inputBuffer [i] >> (32 - depth)` written in `depth` bits -/
def escSampleBits (depth width : Nat) (x : Int) : Bits := bitsOf (wrapU 32 (asr x (32 - depth))) width

def escHeaderBits (numSamples : Nat) : Bits :=
  let partialFrame := numSamples ≠ frameLen
  bitsOf 0 12 ++ bitsOf ((if partialFrame then 8 else 0) + 1) 4 ++ (if partialFrame then bitsOf numSamples 32 else [])

/-- the escape branch of EncodeMono -/
def encMonoEsc (depth numSamples : Nat) (xs : List Int) : Bits :=
  escHeaderBits numSamples ++ xs.flatMap (escSampleBits depth depth)

/-- EncodeStereoEscape; `stale` = what mMixBufferU / V held (only read by the 24-bit rule before c268302) -/
def encPairEsc (ru : Rules) (depth numSamples : Nat) (ls rs : List Int) (stale : List Int × List Int) : Bits :=
  escHeaderBits numSamples ++
    (if depth = 24 ∧ ru.encPair24Stale then
      (List.zip (stale.1.take numSamples) (stale.2.take numSamples)).flatMap fun (u, v) =>
        bitsOf (wrapU 32 (asr u 8)) 24 ++ bitsOf (wrapU 32 (asr v 8)) 24
    else
      let w := if depth = 20 then ru.encPair20Width else depth
      (List.zip ls rs).flatMap fun (l, r) => escSampleBits depth w l ++ escSampleBits depth w r)

/-- sChannelMaps [numChannels - 1] -/
def sChannelMaps : List Nat :=
  [ID_SCE, ID_CPE, ID_CPE * 8 + ID_SCE, ID_SCE * 512 + ID_CPE * 8 + ID_SCE, ID_CPE * 512 + ID_CPE * 8 + ID_SCE,
   ID_SCE * 32768 + ID_CPE * 512 + ID_CPE * 8 + ID_SCE, ID_SCE * 262144 + ID_SCE * 32768 + ID_CPE * 512 + ID_CPE * 8 + ID_SCE,
   ID_SCE * 2097152 + ID_CPE * 32768 + ID_CPE * 512 + ID_CPE * 8 + ID_SCE]

/-- `(sChannelMaps [numChannels - 1] & (0x7ul << (channelIndex * 3))) >> (channelIndex * 3)` -/
def tagAt (numChannels channelIndex : Nat) : Nat := sChannelMaps.getD (numChannels - 1) 0 / 8 ^ channelIndex % 8

/-- the element tags of a packet, in order (the loop of `alac_encode`; 1 and 2 channels are its special cases) -/
def layoutAux (numChannels : Nat) : Nat → Nat → List Nat
  | 0, _ => []
  | fuel + 1, c =>
    if c ≥ numChannels then []
    else
      let t := tagAt numChannels c
      t :: layoutAux numChannels fuel (if t = ID_CPE then c + 2 else c + 1)

def layout (numChannels : Nat) : List Nat :=
  if numChannels = 1 then [ID_SCE] else if numChannels = 2 then [ID_CPE] else layoutAux numChannels numChannels 0

/-- channel `c` of a list of frames -/
def chanOf (frames : List (List Int)) (c : Nat) : List Int := frames.map (·.getD c 0)

/-- the elements of a packet in which EVERY element took the escape path: tag (3 bits), instance tag (4 bits; one
    counter per element kind), the element; `mono` / `stereo` = the counters, `c` = channel index; `stale k` = the mix buffers the k-th pair finds (old 24-bit rule only) -/
def encElemsEsc (ru : Rules) (depth : Nat) (frames : List (List Int)) (stale : Nat → List Int × List Int) : List Nat → Nat → Nat → Nat → Bits
  | [], _, _, _ => []
  | t :: ts, c, mono, stereo =>
    if t = ID_CPE then
      bitsOf ID_CPE 3 ++ bitsOf stereo 4 ++ encPairEsc ru depth frames.length (chanOf frames c) (chanOf frames (c + 1)) (stale stereo) ++
        encElemsEsc ru depth frames stale ts (c + 2) mono (stereo + 1)
    else
      bitsOf t 3 ++ bitsOf mono 4 ++ encMonoEsc depth frames.length (chanOf frames c) ++
        encElemsEsc ru depth frames stale ts (c + 1) (mono + 1) stereo

/-- the bits of `alac_encode` when every element is written uncompressed, the END tag included -/
def encodeEscapeBits (ru : Rules) (cfg : Config) (frames : List (List Int)) (stale : Nat → List Int × List Int) : Bits :=
  encElemsEsc ru cfg.bitDepth frames stale (layout cfg.numChannels) 0 0 0 ++ bitsOf ID_END 3

/-- the packet -/
def encodeEscapeWith (ru : Rules) (cfg : Config) (frames : List (List Int)) (stale : Nat → List Int × List Int) : List Byte :=
  pack (encodeEscapeBits ru cfg frames stale)

def encodeEscape (cfg : Config) (frames : List (List Int)) : List Byte := encodeEscapeWith Rules.current cfg frames (fun _ => ([], []))

/-- what a caller value is after the trip: the low `32 - depth` bits cleared -/
def trunc (depth : Nat) (x : Int) : Int := shl32 (asr x (32 - depth)) (32 - depth)

end Sf.AlacCore
