/-
  Sf.RoutesStdio — sf_open ("-") (src/sndfile.c:432, `psf_set_stdio` in src/file_io.c): the handle takes descriptor 0 (SFM_READ) or
  1 (SFM_WRITE) instead of opening a path; SFM_RDWR is refused (SFE_OPEN_PIPE_RDWR).  Nothing else differs from sf_open (path): the same
  psf_open_file follows, virtual_io is off; the descriptor is not the handle's to close (do_not_close_descriptor, see `setStdio`).
-/
import SfModel.Routes
import SfModel.CloseOwn
namespace Sf.RoutesStdio
open Sf Sf.Routes

/-- psf_set_stdio: `none` = the refusal of SFM_RDWR.  The descriptor is the PROCESS's: do_not_close_descriptor is set (repair of
    KF-C14-STDIO-CLOSE; the Windows-API branch of the same function always did) -/
def setStdio : Mode → Option Shim
  | .r => some { mode := .r, filedes := 0, doNotClose := true }
  | .w => some { mode := .w, filedes := 1, doNotClose := true }
  | .rw => none

/-- the rule before the repair: do_not_close_descriptor stayed clear, so psf_fclose closed descriptor 0 / 1 at sf_close and after a failed open -/
def setStdioOld : Mode → Option Shim
  | .r => some { mode := .r, filedes := 0 }
  | .w => some { mode := .w, filedes := 1 }
  | .rw => none

/-- the descriptor number psf_set_stdio installs -/
def stdioFd : Mode → Int
  | .r => 0
  | .w => 1
  | .rw => -1

end Sf.RoutesStdio
