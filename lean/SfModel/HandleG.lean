/-
  SfModel.HandleG — the GENERIC handle machine: `Sf.Handle`'s step function with the container as a PARAMETER.

  `Sf.Handle` (SfModel/Handle.lean) carries RAW, AU and WAV only (`inductive Container`).  Everything in it that is
  not `writeHeader` / `closeHandle` / `openHandle` — the 16 read/write wrappers, sf_seek, the flag commands,
  SFC_FILE_TRUNCATE — is sndfile.c and the codec (pcm.c / float32.c / …), the same code for every container.  Here the
  three container-specific functions are the fields of a record `Cont`; the step functions take it as an argument.

  A container is normally described one level up, by a `Spec`: the header bytes as a function of the handle state
  (`hdr`), the `if (calc_length)` block (`calc`), where `write_header` leaves the file position (`restore`), what
  `<x>_close` appends (`tailer`), whether it rewrites the header, the format check for a new file (`accept`), the
  header parser for an existing one (`parse`), whether SFM_RDWR is allowed.  `Spec.toCont` turns it into a `Cont`
  following the shape every `<x>_open` / `<x>_write_header` / `<x>_close` of libsndfile has:

      <x>_open:          if (mode == READ || (mode == RDWR && filelength > 0)) read_header ;
                         if (mode == WRITE || mode == RDWR) { [start afresh below a minimum length] ; write_header (FALSE) ; }
                         codec init (pcm_init …: datalength and sf.frames from filelength / dataoffset / dataend)
      <x>_write_header:  current = ftell ; if (calc_length) {…} ; seek 0 ; build ; write ; dataoffset = header.indx ; restore
      <x>_close:         tailer ; write_header (TRUE)

  The handle state is `Sf.H` itself (its `container` field is not looked at by the generic machine), the reading side
  (`Sf.stepRead`), `Sf.stepSeek` and `Sf.stepTruncate` are reused as they are: every theorem about them holds for every
  container.  Instances: SfModel/HandleGInst.lean.  Core Lean only; names live in `Sf.HandleG`.
-/
import SfModel.Handle
namespace Sf.HandleG
open Sf

/-! ## level 1: what the step functions need -/

structure Cont where
  name : String
  hasHeader : Bool                                            -- psf->write_header != NULL
  writeHeader : H → Store → Bool → H × Store                  -- psf->write_header (psf, calc_length)
  closeStore : H → Store → Store                              -- container_close (sf_close), any mode
  /-- sf_open: store index, store, mode, SF_INFO.format / channels / samplerate / frames -/
  openH : Nat → Store → Mode → Nat → Int → Int → Int → OpenRes

/-- the `sf_write_*` / `sf_writef_*` wrappers (`Sf.stepWrite` with the container's `write_header`) -/
def stepWrite (c : Cont) (h : H) (s : Store) (ty : Ty) (frameCall : Bool) (n : Int) (data : List Int) : H × Store × Out :=
  if n == 0 then (h, s, { ret := 0, err := h.error }) else
  let h := { h with error := 0 }
  let len : Int := if frameCall then n * h.ch else n
  if n < 0 then ({ h with error := E_NEG_LEN }, s, { ret := 0, err := E_NEG_LEN }) else
  if h.mode == .r then ({ h with error := E_NOT_WRITEMODE }, s, { ret := 0, err := E_NOT_WRITEMODE }) else
  if !frameCall ∧ len % h.ch != 0 then ({ h with error := E_BAD_ALIGN }, s, { ret := 0, err := E_BAD_ALIGN }) else
  let s := if h.lastOp != .w then defaultSeek h s h.wpos else s
  let (h, s) := if !h.haveWritten ∧ c.hasHeader then c.writeHeader h s false else (h, s)
  let h := { h with haveWritten := true }
  let vals := data.take len.toNat
  let peak := peakUpdate h ty vals
  let s := s.write (h.enc.encodeAll h.conv ty vals)
  let count := len
  let wpos := h.wpos + count / h.ch
  let h := { h with wpos := wpos, lastOp := .w, peak := peak }
  let h := if wpos > h.frames then { h with frames := wpos, dataend := 0 } else h
  let (h, s) := if h.autoHeader ∧ c.hasHeader then c.writeHeader h s true else (h, s)
  (h, s, { ret := if frameCall then count / h.ch else count, err := 0 })

/-- sf_command for the commands that carry their argument in `datasize` (`Sf.stepCmdFlag`) -/
def stepCmdFlag (c : Cont) (h : H) (s : Store) (cmd : Nat) (size : Int) : H × Store × Out :=
  let h := { h with error := 0 }
  let b := size != 0
  let ofB (x : Bool) : Int := if x then 1 else 0
  match cmd with
  | 0x1013 => ({ h with conv := { h.conv with normF := b } }, s, { ret := ofB h.conv.normF })
  | 0x1012 => ({ h with conv := { h.conv with normD := b } }, s, { ret := ofB h.conv.normD })
  | 0x1011 => (h, s, { ret := ofB h.conv.normF })
  | 0x1010 => (h, s, { ret := ofB h.conv.normD })
  | 0x10C0 => ({ h with conv := { h.conv with clip := b } }, s, { ret := ofB b })
  | 0x10C1 => (h, s, { ret := ofB h.conv.clip })
  | 0x1015 => ({ h with conv := { h.conv with scaleIF := b } }, s, { ret := ofB h.conv.scaleIF })
  | 0x1061 => ({ h with autoHeader := b }, s, { ret := ofB b })
  | 0x1060 =>
    let (h, s) := if h.mode != .r ∧ c.hasHeader then c.writeHeader h s true else (h, s)
    (h, s, { ret := 0 })
  | _ => (h, s, { ret := 0, err := 0 })

/-- one operation on an open handle (`Sf.stepAny`) -/
def stepAny (c : Cont) (h : H) (s : Store) : Op → H × Store × Out
  | .read _ ty fc n => stepRead h s ty fc n
  | .write _ ty fc n data => stepWrite c h s ty fc n data
  | .seek _ off whence => stepSeek h s off whence
  | .cmdFlag _ cmd size => stepCmdFlag c h s cmd size
  | .truncate _ f => stepTruncate h s f
  | .close _ => (h, c.closeStore h s, {})

def runOps (c : Cont) (h : H) (s : Store) : List Op → H × Store
  | [] => (h, s)
  | op :: ops => runOps c (stepAny c h s op).1 (stepAny c h s op).2.1 ops

/-! ## level 2: a container described by its header -/

/-- result of the format check for a new file -/
inductive Accept
  | ok (enc : Enc) (big : Bool)
  | refuse                       -- sf_open returns NULL
  | unmodelled
deriving Repr

/-- result of the header parser: `Sf.Parsed` and the sample encoding the codec init selects -/
inductive ParseG
  | ok (p : Parsed) (enc : Enc)
  | err
  | unmodelled
deriving Repr

structure Spec where
  name : String
  /-- value of the (unused) `container` field of the handles this container opens -/
  tag : Container := .raw
  hasHeader : Bool := true
  /-- sf_format_check and the container's own tests on SF_INFO (format, channels, samplerate) of a new file -/
  accept : Nat → Int → Int → Accept
  /-- SFM_RDWR is accepted -/
  rdwr : Bool := true
  /-- SFM_RDWR on an existing file is described by this model (AIFF patches the old header in place: not modelled) -/
  rdwrExisting : Bool := true
  /-- `write_header` returns at once when the file position is here (PAF: at or behind the header length) -/
  skipAt : Nat → Bool := fun _ => false
  /-- SFM_RDWR on a file shorter than this starts afresh (`filelength < 44` …); `none`: no such test -/
  minLen : Option Int := none
  /-- the caller's SF_INFO.frames is cleared before the first header -/
  zeroFrames : Bool := true
  /-- what `<x>_open` does to the fresh handle before the first header -/
  initW : H → H := id
  /-- the header bytes from the handle state (after the `calc_length` block) -/
  hdr : H → List Byte
  /-- the `if (calc_length)` block: handle, file length -/
  recalc : H → Int → H
  /-- `psf->dataoffset` after the header was written (handle, header length) -/
  offAfter : H → Nat → Int := fun _ n => n
  /-- where the file position is put back: position before, handle before, handle after, store after the write -/
  restore : Nat → H → H → Store → Store
  /-- what `<x>_close` does before the closing header rewrite -/
  tailer : H → Store → H × Store := fun h s => (h, s)
  closeHdr : Bool := true
  /-- header parser (sf_open on an existing file): SF_INFO as given by the caller (only RAW looks at it), file bytes -/
  parse : Nat → Int → Int → List Byte → ParseG
  /-- file position `<x>_read_header` leaves behind -/
  posAfter : Parsed → Nat := fun p => p.dataoffset

/-- `<x>_write_header (psf, calc_length)` -/
def Spec.writeHeader (sp : Spec) (h : H) (s : Store) (calcLen : Bool) : H × Store :=
  if !sp.hasHeader then (h, s) else
  let cur := s.pos
  if sp.skipAt cur then (h, s) else
  let h1 := if calcLen then sp.recalc h s.bytes.length else h
  let bytes := sp.hdr h1
  let s1 := (s.seekSet 0).write bytes
  let h2 := { h1 with dataoffset := sp.offAfter h1 bytes.length }
  (h2, sp.restore cur h h2 s1)

/-- `<x>_close` -/
def Spec.closeStore (sp : Spec) (h : H) (s : Store) : Store :=
  if h.mode == .r then s else
  if !sp.hasHeader then s else
  let (h, s) := sp.tailer h s
  if sp.closeHdr then (sp.writeHeader h s true).2 else s

/-- the usual restore rule: `if (current > 0) psf_fseek (psf, current, SEEK_SET)` -/
def restoreCur (cur : Nat) (_h0 _h2 : H) (s : Store) : Store := if cur > 0 then s.seekSet cur else s

/-- wav / aiff: `has_data = current > dataoffset` decided before anything else;
    `if (! has_data) seek dataoffset ; else if (current > 0) seek current` -/
def restoreHasData (cur : Nat) (h0 h2 : H) (s : Store) : Store :=
  if !(decide ((cur : Int) > h0.dataoffset)) then s.seekSet h2.dataoffset.toNat else if cur > 0 then s.seekSet cur else s

/-- caf: `if (current < dataoffset) seek dataoffset ; else if (current > 0) seek current` (the new dataoffset) -/
def restoreCaf (cur : Nat) (_h0 h2 : H) (s : Store) : Store :=
  if (cur : Int) < h2.dataoffset then s.seekSet h2.dataoffset.toNat else if cur > 0 then s.seekSet cur else s

/-- no `psf_ftell` / restore at all -/
def restoreNone (_cur : Nat) (_h0 _h2 : H) (s : Store) : Store := s

/-- the common `calc_length` block: filelength, datalength (less what follows `dataend`), optionally sf.frames -/
def calcStd (setFrames : Bool) (h : H) (fl : Int) : H :=
  let dl := fl - h.dataoffset
  let dl := if h.dataend != 0 then dl - (fl - h.dataend) else dl
  let h := { h with filelength := fl, datalength := dl }
  if setFrames then { h with frames := dl / (h.nb * h.ch : Nat) } else h

/-- the codec init (pcm_init, float32_init, ulaw_init …) and the end of psf_open_file -/
def finishOpen (h : H) : H :=
  let (dl, fr) := initFrames h.dataoffset h.dataend h.filelength h.bw
  { h with datalength := dl, frames := fr, rpos := 0, wpos := if h.mode == .rw then fr else 0,
           haveWritten := h.mode == .rw ∧ fr > 0 }

/-- `sf_open` -/
def Spec.openH (sp : Spec) (ix : Nat) (s : Store) (mode : Mode) (fmt : Nat) (ch sr stale : Int) : OpenRes :=
  let s := s.seekSet 0
  let flen := s.bytes.length
  if mode == .r ∨ (mode == .rw ∧ flen > 0) then
    match sp.parse fmt ch sr s.bytes with
    | .err => .fail s
    | .unmodelled => .unmodelled
    | .ok p enc =>
      if p.sr < 1 then .fail s else
      if mode == .rw ∧ !sp.rdwr then .fail s else
      if mode == .rw ∧ !sp.rdwrExisting then .unmodelled else
      let h : H := { store := ix, mode := mode, container := sp.tag, enc := enc, big := p.big, ch := p.ch, sr := p.sr,
                     fmtWord := p.fmtWord, frames := 0, lastOp := mode, dataoffset := p.dataoffset, datalength := p.datalength,
                     dataend := p.dataend, filelength := p.filelength, peak := p.peak, peakAtStart := p.peakAtStart }
      let s := s.seekSet (sp.posAfter p)
      if mode == .r ∨ !sp.hasHeader then .ok (finishOpen h) s else
      let h := match sp.minLen with
        | some m => if h.filelength < m then { h with filelength := 0, datalength := 0, dataoffset := 0, frames := 0 } else h
        | none => h
      let (h, s) := sp.writeHeader h s false
      .ok (finishOpen h) s
  else
    match sp.accept fmt ch sr with
    | .unmodelled => .unmodelled
    | .refuse => .fail s
    | .ok enc big =>
      if mode == .rw ∧ !sp.rdwr then .fail s else
      let h0 : H := { store := ix, mode := mode, container := sp.tag, enc := enc, big := big, ch := ch.toNat, sr := sr,
                      fmtWord := fmt, frames := if sp.zeroFrames then 0 else stale, lastOp := mode }
      let (h1, s) := sp.writeHeader (sp.initW h0) s false
      .ok (finishOpen h1) s

def Spec.toCont (sp : Spec) : Cont :=
  { name := sp.name, hasHeader := sp.hasHeader, writeHeader := sp.writeHeader, closeStore := sp.closeStore, openH := sp.openH }

end Sf.HandleG
