/-
  Sf.Ledger.Calls — two call-dispatch rules met by the C16 history campaign, each with the rule the library had before its repair.

  * dither.c dither_init: SFC_SET_DITHER_ON_WRITE stores the handle's current write method in the DITHER_DATA block and installs
    the dither wrapper, which calls the stored method.  Old rule: store unconditionally (the wrapper itself when the command is
    repeated, and — for float/double files — already on the first command, because write_int is handled twice).  Current rule:
    store only a method that is not the wrapper.
  * ima_adpcm.c aiff_ima_seek: offset 0 re-reads the first block through `decode_block`, which only a reader has.  Old rule: call it
    whatever the mode.  Current rule: no decoder -> SFE_BAD_SEEK.
-/
namespace Sf.Ledger.Calls

inductive Method | codec | wrapper
  deriving DecidableEq, Repr

/-- one write entry point (short / int / float / double): what the handle calls, and what the wrapper calls in turn -/
structure Slot where
  cur : Method := .codec
  saved : Option Method := none
  deriving DecidableEq, Repr

def installOld (s : Slot) : Slot := { cur := .wrapper, saved := some s.cur }
def installNew (s : Slot) : Slot := if s.cur = .wrapper then s else { cur := .wrapper, saved := some s.cur }
/-- SFD_NO_DITHER: `if (pdither->write_x) psf->write_x = pdither->write_x` -/
def restore (s : Slot) : Slot := match s.saved with | some m => { s with cur := m } | none => s

inductive Cmd | on | off
  deriving DecidableEq, Repr

/-- `twice`: the entry point is handled twice by one command (write_int of a float/double file) -/
def applyCmd (install : Slot → Slot) (twice : Bool) (s : Slot) : Cmd → Slot
  | .on => if twice then install (install s) else install s
  | .off => restore s

def runCmds (install : Slot → Slot) (twice : Bool) (cmds : List Cmd) : Slot :=
  cmds.foldl (applyCmd install twice) {}

/-- number of nested calls one sf_write_* makes before it reaches the codec; `none` = it never does -/
def callDepth (s : Slot) : Option Nat :=
  match s.cur, s.saved with
  | .codec, _ => some 0
  | .wrapper, some .codec => some 1
  | .wrapper, _ => none             -- the wrapper calls the wrapper (or a NULL pointer)

inductive SeekResult | ok | badSeek | callsNull
  deriving DecidableEq, Repr

/-- aiff_ima_seek for offset 0 -/
def aiffImaSeek0Old (_hasDecoder : Bool) (decoderIsNull : Bool) : SeekResult := if decoderIsNull then .callsNull else .ok
def aiffImaSeek0New (_hasDecoder : Bool) (decoderIsNull : Bool) : SeekResult := if decoderIsNull then .badSeek else .ok

end Sf.Ledger.Calls
