/-
  SfModel.ChunkLoop — the chunk loops of svx_read_header, caf_read_header, wav_read_header, rf64_read_header and
  aiff_read_header as they are since the repairs "… looped for ever on a chunk that does not move the parser forward"
  (fixes 0001–0003 of round 4):

      while (! done)
      {   sf_count_t chunk_start = psf_binheader_tell (psf) ;        /* = psf_ftell () - (header.end - header.indx) */
          psf_binheader_readf (psf, "…m4", &marker, &chunk_size) ;
          if (marker == 0) break ;                                    /* wav, rf64, aiff, caf            -> `brk`   */
          switch (marker) { … done = SF_TRUE … }                      /*                                 -> `done`  */
          if (chunk_size >= psf->filelength) break ;                  /* wav, aiff (rf64: non-data)      -> `brk`   */
          if (! psf->sf.seekable && have_data) break ;                /*                                 -> `brk`   */
          if (psf_binheader_tell (psf) <= chunk_start) break ;        /* NEW: the progress rule                     */
          if (psf_ftell (psf) >= psf->filelength - tail) break ;      /* tail = 4 (svx, wav, rf64), 8 (aiff, caf)   */
          }

  and as they were before (`Rule.old`: no progress rule).  What an iteration does is an oracle: iteration k leaves the
  parser at offset `(o k).p` with the file position at `(o k).f`; the file content may ask for an early `break` or set
  `done`.  On a pipe `filelength` is SF_COUNT_MAX.  `none` = still running when the fuel is used up.
-/
namespace Sf.ChunkLoop

def SF_COUNT_MAX : Int := 9223372036854775807

inductive Rule where
  | old        -- before the repair: only the file position can end the loop
  | current    -- an iteration that does not move the parser forward ends it too
deriving Repr, DecidableEq, Inhabited

/-- what one iteration leaves behind -/
structure It where
  /-- psf_binheader_tell (): offset of the next header byte the parser will see -/
  p : Int
  /-- psf_ftell (): position of the descriptor / of the virtual file (the header cache reads ahead: p ≤ f) -/
  f : Int
  /-- one of the `break`s that precede the progress test was taken -/
  brk : Bool := false
  /-- the switch set `done` -/
  done : Bool := false
deriving Repr, DecidableEq, Inhabited

inductive Exit where
  | brk | noProgress | endOfFile | done
deriving Repr, DecidableEq, Inhabited

def Exit.name : Exit → String
  | .brk => "break" | .noProgress => "no-progress" | .endOfFile => "end-of-file" | .done => "done"

/-- `loop r filelength tail o fuel k p` : iterations k, k+1, … starting with the parser at offset p;
    result = (index of the last iteration executed, why the loop was left) -/
def loop (r : Rule) (filelength tail : Int) (o : Nat → It) : Nat → Nat → Int → Option (Nat × Exit)
  | 0, _, _ => none
  | fuel + 1, k, p =>
    let it := o k
    if it.brk then some (k, .brk)
    else if r = .current ∧ it.p ≤ p then some (k, .noProgress)
    else if it.f ≥ filelength - tail then some (k, .endOfFile)
    else if it.done then some (k, .done)
    else loop r filelength tail o fuel (k + 1) it.p

/-- an iteration that changes nothing: end of input on a pipe (nothing can be read, `marker` keeps its value), or a
    chunk whose size field is 0xFFFFFFF8 (the 'j' jump of -8 puts the parser back on the chunk header it has just read) -/
def stuck (p f : Int) : Nat → It := fun _ => { p := p, f := f }

end Sf.ChunkLoop

/-
  caf_read_strings (src/caf.c): the `count` psf_binheader_readf's 'b' conversion sees for an 'info' chunk whose
  string area is n = chunk_size - 4 bytes.  The caller's test `chunk_size > psf->filelength - header.indx` bounds n on a
  regular file only.  Since fix 0004 chunks of more than 100k are refused before anything is allocated.
-/
namespace Sf.CafInfo

inductive Rule where
  | old | current
deriving Repr, DecidableEq, Inhabited

def HEADER_CAP : Int := 102400

/-- `(int) (size_t) n` -/
def asInt (n : Int) : Int := ((n + 2147483648) % 4294967296) - 2147483648

/-- the 'b' count, or `none` when caf_read_strings returns without reading -/
def bCount (r : Rule) (n : Int) : Option Int :=
  match r with
  | .old => some (asInt n)
  | .current => if n > HEADER_CAP then none else some (asInt n)

/-- bytes malloc'ed for the strings (0 when refused) -/
def allocated (r : Rule) (n : Int) : Int :=
  match bCount r n with
  | none => 0
  | some _ => n + 1

end Sf.CafInfo
