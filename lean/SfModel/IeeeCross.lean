/-
  SfModel.IeeeCross — the portable IEEE path (`replace_*` of float32.c / double64.c) through EVERY caller type.

  SfModel.Ieee models `replace_write_f / _d` and `replace_read_f / _d` (the file's own type).  The other twelve entry points
  stage the caller's items as file-typed values first (`s2f_array`, `i2f_array`, `d2f_array`; `s2d_array`, `i2d_array`,
  `f2d_array`) resp. convert the deserialised values afterwards (`f2s_array` / `f2s_clip_array`, `f2i_…`, widening copy;
  `d2s_…`, `d2i_…`, `d2f_array`), with the same `f2bf_array` / `bf2f_array` + byte-swap pass in between.

  `replaceRead64` describes the REPAIRED double64.c: `replace_read_d2f` converts with `d2f_array` (the rule before the repair of
  KF-C20-REPLACE-READ-D2F is `readD2fOld`: the doubles' bytes copied into the float buffer), and the int readers choose the
  clipping converter by `psf->add_clipping` (rule before the repair of KF-C02-REPLACE-CLIP-READ: `deliver32Old` / `deliver64Old`).
  Core Lean only.
-/
import SfModel.Ieee
import SfModel.Pcm
namespace Sf.IeeeCross
open Sf Sf.Float Sf.Ieee

/-- the binary32 staged for one caller item (`s2f_array`, `i2f_array`, copy, `d2f_array`) -/
def stage32 (c : Conv) (ty : Ty) (v : Int) : Nat :=
  match ty with
  | .s16 | .s32 => floatOfInt f32 c.scaleIF ty v
  | .f32 => v.toNat
  | .f64 => f64to32 v.toNat

/-- the binary64 staged for one caller item (`s2d_array`, `i2d_array`, `f2d_array`, copy) -/
def stage64 (c : Conv) (ty : Ty) (v : Int) : Nat :=
  match ty with
  | .s16 | .s32 => floatOfInt f64 c.scaleIF ty v
  | .f32 => f32to64 v.toNat
  | .f64 => v.toNat

/-- `replace_write_s2f / i2f / f / d2f` -/
def replaceWrite32 (fileBE : Bool) (c : Conv) (ty : Ty) (vs : List Int) : List Byte := replaceWriteF32 fileBE (vs.map (stage32 c ty))
/-- `replace_write_s2d / i2d / f2d / d` -/
def replaceWrite64 (fileBE : Bool) (c : Conv) (ty : Ty) (vs : List Int) : List Byte := replaceWriteF64 fileBE (vs.map (stage64 c ty))

/-- what the read entry point of caller type `ty` makes of one deserialised binary32 -/
def deliver32 (c : Conv) (ty : Ty) (b : Nat) : Int :=
  match ty with
  | .s16 | .s32 => intOfFloat f32 c ty b
  | .f32 => b
  | .f64 => f32to64 b

def deliver64 (c : Conv) (ty : Ty) (b : Nat) : Int :=
  match ty with
  | .s16 | .s32 => intOfFloat f64 c ty b
  | .f32 => f64to32 b
  | .f64 => b

/-- `replace_read_f2s / f2i / f / f2d` -/
def replaceRead32 (fileBE : Bool) (c : Conv) (ty : Ty) (bytes : List Byte) : List Int := (replaceReadF32 fileBE bytes).map (deliver32 c ty)
/-- `replace_read_d2s / d2i / d2f / d` (repaired) -/
def replaceRead64 (fileBE : Bool) (c : Conv) (ty : Ty) (bytes : List Byte) : List Int := (replaceReadF64 fileBE bytes).map (deliver64 c ty)

/-! ### the rules before the repairs -/

/-- before KF-C02-REPLACE-CLIP-READ: the portable int readers never clipped -/
def deliver32Old (c : Conv) (ty : Ty) (b : Nat) : Int := deliver32 { c with clip := false } ty b
def deliver64Old (c : Conv) (ty : Ty) (b : Nat) : Int := deliver64 { c with clip := false } ty b

/-- before KF-C20-REPLACE-READ-D2F: `memcpy (ptr + total, ubuf.dbuf, bufferlen * sizeof (double))` on a float destination — the
    32-bit cells written for the deserialised doubles `vals` (little-endian host: low word first), twice as many as asked for -/
def readD2fOld (vals : List Nat) : List Nat := vals.flatMap fun v => [v % 2 ^ 32, v / 2 ^ 32]

end Sf.IeeeCross
