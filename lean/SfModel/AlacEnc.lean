/-
  SfModel.AlacEnc — the compressed side of the ALAC encoder: `pc_block` (src/ALAC/dp_enc.c), `dyn_comp` / `dyn_code` /
  `dyn_code_32bit` (ag_enc.c), and the search of `EncodeMono` / `EncodeStereo` / `alac_encode` (alac_encoder.c) over the
  predictor order (4 or 8) and, for a pair, the mixing ratio (0 … 4 of 4), with the state the encoder carries from
  packet to packet: the adapted coefficients `mCoefsU / mCoefsV [channel][order - 1]` and `mLastMixRes [channel]`.
  Namespace Sf.AlacCore. The packet is a list of bits (BitBufferWrite / dyn_jam store fields one behind the other).
-/
import SfModel.AlacCore
import SfModel.AlacAg
import SfModel.AlacDp
import SfModel.AlacMatrix
namespace Sf.AlacCore

/-! ## dp_enc.c -/

/-- one round of the main loop of `pc_block`: `hist` = in [j-1], in [j-2], … ; -> (pc1 [j], new coefficients) -/
def pcStep (numactive chanbits denshift : Nat) (coefs : List Int) (hist : List Int) (x : Int) : Int × List Int :=
  let top := hist.getD numactive 0
  let prev := hist.take numactive
  let sum1 := (List.zip coefs prev).foldl (fun s (c, o) => w32 (s + w32 (c * w32 (o - top)))) 0
  let del := sx chanbits (w32 (w32 (x - top) - asr (w32 (sum1 + denHalf denshift)) denshift))
  let sg := signOf del
  if sg = 0 then (del, coefs)
  else
    let pairs := (List.zip coefs (prev.map fun y => w32 (top - y))).reverse
    (del, (adapt denshift (sg < 0) pairs 1 del).reverse)

/-- the loops of `pc_block` over in [1 ..]; `hist` = the samples so far, most recent first; -> (residuals, coefficients) -/
def pcLoop (numactive chanbits denshift : Nat) : List Int → Nat → List Int → List Int → List Int × List Int
  | [], _, coefs, _ => ([], coefs)
  | x :: xs, j, coefs, hist =>
    if j ≤ numactive then
      let r := pcLoop numactive chanbits denshift xs (j + 1) coefs (x :: hist)
      (sx chanbits (w32 (x - hist.headD 0)) :: r.1, r.2)
    else
      let s := pcStep numactive chanbits denshift coefs hist x
      let r := pcLoop numactive chanbits denshift xs (j + 1) s.2 (x :: hist)
      (s.1 :: r.1, r.2)

/-- `pc_block (in, pc1, num, coefs, numactive, chanbits, denshift)` on `inp` = in [0 .. num): (pc1 [0 .. num), the 16
    coefficients afterwards) -/
def pcBlock (inp : List Int) (coefs : List Int) (numactive chanbits denshift : Nat) : List Int × List Int :=
  match inp with
  | [] => ([], coefs)
  | x0 :: xs =>
    if numactive = 0 then (x0 :: xs, coefs)
    else if numactive = 31 then
      ((xs.foldl (fun (a : List Int × Int) x => (sx chanbits (w32 (x - a.2)) :: a.1, x)) ([x0], x0)).1.reverse, coefs)
    else
      let r := pcLoop numactive chanbits denshift xs 1 (coefs.take numactive) [x0]
      (x0 :: r.1, r.2 ++ coefs.drop numactive)

/-- `init_coefs (coefs, DENSHIFT_DEFAULT, kALACMaxCoefs)` -/
def initCoefs : List Int := [38 * 512 / 16, asr (-29 * 512) 4, asr (-2 * 512) 4] ++ List.replicate 13 0

/-! ## ag_enc.c -/

/-- `dyn_code_32bit`: the bits of one residual code -/
def dynCode32 (maxbits m k n : Nat) : Bits :=
  let divx := n / m
  let esc := bitsOf 511 9 ++ bitsOf n maxbits
  if divx < 9 then
    let md := n - m * divx
    let de := if md = 0 then 1 else 0
    let numBits := divx + k + 1 - de
    if numBits > 25 then esc
    else bitsOf ((2 ^ divx - 1) * 2 ^ (numBits - divx) + md + 1 - de) numBits
  else esc

/-- `dyn_code`: the bits of a zero-run length -/
def dynCode (m k n : Nat) : Bits :=
  let divx := n / m
  let esc := bitsOf (511 * 65536 + n) 25
  if divx ≥ 9 then esc
  else
    let md := n % m
    let de := if md = 0 then 1 else 0
    let numBits := divx + k + 1 - de
    if numBits > 25 then esc
    else bitsOf ((2 ^ divx - 1) * 2 ^ (numBits - divx) + md + 1 - de) numBits

/-- the zero run `while (c < numSamples && *inPtr == 0)`: (run length, rest) with the run capped at 65535 -/
def takeZeros : List Int → Nat → Nat × List Int
  | 0 :: rest, nz => if nz + 1 ≥ 65535 then (nz + 1, rest) else takeZeros rest (nz + 1)
  | l, nz => (nz, l)

/-- the loop of `dyn_comp` (`fuel` ≥ number of samples left): the code words one behind the other -/
def dynCompLoop (p : AgParams) (bitSize : Nat) : Nat → List Int → Nat → Nat → Bits
  | 0, _, _, _ => []
  | _, [], _, _ => []
  | fuel + 1, del :: rest, mb, zmode =>
    let k := min (lg3a (mb / 512)) p.kb
    let m := 2 ^ k - 1
    -- n = (abs (del) << 1) - ((del >> 31) & 1) - zmode, in uint32_t
    let n := u32 ((2 * del.natAbs : Nat) - (if del < 0 then 1 else 0) - (zmode : Int))
    let mb1 := mbNext p.pb n ((n + zmode) % 4294967296) mb
    dynCode32 bitSize m k n ++
      (if mb1 * 4 % 4294967296 < 512 ∧ rest ≠ [] then
        let z := takeZeros rest 0
        let k := lead mb1 - 24 + (mb1 + 16) / 64
        let mz := (2 ^ k - 1) &&& p.wb
        dynCode mz k z.1 ++ dynCompLoop p bitSize fuel z.2 0 (if z.1 ≥ 65535 then 0 else 1)
      else dynCompLoop p bitSize fuel rest mb1 0)

/-- `dyn_comp (params, pc, bitstream, numSamples, bitSize, &outNumBits)` -/
def dynComp (p : AgParams) (pc : List Int) (bitSize : Nat) : Bits :=
  dynCompLoop p bitSize pc.length pc p.mb0 0

/-- the standard parameters: MB0 = 10, PB0 = 40 (pbFactor 4), KB0 = 14 -/
def stdAg : AgParams := setAgParams 10 40 14

/-! ## alac_encoder.c -/

/-- the per-channel state: `mCoefsU [c]`, `mCoefsV [c]` (16 searches x 16 coefficients each), `mLastMixRes [c]` -/
structure EncChan where
  coefsU : List (List Int) := List.replicate 16 initCoefs
  coefsV : List (List Int) := List.replicate 16 initCoefs
  lastMixRes : Int := 0
deriving Repr

abbrev EncState := List EncChan

def EncState.init (numChannels : Nat) : EncState := List.replicate (max numChannels 8) {}

def bytesShiftedOf (depth : Nat) : Nat := if depth = 32 then 2 else if depth ≥ 24 then 1 else 0

/-- `count` runs of pc_block over the same data on coefficient row `row` (the "converge" loops); -> (last residuals, rows) -/
def pcRepeat (inp : List Int) (rows : List (List Int)) (row numactive chanbits : Nat) : Nat → List Int × List (List Int)
  | 0 => ([], rows)
  | c + 1 =>
    let (pc, co) := pcBlock inp (rows.getD row []) numactive chanbits 9
    if c = 0 then (pc, rows.set row co) else pcRepeat inp (rows.set row co) row numactive chanbits c

def hdrBits (partialFrame : Bool) (bytesShifted numSamples : Nat) (escape : Bool) : Bits :=
  bitsOf 0 12 ++ bitsOf ((if partialFrame then 8 else 0) + 2 * bytesShifted + (if escape then 1 else 0)) 4 ++
    (if partialFrame then bitsOf numSamples 32 else [])

def coefBits (coefs : List Int) (n : Nat) : Bits := (coefs.take n).flatMap fun c => bitsOf (wrapU 16 c) 16

/-- the predictor input of a mono element and the shifted-off low bytes: 16 / 20 bit `x >> (32 - depth)`; 24 / 32 bit the
    same with the low 8 / 16 bits taken off -/
def monoMix (depth : Nat) (xs : List Int) : List Int := xs.map fun x => asr (asr x (32 - depth)) (8 * bytesShiftedOf depth)
def monoShift (depth : Nat) (xs : List Int) : List Nat := xs.map fun x => wrapU 32 (asr x (32 - depth)) % 2 ^ (8 * bytesShiftedOf depth)

/-- the compressed mono element for a given coefficient row and predictor order (what EncodeMono writes once its search
    has picked them): header, mixBits = mixRes = 0, mode 0 / denShift 9, pbFactor 4 / order, coefficients, the shifted-off
    bytes, the Golomb-coded residuals of pc_block -/
def compMonoBits (depth frameSize : Nat) (xs coefs : List Int) (numU : Nat) : Bits :=
  let bs := bytesShiftedOf depth
  let chanBits := depth - 8 * bs
  hdrBits (xs.length ≠ frameSize) bs xs.length false ++ bitsOf 0 16 ++ bitsOf 9 8 ++ bitsOf (4 * 32 + numU) 8 ++ coefBits coefs numU ++
    (if bs ≠ 0 then (monoShift depth xs).flatMap fun s => bitsOf s (8 * bs) else []) ++
    dynComp stdAg (pcBlock (monoMix depth xs) coefs numU chanBits 9).1 chanBits

/-- one candidate order of EncodeMono's search: 7 converge rounds of pc_block on n / 32 samples, one on n / 8, the bits of
    those residuals times 8 plus the coefficients: (estimate, coefficient rows) -/
def monoTry (chanBits : Nat) (mix : List Int) (n : Nat) (rows : List (List Int)) (numU : Nat) : Nat × List (List Int) :=
  let a := pcRepeat (mix.take (n / 32)) rows (numU - 1) numU chanBits 7
  let b := pcRepeat (mix.take (n / 8)) a.2 (numU - 1) numU chanBits 1
  (8 * (dynComp stdAg b.1 chanBits).length + 16 * numU, b.2)

/-- the search: order 4, then order 8 (taken only when strictly smaller): (order, estimate, rows) -/
def monoSearch (chanBits : Nat) (mix : List Int) (n : Nat) (rows : List (List Int)) : Nat × Nat × List (List Int) :=
  let r4 := monoTry chanBits mix n rows 4
  let r8 := monoTry chanBits mix n r4.2 8
  if r8.1 < r4.1 then (8, r8.1, r8.2) else (4, r4.1, r8.2)

/-- EncodeMono: the element behind tag and instance tag; `xs` = the channel's caller ints -/
def encMono (depth frameSize : Nat) (st : EncChan) (xs : List Int) : Bits × EncChan :=
  let n := xs.length
  let bs := bytesShiftedOf depth
  let chanBits := depth - 8 * bs
  let mix := monoMix depth xs
  let sr := monoSearch chanBits mix n st.coefsU
  let minBits := sr.2.1 + 32 + (if n ≠ frameSize then 32 else 0) + (if bs ≠ 0 then n * (8 * bs) else 0)
  let escapeBits := n * depth + (if n ≠ frameSize then 32 else 0) + 16
  if minBits ≥ escapeBits then (encMonoEsc depth n xs, { st with coefsU := sr.2.2 })
  else
    let coefs := sr.2.2.getD (sr.1 - 1) []
    let rows1 := sr.2.2.set (sr.1 - 1) (pcBlock mix coefs sr.1 chanBits 9).2
    -- "compressed frame too big": back to the start of the element
    if (compMonoBits depth frameSize xs coefs sr.1).length ≥ escapeBits then (encMonoEsc depth n xs, { st with coefsU := rows1 })
    else (compMonoBits depth frameSize xs coefs sr.1, { st with coefsU := rows1 })

/-- the mixing of a pair for the encoder: (u, v, shifted-off (l, r)) per frame -/
def mixPairs (depth bs mixres : Nat) (ls rs : List Int) : List Int × List Int × List (Nat × Nat) :=
  let shift := 8 * bs
  let conv := fun (x : Int) => asr x (32 - depth)
  let fl := ls.map conv
  let fr := rs.map conv
  let uv := List.zipWith (fun l r =>
    let l1 := asr l shift
    let r1 := asr r shift
    if mixres ≠ 0 then mixUV 2 mixres l1 r1 else (l1, r1)) fl fr
  (uv.map (·.1), uv.map (·.2), List.zipWith (fun l r => (wrapU 32 l % 2 ^ shift, wrapU 32 r % 2 ^ shift)) fl fr)

/-- the compressed pair element for a given mixing ratio, coefficient rows and predictor orders (what EncodeStereo writes
    once its search has picked them): header, mixBits 2, mixRes, per channel mode 0 / denShift 9, pbFactor 4 / order and the
    coefficients, the interleaved shifted-off bytes, the Golomb-coded residuals of U then V -/
def compPairBits (depth frameSize : Nat) (ls rs : List Int) (mixRes : Nat) (cU cV : List Int) (numU numV : Nat) : Bits :=
  let bs := bytesShiftedOf depth
  let chanBits := depth - 8 * bs + 1
  let m := mixPairs depth bs mixRes ls rs
  hdrBits (ls.length ≠ frameSize) bs ls.length false ++ bitsOf 2 8 ++ bitsOf mixRes 8 ++
    bitsOf 9 8 ++ bitsOf (4 * 32 + numU) 8 ++ coefBits cU numU ++ bitsOf 9 8 ++ bitsOf (4 * 32 + numV) 8 ++ coefBits cV numV ++
    (if bs ≠ 0 then m.2.2.flatMap fun ab => bitsOf (ab.1 * 2 ^ (8 * bs) + ab.2) (2 * (8 * bs)) else []) ++
    dynComp stdAg (pcBlock m.1 cU numU chanBits 9).1 chanBits ++ dynComp stdAg (pcBlock m.2.1 cV numV chanBits 9).1 chanBits

/-- the running state of EncodeStereo's mixRes loop: best bit count so far, its mixRes, the coefficient tables, and what
    the last round left in mPredictorU / V -/
structure MixAcc where
  minB  : Nat
  best  : Int
  rowsU : List (List Int)
  rowsV : List (List Int)
  pcU   : List Int
  pcV   : List Int

/-- one round of the mixRes loop: mix the first n / 8 frames, run pc_block with 8 coefficients (row 7), count the bits -/
def mixStep (depth chanBits : Nat) (lsd rsd : List Int) (a : MixAcc) (mixRes : Nat) : MixAcc :=
  let m := mixPairs depth (bytesShiftedOf depth) mixRes lsd rsd
  let pu := pcBlock m.1 (a.rowsU.getD 7 []) 8 chanBits 9
  let pv := pcBlock m.2.1 (a.rowsV.getD 7 []) 8 chanBits 9
  let b := (dynComp stdAg pu.1 chanBits).length + (dynComp stdAg pv.1 chanBits).length
  { minB := if b < a.minB then b else a.minB, best := if b < a.minB then (mixRes : Int) else a.best,
    rowsU := a.rowsU.set 7 pu.2, rowsV := a.rowsV.set 7 pv.2, pcU := pu.1, pcV := pv.1 }

def mixSearch (depth chanBits : Nat) (st : EncChan) (lsd rsd : List Int) : MixAcc :=
  [0, 1, 2, 3, 4].foldl (mixStep depth chanBits lsd rsd) ⟨2147483648, st.lastMixRes, st.coefsU, st.coefsV, [], []⟩

/-- the running state of one candidate order of the coefficient search -/
structure TryAcc where
  pcU   : List Int
  rowsU : List (List Int)
  pcV   : List Int
  rowsV : List (List Int)

/-- one of the 8 converge rounds: pc_block over the first n / 32 frames of both channels -/
def tryStep (chanBits numUV n : Nat) (u v : List Int) (a : TryAcc) (_ : Nat) : TryAcc :=
  let pU := pcBlock (u.take (n / 32)) (a.rowsU.getD (numUV - 1) []) numUV chanBits 9
  let pV := pcBlock (v.take (n / 32)) (a.rowsV.getD (numUV - 1) []) numUV chanBits 9
  { pcU := pU.1, rowsU := a.rowsU.set (numUV - 1) pU.2, pcV := pV.1, rowsV := a.rowsV.set (numUV - 1) pV.2 }

/-- mPredictorU / V [0 .. n / 8): the round's residuals, then what its warm-up loop stored up to index numUV, then the older content -/
def predOf (chanBits numUV n : Nat) (x fresh stale : List Int) : List Int :=
  (List.range (n / 8)).map fun i =>
    if i < fresh.length then fresh.getD i 0
    else if i ≤ numUV then (if i = 0 then x.getD 0 0 else sx chanBits (w32 (x.getD i 0 - x.getD (i - 1) 0)))
    else stale.getD i 0

/-- one candidate order: (estimate for U, estimate for V, tables) — the bit count runs over n / 8 residuals of mPredictorU / V of
    which only the first n / 32 are from this candidate's rounds -/
def pairTry (chanBits numUV n : Nat) (u v staleU staleV : List Int) (rowsU rowsV : List (List Int)) : Nat × Nat × List (List Int) × List (List Int) :=
  let a := (List.range 8).foldl (tryStep chanBits numUV n u v) ⟨[], rowsU, [], rowsV⟩
  ((dynComp stdAg (predOf chanBits numUV n u a.pcU staleU) chanBits).length * 8 + 16 * numUV,
    (dynComp stdAg (predOf chanBits numUV n v a.pcV staleV) chanBits).length * 8 + 16 * numUV, a.rowsU, a.rowsV)

/-- what EncodeStereo's search settles on -/
structure PairChoice where
  bestRes : Int
  numU : Nat
  numV : Nat
  est  : Nat
  rowsU : List (List Int)
  rowsV : List (List Int)

def pairSearch (depth : Nat) (st : EncChan) (ls rs : List Int) : PairChoice :=
  let n := ls.length
  let chanBits := depth - 8 * bytesShiftedOf depth + 1
  let ms := mixSearch depth chanBits st (ls.take (n / 8)) (rs.take (n / 8))
  let m := mixPairs depth (bytesShiftedOf depth) ms.best.toNat ls rs
  let t4 := pairTry chanBits 4 n m.1 m.2.1 ms.pcU ms.pcV ms.rowsU ms.rowsV
  let t8 := pairTry chanBits 8 n m.1 m.2.1 ms.pcU ms.pcV t4.2.2.1 t4.2.2.2
  { bestRes := ms.best, numU := if t8.1 < t4.1 then 8 else 4, numV := if t8.2.1 < t4.2.1 then 8 else 4,
    est := (if t8.1 < t4.1 then t8.1 else t4.1) + (if t8.2.1 < t4.2.1 then t8.2.1 else t4.2.1), rowsU := t8.2.2.1, rowsV := t8.2.2.2 }

/-- EncodeStereo's size estimate and the size of the escape element -/
def pairMinBits (depth frameSize n est : Nat) : Nat :=
  est + 64 + (if n ≠ frameSize then 32 else 0) + (if bytesShiftedOf depth ≠ 0 then n * (8 * bytesShiftedOf depth) * 2 else 0)
def pairEscapeBits (depth frameSize n : Nat) : Nat := n * depth * 2 + (if n ≠ frameSize then 32 else 0) + 16

/-- EncodeStereo -/
def encPair (depth frameSize : Nat) (st : EncChan) (ls rs : List Int) : Bits × EncChan :=
  let n := ls.length
  let bs := bytesShiftedOf depth
  let chanBits := depth - 8 * bs + 1
  let c := pairSearch depth st ls rs
  let minBits := pairMinBits depth frameSize n c.est
  let escapeBits := pairEscapeBits depth frameSize n
  let escBits := encPairEsc Rules.current depth n ls rs ([], [])
  if minBits ≥ escapeBits then (escBits, { coefsU := c.rowsU, coefsV := c.rowsV, lastMixRes := c.bestRes })
  else
    let cU := c.rowsU.getD (c.numU - 1) []
    let cV := c.rowsV.getD (c.numV - 1) []
    let m := mixPairs depth bs c.bestRes.toNat ls rs
    let st2 : EncChan := { coefsU := c.rowsU.set (c.numU - 1) (pcBlock m.1 cU c.numU chanBits 9).2,
                           coefsV := c.rowsV.set (c.numV - 1) (pcBlock m.2.1 cV c.numV chanBits 9).2, lastMixRes := c.bestRes }
    -- BitBufferWrite (mixRes, 8): the low 8 bits (bestRes is 0 … 4, or a stale mLastMixRes)
    let bits := compPairBits depth frameSize ls rs (wrapU 8 c.bestRes) cU cV c.numU c.numV
    if bits.length ≥ escapeBits then (escBits, st2) else (bits, st2)

/-- the elements of `alac_encode`: every element keeps its coefficient state at its channel index -/
def encElems (depth frameSize : Nat) (frames : List (List Int)) : List Nat → Nat → Nat → Nat → EncState → Bits × EncState
  | [], _, _, _, st => ([], st)
  | t :: ts, c, mono, stereo, st =>
    if t = ID_CPE then
      let e := encPair depth frameSize (st.getD c {}) (chanOf frames c) (chanOf frames (c + 1))
      let r := encElems depth frameSize frames ts (c + 2) mono (stereo + 1) (st.set c e.2)
      (bitsOf ID_CPE 3 ++ (bitsOf stereo 4 ++ (e.1 ++ r.1)), r.2)
    else
      let e := encMono depth frameSize (st.getD c {}) (chanOf frames c)
      let r := encElems depth frameSize frames ts (c + 1) (mono + 1) stereo (st.set c e.2)
      (bitsOf t 3 ++ (bitsOf mono 4 ++ (e.1 ++ r.1)), r.2)

/-- `alac_encode`: the packet and the encoder state afterwards -/
def encode (cfg : Config) (st : EncState) (frames : List (List Int)) : List Byte × EncState :=
  let r := encElems cfg.bitDepth frameLen frames (layout cfg.numChannels) 0 0 0 st
  (pack (r.1 ++ bitsOf ID_END 3), r.2)

end Sf.AlacCore
