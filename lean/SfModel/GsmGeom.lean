/-
  SfModel.GsmGeom — the block count `gsm610_init` (src/gsm610.c) derives from `psf->datalength` when a GSM 6.10 file is
  opened for reading, and what the WAV-like and AIFF readers hand it as `datalength` for a file this library wrote.

  * `blocks fx bs dl`      the three-way rule of gsm610_init.  `fx = true`: the rule after the repair of KF-WAV-GSM-PAD
                           (one extra byte — the chunk's pad byte — is forgiven for both block sizes); `fx = false`: the
                           rule before it (only for the 33-byte block of AIFF / RAW).
  * `wavSeen chunk avail`  `psf->datalength` as wav_read_header leaves it for a data chunk of `chunk` bytes when `avail`
                           bytes follow the chunk header in the file: min (chunk, avail) + (chunk & 1)  (wav.c "data" case:
                           the clamp to the file length, then `psf->datalength += chunk_size & 1`)
  * `blocksWritten W`      65-byte (33-byte) blocks gsm610_close leaves for `W` written frames: a partial block is flushed
  * `wavReopenFrames`      frames a re-open of the closed WAV / WAVEX file reports

  Core Lean only; names live in `Sf.GsmGeom`.
-/
import SfModel.Basic
namespace Sf.GsmGeom

/-- `gsm610_init`, SFM_READ: number of blocks for a data length `dl` and block size `bs` (65 WAV-like, 33 AIFF / RAW) -/
def blocks (fx : Bool) (bs dl : Nat) : Nat :=
  if dl % bs = 0 then dl / bs
  else if dl % bs = 1 ∧ (fx ∨ bs = 33) then dl / bs
  else dl / bs + 1

/-- samples per block: WAVLIKE_GSM610_SAMPLES = 320 for the 65-byte block, GSM610_SAMPLES = 160 for the 33-byte block -/
def samplesPerBlock (bs : Nat) : Nat := if bs = 65 then 320 else 160

/-- `psf->sf.frames` after gsm610_init -/
def framesAtOpen (fx : Bool) (bs dl : Nat) : Nat := samplesPerBlock bs * blocks fx bs dl

/-- wav_read_header, "data": `datalength = chunk_size`, clamped to what the file holds, `+= chunk_size & 1` -/
def wavSeen (chunk avail : Nat) : Nat := min chunk avail + chunk % 2

/-- blocks in the closed file: gsm610_close encodes a last partial block -/
def blocksWritten (spb W : Nat) : Nat := (W + spb - 1) / spb

/-- the data chunk of a closed WAV / WAVEX file of `W` written frames, and the bytes that follow its header in the file
    (the chunk plus its pad byte; nothing else follows: PEAK / LIST chunks are written in front of the data) -/
def wavChunk (W : Nat) : Nat := 65 * blocksWritten 320 W
def wavAvail (W : Nat) : Nat := wavChunk W + wavChunk W % 2

/-- frames reported when the closed WAV / WAVEX file of `W` written frames is opened again -/
def wavReopenFrames (fx : Bool) (W : Nat) : Nat := framesAtOpen fx 65 (wavSeen (wavChunk W) (wavAvail W))

end Sf.GsmGeom
