/-
  SfModel.AlacBits — the bit I/O of src/ALAC/ALACBitUtilities.c (namespace Sf.AlacCore).

  The C code keeps a byte pointer `cur`, a bit index 0..7 and the end pointer; `BitBufferRead (bits, n)` loads the three
  bytes at `cur`, shifts the 24-bit window left by the bit index, masks it to 24 bits and takes the top `n` bits
  (`bbWindow`); `BitBufferReadSmall` does the same with a 16-bit window, `BitBufferReadOne` with one byte. Every call site
  in the decoder asks for at most 16 (Read) / 8 (ReadSmall) bits, where the window always covers the field, so all three
  are "the next n bits of the buffer, most significant first". The model reads a LIST OF BITS (`Rd`: the bits from the
  current position on, and the absolute bit position `pos` = 8 * (cur - begin) + bitIndex); `bbWindow_eq_bits`
  (lean/SfProps/C01Alac.lean) is the statement that the C window arithmetic is that.
  Nothing in the C code checks `cur` against `end` inside a read: reading goes on into whatever the byte buffer holds
  behind the packet (src/alac.c: the 1 MiB `byte_buffer`, not cleared between packets). The model's bit list is
  therefore the packet FOLLOWED BY THE STALE BYTES (`unpack (packet ++ stale)`); beyond that list a read delivers zeros.

  `BitBufferWrite (bits, v, n)` stores the low `n` bits of `v`, most significant first, behind what was written so far
  (`bitsOf v n`); the encoder writes every bit of a packet in order from bit 0, `BitBufferByteAlign (.., true)` fills the
  last byte with zeros: the packet is `pack` of the concatenated fields.
-/
import SfModel.Basic
namespace Sf.AlacCore

abbrev Bits := List Bool

/-- the low `n` bits of `v`, most significant first (what `BitBufferWrite (bits, v, n)` appends) -/
def bitsOf (v : Nat) : Nat → Bits
  | 0 => []
  | n + 1 => decide (v / 2 ^ n % 2 = 1) :: bitsOf v n

/-- read `n` bits, most significant first, onto the accumulator; missing bits are zero -/
def rdBits : Nat → Bits → Nat → Nat × Bits
  | 0, bs, acc => (acc, bs)
  | n + 1, [], acc => rdBits n [] (2 * acc)
  | n + 1, b :: bs, acc => rdBits n bs (2 * acc + b.toNat)

def unpack (bs : List Byte) : Bits := bs.flatMap fun b => bitsOf b 8

/-- bytes of a bit string, the last byte filled with zero bits (`BitBufferByteAlign (bits, true)`) -/
def pack : Bits → List Byte
  | a :: b :: c :: d :: e :: f :: g :: h :: rest => (rdBits 8 [a, b, c, d, e, f, g, h] 0).1 :: pack rest
  | [] => []
  | l => [(rdBits 8 l 0).1]

/-- BitBuffer on the reading side -/
structure Rd where
  rest : Bits
  pos  : Nat := 0
deriving Repr

/-- `BitBufferRead` / `BitBufferReadSmall` / `BitBufferReadOne` (n = 1) -/
def Rd.read (r : Rd) (n : Nat) : Nat × Rd :=
  let (v, rest) := rdBits n r.rest 0
  (v, { rest := rest, pos := r.pos + n })

/-- `BitBufferAdvance` -/
def Rd.advance (r : Rd) (n : Nat) : Rd := { rest := r.rest.drop n, pos := r.pos + n }

/-- `BitBufferByteAlign (bits, false)` -/
def Rd.byteAlign (r : Rd) : Rd := if r.pos % 8 = 0 then r else r.advance (8 - r.pos % 8)

/-- `bits->cur - begin`, in bytes -/
def Rd.curByte (r : Rd) : Nat := r.pos / 8

def Rd.ofBytes (bs : List Byte) : Rd := { rest := unpack bs }

/-- the arithmetic of `BitBufferRead`: bytes `b0 b1 b2` at `cur`, bit index `bi`, `n` bits -/
def bbWindow (b0 b1 b2 bi n : Nat) : Nat :=
  ((b0 * 65536 + b1 * 256 + b2) * 2 ^ bi % 16777216) / 2 ^ (24 - n)

/-- the arithmetic of `BitBufferReadSmall`: a 16-bit window, the result cast to uint8_t -/
def bbWindowSmall (b0 b1 bi n : Nat) : Nat :=
  ((b0 * 256 + b1) * 2 ^ bi % 65536) / 2 ^ (16 - n) % 256

/-- two's complement helpers on C `int32_t` -/
def w32 (x : Int) : Int := wrapS 32 x
/-- `arith_shift_left (x, k)` / gcc's `x << k` on int32_t -/
def shl32 (x : Int) (k : Nat) : Int := wrapS 32 (x * (2 : Int) ^ k)

/-- the uint32_t residue -/
def u32 (x : Int) : Nat := wrapU 32 x
/-- `x | s` on 32-bit words, back as int32_t -/
def orU32 (x : Int) (s : Nat) : Int := w32 ((u32 x ||| s : Nat) : Int)

end Sf.AlacCore
