/-
  SfModel.Meta — metadata that is set before the audio and must survive close and re-open (property C12).

  Code-shaped model (bug for bug) of
    src/strings.c    psf_store_string (32 slots, replacement marks -1, start/end placement, software suffix through a
                     128-byte buffer, growth of the store), psf_get_string, psf_location_string_count
    src/wavlike.c    wavlike_write_strings (LIST/INFO: id, length incl. NUL, even padding, size back-patch),
                     wavlike_subchunk_parse (INFO part; text buffer sized by the LIST chunk since the repair, `char buffer [2048]`
                     before), wavlike_write_bext_chunk /
                     wavlike_read_bext_chunk, wavlike_write_cart_chunk / wavlike_read_cart_chunk
    src/broadcast.c  broadcast_var_set (psf_strlcpy_crlf, added line end, added history line, even size, version 2)
    src/cart.c       cart_var_set
    src/common.c     psf_strlcpy_crlf, psf_strlcat, the 's' case of psf_binheader_writef
    src/wav.c        the `cue ` and `smpl` writers of wav_write_header, the `cue ` reader, wav_read_smpl_chunk
    src/sndfile.c    the guards of sf_set_string, SFC_SET_BROADCAST_INFO, SFC_SET_CART_INFO, SFC_SET_CUE,
                     SFC_SET_INSTRUMENT (container, mode, have_written)
  for little-endian RIFF/WAVE files on a little-endian host.  Core Lean only (the driver links against this).
-/
import SfModel.Basic
namespace Sf.Meta

/-! ## 0. Bytes -/

/-- the C string at the start of a buffer: the bytes before the first NUL -/
def cstr (b : List Byte) : List Byte := b.takeWhile (· ≠ 0)

def le4 (v : Nat) : List Byte := leBytes 4 v
def le2 (v : Nat) : List Byte := leBytes 2 v
def zeros (n : Nat) : List Byte := List.replicate n 0

/-- a field of fixed width: the caller's bytes cut or zero-filled to `n` -/
def fixW (n : Nat) (b : List Byte) : List Byte := b.take n ++ zeros (n - b.length)

def ascii (s : String) : List Byte := s.toList.map Char.toNat

/-- `strstr (hay, needle) != NULL` -/
def isInfix (needle : List Byte) : List Byte → Bool
  | [] => needle.isEmpty
  | h :: t => needle.isPrefixOf (h :: t) || isInfix needle t

/-! ## 1. The string table (strings.c) -/

def SF_STR_ALLOW_START : Nat := 0x0100
def SF_STR_ALLOW_END : Nat := 0x0200
def SF_STR_LOCATE_START : Nat := 0x0400
def SF_STR_LOCATE_END : Nat := 0x0800
def SF_MAX_STRINGS : Nat := 32

def SFE_STR_NO_SUPPORT : Nat := 53
def SFE_STR_NOT_WRITE : Nat := 54
def SFE_STR_MAX_DATA : Nat := 55
def SFE_STR_MAX_COUNT : Nat := 56
def SFE_STR_BAD_TYPE : Nat := 57
def SFE_STR_NO_ADD_END : Nat := 58
def SFE_STR_BAD_STRING : Nat := 59
def SFE_STR_WEIRD : Nat := 60

/-- one `STR_DATA` element: `type` 0 = free, -1 = replaced, otherwise SF_STR_* -/
structure Slot where
  type   : Int
  flags  : Nat
  offset : Nat
deriving DecidableEq, Repr

def Slot.free : Slot := ⟨0, 0, 0⟩

/-- `psf->strings`: `used` bytes of `storage` are in use, `cap` is `storage_len` -/
structure Strings where
  slots   : List Slot
  storage : List Byte
  cap     : Nat
  flags   : Nat
deriving DecidableEq, Repr

def Strings.init (flags : Nat) : Strings := ⟨List.replicate SF_MAX_STRINGS Slot.free, [], 0, flags⟩

def Strings.used (t : Strings) : Nat := t.storage.length

inductive Mode | read | write | rdwr
deriving DecidableEq, Repr

/-- the slot loop of psf_store_string before the repair: entries of the same type are marked -1 on the way, the walk stops at the first
    free slot.  Returns the slots as the loop leaves them and the index `k` (= number of slots when none is free).
    With `ty = 0` every free slot "matches" and is marked -1 (the caller's type is validated only later). -/
def scan (ty : Int) : List Slot → List Slot × Nat
  | [] => ([], 0)
  | s :: rest =>
    let s1 : Slot := if s.type = ty then { s with type := -1 } else s
    if s1.type = 0 then (s1 :: rest, 0)
    else ((s1 :: (scan ty rest).1), (scan ty rest).2 + 1)

def validType (ty : Int) : Bool :=
  ty = 1 || ty = 2 || ty = 3 || ty = 4 || ty = 5 || ty = 6 || ty = 7 || ty = 8 || ty = 9 || ty = 16

/-- the text stored for SF_STR_SOFTWARE in write mode: the suffix is appended unless the package name already occurs
    (built in a buffer of the size it needs since the repair) -/
def softwareText (pkgName pkgVersion s : List Byte) : List Byte :=
  if isInfix pkgName s then s
  else if s.isEmpty then pkgName ++ [45] ++ pkgVersion
  else s ++ [32, 40] ++ pkgName ++ [45] ++ pkgVersion ++ [41]

/-- the rule before the repair ("fix: SF_STR_SOFTWARE strings were cut to 127 bytes"): the text went through
    `char new_str [128]` -/
def softwareTextOld (pkgName pkgVersion s : List Byte) : List Byte := (softwareText pkgName pkgVersion s).take 127

structure Env where
  mode        : Mode
  haveWritten : Bool
  pkgName     : List Byte
  pkgVersion  : List Byte
deriving Repr

def isWriteMode (m : Mode) : Bool := m = .write || m = .rdwr

/-- the slot loop since the repair ("fix: a refused sf_set_string erased the string it was meant to replace"): the index of
    the first free slot (= number of slots when none is free); nothing is modified -/
def firstFree : List Slot → Nat
  | [] => 0
  | s :: rest => if s.type = 0 then 0 else firstFree rest + 1

/-- entries of type `ty` among the first `k` slots are marked as replaced (done only once the call cannot fail any more) -/
def markBefore (ty : Int) : Nat → List Slot → List Slot
  | 0, l => l
  | _, [] => []
  | k+1, s :: rest => (if s.type = ty then { s with type := -1 } else s) :: markBefore ty k rest

/-- `psf_store_string (psf, str_type, str)` for a non-NULL `str` (a NUL-free byte list).  Returns the error code
    (0 = stored) and the table afterwards; a refused call leaves the table as it was. -/
def store (e : Env) (t : Strings) (ty : Int) (str : List Byte) : Nat × Strings :=
  if isWriteMode e.mode && (t.flags &&& SF_STR_ALLOW_START) = 0 then (SFE_STR_NO_SUPPORT, t)
  else if isWriteMode e.mode && e.haveWritten && (t.flags &&& SF_STR_ALLOW_END) = 0 then (SFE_STR_NO_SUPPORT, t)
  else if isWriteMode e.mode && ty ≠ 3 && str.isEmpty then (SFE_STR_BAD_STRING, t)
  else
    let k := firstFree t.slots
    let atEnd : Bool := e.mode = .rdwr || e.haveWritten
    if atEnd && (t.flags &&& SF_STR_ALLOW_END) = 0 then (SFE_STR_NO_ADD_END, t)
    else if k ≥ t.slots.length then (SFE_STR_MAX_COUNT, t)
    else if k = 0 && t.used ≠ 0 then (SFE_STR_WEIRD, t)
    else if k ≠ 0 && t.used = 0 then (SFE_STR_WEIRD, t)
    else if !validType ty then (SFE_STR_BAD_TYPE, t)
    else
      let text := if ty = 3 && isWriteMode e.mode then softwareText e.pkgName e.pkgVersion str else str
      let len := text.length + 1
      let cap := if t.storage.length + len + 1 > t.cap then max 256 (2 * t.cap + len + 1) else t.cap
      let fl := if atEnd then SF_STR_LOCATE_END else SF_STR_LOCATE_START
      (0, { slots := (markBefore ty k t.slots).set k ⟨ty, fl, t.storage.length⟩, storage := t.storage ++ text ++ [0], cap := cap, flags := t.flags ||| fl })

/-- psf_store_string before the repair: the slot loop (`scan`) marked entries while searching, so its marks persisted on the error
    paths that come after it; the software text went through the 128-byte buffer -/
def storeOld (e : Env) (t : Strings) (ty : Int) (str : List Byte) : Nat × Strings :=
  if isWriteMode e.mode && (t.flags &&& SF_STR_ALLOW_START) = 0 then (SFE_STR_NO_SUPPORT, t)
  else if isWriteMode e.mode && e.haveWritten && (t.flags &&& SF_STR_ALLOW_END) = 0 then (SFE_STR_NO_SUPPORT, t)
  else if isWriteMode e.mode && ty ≠ 3 && str.isEmpty then (SFE_STR_BAD_STRING, t)
  else
    let sc := scan ty t.slots
    let t1 : Strings := { t with slots := sc.1 }
    let k := sc.2
    let atEnd : Bool := e.mode = .rdwr || e.haveWritten
    if atEnd && (t.flags &&& SF_STR_ALLOW_END) = 0 then (SFE_STR_NO_ADD_END, t1)
    else if k ≥ t.slots.length then (SFE_STR_MAX_COUNT, t1)
    else if k = 0 && t.used ≠ 0 then (SFE_STR_WEIRD, t1)
    else if k ≠ 0 && t.used = 0 then (SFE_STR_WEIRD, t1)
    else if !validType ty then (SFE_STR_BAD_TYPE, t1)
    else
      let text := if ty = 3 && isWriteMode e.mode then softwareTextOld e.pkgName e.pkgVersion str else str
      let len := text.length + 1
      let cap := if t.storage.length + len + 1 > t.cap then max 256 (2 * t.cap + len + 1) else t.cap
      let fl := if atEnd then SF_STR_LOCATE_END else SF_STR_LOCATE_START
      (0, { slots := sc.1.set k ⟨ty, fl, t.storage.length⟩, storage := t.storage ++ text ++ [0], cap := cap, flags := t.flags ||| fl })

/-- `psf_get_string`: the first slot of that type -/
def get (t : Strings) (ty : Int) : Option (List Byte) :=
  (t.slots.find? (·.type = ty)).map fun s => cstr (t.storage.drop s.offset)

/-- the (type, text) pairs a header writer visits for `location`: slots in order up to the first free one, replaced
    ones skipped -/
def entriesOf (t : Strings) (location : Nat) : List (Nat × List Byte) :=
  ((t.slots.takeWhile (·.type ≠ 0)).filter fun s => s.type > 0 && s.flags = location).map
    fun s => (s.type.toNat, cstr (t.storage.drop s.offset))

def locationCount (t : Strings) (location : Nat) : Nat :=
  (t.slots.filter fun s => s.type > 0 && (s.flags &&& location) ≠ 0).length

/-- the invariant of the table: 32 slots, `used ≤ cap`, and every live slot points at a text that ends inside the
    used part of the store -/
def Strings.Inv (t : Strings) : Prop :=
  t.slots.length = SF_MAX_STRINGS ∧ t.used ≤ t.cap ∧
  ∀ s ∈ t.slots, s.type > 0 → s.offset < t.used ∧ s.offset + (cstr (t.storage.drop s.offset)).length < t.used

/-! ## 2. LIST/INFO (wavlike_write_strings, wavlike_subchunk_parse) -/

def mk (s : String) : List Byte := ascii s

/-- the INFO id written for a string type (SF_STR_LICENSE has none) -/
def infoMarker (ty : Nat) : Option (List Byte) :=
  match ty with
  | 3 => some (mk "ISFT") | 1 => some (mk "INAM") | 2 => some (mk "ICOP") | 4 => some (mk "IART")
  | 5 => some (mk "ICMT") | 6 => some (mk "ICRD") | 16 => some (mk "IGNR") | 7 => some (mk "IPRD")
  | 9 => some (mk "ITRK") | _ => none

/-- what the parser does with a sub-chunk id: `some (some ty)` text stored as `ty`; `some none` text read (2048 limit)
    but not stored -/
def markerType (m : List Byte) : Option (Option Nat) :=
  if m = mk "ISFT" then some (some 3) else if m = mk "ICOP" then some (some 2)
  else if m = mk "INAM" then some (some 1) else if m = mk "IART" then some (some 4)
  else if m = mk "ICMT" then some (some 5) else if m = mk "ICRD" then some (some 6)
  else if m = mk "IGNR" then some (some 16) else if m = mk "IPRD" then some (some 7)
  else if m = mk "ITRK" then some (some 9)
  else if m = mk "IARL" ∨ m = mk "IENG" ∨ m = mk "ISBJ" ∨ m = mk "ISRC" ∨ m = mk "IAUT" then some none
  else none

/-- the 's' case of psf_binheader_writef: length field = strlen + 1 rounded up to even, the text, NUL, pad; the last
    byte is forced to 0 -/
def serString (s : List Byte) : List Byte :=
  let n := s.length + 1
  le4 (n + n % 2) ++ s ++ [0] ++ zeros (n % 2)

def serItem (e : Nat × List Byte) : List Byte :=
  match infoMarker e.1 with
  | some m => m ++ serString e.2
  | none => []

def infoBody (es : List (Nat × List Byte)) : List Byte := mk "INFO" ++ es.flatMap serItem

/-- the whole chunk, with the size field back-patched to the body length -/
def serInfo (es : List (Nat × List Byte)) : List Byte :=
  let body := infoBody es
  mk "LIST" ++ le4 body.length ++ body

/-- wavlike_write_strings: nothing at all when no string has that location -/
def writeStrings (t : Strings) (location : Nat) : List Byte :=
  if locationCount t location = 0 then [] else serInfo (entriesOf t location)

def INFO_BUFFER : Nat := 2048
/-- the header cache never holds more than this (psf_bump_header_allocation) -/
def HEADER_CAP : Nat := 100 * 1024

/-- the sub-chunk loop of wavlike_subchunk_parse on the bytes that follow the LIST size field, for a text buffer of `buf`
    bytes.  `fuel` bounds the walk (callers pass the length).  The result lists the (type, text) pairs handed to
    psf_store_string, in file order.  An item that overruns the list ends the walk (`goto cleanup_subchunk_parse`).  An item
    whose padded size is ≥ `buf`: since the repair ("fix: one over-long LIST/INFO string made the WAV/RF64 reader drop every
    later string", `skipLong = true`) only that item is skipped; before it the walk ended there and every later item was
    dropped (`skipLong = false`).  `labl`, `DISP`, `ltxt`, `note`, `exif`, `data` and a zero marker end the walk as well
    (labl: see SfModel/MetaFix.lean). -/
def parseItemsW (buf : Nat) (skipLong : Bool) : Nat → List Byte → List (Nat × List Byte)
  | 0, _ => []
  | fuel+1, b =>
    if b.length < 4 then []
    else
      let m := b.take 4
      let b1 := b.drop 4
      if m = mk "INFO" ∨ m = mk "adtl" then parseItemsW buf skipLong fuel b1
      else match markerType m with
        | some st =>
          let sz := ofLE (b1.take 4)
          let sz1 := sz + sz % 2
          let b2 := b1.drop 4
          if sz1 > b2.length then []
          else if sz1 ≥ buf then (if skipLong then parseItemsW buf skipLong fuel (b2.drop sz1) else [])
          else match st with
            | some ty => (ty, cstr (b2.take sz1)) :: parseItemsW buf skipLong fuel (b2.drop sz1)
            | none => parseItemsW buf skipLong fuel (b2.drop sz1)
        | none =>
          if m = mk "labl" ∨ m = mk "DISP" ∨ m = mk "ltxt" ∨ m = mk "note" ∨ m = mk "exif" ∨ m = mk "data" ∨ m = [0, 0, 0, 0] then []
          else
            let sz := ofLE (b1.take 4)
            let sz1 := sz + sz % 2
            let b2 := b1.drop 4
            if sz1 > b2.length then [] else parseItemsW buf skipLong fuel (b2.drop sz1)

/-- the text buffer of the repaired parser ("fix: WAV/RF64 strings of 2046 bytes or more could be written but not read back"):
    `calloc (1, SF_MAX (SF_MIN (chunk_length, 100 * 1024), 2047) + 1)` — sized by the LIST chunk, bounded by what the header
    cache can deliver -/
def infoBufSize (chunkLength : Nat) : Nat := max (min chunkLength HEADER_CAP) 2047 + 1

/-- the current parser on the body of a LIST chunk -/
def parseItems (fuel : Nat) (body : List Byte) : List (Nat × List Byte) := parseItemsW (infoBufSize body.length) true fuel body

/-- the parser before the two repairs: `char buffer [2048]`, and a too-long item ended the walk -/
def parseItemsOld (fuel : Nat) (body : List Byte) : List (Nat × List Byte) := parseItemsW INFO_BUFFER false fuel body

/-- the parser applied to a whole `LIST` chunk as the writer lays it out (id, size, body).  A list of 8 bytes or less
    is only logged.  (`body` is the declared length clamped to the bytes that are there, as the parser clamps it to the file
    length.) -/
def parseInfoWith (items : Nat → List Byte → List (Nat × List Byte)) (chunk : List Byte) : List (Nat × List Byte) :=
  let len := ofLE ((chunk.drop 4).take 4)
  let body := (chunk.drop 8).take len
  if len ≤ 8 then [] else items body.length body

def parseInfo (chunk : List Byte) : List (Nat × List Byte) := parseInfoWith parseItems chunk
def parseInfoOld (chunk : List Byte) : List (Nat × List Byte) := parseInfoWith parseItemsOld chunk

/-- the strings of a re-opened file: every parsed pair goes through psf_store_string in read mode -/
def loadAll (es : List (Nat × List Byte)) : Strings :=
  es.foldl (fun t e => (store ⟨.read, false, [], []⟩ t (e.1 : Int) e.2).2) (Strings.init 0)

/-- what an INFO text must be to survive: a C string (no NUL inside) of a type RIFF INFO has an id for.  No length limit
    of its own since the repair: the limit is the header cache (`HEADER_CAP`) for the whole list. -/
def infoOk (e : Nat × List Byte) : Prop := (∀ b ∈ e.2, b ≠ 0) ∧ (infoMarker e.1).isSome

/-- the limit of the old parser: strlen + 1 rounded up to even < 2048 -/
def infoOkOld (e : Nat × List Byte) : Prop := infoOk e ∧ e.2.length ≤ 2045

/-! ## 3. psf_strlcpy_crlf / psf_strlcat and the two variable-length texts -/

/-- psf_strlcpy_crlf: `room` = destend - dest; `skip` = the byte that, if it comes next, is the second half of a line
    end already emitted.  CR LF, LF CR, CR and LF all become CR LF.  Source bytes are copied up to `srcmax`, NULs
    included (the caller then takes strlen). -/
def crlfGo : Nat → Option Byte → List Byte → List Byte
  | _, _, [] => []
  | room, skip, a :: rest =>
    if skip = some a then crlfGo room none rest
    else if room = 0 then []
    else if a = 13 then 13 :: 10 :: crlfGo (room - 2) (some 10) rest
    else if a = 10 then 13 :: 10 :: crlfGo (room - 2) (some 13) rest
    else a :: crlfGo (room - 1) none rest

def VAR_TEXT : Nat := 16384       -- sizeof coding_history / tag_text in the _16K structs

def crlfCopy (src : List Byte) : List Byte := cstr (crlfGo (VAR_TEXT - 2) none src)

/-- psf_strlcat (dest, n, src): strncat of at most n - strlen (dest) - 1 bytes -/
def strlcat (n : Nat) (d s : List Byte) : List Byte := d ++ s.take (n - d.length - 1)

def endsWithLF (t : List Byte) : Bool := t.getLast? = some 10

/-- the line end added when the text is not empty and does not end in LF -/
def closeLine (t : List Byte) : List Byte :=
  if !t.isEmpty && !endsWithLF t then strlcat VAR_TEXT t [13, 10] else t

/-! ## 4. bext -/

structure Bext where
  description : List Byte     -- 256
  originator  : List Byte     -- 32
  originatorRef : List Byte   -- 32
  date : List Byte            -- 10
  time : List Byte            -- 8
  timeLow : Nat
  timeHigh : Nat
  version : Nat
  umid : List Byte            -- 64
  l1 : Nat
  l2 : Nat
  l3 : Nat
  l4 : Nat
  l5 : Nat                    -- loudness_value … max_shortterm_loudness (16 bit each)
  reserved : List Byte        -- 180
  history : List Byte         -- coding_history [0 .. coding_history_size)
deriving DecidableEq, Repr

def BEXT_MIN : Nat := 602
def BEXT_MAX : Nat := BEXT_MIN + 16 * 1024      -- WAV_BEXT_MAX_CHUNK_SIZE since the repair: what the writer can produce
def BEXT_MAX_OLD : Nat := 10 * 1024            -- … before ("fix: bext chunks with more than 9638 bytes of coding history were dropped on reading")
def BEXT_STRUCT_16K : Nat := 608 + 16384

/-- the field widths hold (what the C struct guarantees) -/
def Bext.wf (b : Bext) : Prop :=
  b.description.length = 256 ∧ b.originator.length = 32 ∧ b.originatorRef.length = 32 ∧ b.date.length = 10 ∧
  b.time.length = 8 ∧ b.timeLow < 2 ^ 32 ∧ b.timeHigh < 2 ^ 32 ∧ b.version < 2 ^ 16 ∧ b.umid.length = 64 ∧
  b.l1 < 2 ^ 16 ∧ b.l2 < 2 ^ 16 ∧ b.l3 < 2 ^ 16 ∧ b.l4 < 2 ^ 16 ∧ b.l5 < 2 ^ 16 ∧ b.reserved.length = 180

instance (b : Bext) : Decidable b.wf := by unfold Bext.wf; exact inferInstance

/-- the coding history as broadcast_var_set leaves it: `src` = the caller's bytes after the fixed part
    (datasize - 608 of them), `line` = the line gen_coding_history produces (added in SFM_WRITE only) -/
def normHistory (mode : Mode) (line src : List Byte) : List Byte :=
  let t := closeLine (crlfCopy src)
  let t := if mode = .write then strlcat VAR_TEXT t line else t
  t ++ zeros (t.length % 2)

/-- broadcast_var_set: the fixed part is copied, the history normalised, `version` forced to 2 -/
def setBext (mode : Mode) (line : List Byte) (info : Bext) : Bext :=
  { info with history := normHistory mode line info.history, version := 2 }

def writeBext (b : Bext) : List Byte :=
  mk "bext" ++ le4 (BEXT_MIN + b.history.length) ++ b.description ++ b.originator ++ b.originatorRef ++ b.date ++ b.time ++
  le4 b.timeLow ++ le4 b.timeHigh ++ le2 b.version ++ b.umid ++ le2 b.l1 ++ le2 b.l2 ++ le2 b.l3 ++ le2 b.l4 ++ le2 b.l5 ++ zeros 180 ++ b.history

/-- cut `n` bytes off the front -/
def splitAtN (n : Nat) (b : List Byte) : List Byte × List Byte := (b.take n, b.drop n)

/-- wavlike_read_bext_chunk on the chunk (id, size, payload).  `none`: the chunk is skipped. -/
def readBextWith (maxSize : Nat) (chunk : List Byte) : Option Bext :=
  let size := ofLE ((chunk.drop 4).take 4)
  let p := chunk.drop 8
  if size < BEXT_MIN ∨ size > maxSize ∨ size ≥ BEXT_STRUCT_16K then none
  else
    some { description := p.take 256, originator := (p.drop 256).take 32, originatorRef := (p.drop 288).take 32,
           date := (p.drop 320).take 10, time := (p.drop 330).take 8,
           timeLow := ofLE ((p.drop 338).take 4), timeHigh := ofLE ((p.drop 342).take 4), version := ofLE ((p.drop 346).take 2),
           umid := (p.drop 348).take 64,
           l1 := ofLE ((p.drop 412).take 2), l2 := ofLE ((p.drop 414).take 2), l3 := ofLE ((p.drop 416).take 2),
           l4 := ofLE ((p.drop 418).take 2), l5 := ofLE ((p.drop 420).take 2),
           reserved := zeros 180,
           history := (p.drop 602).take (size - BEXT_MIN) }

def readBext (chunk : List Byte) : Option Bext := readBextWith BEXT_MAX chunk
def readBextOld (chunk : List Byte) : Option Bext := readBextWith BEXT_MAX_OLD chunk

/-! ## 5. cart -/

/-- `head` = version … post_timers (748 bytes, laid out in the struct exactly as in the chunk), `reserved` 276,
    `url` 1024, `tag` = tag_text [0 .. tag_text_size) -/
structure Cart where
  head : List Byte
  reserved : List Byte
  url : List Byte
  tag : List Byte
deriving DecidableEq, Repr

def CART_MIN : Nat := 2048
def CART_STRUCT_16K : Nat := 2052 + 16384

def Cart.wf (c : Cart) : Prop := c.head.length = 748 ∧ c.reserved.length = 276 ∧ c.url.length = 1024

instance (c : Cart) : Decidable c.wf := by unfold Cart.wf; exact inferInstance

/-- cart_var_set: text normalised like the coding history (no added line), then `len += (len & 1) ? 1 : 2`: one NUL
    and, for an even length, one more byte of the malloc'ed block that nothing has written (`junk`) -/
def normTag (junk : Byte) (src : List Byte) : List Byte :=
  let t := closeLine (crlfCopy src)
  t ++ [0] ++ (if t.length % 2 = 0 then [junk] else [])

def setCart (junk : Byte) (info : Cart) : Cart := { info with tag := normTag junk info.tag }

def writeCart (c : Cart) : List Byte :=
  mk "cart" ++ le4 (CART_MIN + c.tag.length) ++ c.head ++ zeros 276 ++ c.url ++ c.tag

def readCartWith (limit : Nat) (chunk : List Byte) : Option Cart :=
  let size := ofLE ((chunk.drop 4).take 4)
  let p := chunk.drop 8
  if size < CART_MIN ∨ size ≥ limit then none
  else some { head := p.take 748, reserved := (p.drop 748).take 276, url := (p.drop 1024).take 1024,
              tag := (p.drop 2048).take (size - CART_MIN) }

/-- `chunksize > sizeof (SF_CART_INFO_16K) - 4` since the repair; `>=` before ("fix: a cart chunk whose tag text fills
    SF_CART_INFO_16K was refused on reading") -/
def readCart (chunk : List Byte) : Option Cart := readCartWith (CART_STRUCT_16K - 3) chunk
def readCartOld (chunk : List Byte) : Option Cart := readCartWith (CART_STRUCT_16K - 4) chunk

/-! ## 6. cue points -/

structure Cue where
  indx : Nat
  position : Nat
  fcc : Nat
  chunkStart : Nat
  blockStart : Nat
  sampleOffset : Nat
  name : List Byte
deriving DecidableEq, Repr

def Cue.wf (c : Cue) : Prop :=
  c.indx < 2 ^ 32 ∧ c.position < 2 ^ 32 ∧ c.fcc < 2 ^ 32 ∧ c.chunkStart < 2 ^ 32 ∧ c.blockStart < 2 ^ 32 ∧ c.sampleOffset < 2 ^ 32

instance (c : Cue) : Decidable c.wf := by unfold Cue.wf; exact inferInstance

def serCue (c : Cue) : List Byte :=
  le4 c.indx ++ le4 c.position ++ le4 c.fcc ++ le4 c.chunkStart ++ le4 c.blockStart ++ le4 c.sampleOffset

def writeCues (cs : List Cue) : List Byte :=
  mk "cue " ++ le4 (4 + cs.length * 24) ++ le4 cs.length ++ cs.flatMap serCue

def parseCue (b : List Byte) : Cue :=
  ⟨ofLE (b.take 4), ofLE ((b.drop 4).take 4), ofLE ((b.drop 8).take 4), ofLE ((b.drop 12).take 4), ofLE ((b.drop 16).take 4),
   ofLE ((b.drop 20).take 4), []⟩

def parseCues : Nat → List Byte → List Cue
  | 0, _ => []
  | n+1, b => if b.length < 24 then [] else parseCue (b.take 24) :: parseCues n (b.drop 24)

def MAX_CUES : Nat := 2500

/-- the `cue ` case of wav_read_header; `none` = the chunk is skipped (more than 2500 cues).  Names are set to "" —
    they would come from `labl` entries of an `adtl` list, which the writer never produces. -/
def readCues (chunk : List Byte) : Option (List Cue) :=
  let p := chunk.drop 8
  let n := ofLE (p.take 4)
  if n > MAX_CUES then none else some (parseCues n (p.drop 4))

/-- what survives of a cue point: everything but the name -/
def Cue.stripName (c : Cue) : Cue := { c with name := [] }

/-! ## 7. instrument (`smpl`) -/

structure Loop where
  mode : Int
  start : Nat
  stop : Nat        -- `end`
  count : Nat
deriving DecidableEq, Repr

structure Inst where
  gain : Int
  basenote : Int
  detune : Int
  velLo : Int
  velHi : Int
  keyLo : Int
  keyHi : Int
  loops : List Loop      -- loops [0 .. loop_count)
deriving DecidableEq, Repr

def SF_LOOP_NONE : Int := 800
def SF_LOOP_FORWARD : Int := 801
def SF_LOOP_BACKWARD : Int := 802
def SF_LOOP_ALTERNATING : Int := 803

def loopTypeEnc (m : Int) : Nat :=
  if m = SF_LOOP_FORWARD then 0 else if m = SF_LOOP_BACKWARD then 2 else if m = SF_LOOP_ALTERNATING then 1 else 32

def loopTypeDec (t : Nat) : Int :=
  if t = 0 then SF_LOOP_FORWARD else if t = 1 then SF_LOOP_ALTERNATING else if t = 2 then SF_LOOP_BACKWARD else SF_LOOP_NONE

/-- `(uint32_t) (detune * (0x40000000 / 25.0) + 0.5)` (conversion truncates towards zero, then wraps: x86-64) -/
def detuneEnc (d : Int) : Nat := wrapU 32 (Int.tdiv (d * 2 ^ 31 + 25) 50)

/-- `(int8_t) (pitch / (0x40000000 / 25.0) + 0.5)` -/
def detuneDec (p : Nat) : Int := wrapS 8 (((p : Int) * 50 + 2 ^ 30) / 2 ^ 31)

def serLoop (k : Nat) (l : Loop) : List Byte :=
  le4 k ++ le4 (loopTypeEnc l.mode) ++ le4 l.start ++ le4 (wrapU 32 ((l.stop : Int) - 1)) ++ le4 0 ++ le4 l.count

def serLoops : Nat → List Loop → List Byte
  | _, [] => []
  | k, l :: ls => serLoop k l ++ serLoops (k + 1) ls

/-- the `smpl` chunk of wav_write_header (`period` = (int) (1e9 / samplerate)), for 0 … 16 loops -/
def writeSmpl (period : Nat) (i : Inst) : List Byte :=
  mk "smpl" ++ le4 (36 + i.loops.length * 24) ++ le4 0 ++ le4 0 ++ le4 period ++ le4 (wrapU 32 i.basenote) ++
  le4 (detuneEnc i.detune) ++ le4 0 ++ le4 0 ++ le4 i.loops.length ++ le4 0 ++ serLoops 0 i.loops

def parseLoop (b : List Byte) : Loop :=
  ⟨loopTypeDec (ofLE ((b.drop 4).take 4)), ofLE ((b.drop 8).take 4), (ofLE ((b.drop 12).take 4) + 1) % 2 ^ 32, ofLE ((b.drop 20).take 4)⟩

/-- the loop walk of wav_read_smpl_chunk: while the declared count is positive and 24 bytes are left; only the first 16
    are kept -/
def parseLoops : Nat → List Byte → List Loop
  | 0, _ => []
  | n+1, b => if b.length < 24 then [] else parseLoop (b.take 24) :: parseLoops n (b.drop 24)

/-- wav_read_smpl_chunk on the chunk (id, size, payload) -/
def readSmpl (chunk : List Byte) : Option Inst :=
  let size := ofLE ((chunk.drop 4).take 4)
  let len := size + size % 2
  let p := (chunk.drop 8).take len
  let note := ofLE ((p.drop 12).take 4)
  let pitch := ofLE ((p.drop 16).take 4)
  let lc := ofLE ((p.drop 28).take 4)
  if lc = 0 ∧ len = 32 then none
  else
    let ls := if lc = 0 then [] else parseLoops (p.length / 24 + 1) (p.drop 36)
    some { gain := 1, basenote := wrapS 8 note, detune := detuneDec pitch, velLo := 0, velHi := 127, keyLo := 0, keyHi := 127,
           loops := ls.take 16 }

def normLoop (l : Loop) : Loop := ⟨loopTypeDec (loopTypeEnc l.mode), l.start, l.stop, l.count⟩

/-- what survives of an instrument in a WAV file -/
def normInst (i : Inst) : Inst :=
  { gain := 1, basenote := wrapS 8 (wrapU 32 i.basenote), detune := detuneDec (detuneEnc i.detune), velLo := 0, velHi := 127, keyLo := 0, keyHi := 127,
    loops := i.loops.map normLoop }

/-! ## 8. The handle: which calls are accepted, and what a closed WAV file holds -/

inductive Container | wav | wavex | rf64 | aiff | caf | w64 | other
deriving DecidableEq, Repr

/-- containers whose open sets `strings.flags = ALLOW_START | ALLOW_END` -/
def Container.hasStrings : Container → Bool
  | .wav | .wavex | .rf64 | .aiff | .caf => true
  | _ => false

structure MetaState where
  cont : Container
  mode : Mode
  haveWritten : Bool
  strings : Strings
  bext : Option Bext
  cart : Option Cart
  cues : Option (List Cue)
  inst : Option Inst
  audio : List Byte            -- the audio bytes written so far
deriving Repr

inductive Op
  | setString (ty : Int) (s : List Byte)
  | setBext (line : List Byte) (b : Bext) (declared datasize : Nat)   -- `b.history` = the datasize - 608 bytes after the fixed part
  | setCart (junk : Byte) (c : Cart) (declared datasize : Nat)       -- `declared` = the caller's coding_history_size / tag_text_size
  | setCues (cs : List Cue)
  | setInst (i : Inst)
  | writeAudio (bytes : List Byte)

def MetaState.open (c : Container) : MetaState :=
  ⟨c, .write, false, Strings.init (if c.hasStrings then SF_STR_ALLOW_START ||| SF_STR_ALLOW_END else 0), none, none, none, none, []⟩

/-- result code (`sf_set_string`: 0 = ok; `sf_command`: 1 = SF_TRUE) and the state afterwards -/
def step (pkgName pkgVersion : List Byte) (h : MetaState) : Op → Nat × MetaState
  | .setString ty s =>
    if h.mode = .read then (SFE_STR_NOT_WRITE, h)
    else
      let r := store ⟨h.mode, h.haveWritten, pkgName, pkgVersion⟩ h.strings ty s
      (r.1, { h with strings := r.2 })
  | .setBext line b declared datasize =>
    if h.cont ≠ .wav ∧ h.cont ≠ .wavex ∧ h.cont ≠ .rf64 then (0, h)
    else if h.mode = .read then (0, h)
    else if h.bext.isNone ∧ h.haveWritten then (0, h)
    else if datasize < 608 ∨ 608 + declared > datasize then (0, h)
    else if datasize ≥ BEXT_STRUCT_16K then (0, h)
    -- after the audio the chunk must keep its size ("fix: SFC_SET_BROADCAST_INFO / SFC_SET_CART_INFO after audio data could
    -- overwrite the audio"); before the repair every second block was accepted
    else if h.haveWritten ∧ (h.bext.map fun o => o.history.length) ≠ some (setBext h.mode line b).history.length then (0, h)
    else (1, { h with bext := some (setBext h.mode line b) })
  | .setCart junk c declared datasize =>
    if h.cont ≠ .wav ∧ h.cont ≠ .rf64 then (0, h)
    else if h.mode = .read then (0, h)
    else if h.cart.isNone ∧ h.haveWritten then (0, h)
    else if datasize < 2052 ∨ 2052 + declared > datasize then (0, h)
    else if datasize ≥ CART_STRUCT_16K then (0, h)
    else if h.haveWritten ∧ (h.cart.map fun o => o.tag.length) ≠ some (setCart junk c).tag.length then (0, h)
    else (1, { h with cart := some (setCart junk c) })
  | .setCues cs =>
    if h.haveWritten then (0, h)
    else (1, { h with cues := some cs })        -- a later call replaces the earlier one ("fix: a second SFC_SET_CUE …")
  | .setInst i =>
    if h.haveWritten then (0, h)
    else (1, { h with inst := some i })
  | .writeAudio bytes => (bytes.length, { h with haveWritten := true, audio := h.audio ++ bytes })

/-- the three rules of `step` as they were before the repairs: a second SFC_SET_CUE reported success and kept the first set;
    a second bext / cart block after the audio was accepted whatever its size -/
def stepOld (pkgName pkgVersion : List Byte) (h : MetaState) : Op → Nat × MetaState
  | .setCues cs =>
    if h.haveWritten then (0, h)
    else if h.cues.isSome then (1, h)
    else (1, { h with cues := some cs })
  | .setBext line b declared datasize =>
    if h.cont ≠ .wav ∧ h.cont ≠ .wavex ∧ h.cont ≠ .rf64 then (0, h)
    else if h.mode = .read then (0, h)
    else if h.bext.isNone ∧ h.haveWritten then (0, h)
    else if datasize < 608 ∨ 608 + declared > datasize then (0, h)
    else if datasize ≥ BEXT_STRUCT_16K then (0, h)
    else (1, { h with bext := some (setBext h.mode line b) })
  | op => step pkgName pkgVersion h op

/-- the metadata chunks wav_write_header puts between `fmt ` and `data`, in its order -/
def headerMeta (period : Nat) (h : MetaState) : List Byte :=
  (if (h.strings.flags &&& SF_STR_LOCATE_START) ≠ 0 then writeStrings h.strings SF_STR_LOCATE_START else []) ++
  (match h.bext with | some b => writeBext b | none => []) ++
  (match h.cart with | some c => writeCart c | none => []) ++
  (match h.cues with | some cs => writeCues cs | none => []) ++
  (match h.inst with | some i => writeSmpl period i | none => [])

/-- what a re-opened WAV file returns, computed chunk by chunk from the bytes the writer produced -/
structure Reopened where
  strings : List (Nat × List Byte)
  bext : Option Bext
  cart : Option Cart
  cues : Option (List Cue)
  inst : Option Inst
deriving Repr

/-- before the repair of KF-C12-RF64-ODD-PAD: rf64_read_header did not skip the pad byte that follows an odd number of audio bytes, so
    the LIST chunk behind the audio of such a file was not found again -/
def trailerFoundOld (h : MetaState) : Bool := !(h.cont = .rf64 && h.audio.length % 2 = 1)

def reopen (period : Nat) (h : MetaState) : Reopened :=
  { strings := (if (h.strings.flags &&& SF_STR_LOCATE_START) ≠ 0 ∧ locationCount h.strings SF_STR_LOCATE_START ≠ 0
                then parseInfo (writeStrings h.strings SF_STR_LOCATE_START) else []) ++
               -- the trailing LIST (rf64_read_header skips the pad byte behind an odd number of audio bytes since the repair of
               -- KF-C12-RF64-ODD-PAD; the rule before it is `trailerFoundOld` below)
               (if (h.strings.flags &&& SF_STR_LOCATE_END) ≠ 0 ∧ locationCount h.strings SF_STR_LOCATE_END ≠ 0
                then parseInfo (writeStrings h.strings SF_STR_LOCATE_END) else []),
    bext := h.bext.bind fun b => readBext (writeBext b),
    cart := h.cart.bind fun c => readCart (writeCart c),
    -- rf64.c: `cue ` is never written, `smpl` is written but rf64_read_header does not interpret it
    cues := if h.cont = .rf64 then none else h.cues.bind fun cs => readCues (writeCues cs),
    inst := if h.cont = .rf64 then none else h.inst.bind fun i => readSmpl (writeSmpl period i) }

end Sf.Meta
