/-
  SfModel.Routes — C14: the I/O shim of src/file_io.c (POSIX half) with its three routes, as written.

  The world is one OS file (or pipe stream) behind one descriptor, the set of descriptor numbers that are open
  in the process, and the user store behind the SF_VIRTUAL_IO callbacks (harness/vio.c without fault injection).
  The shim state is the part of SF_PRIVATE the primitives look at: `virtual_io`, `file.mode`, `file.filedes`,
  `fileoffset`, `filelength`, `pipeoffset`, `is_pipe`, `file.do_not_close_descriptor`, `error`.

  Modelled bug for bug (file_io.c 136-560, sndfile.c 437-469, 3075-3110, 3300-3320):
    psf_fseek       vio -> callback; pipe -> `return offset` without doing anything; SEEK_SET adds fileoffset,
                    SEEK_CUR / SEEK_END go to lseek unchanged (SEEK_END is relative to the REAL end of the
                    descriptor, not to fileoffset + filelength); any other whence returns 0; the result is
                    `absolute_position - fileoffset` even when lseek failed (-1 - fileoffset)
    psf_fread       0 for bytes = 0 or items = 0; vio -> callback (bytes*items) / bytes; descriptor: the read loop
                    transfers min (bytes*items, what is left) bytes, advances pipeoffset on pipes, returns total / bytes
                    (the partial item stays consumed)
    psf_fwrite      same shape
    psf_ftell       vio -> callback; pipe -> pipeoffset; else lseek (fd, 0, SEEK_CUR) - fileoffset (-1 on failure)
    psf_get_filelen vio -> callback; fstat size, then by mode: WRITE size - fileoffset; READ with fileoffset > 0: `filelength`
                    when set, else size - fileoffset (before 0003-fix: the size OF THE WHOLE DESCRIPTOR, `getFilelenOld`); RDWR the size
    psf_ftruncate   vio -> -1, nothing touched; else ftruncate (filedes, len + fileoffset)
                    (before 0001/0002-fix: no virtual_io test, no fileoffset, `ftruncateOld`)
    psf_fclose      vio -> 0; do_not_close_descriptor -> forget the descriptor; else close (filedes) when filedes >= 0
    sf_open_fd      SD2 refusal (closes the descriptor iff close_desc), do_not_close := !close_desc, is_pipe, fileoffset := psf_ftell
    psf_open_file   (head) is_pipe, filelength, the fileoffset > 0 switch (READ: < 24 refused, 44 before 0004-fix; WRITE: append at the end;
                    RDWR refused); (tail) the embedding whitelist; error exit runs psf_fclose

  Simplifications, all recorded in the evidence: sf_count_t is an unbounded `Int` (no 2^63 overflow of bytes*items);
  read()/write() transfer everything that is available (EINTR, short counts: C15's subject); a descriptor number
  other than the one attached to the modelled file is EBADF for every call but close.
-/
import SfModel.Basic
namespace Sf.Routes
open Sf

inductive Mode | r | w | rw
deriving DecidableEq, Repr, Inhabited

/-- errors this layer produces (numbers are taken from the library by `sfh routes consts`) -/
inductive Err | none | system | badOffset | noEmbedSupport | noEmbeddedRdwr | sd2Fd
deriving DecidableEq, Repr, Inhabited

structure World where
  file : List Byte := []      -- bytes of the OS file behind descriptor `fdnum` (pipe: the whole stream)
  off : Nat := 0              -- offset of the open file description (pipe: bytes consumed so far)
  isPipe : Bool := false
  fdnum : Nat := 3            -- the descriptor number attached to `file`
  openFds : List Nat := []    -- descriptor numbers open in the process (sentinels included)
  mem : List Byte := []       -- the store behind the SF_VIRTUAL_IO callbacks
  mpos : Nat := 0
deriving Repr, Inhabited

structure Shim where
  virtualIo : Bool := false
  mode : Mode := .r
  filedes : Int := -1
  fileoffset : Int := 0
  filelength : Int := 0
  pipeoffset : Int := 0
  isPipe : Bool := false
  doNotClose : Bool := false
  error : Err := .none
deriving Repr, Inhabited

/-! ## bytes -/

def zeros (n : Nat) : List Byte := List.replicate n 0

/-- pwrite semantics of a regular file and of the memory store: a gap is zero filled -/
def writeAt (f : List Byte) (off : Nat) (d : List Byte) : List Byte :=
  f.take off ++ zeros (off - f.length) ++ d ++ f.drop (off + d.length)

def readAt (f : List Byte) (off n : Nat) : List Byte := (f.drop off).take n

def resize (f : List Byte) (n : Nat) : List Byte := f.take n ++ zeros (n - f.length)

/-- the position a `whence` is relative to (0 = SEEK_SET, 1 = SEEK_CUR, 2 = SEEK_END) -/
def whBase (whence cur len : Nat) : Int := if whence = 0 then 0 else if whence = 1 then (cur : Int) else (len : Int)

/-! ## the operating system -/

def World.valid (w : World) (d : Int) : Bool := decide (0 ≤ d) && d.toNat == w.fdnum && w.openFds.contains w.fdnum

/-- lseek: (result, world); -1 = EBADF / ESPIPE / EINVAL -/
def lseek (w : World) (d : Int) (off : Int) (whence : Nat) : Int × World :=
  if !w.valid d || w.isPipe then (-1, w) else
  if 2 < whence then (-1, w) else
  let base : Int := whBase whence w.off w.file.length
  if base + off < 0 then (-1, w) else (base + off, { w with off := (base + off).toNat })

/-- the whole `while (items > 0) read (…)` loop of psf_fread: everything available up to `n` bytes -/
def osRead (w : World) (d : Int) (n : Nat) : List Byte × World :=
  if !w.valid d then ([], w) else
  (readAt w.file w.off n, { w with off := w.off + (readAt w.file w.off n).length })

def osWrite (w : World) (d : Int) (data : List Byte) : Nat × World :=
  if !w.valid d || data.length == 0 then (0, w) else
  if w.isPipe then (data.length, { w with file := w.file ++ data })
  else (data.length, { w with file := writeAt w.file w.off data, off := w.off + data.length })

def fstatSize (w : World) (d : Int) : Int :=
  if !w.valid d then -1 else if w.isPipe then 0 else w.file.length

def osTruncate (w : World) (d : Int) (len : Nat) : Int × World :=
  if !w.valid d || w.isPipe then (-1, w) else (0, { w with file := resize w.file len })

def osClose (w : World) (d : Nat) : Int × World :=
  if w.openFds.contains d then (0, { w with openFds := w.openFds.erase d }) else (-1, w)

/-! ## the user's callbacks (harness/vio.c, no fault) -/

def vioSeek (w : World) (off : Int) (whence : Nat) : Int × World :=
  if 2 < whence then (-1, w) else
  let base : Int := whBase whence w.mpos w.mem.length
  if base + off < 0 then (-1, w) else (base + off, { w with mpos := (base + off).toNat })

def vioRead (w : World) (count : Int) : List Byte × World :=
  if count < 0 then ([], w) else
  (readAt w.mem w.mpos count.toNat, { w with mpos := w.mpos + (readAt w.mem w.mpos count.toNat).length })

def vioWrite (w : World) (data : List Byte) : Nat × World :=
  if data.length = 0 then (0, w) else
  (data.length, { w with mem := writeAt w.mem w.mpos data, mpos := w.mpos + data.length })

/-! ## the shim primitives -/

/-- result of a primitive: returned count / position, bytes put into the caller's buffer, new state -/
structure R where
  ret : Int
  data : List Byte := []
  sh : Shim
  w : World
deriving Repr, Inhabited

def logSyserr (sh : Shim) : Shim := if sh.error = .none then { sh with error := .system } else sh

def fseek (sh : Shim) (w : World) (off : Int) (whence : Nat) : R :=
  if sh.virtualIo then { ret := (vioSeek w off whence).1, sh := sh, w := (vioSeek w off whence).2 } else
  if sh.isPipe then { ret := off, sh := sh, w := w } else
  if 2 < whence then { ret := 0, sh := sh, w := w } else
  let off' := if whence = 0 then off + sh.fileoffset else off
  let r := lseek w sh.filedes off' whence
  { ret := r.1 - sh.fileoffset, sh := if r.1 < 0 then logSyserr sh else sh, w := r.2 }

def fread (sh : Shim) (w : World) (bytes items : Int) : R :=
  if bytes = 0 ∨ items = 0 then { ret := 0, sh := sh, w := w } else
  if sh.virtualIo then
    let r := vioRead w (bytes * items)
    { ret := cdiv (r.1.length : Int) bytes, data := r.1, sh := sh, w := r.2 } else
  if items * bytes ≤ 0 then { ret := 0, sh := sh, w := w } else
  let r := osRead w sh.filedes (items * bytes).toNat
  let sh1 := if w.valid sh.filedes then sh else logSyserr sh          -- read () == -1: EBADF
  { ret := cdiv (r.1.length : Int) bytes, data := r.1,
    sh := if sh.isPipe then { sh1 with pipeoffset := sh1.pipeoffset + r.1.length } else sh1, w := r.2 }

/-- `data` is what the caller's pointer holds (bytes*items bytes are taken from it) -/
def fwrite (sh : Shim) (w : World) (bytes items : Int) (data : List Byte) : R :=
  if bytes = 0 ∨ items = 0 then { ret := 0, sh := sh, w := w } else
  if sh.virtualIo then
    if bytes * items ≤ 0 then { ret := 0, sh := sh, w := w } else
    let r := vioWrite w (data.take (bytes * items).toNat)
    { ret := cdiv (r.1 : Int) bytes, sh := sh, w := r.2 } else
  if items * bytes ≤ 0 then { ret := 0, sh := sh, w := w } else
  let r := osWrite w sh.filedes (data.take (items * bytes).toNat)
  let sh1 := if w.valid sh.filedes then sh else logSyserr sh          -- write () == -1: EBADF
  { ret := cdiv (r.1 : Int) bytes, sh := if sh.isPipe then { sh1 with pipeoffset := sh1.pipeoffset + r.1 } else sh1, w := r.2 }

def ftell (sh : Shim) (w : World) : R :=
  if sh.virtualIo then { ret := w.mpos, sh := sh, w := w } else
  if sh.isPipe then { ret := sh.pipeoffset, sh := sh, w := w } else
  let r := lseek w sh.filedes 0 1
  if r.1 = -1 then { ret := -1, sh := logSyserr sh, w := w } else { ret := r.1 - sh.fileoffset, sh := sh, w := w }

def getFilelen (sh : Shim) (w : World) : R :=
  if sh.virtualIo then { ret := w.mem.length, sh := sh, w := w } else
  let n := fstatSize w sh.filedes
  if n = -1 then { ret := -1, sh := logSyserr sh, w := w } else
  match sh.mode with
  | .w => { ret := n - sh.fileoffset, sh := sh, w := w }
  | .r => { ret := if sh.fileoffset > 0 then (if sh.filelength > 0 then sh.filelength else n - sh.fileoffset) else n, sh := sh, w := w }
  | .rw => { ret := n, sh := sh, w := w }

/-- psf_get_filelen before the repair (0003-fix-psf_get_filelen…): in SFM_READ the size of the whole descriptor until
    `filelength` was set -/
def getFilelenOld (sh : Shim) (w : World) : R :=
  if sh.virtualIo then { ret := w.mem.length, sh := sh, w := w } else
  let n := fstatSize w sh.filedes
  if n = -1 then { ret := -1, sh := logSyserr sh, w := w } else
  match sh.mode with
  | .w => { ret := n - sh.fileoffset, sh := sh, w := w }
  | .r => { ret := if sh.fileoffset > 0 ∧ sh.filelength > 0 then sh.filelength else n, sh := sh, w := w }
  | .rw => { ret := n, sh := sh, w := w }

def ftruncate (sh : Shim) (w : World) (len : Int) : R :=
  if len < 0 then { ret := -1, sh := sh, w := w } else
  if sh.virtualIo then { ret := -1, sh := sh, w := w } else          -- no truncate callback: refused, nothing touched
  let r := osTruncate w sh.filedes (len + sh.fileoffset).toNat
  { ret := r.1, sh := if r.1 = -1 then logSyserr sh else sh, w := r.2 }

/-- psf_ftruncate before the repairs (0001, 0002): no virtual_io test (ftruncate (-1): EBADF) and no fileoffset -/
def ftruncateOld (sh : Shim) (w : World) (len : Int) : R :=
  if len < 0 then { ret := -1, sh := sh, w := w } else
  let r := osTruncate w sh.filedes len.toNat
  { ret := r.1, sh := if r.1 = -1 then logSyserr sh else sh, w := r.2 }

def fclose (sh : Shim) (w : World) : R :=
  if sh.virtualIo then { ret := 0, sh := sh, w := w } else
  if sh.doNotClose then { ret := 0, sh := { sh with filedes := -1 }, w := w } else
  if sh.filedes < 0 then { ret := 0, sh := { sh with filedes := -1 }, w := w } else
  let r := osClose w sh.filedes.toNat
  { ret := r.1, sh := if r.1 = -1 then logSyserr { sh with filedes := -1 } else { sh with filedes := -1 }, w := r.2 }

def psfIsPipe (sh : Shim) (w : World) : Bool :=
  if sh.virtualIo then false else if fstatSize w sh.filedes = -1 then true else w.isPipe

/-! ## the operations the upper layer issues, as one step function -/

inductive Op
  | seek (off : Int) (whence : Nat)
  | read (bytes items : Int)
  | write (bytes items : Int) (data : List Byte)
  | tell
  | filelen
  | truncate (len : Int)
deriving Repr, Inhabited

def step (sh : Shim) (w : World) : Op → R
  | .seek off wh => fseek sh w off wh
  | .read b i => fread sh w b i
  | .write b i d => fwrite sh w b i d
  | .tell => ftell sh w
  | .filelen => getFilelen sh w
  | .truncate n => ftruncate sh w n

/-- what the upper layer sees of one step -/
abbrev Obs := Int × List Byte

def run : Shim → World → List Op → List Obs × Shim × World
  | sh, w, [] => ([], sh, w)
  | sh, w, op :: ops =>
    let r := step sh w op
    let rest := run r.sh r.w ops
    ((r.ret, r.data) :: rest.1, rest.2)

/-! ## the logical file: what all routes are supposed to present -/

structure Abs where
  content : List Byte := []
  pos : Nat := 0
deriving Repr, Inhabited, DecidableEq

/-- the specification of one step on the logical file (SEEK_END, length and truncate are relative to the logical
    content; a seek to a negative position fails with -1 and moves nothing) -/
def absStep (a : Abs) : Op → Obs × Abs
  | .seek off wh =>
    if 2 < wh then ((-1, []), a) else
    let base : Int := whBase wh a.pos a.content.length
    if base + off < 0 then ((-1, []), a) else ((base + off, []), { a with pos := (base + off).toNat })
  | .read b i =>
    if b = 0 ∨ i = 0 then ((0, []), a) else
    if b * i ≤ 0 then ((0, []), a) else
    let d := readAt a.content a.pos (b * i).toNat
    ((cdiv (d.length : Int) b, d), { a with pos := a.pos + d.length })
  | .write b i data =>
    if b = 0 ∨ i = 0 then ((0, []), a) else
    if b * i ≤ 0 then ((0, []), a) else
    let d := data.take (b * i).toNat
    if d.length = 0 then ((0, []), a) else
    ((cdiv (d.length : Int) b, []), { content := writeAt a.content a.pos d, pos := a.pos + d.length })
  | .tell => ((a.pos, []), a)
  | .filelen => ((a.content.length, []), a)
  | .truncate n =>
    if n < 0 then ((-1, []), a) else ((0, []), { a with content := resize a.content n.toNat })

def absRun : Abs → List Op → List Obs × Abs
  | a, [] => ([], a)
  | a, op :: ops =>
    let r := absStep a op
    let rest := absRun r.2 ops
    (r.1 :: rest.1, rest.2)

/-! ## opening -/

/-- containers psf_open_file lets through when fileoffset > 0 (SF_FORMAT_* majors >> 16) -/
def embedWhitelist : List Nat := [0x01, 0x13, 0x02, 0x03, 0x23, 0x17]   -- WAV WAVEX AIFF AU MPEG FLAC

def SD2 : Nat := 0x16
def SF_COUNT_MAX : Int := 9223372036854775807

/-- `sf_open`: psf_fopen gives a fresh descriptor at offset 0 (O_TRUNC when writing); fileoffset stays 0 -/
def openPath (w : World) (mode : Mode) : Shim × World :=
  ({ mode := mode, filedes := w.fdnum },
   { w with off := 0, openFds := w.fdnum :: w.openFds, file := if mode = .w then [] else w.file })

def openVio (mode : Mode) : Shim := { virtualIo := true, mode := mode }

/-- result of an open: the error (`.none` = handle returned), the shim and the world -/
structure OpenRes where
  err : Err
  sh : Shim
  w : World
deriving Repr, Inhabited

def failOpen (e : Err) (sh : Shim) (w : World) : OpenRes :=
  { err := e, sh := (fclose sh w).sh, w := (fclose sh w).w }     -- error_exit: psf_close -> psf_fclose

/-- psf_open_file: `psf->is_pipe = psf_is_pipe (psf)` and the first `psf->filelength` -/
def openFileLen (sh : Shim) (w : World) : Shim :=
  if psfIsPipe sh w then { sh with isPipe := true, filelength := SF_COUNT_MAX }
  else { sh with isPipe := false, filelength := (getFilelen { sh with isPipe := false } w).ret,
                 error := (getFilelen { sh with isPipe := false } w).sh.error }

/-- psf_open_file: the `if (psf->fileoffset > 0)` switch -/
def minEmbedded : Int := 24      -- AU header; 44 (a WAV header) before 0004-fix-embedded-files-shorter-than-44…
def minEmbeddedOld : Int := 44

def openFileEmbed (sh : Shim) (w : World) : OpenRes :=
  if sh.fileoffset > 0 then
    match sh.mode with
    | .r => if sh.filelength < minEmbedded then failOpen .badOffset sh w else { err := .none, sh := sh, w := w }
    | .w =>
      { err := .none,
        sh := { (ftell (fseek { sh with fileoffset := 0 } w 0 2).sh (fseek { sh with fileoffset := 0 } w 0 2).w).sh with
                fileoffset := (ftell (fseek { sh with fileoffset := 0 } w 0 2).sh (fseek { sh with fileoffset := 0 } w 0 2).w).ret },
        w := (ftell (fseek { sh with fileoffset := 0 } w 0 2).sh (fseek { sh with fileoffset := 0 } w 0 2).w).w }
    | .rw => failOpen .noEmbeddedRdwr sh w
  else { err := .none, sh := sh, w := w }

/-- psf_open_file up to the container dispatch -/
def openFileHead (sh : Shim) (w : World) : OpenRes := openFileEmbed (openFileLen sh w) w

/-- what the container parsers do to `filelength`: wav.c:353 and aiff.c:464 (`declared` = RIFF / FORM size + 8) clamp
    only embedded files; au.c:322-330 (`declared` = data offset + data size) clamps embedded files always and plain
    files when the header says less than the file holds -/
def clampDeclared (sh : Shim) (au : Bool) (declared : Int) : Shim :=
  if au then
    -- au.c:322 after 0005-fix: an embedded file trusts the header only when the announced data are there
    (if (sh.fileoffset > 0 ∧ declared ≤ sh.filelength) ∨ declared < sh.filelength then { sh with filelength := declared } else sh)
  else if sh.fileoffset > 0 ∧ sh.filelength > declared then { sh with filelength := declared } else sh

/-- psf_open_file after the container's open function returned 0 with major format `major` -/
def openFileTail (sh : Shim) (w : World) (major : Nat) : OpenRes :=
  if sh.fileoffset > 0 ∧ !embedWhitelist.contains major then failOpen .noEmbedSupport sh w
  else { err := .none, sh := sh, w := w }

/-- `sf_open_fd (fd, mode, sfinfo, close_desc)` up to the container dispatch; `major` is SF_CONTAINER (sfinfo->format) -/
def openFd (w : World) (fd : Int) (mode : Mode) (closeDesc : Bool) (major : Nat) : OpenRes :=
  if major = SD2 then
    { err := .sd2Fd, sh := {}, w := if closeDesc ∧ 0 ≤ fd then (osClose w fd.toNat).2 else w }
  else
    let sh : Shim := { mode := mode, doNotClose := !closeDesc, filedes := fd }
    let sh := { sh with isPipe := psfIsPipe sh w }
    let t := ftell sh w
    openFileHead { t.sh with fileoffset := t.ret } t.w

end Sf.Routes
