/-
  SfModel.Htk — stand-alone byte-exact (L1) model of the HTK container of src/htk.c (12-byte big-endian header:
  sample count, sample period in 100 ns units, sample size 2 / parameter kind 0; 16-bit big-endian PCM, mono).

  * `period`, `quant`   the sample period the writer stores and the rate a reader computes from it
  * `hdr`, `fmt`        htk_write_header; the write session is `Sf.Small2.run (fmt sr)`
  * `parse`             sf_open (SFM_READ): guess_file_type (HTK has no magic number: the test is
                        "bytes 8…11 = 00 02 00 00 and 2 * count + 12 = file length", and it comes after the tests of
                        20 other containers), htk_read_header, pcm_init, validate_sfinfo
-/
import SfModel.Small2
namespace Sf.Htk
open Sf Sf.Small2

/-- `sample_period = 10000000 / psf->sf.samplerate` -/
def period (sr : Nat) : Nat := 10000000 / sr

/-- the rate a reader reports for a file written at `sr`: 10000000 / period, or the guess 16000 when the period is 0 -/
def quant (sr : Nat) : Nat := if period sr > 0 then 10000000 / period sr else 16000

/-- `sample_count` of htk_write_header -/
def sampleCount (filelength : Int) : Int := if filelength > 12 then (filelength - 12) / 2 else 0

/-- htk_write_header: "E444" sample_count, sample_period, 0x20000 -/
def hdr (sr : Nat) (f : Fields) : List Byte :=
  be32 (sampleCount f.filelength) ++ be32 (period sr) ++ be32 0x20000

/-- the container for `Sf.Small2.run`: `calc_length` only refreshes psf->filelength -/
def fmt (sr : Nat) : Fmt :=
  { hdrLen := 12, bw := 2, hdr := hdr sr, recalc := fun n f => { f with filelength := n } }

/-- configurations sf_open (SFM_WRITE) accepts: PCM_16, one channel (sf_format_check), any positive rate -/
def wf (sr : Nat) : Prop := 1 ≤ sr ∧ sr ≤ 0x7FFFFFFF
instance (sr : Nat) : Decidable (wf sr) := by unfold wf; infer_instance

/-- htk_read_header + pcm_init + validate_sfinfo on a file `guess_file_type` called HTK -/
def readHeader (bs : List Byte) : ParseRes :=
  let (a, r) := cut 4 bs
  let (b, r) := cut 4 r
  let (c, _) := cut 4 r
  let count : Int := sext 32 (ofBE a)
  let per : Int := sext 32 (ofBE b)
  if 2 * count + 12 ≠ (bs.length : Int) then .err else
  if ofBE c ≠ 0x20000 then .err else
  let sr : Int := if per > 0 then 10000000 / per else 16000
  let frames := framesOf bs.length 12 0 2
  if sr < 1 then .err else .ok { ch := 1, fmt := 0x100002, sr := sr.toNat, frames := frames.toNat }

/-- `sf_open_virtual (SFM_READ)` on `bs` -/
def parse (bs : List Byte) : ParseRes :=
  if bs.length < 12 then .err else                    -- guess_file_type: SFE_BAD_FILE_READ
  if bs.length ≥ 2 ^ 31 then .unmodelled else         -- `2 * sample_count` is computed in 32-bit int
  match guess bs with
  | some (.fmt 0x100000) => readHeader bs
  | _ => .unmodelled                                  -- another container's reader, or the tests after HTK

end Sf.Htk
