/-
  SfModel.HandleGInst3 — the remaining sample-granular containers as instances of the generic handle machine
  (SfModel/HandleG.lean): SVX, MPC2K, WVE, PVF, MAT4, MAT5, NIST, VOC.  Thin adapters: the header bytes are the
  stand-alone model's `hdr` evaluated on the handle state, the format check of a new file is `Sf.Fmt.openWrite`
  (sf_format_check + the container's own tests + validate_sfinfo), the verdict on an existing file is the stand-alone
  model's `parse`; what the adapters add is the GEOMETRY the handle keeps (`dataoffset`, `dataend`) — the stand-alone
  parsers report the frame count only.

  Container by container, where it departs from the common shape:
  * SVX    FORM / BODY sizes from `filelength` / `datalength`; NAME is the file name (a parameter; empty for a virtual file)
  * MPC2K  the `calc_length` block sets `dataoffset = 42` itself and ignores `dataend`; the name field is a parameter
  * WVE    only `datalength` goes into the header
  * PVF    no `calc_length` block, `pvf_close` does nothing
  * MAT4   the byte order of an existing file is kept in SFM_RDWR (`psf->endian = SF_ENDIAN (sf.format)`)
  * MAT5   the 124 text bytes (package version, date) are a parameter; compressed rate element
  * NIST   `sf.frames = 0` before the first header in every writing mode; `dataoffset = 1024` whatever the text is long
  * VOC    `voc_close` puts the terminator where the audio ends (SFM_RDWR: `dataoffset + frames * blockwidth`, else the
           end of the file) BEFORE the header is recomputed; the `calc_length` block ignores a `dataend` at or behind the
           file end

  Core Lean only; names live in `Sf.HandleG`.
-/
import SfModel.HandleGInst
import SfModel.Svx
import SfModel.Mpc2k
import SfModel.Wve
import SfModel.Pvf
import SfModel.Mat4
import SfModel.Mat5
import SfModel.Nist
import SfModel.Voc
namespace Sf.HandleG
open Sf

/-! ## helpers -/

/-- sf_open (SFM_WRITE) says yes (`Sf.Fmt.openWrite`: sf_format_check, the container's open function, validate_sfinfo);
    `enc`: the sample encoding and data byte order the container selects -/
def acceptOpen (enc : Nat → Option (Enc × Bool)) (fmt : Nat) (ch sr : Int) : Accept :=
  if Sf.Fmt.openWrite fmt ch sr != .ok then .refuse else
  match enc fmt with
  | none => .unmodelled
  | some (e, big) => .ok e big

/-- verdict of a stand-alone parser + the geometry (`none`: the adapter does not describe this file) -/
def ofSmall2G (r : Small2.ParseRes) (big : Nat → Bool) (geo : Option (Nat × Int)) (flen : Nat) : ParseG :=
  match r with
  | .err => .err
  | .unmodelled => .unmodelled
  | .ok i =>
    match geo with
    | none => .unmodelled
    | some (off, dend) => mkParsed i.fmt i.ch i.sr (big i.fmt) off dend flen

/-- the first bytes are these (every parser of the table starts with its own signature test) -/
def startsWith (sig : List Byte) (bs : List Byte) : Bool := bs.take sig.length == sig

def guardSig (ok : Bool) (r : ParseG) : ParseG := if ok then r else .unmodelled

def fieldsOf (h : H) : Small2.Fields := { frames := h.frames, filelength := h.filelength, datalength := h.datalength }

/-! ## SVX -/

def svxCfg (name : List Byte) (h : H) : Svx.Cfg :=
  { codec := codecOf h.fmtWord, endian := endianOf h.fmtWord, ch := h.ch, sr := h.sr.toNat, name := name }

/-- the chunk walk of `Sf.Svx.parse`, keeping the scanner state (data offset, data end) -/
def svxScan (bs : List Byte) : Option Svx.Sc :=
  if bs.length < 12 then none else
  if (12 : Int) ≥ (bs.length : Int) - 4 then some {} else
  match Svx.walk bs bs.length {} with
  | some (some s) => some s
  | _ => none

def svxParse (bs : List Byte) : ParseG :=
  match Svx.parse bs with
  | .err => .err
  | .unmodelled => .unmodelled
  | .ok i =>
    match svxScan bs with
    | none => .unmodelled
    | some sc => mkParsed i.fmt i.ch i.sr true sc.dataoffset.toNat sc.dataend bs.length

def svxSpecN (name : List Byte) : Spec :=
  { name := "svx",
    accept := acceptOpen fun fmt => (pcmEnc (codecOf fmt) true).map fun e => (e, true),
    zeroFrames := false,
    hdr := fun h => Svx.hdr (svxCfg name h) h.frames.toNat h.filelength h.datalength,
    recalc := calcStd true,
    restore := restoreCur,
    parse := fun _ _ _ bs => guardSig (startsWith (Small2.asc "FORM") bs) (svxParse bs) }

/-- a virtual file has no name -/
def svxSpec : Spec := svxSpecN []

/-! ## MPC2K -/

def mpcCalc (h : H) (fl : Int) : H :=
  { h with filelength := fl, dataoffset := 42, datalength := fl - 42, frames := (fl - 42) / (h.nb * h.ch : Nat) }

def mpcSpecN (name : List Byte) : Spec :=
  { name := "mpc2k",
    accept := acceptOpen fun fmt => (pcmEnc (codecOf fmt) false).map fun e => (e, false),
    zeroFrames := false,
    hdr := fun h => Mpc2k.hdr { ch := h.ch, sr := h.sr.toNat, name := name } (fieldsOf h),
    recalc := mpcCalc,
    restore := restoreCur,
    parse := fun _ _ _ bs => guardSig (startsWith [1, 4] bs) (ofSmall2G (Mpc2k.parse bs) (fun _ => false) (some (42, 0)) bs.length) }

def mpcSpec : Spec := mpcSpecN (List.replicate 17 0x20)

/-! ## WVE -/

def wveSpec : Spec :=
  { name := "wve",
    accept := acceptOpen fun _ => (pcmEnc 0x11 true).map fun e => (e, true),
    zeroFrames := false,
    hdr := fun h => Wve.hdr (fieldsOf h),
    recalc := calcStd true,
    restore := restoreCur,
    parse := fun _ _ _ bs => guardSig (startsWith (Small2.asc "ALaw") bs) (ofSmall2G (Wve.parse bs) (fun _ => true) (some (32, 0)) bs.length) }

/-! ## PVF -/

def pvfGeo (bs : List Byte) : Option (Nat × Int) :=
  some (Pvf.dataOffset true bs.length (Pvf.getLine 31 (bs.drop 5)).2, 0)

def pvfSpec : Spec :=
  { name := "pvf",
    accept := acceptOpen fun fmt =>
      if codecOf fmt == 1 ∨ codecOf fmt == 2 ∨ codecOf fmt == 4 then (pcmEnc (codecOf fmt) true).map fun e => (e, true) else none,
    zeroFrames := false,
    hdr := fun h => Pvf.hdr { codec := codecOf h.fmtWord, ch := h.ch, sr := h.sr.toNat },
    recalc := fun h _ => h,
    restore := restoreCur,
    closeHdr := false,
    parse := fun _ _ _ bs => guardSig (startsWith (Small2.asc "PVF1") bs) (ofSmall2G (Pvf.parse bs) (fun _ => true) (pvfGeo bs) bs.length) }

/-! ## MAT4 -/

def matBig (fmt : Nat) : Bool := endianOf fmt == 2

/-- `psf->dataoffset = psf_ftell` behind the second name, `psf->dataend` when the file goes on behind rows x cols samples -/
def mat4Geo (bs : List Byte) : Option (Nat × Int) :=
  if bs.length < 20 then none else
  let little : Bool := bs.take 4 = [0, 0, 0, 0]
  let ns1 := Mat4.r32 little ((bs.drop 16).take 4)
  let o2 := 20 + ns1 + 8
  if bs.length < o2 + 20 then none else
  let ns2 := Mat4.r32 little ((bs.drop (o2 + 16)).take 4)
  let off := o2 + 20 + ns2
  if bs.length < off then none else
  let rows : Int := sext 32 (Mat4.r32 little ((bs.drop (o2 + 4)).take 4))
  let cols : Int := sext 32 (Mat4.r32 little ((bs.drop (o2 + 8)).take 4))
  match Mat4.codecOf ((bs.drop o2).take 4) with
  | none => none
  | some (_, bytew) =>
    let room : Int := (bs.length : Int) - off
    let need : Int := rows * cols * bytew
    some (off, if room > need then off + need else 0)

def mat4Spec : Spec :=
  { name := "mat4",
    accept := acceptOpen fun fmt => (pcmEnc (codecOf fmt) (matBig fmt)).map fun e => (e, matBig fmt),
    zeroFrames := false,
    hdr := fun h => Mat4.hdr { codec := codecOf h.fmtWord, endian := if h.big then 2 else 1, ch := h.ch, sr := h.sr.toNat } (fieldsOf h),
    recalc := calcStd true,
    restore := restoreCur,
    parse := fun _ _ _ bs => guardSig (startsWith [0, 0, 0, 0] bs || startsWith [0, 0, 3, 0xE8] bs) (ofSmall2G (Mat4.parse bs) matBig (mat4Geo bs) bs.length) }

/-! ## MAT5 -/

def mat5Cfg (text : List Byte) (h : H) : Mat5.Cfg :=
  { codec := codecOf h.fmtWord, endian := if h.big then 2 else 1, ch := h.ch, sr := h.sr.toNat, text := text }

/-- the header layout mat5_write_header produces (names in 16 / 8 bytes, compressed rate element): audio at 264.
    Other layouts are left to `Sf.Mat5`. -/
def mat5Geo (bs : List Byte) : Option (Nat × Int) :=
  if bs.length < 264 then none else
  let little : Bool := (bs.drop 126).take 2 = [0x49, 0x4D]
  let l := little
  let tyR := Mat4.r32 l ((bs.drop 192).take 4)
  if (bs.drop 168).take 8 = Mat4.w32 l 1 ++ Mat4.w32 l 10 ∧ (tyR = 0x00020004 ∨ tyR = 0x00040006) ∧
     (bs.drop 240).take 16 = Mat4.w32 l 1 ++ (Mat4.w32 l 8 ++ Mat5.wdName) then some (264, 0) else none

def mat5SpecT (text : List Byte) : Spec :=
  { name := "mat5",
    accept := acceptOpen fun fmt => (pcmEnc (codecOf fmt) (matBig fmt)).map fun e => (e, matBig fmt),
    zeroFrames := false,
    hdr := fun h => Mat5.hdr (mat5Cfg text h) (fieldsOf h),
    recalc := calcStd true,
    restore := restoreCur,
    parse := fun _ _ _ bs => guardSig (startsWith (Small2.asc "MATLAB 5") bs) (ofSmall2G (Mat5.parse bs) matBig (mat5Geo bs) bs.length) }

/-- a text field of the right shape (the driver passes the library's own: package version and the date) -/
def mat5Text0 : List Byte := (Small2.asc "MATLAB 5.0 MAT-file" ++ [0] ++ List.replicate 124 0x20).take 124

def mat5Spec : Spec := mat5SpecT mat5Text0

/-! ## NIST -/

/-- `calc_length` with its `if (psf->bytewidth > 0)` -/
def nistCalc (h : H) (fl : Int) : H :=
  let dl := fl - h.dataoffset
  let dl := if h.dataend != 0 then dl - (fl - h.dataend) else dl
  let h := { h with filelength := fl, datalength := dl }
  if h.nb > 0 then { h with frames := dl / (h.nb * h.ch : Nat) } else h

def nistGeo (bs : List Byte) : Option (Nat × Int) :=
  if bs.take 16 = Small2.asc "NIST_1A\n   1024\n" then some (1024, 0) else none

def nistSpec : Spec :=
  { name := "nist",
    accept := acceptOpen fun fmt => (pcmEnc (codecOf fmt) (matBig fmt)).map fun e => (e, matBig fmt),
    hdr := fun h => Nist.hdr { codec := codecOf h.fmtWord, endian := if h.big then 2 else 1, ch := h.ch, sr := h.sr.toNat } (fieldsOf h),
    recalc := nistCalc,
    offAfter := fun _ _ => 1024,
    restore := restoreCur,
    parse := fun _ _ _ bs => guardSig (startsWith (Small2.asc "NIST_1A") bs) (ofSmall2G (Nist.parse bs) matBig (nistGeo bs) bs.length) }

/-! ## VOC -/

/-- `calc_length`: a `dataend` at or behind the end of the file is stale -/
def vocCalc (h : H) (fl : Int) : H :=
  let dl := fl - h.dataoffset
  let dl := if h.dataend > 0 ∧ h.dataend < fl then dl - (fl - h.dataend) else dl
  { h with filelength := fl, datalength := dl, frames := dl / (h.nb * h.ch : Nat) }

/-- `voc_close` in front of the header rewrite: where the terminator goes, and the terminator -/
def vocTailer (h : H) (s : Store) : H × Store :=
  let de : Int := if h.mode == .rw ∧ h.nb > 0 then h.dataoffset + h.frames * h.nb * h.ch else 0
  let (h, s) := if de > 0 then ({ h with dataend := de }, s.seekSet de.toNat)
                else ({ h with dataend := s.bytes.length }, s.seekSet s.bytes.length)
  (h, s.write [0])

def vocGeo (bs : List Byte) : Option (Nat × Int) :=
  match Voc.readBlock bs with
  | .ok _ _ _ _ d de => some (d, de)
  | _ => none

def vocSpec : Spec :=
  { name := "voc",
    accept := acceptOpen fun fmt => (pcmEnc (codecOf fmt) false).map fun e => (e, false),
    zeroFrames := false,
    hdr := fun h => Voc.hdr { codec := codecOf h.fmtWord, ch := h.ch, sr := h.sr.toNat } (fieldsOf h),
    recalc := vocCalc,
    restore := restoreCur,
    tailer := vocTailer,
    parse := fun _ _ _ bs => guardSig (startsWith (Small2.asc "Creative") bs) (ofSmall2G (Voc.parse bs) (fun _ => false) (vocGeo bs) bs.length) }

/-! ## the table of this group -/

def specOfMajor3 (mat5text : List Byte) (fmt : Nat) : Option Spec :=
  match fmt / 0x10000 % 0x1000 with
  | 0x06 => some svxSpec | 0x21 => some mpcSpec | 0x19 => some wveSpec | 0x0E => some pvfSpec
  | 0x0C => some mat4Spec | 0x0D => some (mat5SpecT mat5text) | 0x07 => some nistSpec | 0x08 => some vocSpec
  | _ => none

def allSpecs3 (mat5text : List Byte) : List Spec :=
  [svxSpec, mpcSpec, wveSpec, pvfSpec, mat4Spec, mat5SpecT mat5text, nistSpec, vocSpec]

end Sf.HandleG
