/-
  SfModel.Geometry — the L0 geometry table of every (container, encoding): block length in frames,
  pad allowance.  Written from the format definitions / codec block structures; the executable
  counterpart used by the campaigns is vlib/geometry.py (`block_frames`, `pad_frames`,
  `srate2blocksize`) and the two are kept identical line by line.

  `major` is the container code (format word / 0x10000 % 0x1000), `codec` the sub-type (format word % 0x10000).
  Core Lean only (no Mathlib).
-/
namespace Sf.Geometry

def IMA : Nat := 0x12
def MS  : Nat := 0x13
def GSM : Nat := 0x20
def VOX : Nat := 0x21
def NMS  : List Nat := [0x22, 0x23, 0x24]
def G72X : List Nat := [0x30, 0x31, 0x32]
def DWVW : List Nat := [0x40, 0x41, 0x42, 0x43]
def ALAC : List Nat := [0x70, 0x71, 0x72, 0x73]

/-- the encodings in which one frame is a fixed number of bytes (vlib/formats.py SAMPLE_GRANULAR) -/
def sampleGranular : List Nat := [0x01, 0x05, 0x02, 0x03, 0x04, 0x06, 0x07, 0x10, 0x11, 0x50, 0x51]

/-- `wavlike_srate2blocksize` (bytes per ADPCM block as a function of samplerate × channels) -/
def srate2blocksize (p : Nat) : Nat :=
  if p < 12000 then 256 else if p < 23000 then 512 else if p < 44000 then 1024 else 2048

/-- B: frames per codec block (1 for sample-granular encodings).
    The two ADPCM expressions are evaluated in `Int` with floor division as Python does and clamped at 0
    (they are negative only for channel counts no container accepts). -/
def blockFrames (major codec ch sr : Nat) : Nat :=
  if codec == IMA then
    if major == 0x02 then 64
    else
      let ba : Int := srate2blocksize (sr * ch)
      (2 * (ba - 4 * (ch : Int)) / (ch : Int) + 1).toNat
  else if codec == MS then
    let ba : Int := srate2blocksize (sr * ch)
    (2 + 2 * (ba - 7 * (ch : Int)) / (ch : Int)).toNat
  else if codec == GSM then
    if [0x01, 0x0B, 0x13, 0x22].contains major then 320 else 160
  else if codec == VOX then 2
  else if NMS.contains codec then 160
  else if G72X.contains codec then 120
  else if major == 0x05 && codec == 0x03 then 10      -- PAF 24-bit: 10 frames per block
  else 1

/-- at most one pad frame where a container pads odd byte counts (C04).  No container uses the allowance any
    more: AIFF counted its SSND pad byte as a frame until KF-AIFF-ODD-PAD was repaired (`padFramesOld`). -/
def padFrames (_major _codec _ch : Nat) : Nat := 0

/-- the table before the repair of KF-AIFF-ODD-PAD: one-byte encodings in AIFF -/
def padFramesOld (major codec _ch : Nat) : Nat :=
  let onebyte := [0x01, 0x05, 0x10, 0x11].contains codec
  if major == 0x02 && onebyte then 1 else 0

/-- frames a block codec stores for N written frames: N rounded up to whole blocks -/
def ceilToBlock (n b : Nat) : Nat := (n + b - 1) / b * b

/-- frames visible in a snapshot of a block-coded file: N rounded down to whole blocks (C11) -/
def floorToBlock (n b : Nat) : Nat := n / b * b

end Sf.Geometry
