/-
  SfModel.HeaderBuf — the CONTENTS of the header buffer on the write side (src/common.c: psf_allocate,
  psf_bump_header_allocation, psf_binheader_writef), with the heap as an oracle.

  SfModel/HeaderCache.lean tracks the three integers indx / end / len (C03: where the code touches the buffer); this file tracks
  what the buffer HOLDS, because header writers leave gaps: psf_binheader_writef's 'o' specifier sets `header.indx` to an absolute
  offset without storing anything (sd2_write_rsrc_fork lays the resource fork out that way, beyond byte 256), and the bytes of
  the gaps go to the file with everything else (`psf_fwrite (header.ptr, header.indx, 1, psf)`).

  `junk k` is whatever the k-th byte of memory gained by realloc happens to hold — the heap's history: bytes of other handles,
  of earlier use of the library, an allocator's fill pattern.  The campaign's counterpart is vlib/heapcamp.py (every script under
  three allocator fills).
    Rule.zeroTail   the code as it is: "Always zero-out new header memory" (memset of the gained tail)
    Rule.keepJunk   the same function without the memset (the regression class the campaign looks for)
-/
import SfModel.Basic
namespace Sf.HeaderBuf
open Sf

abbrev Junk := Nat → Byte

inductive Rule | zeroTail | keepJunk
deriving DecidableEq, Repr, Inhabited

structure Buf where
  bytes : List Byte        -- header.ptr [0 .. header.len)
  indx  : Nat := 0
deriving Repr, DecidableEq

/-- psf_allocate: calloc (1, INITIAL_HEADER_SIZE) -/
def Buf.init : Buf := { bytes := List.replicate 256 0 }

/-- the bytes realloc's gain holds after psf_bump_header_allocation -/
def tail (r : Rule) (j : Junk) (n : Nat) : List Byte :=
  match r with
  | .zeroTail => List.replicate n 0
  | .keepJunk => (List.range n).map j

/-- `newlen` of psf_bump_header_allocation (the 100 KiB cap refuses larger requests: the writers never get there) -/
def newLen (len needed : Nat) : Nat := if needed > len then 2 * (if needed > 256 then needed else 256) else 2 * len

/-- psf_bump_header_allocation (psf, needed) -/
def bump (r : Rule) (j : Junk) (b : Buf) (needed : Nat) : Buf :=
  { b with bytes := b.bytes ++ tail r j (newLen b.bytes.length needed - b.bytes.length) }

/-- overwrite `d` at `off` inside a buffer that is long enough -/
def store (bs : List Byte) (off : Nat) (d : List Byte) : List Byte := bs.take off ++ d ++ bs.drop (off + d.length)

/-- the specifiers of psf_binheader_writef that matter here: `put` = any data specifier (bytes stored at indx, indx advanced;
    the guard `indx + size >= len && bump`), `at_` = 'o' (`size >= len && bump`, then indx = size: NOTHING is stored) -/
inductive WOp
  | put (d : List Byte)
  | at_ (off : Nat)
deriving Repr, DecidableEq

def wstep (r : Rule) (j : Junk) (b : Buf) : WOp → Buf
  | .put d =>
    let b1 := if b.indx + d.length ≥ b.bytes.length then bump r j b (b.indx + d.length) else b
    { bytes := store b1.bytes b1.indx d, indx := b1.indx + d.length }
  | .at_ off =>
    let b1 := if off ≥ b.bytes.length then bump r j b off else b
    { b1 with indx := off }

def wrun (r : Rule) (j : Junk) (b : Buf) (ops : List WOp) : Buf := ops.foldl (wstep r j) b

/-- what goes to the file: `psf_fwrite (psf->header.ptr, psf->header.indx, 1, psf)` -/
def emit (b : Buf) : List Byte := b.bytes.take b.indx

end Sf.HeaderBuf
