/-
  SfModel.AdpcmReader — the IMA ADPCM (WAV / W64 layout) and MS ADPCM readers of ima_adpcm.c / ms_adpcm.c as
  instances of the generic block reader: `decodeBlock` = the block decoders of SfModel/Adpcm.lean (proved equal to
  the reference decoders in SfProps/C20Adpcm.lean), blocks of `blockalign` bytes, `samplesperblock` frames each,
  `sf.frames = samplesperblock * blocks`.

  Their end-of-data test is written `blockcount >= blocks && samplecount >= samplesperblock`; with `frames` a whole
  number of blocks that is `pos >= frames` of the generic reader for every state a handle can be in (cur < blocks).
  Their staging loops (int / float / double callers: pieces of 4096 shorts) stop after the first short piece.
-/
import SfModel.Block
import SfModel.BlockFile
import SfModel.Adpcm
namespace Sf.Block

/-- force a decoded block to `n` items (the decoders deliver exactly that on a whole block) -/
def fixLen (n : Nat) (l : List Int) : List Int := (l ++ zeros n).take n

def splitBlocksZ (bsz : Nat) : Nat → List Byte → List (List Byte)
  | 0, _ => []
  | n + 1, l => let b := l.take bsz; (b ++ List.replicate (bsz - b.length) 0) :: splitBlocksZ bsz n (l.drop bsz)

/-- `ima_reader_init` / `msadpcm_init` (read): `blocks`, `sf.frames`, first block loaded by `Reader.init` -/
def adpcmReader (dec : List Byte → List Int) (ch ba spb : Nat) (data : List Byte) : Reader :=
  let nb := if ba = 0 then 0 else if data.length % ba ≠ 0 then data.length / ba + 1 else data.length / ba
  let blocks := (splitBlocksZ ba nb data).toArray
  { spb := spb, ch := ch, frames := spb * nb,
    src := fun k => if k < nb then fixLen (spb * ch) (dec (blocks.getD k [])) else zeros (spb * ch) }

def imaWavReader (ch ba spb : Nat) (data : List Byte) : Reader := adpcmReader (Adpcm.imaWavDecodeBlock ch spb) ch ba spb data
def msReader (ch ba spb : Nat) (data : List Byte) : Reader := adpcmReader (Adpcm.msDecodeBlock ch spb) ch ba spb data

/-- staging loop of `ima_read_i/f/d`, `msadpcm_read_i/f/d` (chunk = 4096) and of the short callers (chunk = 0: one
    piece): like `Reader.readChunked` but the loop ends after a piece that came back short.
    `convZero`: a piece that delivered nothing is still converted into the caller's buffer (IMA: yes, MS: no). -/
def Reader.readChunkedBrk (r : Reader) (chunk : Nat) (convZero : Bool) : Nat → RState → Nat → List Int → Nat → RState × List Int × Nat
  | 0, st, _, acc, total => (st, acc, total)
  | fuel + 1, st, n, acc, total =>
    if n = 0 then (st, acc, total)
    else
      let rc := if chunk = 0 then n else min chunk n
      let (st1, d1, t1) := r.read st rc
      let acc1 := if t1 = 0 ∧ !convZero then acc else acc.take total ++ d1 ++ acc.drop (total + rc)
      if t1 ≠ rc then (st1, acc1, total + t1)
      else r.readChunkedBrk chunk convZero fuel st1 (n - rc) acc1 (total + t1)

/-- `sf_read_T` on an ADPCM handle -/
def RHandle.readBrk (h : RHandle) (chunk : Nat) (convZero : Bool) (n : Nat) : RHandle × List Int × Nat :=
  if n = 0 then (h, [], 0)
  else if h.pos ≥ h.frames then (h, zeros n, 0)
  else
    let (st, d, count) := h.r.readChunkedBrk chunk convZero (n + 1) h.st n [] 0
    if count ≤ (h.frames - h.pos) * h.r.ch then ({ h with st := st, pos := h.pos + count / h.r.ch }, d, count)
    else
      let c := (h.frames - h.pos) * h.r.ch
      ({ h with st := st, pos := h.frames }, d.take c ++ zeros (n - c), c)

end Sf.Block
