/-
  SfModel.FormatCheck — `sf_format_check`, the open-for-write gate of `psf_open_file`, and every
  container's `*_open` write path (endianness resolution, header writer, codec dispatch), plus what the
  produced file re-opens as.  Core Lean only.

  `check` is transcribed case by case from `sf_format_check` (src/sndfile.c).
  `openWrite` is written from `psf_open_file` and the 23 `*_open` functions + the codec `*_init`
  functions they call: it answers "does sf_open (SFM_WRITE) succeed, with which error, and are the four
  write function pointers installed".  Build modelled: little-endian CPU, no external libraries
  (FLAC / Ogg / MPEG are compiled as stubs that return SFE_UNIMPLEMENTED), ENABLE_EXPERIMENTAL_CODE = 0.
-/
import SfModel.Basic
namespace Sf.Fmt

/-! ## format word -/

abbrev SUBMASK : Int := 0x10000
/-- `SF_CODEC (f)` = `f & 0x0000FFFF` (two's complement `&` is floor-mod for a power of two) -/
def codec (f : Int) : Int := f % 0x10000
/-- `SF_CONTAINER (f)` = `f & 0x0FFF0000` -/
def container (f : Int) : Int := (f / 0x10000) % 0x1000 * 0x10000
/-- `SF_ENDIAN (f)` = `f & 0x30000000` -/
def endian (f : Int) : Int := (f / 0x10000000) % 4 * 0x10000000

abbrev WAV : Int := 0x010000
abbrev AIFF : Int := 0x020000
abbrev AU : Int := 0x030000
abbrev RAW : Int := 0x040000
abbrev PAF : Int := 0x050000
abbrev SVX : Int := 0x060000
abbrev NIST : Int := 0x070000
abbrev VOC : Int := 0x080000
abbrev IRCAM : Int := 0x0A0000
abbrev W64 : Int := 0x0B0000
abbrev MAT4 : Int := 0x0C0000
abbrev MAT5 : Int := 0x0D0000
abbrev PVF : Int := 0x0E0000
abbrev XI : Int := 0x0F0000
abbrev HTK : Int := 0x100000
abbrev SDS : Int := 0x110000
abbrev AVR : Int := 0x120000
abbrev WAVEX : Int := 0x130000
abbrev SD2 : Int := 0x160000
abbrev FLAC : Int := 0x170000
abbrev CAF : Int := 0x180000
abbrev WVE : Int := 0x190000
abbrev OGG : Int := 0x200000
abbrev MPC2K : Int := 0x210000
abbrev RF64 : Int := 0x220000
abbrev MPEG : Int := 0x230000
-- read-only / experimental containers that `psf_open_file` dispatches on
abbrev TXW : Int := 0x140000
abbrev DWD : Int := 0x150000
abbrev REX2 : Int := 0x1A0000

abbrev PCM_S8 : Int := 0x0001
abbrev PCM_16 : Int := 0x0002
abbrev PCM_24 : Int := 0x0003
abbrev PCM_32 : Int := 0x0004
abbrev PCM_U8 : Int := 0x0005
abbrev FLOAT : Int := 0x0006
abbrev DOUBLE : Int := 0x0007
abbrev ULAW : Int := 0x0010
abbrev ALAW : Int := 0x0011
abbrev IMA_ADPCM : Int := 0x0012
abbrev MS_ADPCM : Int := 0x0013
abbrev GSM610 : Int := 0x0020
abbrev VOX_ADPCM : Int := 0x0021
abbrev NMS_ADPCM_16 : Int := 0x0022
abbrev NMS_ADPCM_24 : Int := 0x0023
abbrev NMS_ADPCM_32 : Int := 0x0024
abbrev G721_32 : Int := 0x0030
abbrev G723_24 : Int := 0x0031
abbrev G723_40 : Int := 0x0032
abbrev DWVW_12 : Int := 0x0040
abbrev DWVW_16 : Int := 0x0041
abbrev DWVW_24 : Int := 0x0042
abbrev DWVW_N : Int := 0x0043
abbrev DPCM_8 : Int := 0x0050
abbrev DPCM_16 : Int := 0x0051
abbrev VORBIS : Int := 0x0060
abbrev OPUS : Int := 0x0064
abbrev ALAC_16 : Int := 0x0070
abbrev ALAC_20 : Int := 0x0071
abbrev ALAC_24 : Int := 0x0072
abbrev ALAC_32 : Int := 0x0073
abbrev MPEG_LAYER_I : Int := 0x0080
abbrev MPEG_LAYER_II : Int := 0x0081
abbrev MPEG_LAYER_III : Int := 0x0082

abbrev E_FILE : Int := 0
abbrev E_LITTLE : Int := 0x10000000
abbrev E_BIG : Int := 0x20000000
abbrev E_CPU : Int := 0x30000000

abbrev SF_MAX_CHANNELS : Int := 1024

/-! ## sf_format_check, case by case -/

def check (f ch sr : Int) : Bool :=
  let s := codec f
  let e := endian f
  if ch < 1 ∨ ch > SF_MAX_CHANNELS then false
  else if sr < 0 then false
  else if container f = WAV then
    if s = PCM_U8 ∨ s = PCM_16 then true
    else if s = PCM_24 ∨ s = PCM_32 then true
    else if (s = IMA_ADPCM ∨ s = MS_ADPCM) ∧ ch ≤ 2 then true
    else if s = GSM610 ∧ ch = 1 then true
    else if s = G721_32 ∧ ch = 1 then true
    else if s = ULAW ∨ s = ALAW then true
    else if s = FLOAT ∨ s = DOUBLE then true
    else if (s = NMS_ADPCM_16 ∨ s = NMS_ADPCM_24 ∨ s = NMS_ADPCM_32) ∧ ch = 1 then true
    else if s = MPEG_LAYER_III ∧ ch ≤ 2 then true
    else false
  else if container f = WAVEX then
    if e = E_BIG ∨ e = E_CPU then false
    else if s = PCM_U8 ∨ s = PCM_16 then true
    else if s = PCM_24 ∨ s = PCM_32 then true
    else if s = ULAW ∨ s = ALAW then true
    else if s = FLOAT ∨ s = DOUBLE then true
    else false
  else if container f = AIFF then
    if s = PCM_16 ∨ s = PCM_24 ∨ s = PCM_32 then true
    else if e ≠ 0 then false
    else if s = PCM_U8 ∨ s = PCM_S8 then true
    else if s = FLOAT ∨ s = DOUBLE then true
    else if s = ULAW ∨ s = ALAW then true
    else if (s = DWVW_12 ∨ s = DWVW_16 ∨ s = DWVW_24) ∧ ch = 1 then true
    else if s = GSM610 ∧ ch = 1 then true
    else if s = IMA_ADPCM ∧ (ch = 1 ∨ ch = 2) then true
    else false
  else if container f = AU then
    if s = PCM_S8 ∨ s = PCM_16 then true
    else if s = PCM_24 ∨ s = PCM_32 then true
    else if s = ULAW ∨ s = ALAW then true
    else if s = FLOAT ∨ s = DOUBLE then true
    else if s = G721_32 ∧ ch = 1 then true
    else if s = G723_24 ∧ ch = 1 then true
    else if s = G723_40 ∧ ch = 1 then true
    else false
  else if container f = CAF then
    if s = PCM_S8 ∨ s = PCM_16 then true
    else if s = PCM_24 ∨ s = PCM_32 then true
    else if s = ULAW ∨ s = ALAW then true
    else if (s = ALAC_16 ∨ s = ALAC_20) ∧ ch ≤ 8 then true     -- e9742d9: the ALAC encoder state has room for 8 channels
    else if (s = ALAC_24 ∨ s = ALAC_32) ∧ ch ≤ 8 then true
    else if s = FLOAT ∨ s = DOUBLE then true
    else false
  else if container f = RAW then
    if s = PCM_U8 ∨ s = PCM_S8 ∨ s = PCM_16 then true
    else if s = PCM_24 ∨ s = PCM_32 then true
    else if s = FLOAT ∨ s = DOUBLE then true
    else if s = ALAW ∨ s = ULAW then true
    else if (s = DWVW_12 ∨ s = DWVW_16 ∨ s = DWVW_24) ∧ ch = 1 then true
    else if s = GSM610 ∧ ch = 1 then true
    else if s = VOX_ADPCM ∧ ch = 1 then true
    else if (s = NMS_ADPCM_16 ∨ s = NMS_ADPCM_24 ∨ s = NMS_ADPCM_32) ∧ ch = 1 then true
    else false
  else if container f = PAF then
    if s = PCM_S8 ∨ s = PCM_16 ∨ s = PCM_24 then true else false
  else if container f = SVX then
    if ch > 1 then false
    else if e = E_LITTLE ∨ e = E_CPU then false
    else if s = PCM_S8 ∨ s = PCM_16 then true
    else false
  else if container f = NIST then
    if s = PCM_S8 ∨ s = PCM_16 then true
    else if s = PCM_24 ∨ s = PCM_32 then true
    else if s = ULAW ∨ s = ALAW then true
    else false
  else if container f = IRCAM then
    if ch > 256 then false
    else if s = PCM_16 ∨ s = PCM_32 then true
    else if s = ULAW ∨ s = ALAW ∨ s = FLOAT then true
    else false
  else if container f = VOC then
    if ch > 2 then false
    else if e = E_BIG ∨ e = E_CPU then false
    else if s = PCM_U8 ∨ s = PCM_16 then true
    else if s = ULAW ∨ s = ALAW then true
    else false
  else if container f = W64 then
    if e = E_BIG ∨ e = E_CPU then false
    else if s = PCM_U8 ∨ s = PCM_16 then true
    else if s = PCM_24 ∨ s = PCM_32 then true
    else if (s = IMA_ADPCM ∨ s = MS_ADPCM) ∧ ch ≤ 2 then true
    else if s = GSM610 ∧ ch = 1 then true
    else if s = ULAW ∨ s = ALAW then true
    else if s = FLOAT ∨ s = DOUBLE then true
    else false
  else if container f = MAT4 then
    if s = PCM_16 ∨ s = PCM_32 then true
    else if s = FLOAT ∨ s = DOUBLE then true
    else false
  else if container f = MAT5 then
    if s = PCM_U8 ∨ s = PCM_16 ∨ s = PCM_32 then true
    else if s = FLOAT ∨ s = DOUBLE then true
    else false
  else if container f = PVF then
    if s = PCM_S8 ∨ s = PCM_16 ∨ s = PCM_32 then true else false
  else if container f = XI then
    if ch ≠ 1 then false
    else if s = DPCM_8 ∨ s = DPCM_16 then true
    else false
  else if container f = HTK then
    if ch ≠ 1 then false
    else if e = E_LITTLE ∨ e = E_CPU then false
    else if s = PCM_16 then true
    else false
  else if container f = SDS then
    if ch ≠ 1 then false
    else if e = E_LITTLE ∨ e = E_CPU then false
    else if s = PCM_S8 ∨ s = PCM_16 ∨ s = PCM_24 then true
    else false
  else if container f = AVR then
    if ch > 2 then false
    else if e = E_LITTLE ∨ e = E_CPU then false
    else if s = PCM_U8 ∨ s = PCM_S8 ∨ s = PCM_16 then true
    else false
  else if container f = FLAC then
    if ch > 8 then false
    else if e ≠ E_FILE then false
    else if s = PCM_S8 ∨ s = PCM_16 ∨ s = PCM_24 then true
    else false
  else if container f = SD2 then
    if e = E_LITTLE ∨ e = E_CPU then false
    else if s = PCM_S8 ∨ s = PCM_16 ∨ s = PCM_24 ∨ s = PCM_32 then true
    else false
  else if container f = WVE then
    if ch > 1 then false
    else if e = E_BIG ∨ e = E_CPU then false
    else if s = ALAW then true
    else false
  else if container f = OGG then
    if e ≠ E_FILE then false
    else if s = VORBIS then true
    else if s = OPUS then true
    else false
  else if container f = MPC2K then
    if ch > 2 then false
    else if e = E_BIG ∨ e = E_CPU then false
    else if s = PCM_16 then true
    else false
  else if container f = RF64 then
    if e = E_BIG ∨ e = E_CPU then false
    else if s = PCM_U8 ∨ s = PCM_16 then true
    else if s = PCM_24 ∨ s = PCM_32 then true
    else if s = ULAW ∨ s = ALAW then true
    else if s = FLOAT ∨ s = DOUBLE then true
    else false
  else if container f = MPEG then
    if ch > 2 then false
    else if e ≠ E_FILE then false
    else if s = MPEG_LAYER_I ∨ s = MPEG_LAYER_II ∨ s = MPEG_LAYER_III then true
    else false
  else false

/-! ## errors (names of the `SFE_*` codes that the write-open path can produce) -/

inductive Err
  | ok | unrecognisedFormat | unsupportedEncoding | zeroMajor | zeroMinor | badOpenFormat | badSfInfo
  | internal | unimplemented | badEndian | pafUnknownFormat | g72xNotMono | nmsNotMono | channelCount
  | dwvwBadBitwidth | sdsBadBitWidth
  | divZero      -- not an error code: an integer division by zero (SIGFPE) inside the header writer
  deriving DecidableEq, Repr

def Err.name : Err → String
  | .ok => "ok" | .unrecognisedFormat => "unrecognised_format" | .unsupportedEncoding => "unsupported_encoding"
  | .zeroMajor => "zero_major" | .zeroMinor => "zero_minor" | .badOpenFormat => "bad_open_format"
  | .badSfInfo => "bad_sf_info" | .internal => "internal" | .unimplemented => "unimplemented"
  | .badEndian => "bad_endian" | .pafUnknownFormat => "paf_unknown_format" | .g72xNotMono => "g72x_not_mono"
  | .nmsNotMono => "nms_not_mono" | .channelCount => "channel_count" | .dwvwBadBitwidth => "dwvw_bad_bitwidth"
  | .sdsBadBitWidth => "sds_bad_bit_width" | .divZero => "div_zero"

/-- result of a container's `*_open` in SFM_WRITE mode -/
structure OpenRes where
  err : Err
  /-- the four `write_*` function pointers are non-NULL -/
  installed : Bool
  /-- `psf->endian` after the open (what the data are written as) -/
  endian : Int
  /-- `psf->sf.channels`, `psf->sf.samplerate` after the open (XI overwrites them) -/
  ch : Int
  sr : Int
  /-- `psf->bytewidth`, `psf->blockwidth` after the open -/
  bytewidth : Int
  blockwidth : Int
  deriving Repr

/-- "Set bytewidth if known" in `psf_open_file` -/
def bytewidthOf (s : Int) : Int :=
  if s = PCM_S8 ∨ s = PCM_U8 ∨ s = ULAW ∨ s = ALAW ∨ s = DPCM_8 then 1
  else if s = PCM_16 ∨ s = DPCM_16 then 2
  else if s = PCM_24 then 3
  else if s = PCM_32 ∨ s = FLOAT then 4
  else if s = DOUBLE then 8
  else 0

/-! ## codec initialisers (SFM_WRITE): error and whether writers are installed -/

structure Init where
  err : Err
  installed : Bool
  deriving DecidableEq

def Init.good : Init := ⟨.ok, true⟩
def Init.fail (e : Err) : Init := ⟨e, false⟩

/-- `pcm_init`: the switch key is `bytewidth * 0x10000 + endian + chars` -/
def pcmInit (bw e s ch : Int) : Init :=
  if bw = 0 ∨ ch = 0 then .fail .internal
  else
    let chars : Int := if s = PCM_S8 then 200 else if s = PCM_U8 then 201 else 0
    let key := bw * 0x10000 + e + chars
    if key = 0x10000 + E_BIG + 200 ∨ key = 0x10000 + E_LITTLE + 200
       ∨ key = 0x10000 + E_BIG + 201 ∨ key = 0x10000 + E_LITTLE + 201
       ∨ key = 2 * 0x10000 + E_BIG ∨ key = 3 * 0x10000 + E_BIG ∨ key = 4 * 0x10000 + E_BIG
       ∨ key = 2 * 0x10000 + E_LITTLE ∨ key = 3 * 0x10000 + E_LITTLE ∨ key = 4 * 0x10000 + E_LITTLE
    then .good else .fail .unimplemented

/-- `float32_init`: unknown endianness falls through `default : break` and still returns 0 -/
def float32Init (e ch : Int) : Init :=
  if ch < 1 then .fail .internal
  else if e = E_LITTLE ∨ e = E_BIG then .good else ⟨.ok, false⟩

def double64Init (e ch : Int) : Init :=
  if ch < 1 ∨ ch > SF_MAX_CHANNELS then .fail .internal
  else if e = E_LITTLE ∨ e = E_BIG then .good else ⟨.ok, false⟩

def g72xInit (s ch : Int) : Init :=
  if ch ≠ 1 then .fail .g72xNotMono
  else if s = G721_32 ∨ s = G723_24 ∨ s = G723_40 then .good else .fail .unimplemented

def nmsInit (s ch : Int) : Init :=
  if ch ≠ 1 then .fail .nmsNotMono
  else if s = NMS_ADPCM_16 ∨ s = NMS_ADPCM_24 ∨ s = NMS_ADPCM_32 then .good else .fail .unimplemented

/-- `gsm610_init` looks at the container only (not at the channel count) -/
def gsm610Init (c : Int) : Init :=
  if c = WAV ∨ c = WAVEX ∨ c = W64 ∨ c = AIFF ∨ c = RAW then .good else .fail .internal

/-- `alac_init` → `alac_writer_init` (0aa127c): SFE_CHANNEL_COUNT outside 1 … ALAC_MAX_CHANNEL_COUNT -/
def alacInit (ch : Int) : Init := if ch < 1 ∨ ch > 8 then .fail .channelCount else .good

def dwvwInit (bits : Int) : Init := if bits > 24 then .fail .dwvwBadBitwidth else .good

def voxInit (ch : Int) : Init := if ch ≠ 1 then .fail .channelCount else .good

def dpcmInit (bw ch : Int) : Init :=
  if bw = 0 ∨ ch = 0 then .fail .internal
  else if bw = 1 ∨ bw = 2 then .good else .fail .unimplemented

/-- `wavlike_srate2blocksize (samplerate * channels)`; the product is a C `int` -/
def srate2blocksize (sr ch : Int) : Int :=
  let p := wrapS 32 (sr * ch)
  if p < 12000 then 256 else if p < 23000 then 512 else if p < 44000 then 1024 else 2048

/-- `ima_writer_init`: the container must be WAV, W64 or AIFF -/
def imaInit (c : Int) : Init :=
  if c = WAV ∨ c = W64 ∨ c = AIFF then .good else .fail .internal

/-- `wavlike_msadpcm_init` in write mode -/
def msadpcmInit (blockalign ch : Int) : Init :=
  let spb := 2 + cdiv (2 * (blockalign - 7 * ch)) ch
  if spb < 7 * ch then .fail .internal
  else if 2 * blockalign < spb * ch then .fail .internal
  else .good

/-! ## the containers -/

/-- CPU → little on this platform; used where the C says `CPU_IS_LITTLE_ENDIAN && endian == SF_ENDIAN_CPU` -/
def res (err : Err) (i : Init) (e ch sr bw blw : Int) : OpenRes :=
  { err := err, installed := i.installed, endian := e, ch := ch, sr := sr, bytewidth := bw, blockwidth := blw }

/-- an error before any codec was initialised -/
def early (err : Err) (f ch sr : Int) : OpenRes :=
  { err := err, installed := false, endian := 0, ch := ch, sr := sr, bytewidth := bytewidthOf (codec f), blockwidth := 0 }

/-- blockwidth the PCM / G.711 / float initialisers leave behind (`bytewidth * channels`; ulaw/alaw: `channels`) -/
def sampleBlockwidth (s ch : Int) : Int := bytewidthOf s * ch

def wavFmtChunkOk (s : Int) : Bool :=
  s = PCM_U8 ∨ s = PCM_16 ∨ s = PCM_24 ∨ s = PCM_32 ∨ s = FLOAT ∨ s = DOUBLE ∨ s = ULAW ∨ s = ALAW
  ∨ s = IMA_ADPCM ∨ s = MS_ADPCM ∨ s = G721_32 ∨ s = NMS_ADPCM_16 ∨ s = NMS_ADPCM_24 ∨ s = NMS_ADPCM_32
  ∨ s = GSM610

def wavexFmtChunkOk (s : Int) : Bool :=
  s = PCM_U8 ∨ s = PCM_16 ∨ s = PCM_24 ∨ s = PCM_32 ∨ s = FLOAT ∨ s = DOUBLE ∨ s = ULAW ∨ s = ALAW

/-- `wav_open` (WAV and WAVEX): codec switch first, then `return psf->write_header (...)` — the
    initialiser's error code is overwritten by the header writer's -/
def openWav (f ch sr : Int) : OpenRes :=
  let s := codec f
  let c := container f
  let bw := bytewidthOf s
  let e := if endian f ≠ E_BIG then E_LITTLE else E_BIG
  if s = MPEG_LAYER_III then early .unsupportedEncoding f ch sr
  else
    let ba := srate2blocksize sr ch
    let hdr : Err := if c = WAV then (if wavFmtChunkOk s then .ok else .unimplemented)
                     else (if wavexFmtChunkOk s then .ok else .unimplemented)
    let fin (i : Init) : OpenRes := res hdr i e ch sr bw (bw * ch)
    if s = PCM_U8 ∨ s = PCM_16 ∨ s = PCM_24 ∨ s = PCM_32 then fin (pcmInit bw e s ch)
    else if s = ULAW ∨ s = ALAW then fin .good
    else if s = FLOAT then fin (float32Init e ch)
    else if s = DOUBLE then fin (double64Init e ch)
    else if s = IMA_ADPCM then fin (imaInit c)
    else if s = MS_ADPCM then fin (msadpcmInit ba ch)
    else if s = G721_32 then fin (g72xInit s ch)
    else if s = NMS_ADPCM_16 ∨ s = NMS_ADPCM_24 ∨ s = NMS_ADPCM_32 then fin (nmsInit s ch)
    else if s = GSM610 then fin (gsm610Init c)
    else early .unimplemented f ch sr

/-- `aiff_write_header`: switch on `codec | endian` (CPU already mapped to LITTLE) -/
def aiffHeader (s e : Int) : Err × Int :=
  let e' := if e = E_CPU then E_LITTLE else e
  if s = PCM_S8 ∨ s = PCM_16 ∨ s = PCM_24 ∨ s = PCM_32 then
    if e' = E_BIG then (.ok, E_BIG) else if e' = E_LITTLE then (.ok, E_LITTLE)
    else if e' = E_FILE then (.ok, E_BIG) else (.badOpenFormat, 0)
  else if s = FLOAT ∨ s = DOUBLE ∨ s = ULAW ∨ s = ALAW ∨ s = PCM_U8 ∨ s = DWVW_12 ∨ s = DWVW_16
          ∨ s = DWVW_24 ∨ s = GSM610 ∨ s = IMA_ADPCM then
    if e' = E_FILE then (.ok, E_BIG) else (.badOpenFormat, 0)
  else (.badOpenFormat, 0)

def openAiff (f ch sr : Int) : OpenRes :=
  let s := codec f
  let bw := bytewidthOf s
  let (herr, e) := aiffHeader s (endian f)
  if herr ≠ .ok then early herr f ch sr
  else
    let fin (i : Init) : OpenRes := res i.err i e ch sr bw (bw * ch)
    if s = PCM_U8 ∨ s = PCM_S8 ∨ s = PCM_16 ∨ s = PCM_24 ∨ s = PCM_32 then fin (pcmInit bw e s ch)
    else if s = ULAW ∨ s = ALAW then fin .good
    else if s = FLOAT then fin (float32Init e ch)
    else if s = DOUBLE then fin (double64Init e ch)
    else if s = DWVW_12 then fin (dwvwInit 12)
    else if s = DWVW_16 then fin (dwvwInit 16)
    else if s = DWVW_24 then fin (dwvwInit 24)
    else if s = DWVW_N then fin (.fail .dwvwBadBitwidth)
    else if s = IMA_ADPCM then fin (imaInit AIFF)
    else if s = GSM610 then fin (gsm610Init AIFF)
    else early .unimplemented f ch sr

def auEncodingOk (s : Int) : Bool :=
  s = PCM_S8 ∨ s = PCM_16 ∨ s = PCM_24 ∨ s = PCM_32 ∨ s = FLOAT ∨ s = DOUBLE ∨ s = ULAW ∨ s = ALAW
  ∨ s = G721_32 ∨ s = G723_24 ∨ s = G723_40

/-- `au_open`: the codec switch ends in `default : break` -/
def openAu (f ch sr : Int) : OpenRes :=
  let s := codec f
  let bw := bytewidthOf s
  let e := if endian f = E_CPU then E_LITTLE else if endian f ≠ E_LITTLE then E_BIG else E_LITTLE
  if ¬ auEncodingOk s then early .badOpenFormat f ch sr
  else
    let fin (i : Init) : OpenRes := res i.err i e ch sr bw (bw * ch)
    if s = ULAW ∨ s = ALAW then fin .good              -- return value of ulaw_init / alaw_init not looked at
    else if s = PCM_S8 ∨ s = PCM_16 ∨ s = PCM_24 ∨ s = PCM_32 then fin (pcmInit bw e s ch)
    else if s = FLOAT then fin (float32Init e ch)
    else if s = DOUBLE then fin (double64Init e ch)
    else if s = G721_32 ∨ s = G723_24 ∨ s = G723_40 then fin (g72xInit s ch)
    else fin ⟨.ok, false⟩

def isAlac (s : Int) : Bool := s = ALAC_16 ∨ s = ALAC_20 ∨ s = ALAC_24 ∨ s = ALAC_32

def openCaf (f ch sr : Int) : OpenRes :=
  let s := codec f
  let bw := bytewidthOf s
  let e := if endian f = E_LITTLE ∨ endian f = E_CPU then E_LITTLE else E_BIG
  if ¬ (s = PCM_S8 ∨ s = PCM_16 ∨ s = PCM_24 ∨ s = PCM_32 ∨ s = FLOAT ∨ s = DOUBLE ∨ s = ALAW ∨ s = ULAW ∨ isAlac s)
  then early .unimplemented f ch sr
  else
    let fin (i : Init) : OpenRes := res i.err i e ch sr bw (bw * ch)
    if s = PCM_S8 ∨ s = PCM_16 ∨ s = PCM_24 ∨ s = PCM_32 then fin (pcmInit bw e s ch)
    else if s = ULAW ∨ s = ALAW then fin .good
    else if s = FLOAT then fin (float32Init e ch)
    else if s = DOUBLE then fin (double64Init e ch)
    else if isAlac s then fin (alacInit ch)
    else early .unsupportedEncoding f ch sr

def openRaw (f ch sr : Int) : OpenRes :=
  let s := codec f
  let bw := bytewidthOf s
  let e := if endian f = 0 ∨ endian f = E_CPU then E_LITTLE else endian f
  let fin (i : Init) : OpenRes := res i.err i e ch sr bw (bw * ch)
  if s = PCM_S8 ∨ s = PCM_U8 ∨ s = PCM_16 ∨ s = PCM_24 ∨ s = PCM_32 then fin (pcmInit bw e s ch)
  else if s = ULAW ∨ s = ALAW then fin .good
  else if s = GSM610 then fin (gsm610Init RAW)
  else if s = NMS_ADPCM_16 ∨ s = NMS_ADPCM_24 ∨ s = NMS_ADPCM_32 then fin (nmsInit s ch)
  else if s = FLOAT then fin (float32Init e ch)
  else if s = DOUBLE then fin (double64Init e ch)
  else if s = DWVW_12 then fin (dwvwInit 12)
  else if s = DWVW_16 then fin (dwvwInit 16)
  else if s = DWVW_24 then fin (dwvwInit 24)
  else if s = VOX_ADPCM then
    -- vox_adpcm_init: "standard sample rate, channels": a rate below 1 becomes 8000, channels become 1
    let i := voxInit ch ; res i.err i e 1 (if sr < 1 then 8000 else sr) bw bw
  else early .badOpenFormat f ch sr

def w64HeaderOk (s : Int) : Bool :=
  s = PCM_U8 ∨ s = PCM_16 ∨ s = PCM_24 ∨ s = PCM_32 ∨ s = FLOAT ∨ s = DOUBLE ∨ s = ULAW ∨ s = ALAW
  ∨ s = IMA_ADPCM ∨ s = MS_ADPCM ∨ s = GSM610

def openW64 (f ch sr : Int) : OpenRes :=
  let s := codec f
  let bw := bytewidthOf s
  let e := E_LITTLE
  if ¬ w64HeaderOk s then early .unimplemented f ch sr
  else
    let ba := srate2blocksize sr ch
    let fin (i : Init) : OpenRes := res i.err i e ch sr bw (bw * ch)
    if s = PCM_U8 ∨ s = PCM_16 ∨ s = PCM_24 ∨ s = PCM_32 then fin (pcmInit bw e s ch)
    else if s = ULAW ∨ s = ALAW then fin .good
    else if s = FLOAT then fin (float32Init e ch)
    else if s = DOUBLE then fin (double64Init e ch)
    else if s = IMA_ADPCM then fin (imaInit W64)
    else if s = MS_ADPCM then fin (msadpcmInit ba ch)
    else if s = GSM610 then fin (gsm610Init W64)
    else early .unimplemented f ch sr

def openRf64 (f ch sr : Int) : OpenRes :=
  let s := codec f
  let bw := bytewidthOf s
  let e := E_LITTLE
  if ¬ wavexFmtChunkOk s then early .unimplemented f ch sr
  else
    let fin (i : Init) : OpenRes := res i.err i e ch sr bw (bw * ch)
    if s = PCM_U8 ∨ s = PCM_16 ∨ s = PCM_24 ∨ s = PCM_32 then fin (pcmInit bw e s ch)
    else if s = ULAW ∨ s = ALAW then fin .good
    else if s = FLOAT then fin (float32Init e ch)
    else if s = DOUBLE then fin (double64Init e ch)
    else early .unimplemented f ch sr

def openPaf (f ch sr : Int) : OpenRes :=
  let s := codec f
  let e := if endian f = E_LITTLE ∨ endian f = E_CPU then E_LITTLE else E_BIG
  if ¬ (s = PCM_S8 ∨ s = PCM_16 ∨ s = PCM_24) then early .pafUnknownFormat f ch sr
  else if s = PCM_S8 then let i := pcmInit 1 e s ch ; res i.err i e ch sr 1 ch
  else if s = PCM_16 then let i := pcmInit 2 e s ch ; res i.err i e ch sr 2 (2 * ch)
  else res .ok .good e ch sr 3 0      -- paf24_init: blockwidth 0, own block packing

def openSvx (f ch sr : Int) : OpenRes :=
  let s := codec f
  let bw := bytewidthOf s
  if endian f = E_LITTLE ∨ endian f = E_CPU then early .badEndian f ch sr
  else let i := pcmInit bw E_BIG s ch ; res i.err i E_BIG ch sr bw (bw * ch)

def openNist (f ch sr : Int) : OpenRes :=
  let s := codec f
  let bw := bytewidthOf s
  let e := if endian f = 0 ∨ endian f = E_CPU then E_LITTLE else endian f
  if ¬ (s = PCM_S8 ∨ s = PCM_16 ∨ s = PCM_24 ∨ s = PCM_32 ∨ s = ALAW ∨ s = ULAW) then early .unimplemented f ch sr
  else if s = ULAW ∨ s = ALAW then res .ok .good e ch sr bw (bw * ch)
  else let i := pcmInit bw e s ch ; res i.err i e ch sr bw (bw * ch)

/-- `voc_write_header` divides by the sample rate for 8-bit mono / stereo — not when the rate is below 1 (repair of the
    SIGFPE part of KF-C10-rate0; the old behaviour is `diedOld`) -/
def openVoc (f ch sr : Int) : OpenRes :=
  let s := codec f
  let bw := bytewidthOf s
  let e := E_LITTLE
  if s = PCM_U8 ∧ (ch = 1 ∨ ch = 2) then
    let i := pcmInit bw e s ch ; res i.err i e ch sr bw (bw * ch)
  else if ch < 1 ∨ ch > 2 then early .channelCount f ch sr
  else if ¬ (s = PCM_U8 ∨ s = PCM_16 ∨ s = ALAW ∨ s = ULAW) then early .unimplemented f ch sr
  else if s = ULAW ∨ s = ALAW then res .ok .good e ch sr bw (bw * ch)
  else let i := pcmInit bw e s ch ; res i.err i e ch sr bw (bw * ch)

def openIrcam (f ch sr : Int) : OpenRes :=
  let s := codec f
  let bw := bytewidthOf s
  let e := if endian f = 0 ∨ endian f = E_CPU then E_LITTLE else endian f
  if ¬ (s = PCM_16 ∨ s = PCM_32 ∨ s = FLOAT ∨ s = ULAW ∨ s = ALAW) then early .badOpenFormat f ch sr
  else if ¬ (e = E_BIG ∨ e = E_LITTLE) then early .badOpenFormat f ch sr
  else if s = ULAW ∨ s = ALAW then res .ok .good e ch sr bw (bw * ch)
  else if s = FLOAT then let i := float32Init e ch ; res i.err i e ch sr bw (bw * ch)
  else let i := pcmInit bw e s ch ; res i.err i e ch sr bw (bw * ch)

def openMat4 (f ch sr : Int) : OpenRes :=
  let s := codec f
  let bw := bytewidthOf s
  let e := if endian f = E_CPU ∨ endian f = 0 then E_LITTLE else endian f
  if ¬ ((s = PCM_16 ∨ s = PCM_32 ∨ s = FLOAT ∨ s = DOUBLE) ∧ (e = E_BIG ∨ e = E_LITTLE)) then early .badOpenFormat f ch sr
  else if s = FLOAT then let i := float32Init e ch ; res i.err i e ch sr bw (bw * ch)
  else if s = DOUBLE then let i := double64Init e ch ; res i.err i e ch sr bw (bw * ch)
  else let i := pcmInit bw e s ch ; res i.err i e ch sr bw (bw * ch)

def openMat5 (f ch sr : Int) : OpenRes :=
  let s := codec f
  let bw := bytewidthOf s
  let e := if endian f = E_CPU ∨ endian f = 0 then E_LITTLE else endian f
  if ¬ (s = PCM_U8 ∨ s = PCM_16 ∨ s = PCM_32 ∨ s = FLOAT ∨ s = DOUBLE) then early .badOpenFormat f ch sr
  else if s = FLOAT then let i := float32Init e ch ; res i.err i e ch sr bw (bw * ch)
  else if s = DOUBLE then let i := double64Init e ch ; res i.err i e ch sr bw (bw * ch)
  else let i := pcmInit bw e s ch ; res i.err i e ch sr bw (bw * ch)

/-- `pvf_open`: the header writer takes any codec; the switch ends in `default : break` -/
def openPvf (f ch sr : Int) : OpenRes :=
  let s := codec f
  let bw := bytewidthOf s
  if s = PCM_S8 ∨ s = PCM_16 ∨ s = PCM_32 then let i := pcmInit bw E_BIG s ch ; res i.err i E_BIG ch sr bw (bw * ch)
  else res .ok ⟨.ok, false⟩ E_BIG ch sr bw (bw * ch)

/-- `xi_open` forces mono / 44100 Hz before anything looks at them -/
def openXi (f _ch _sr : Int) : OpenRes :=
  let s := codec f
  let bw := bytewidthOf s
  if s = DPCM_8 ∨ s = DPCM_16 then let i := dpcmInit bw 1 ; res i.err i E_LITTLE 1 44100 bw bw
  else res .ok ⟨.ok, false⟩ E_LITTLE 1 44100 bw bw

/-- `htk_write_header`: `sample_period = samplerate > 0 ? 10000000 / samplerate : 0` -/
def openHtk (f ch sr : Int) : OpenRes :=
  let s := codec f
  let bw := bytewidthOf s
  if s = PCM_16 then let i := pcmInit bw E_BIG s ch ; res i.err i E_BIG ch sr bw (bw * ch)
  else res .ok ⟨.ok, false⟩ E_BIG ch sr bw (bw * ch)

/-- `sds_write_header`: `samplerate > 0 ? 1000000000 / samplerate : 0` after the bit-width switch -/
def openSds (f ch sr : Int) : OpenRes :=
  let s := codec f
  let bw := bytewidthOf s
  if ¬ (s = PCM_S8 ∨ s = PCM_16 ∨ s = PCM_24) then early .sdsBadBitWidth f ch sr
  else res .ok .good 0 ch sr bw 0

def openAvr (f ch sr : Int) : OpenRes :=
  let s := codec f
  let bw := bytewidthOf s
  let i := pcmInit bw E_BIG s ch ; res i.err i E_BIG ch sr bw (bw * ch)

def openSd2 (f ch sr : Int) : OpenRes :=
  let s := codec f
  let bw := bytewidthOf s
  if s = PCM_S8 ∨ s = PCM_16 ∨ s = PCM_24 ∨ s = PCM_32 then let i := pcmInit bw E_BIG s ch ; res i.err i E_BIG ch sr bw (bw * ch)
  else early .unimplemented f ch sr

def openWve (f ch sr : Int) : OpenRes :=
  let bw := bytewidthOf (codec f)
  if ch ≠ 1 then early .channelCount f ch sr
  else res .ok .good E_BIG ch sr bw (bw * ch)     -- alaw_init whatever the codec field says

def openMpc2k (f ch sr : Int) : OpenRes :=
  let s := codec f
  let bw := bytewidthOf s
  let i := pcmInit bw E_LITTLE s ch ; res i.err i E_LITTLE ch sr bw (bw * ch)

/-- the `switch (SF_CONTAINER (psf->sf.format))` of `psf_open_file` -/
def containerOpen (f ch sr : Int) : OpenRes :=
  let c := container f
  if c = WAV ∨ c = WAVEX then openWav f ch sr
  else if c = AIFF then openAiff f ch sr
  else if c = AU then openAu f ch sr
  else if c = RAW then openRaw f ch sr
  else if c = W64 then openW64 f ch sr
  else if c = RF64 then openRf64 f ch sr
  else if c = PAF then openPaf f ch sr
  else if c = SVX then openSvx f ch sr
  else if c = NIST then openNist f ch sr
  else if c = IRCAM then openIrcam f ch sr
  else if c = VOC then openVoc f ch sr
  else if c = SDS then openSds f ch sr
  else if c = OGG then early .unimplemented f ch sr      -- built without the Xiph libraries
  else if c = TXW then early .unimplemented f ch sr      -- experimental code off
  else if c = WVE then openWve f ch sr
  else if c = DWD then early .unimplemented f ch sr
  else if c = MAT4 then openMat4 f ch sr
  else if c = MAT5 then openMat5 f ch sr
  else if c = PVF then openPvf f ch sr
  else if c = XI then openXi f ch sr
  else if c = HTK then openHtk f ch sr
  else if c = SD2 then openSd2 f ch sr
  else if c = REX2 then early .unimplemented f ch sr
  else if c = AVR then openAvr f ch sr
  else if c = FLAC then early .unimplemented f ch sr     -- built without libFLAC
  else if c = CAF then openCaf f ch sr
  else if c = MPC2K then openMpc2k f ch sr
  else if c = MPEG then early .unimplemented f ch sr     -- built without lame / mpg123
  else early .unrecognisedFormat f ch sr

/-- `validate_sfinfo` on the SF_INFO as the container left it (frames = 0, sections = 1) -/
def validateSfinfo (f ch sr : Int) : Bool :=
  ¬ (sr < 1) ∧ ¬ (ch < 1 ∨ ch > SF_MAX_CHANNELS) ∧ container f ≠ 0 ∧ codec f ≠ 0

/-- `validate_psf` (datalength and dataoffset are never negative on this path) -/
def validatePsf (r : OpenRes) : Bool :=
  ¬ (r.blockwidth ≠ 0 ∧ r.blockwidth ≠ r.ch * r.bytewidth)

/-- `psf_open_file` for SFM_WRITE on an empty seekable file: the error `sf_open` reports (`ok` = a handle) -/
def openWrite (f ch sr : Int) : Err :=
  if container f = 0 then .zeroMajor
  else if codec f = 0 then .zeroMinor
  else if check f ch sr = false then .badOpenFormat
  else
    let r := containerOpen f ch sr
    if r.err ≠ .ok then r.err
    else if validateSfinfo f r.ch r.sr = false then .badSfInfo
    else if validatePsf r = false then .internal
    else .ok

/-- write function pointers present after a successful open -/
def installed (f ch sr : Int) : Bool := (containerOpen f ch sr).installed

/-- sf_open (SFM_WRITE) hands out a handle whose four write entry points work -/
def accepts (f ch sr : Int) : Bool := openWrite f ch sr = .ok ∧ installed f ch sr

/-! ## what happens after the open: writes, close, re-open -/

/-- return value of `sf_writef_<type> (h, buf, n)` on a fresh handle (values well inside the range): the count it was
    given, for every encoding (OKI/VOX ADPCM, two samples per byte, holds the odd sample of a call for the next one:
    SfModel/Oki.lean `writeBlock`). -/
def writeRet (f ch sr n : Int) : Int :=
  if ¬ installed f ch sr then 0
  else n

/-- before the repair of KF-C10-vox-odd / KF-VOX-ODD: OKI/VOX ADPCM reported an odd item count rounded *up* -/
def writeRetOld (f ch sr n : Int) : Int :=
  if ¬ installed f ch sr then 0
  else if container f = RAW ∧ codec f = VOX_ADPCM then n + n % 2
  else n

/-- files left in the temp directory after sf_close (the ALAC encoder spools there and removes its file;
    the > 8 channel overrun that used to lose the file name is refused at open since 0aa127c / e9742d9) -/
def tmpLeft (_f _ch : Int) : Int := 0

/-- before the repair of KF-C10-ircam-rate: IRCAM stores the rate as a float32 and reads it back into an `int`; rates
    from 2^31 − 64 up rounded to 2^31, which does not fit -/
def ircamRateLostOld (f sr : Int) : Bool := container f = IRCAM ∧ sr ≥ 2147483584

/-- `ircam_write_header` caps the float at 2^31 − 128 now: no rate is lost (lean/SfModel/Ircam.lean `rateBits`) -/
def ircamRateLost (_f _sr : Int) : Bool := false

/-- before the repair of the SIGFPE part of KF-C10-rate0: the header writers of HTK, SDS (after its bit-width switch) and
    VOC (8-bit PCM, one or two channels) divided by the sample rate inside sf_open — the process died at 0 Hz -/
def diedOld (f ch sr : Int) : Bool :=
  sr = 0 ∧ (container f = HTK ∨ (container f = SDS ∧ (codec f = PCM_S8 ∨ codec f = PCM_16 ∨ codec f = PCM_24))
    ∨ (container f = VOC ∧ codec f = PCM_U8 ∧ (ch = 1 ∨ ch = 2)))

/-- endianness bits of the format word the file re-opens with -/
def reopenEndian (f : Int) (e : Int) : Int :=
  let c := container f
  let s := codec f
  if c = WAV then (if e = E_BIG then E_BIG else 0)
  else if c = AIFF then
    (if (s = PCM_S8 ∨ s = PCM_16 ∨ s = PCM_24 ∨ s = PCM_32) ∧ endian f ≠ E_FILE then e else 0)
  else if c = AU then (if e = E_LITTLE then E_LITTLE else 0)
  else if c = RAW then endian f
  else if c = PAF ∨ c = IRCAM ∨ c = MAT4 ∨ c = MAT5 then e
  else if c = NIST then (if bytewidthOf s > 1 then e else 0)
  else if c = CAF then (if ¬ isAlac s ∧ e = E_LITTLE then E_LITTLE else 0)
  else 0

/-- `SF_INFO.format` after re-opening the produced bytes for reading (`none`: they do not open) -/
def reopen (f ch sr : Int) : Option Int :=
  if ircamRateLost f sr then none
  else some (container f + codec f + reopenEndian f (containerOpen f ch sr).endian)

/-- the same before the repair of KF-C10-ircam-rate -/
def reopenOld (f ch sr : Int) : Option Int :=
  if ircamRateLostOld f sr then none
  else some (container f + codec f + reopenEndian f (containerOpen f ch sr).endian)

/-- same container and same encoding -/
def sameEncoding (f g : Int) : Bool := container g = container f ∧ codec g = codec f

/-- the whole C10 experiment on one grid point with `n` frames per write call -/
structure Outcome where
  chk : Bool
  err : Err
  w : Int            -- each of the four typed writes returns this
  close : Int
  tmp : Int
  re : Option Int
  rch : Int
  deriving Repr

def outcome (f ch sr n : Int) : Outcome :=
  { chk := check f ch sr, err := openWrite f ch sr, w := writeRet f ch sr n, close := 0, tmp := tmpLeft f ch,
    re := reopen f ch sr, rch := (containerOpen f ch sr).ch }

/-- the property predicate: opened, all four writes took `n` frames, close = 0, nothing left behind,
    re-opens as the same container and encoding with the same channel count -/
def roundTrips (f ch sr n : Int) : Bool :=
  let o := outcome f ch sr n
  decide (o.err = .ok) && decide (o.w = n) && decide (o.close = 0) && decide (o.tmp = 0) &&
    (match o.re with | some g => sameEncoding f g && decide (o.rch = ch) | none => false)

def hex8 (v : Int) : String := hexFixed 8 (wrapU 32 v)

/-- canonical line of one point, as `sfh grid c10` prints it (error numbers stay symbolic) -/
def line (f ch sr n : Int) : String :=
  let o := outcome f ch sr n
  let head := s!"p fmt={hex8 f} ch={ch} sr={sr} chk={if o.chk then 1 else 0}"
  if o.err = .divZero then head ++ " DIED stage=open how=signal8"
  else if o.err ≠ .ok then head ++ s!" open=0 err={o.err.name}"
  else
    let mid := head ++ s!" open=1 w={o.w},{o.w},{o.w},{o.w} close={o.close} tmp={o.tmp}"
    match o.re with
    | none => mid ++ " re=0"
    | some g => mid ++ s!" re=1 rfmt={hex8 g} rch={o.rch}"

end Sf.Fmt
