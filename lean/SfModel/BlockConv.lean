/-
  SfModel.BlockConv — the caller-type front ends of the block codecs (`*_read_s/i/f/d`, `*_write_s/i/f/d`): how a
  short / int / float / double caller value becomes the codec's internal integer and back.  All of them are
  "integer × normfact" with the product rounded in the caller's floating type; writes use `psf_lrintf/psf_lrint`
  (PAF24, DPCM, VOX) or a C cast, i.e. truncation (SDS).
-/
import SfModel.Basic
import SfModel.Float
import SfModel.Pcm
namespace Sf.Block
open Sf.Float

/-- C `(int) x` for a float/double `x` (`cvttss2si`): truncation toward zero, out of range gives INT_MIN -/
def truncInt (a : Dy) : Int :=
  let r : Int := if a.neg then - (a.abs.floor) else a.floor
  if r < -2147483648 ∨ r > 2147483647 then -2147483648 else r

/-- `normfact * x` rounded to the type `f`, `normfact` an exact dyadic already of that type -/
def mulNf (f : Fmt) (nf : Dy) (x : Nat) : Dy := f.toDy (f.ofDy ((f.toDy x).mul nf))

/-- `normfact * (T) v` : integer converted to the floating type, then multiplied -/
def intTimes (f : Fmt) (nf : Dy) (v : Int) : Nat := f.ofDy ((f.toDy (f.ofInt v)).mul nf)

def fmtOf (ty : Ty) : Fmt := if ty = .f64 then f64 else f32

/-- a power of two as a dyadic -/
def pow2 (e : Int) : Dy := ⟨false, 1, e⟩

end Sf.Block
