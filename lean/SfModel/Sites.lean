/-
  SfModel.Sites — per-site bounds models of the fixed-buffer chunk copies (DESIGN §7 C03 "per-site bounds models").

  Each site is a function from the numbers the FILE declares (chunk length L, counts, string lengths — as the C sees
  them, i.e. with its uint32_t / int wrap-arounds) and, where it matters, the bytes R the input can still deliver, to an
  `Outcome`: the canonical decision the code takes (compared with the library's parse log and getmeta line by
  vlib/c03sites.py), the values it ends up with, and every write it makes into a fixed-capacity destination
  (`Write`: destination, capacity, offset, length — in bytes, or in elements for arrays of structs).
  Capacities and thresholds come from Generated/SitesConsts.lean (regenerated from the tree under test on every run).

  Sites:  WAV/RF64/W64  bext, cart, PEAK, LIST/INFO string, adtl labl, cue, smpl
          AIFF          NAME/AUTH/(c)/ANNO text, MARK, COMT
          CAF           info, chan
-/
import SfModel.Generated.SitesConsts
namespace Sf.Sites
open Sf.Generated.Sites

structure Write where
  dst : String
  cap : Int
  off : Int
  n : Int
deriving Repr, DecidableEq, Inhabited

/-- the write stays inside its destination -/
def Write.ok (w : Write) : Prop := 0 ≤ w.off ∧ 0 ≤ w.n ∧ w.off + w.n ≤ w.cap

instance (w : Write) : Decidable w.ok := by unfold Write.ok; infer_instance

structure Outcome where
  decision : String
  writes : List Write := []
  vals : List Int := []
deriving Repr, Inhabited

def Outcome.safe (o : Outcome) : Prop := ∀ w ∈ o.writes, w.ok

def u32 (x : Int) : Int := x % 4294967296
/-- `(int) x` for a uint32_t x -/
def s32 (x : Int) : Int := (x + 2147483648) % 4294967296 - 2147483648

/-- a whole-field 'b' conversion: memset + memcpy of exactly the field -/
def field (name : String) (n : Int) : Write := { dst := name, cap := n, off := 0, n := n }

/-! ### wavlike_read_bext_chunk (src/wavlike.c) -/
def bextFixed : List Write :=
  [field "description" 256, field "originator" 32, field "originator_reference" 32, field "origination_date" 10,
   field "origination_time" 8, field "umid" 64]

/-- L = chunk size.  vals = [coding_history_size] -/
def bext (L : Int) : Outcome :=
  if L < bextMin then { decision := "small" }
  else if L > bextMax then { decision := "big" }
  else if L ≥ bextStruct then { decision := "too-big" }
  else if L > bextMin then
    { decision := "read", writes := bextFixed ++ [{ dst := "coding_history", cap := bextHistCap, off := 0, n := L - bextMin }], vals := [L - bextMin] }
  else { decision := "read", writes := bextFixed, vals := [0] }

/-! ### wavlike_read_cart_chunk -/
def cartFixed : List Write :=
  [field "version" 4, field "title" 64, field "artist" 64, field "cut_id" 64, field "client_id" 64, field "category" 64,
   field "classification" 64, field "out_cue" 64, field "start_date" 10, field "start_time" 8, field "end_date" 10,
   field "end_time" 8, field "producer_app_id" 64, field "producer_app_version" 64, field "user_def" 64,
   field "reserved" 276, field "url" 1024]

/-- vals = [tag_text_size] -/
def cart (L : Int) : Outcome :=
  if L < cartMin then { decision := "small" }
  else if L > cartMax then { decision := "big" }
  else if L > cartStruct - 4 then { decision := "too-big" }
  else if L > cartMin then
    { decision := "read", writes := cartFixed ++ [{ dst := "tag_text", cap := cartTagCap, off := 0, n := L - cartMin }], vals := [L - cartMin] }
  else { decision := "read", writes := cartFixed, vals := [0] }

/-- SFC_GET_CART_INFO (cart_var_get) after a cart chunk of L bytes was read: bytes copied out of the cart_16k block
    (sizeof (SF_CART_INFO_16K) bytes) into the caller's `datasize` bytes: min (datasize, offsetof tag_text + tag_text_size).
    The reader sets tag_text_size only when L > 2048.  Since fix 0005 the block is calloc'ed (tag_text_size = 0 otherwise);
    before (`old`), cart_var_alloc used malloc and `stale` — whatever the heap held — was used. -/
def cartGetSize (old : Bool) (L datasize stale : Int) : Int :=
  let tts := if L > cartMin then L - cartMin else (if old then stale else 0)
  let want := cartTagOff + tts
  if datasize < want then datasize else want

/-! ### wavlike_read_peak_chunk / the AIFF PEAK case: chunk size must be 8 + 8 * channels; peak_info_calloc (channels) -/
def peak (L ch : Int) : Outcome :=
  if L ≠ 8 + ch * 8 then { decision := "bad-size" }
  else { decision := "read", writes := [{ dst := "peaks", cap := ch, off := 0, n := ch }], vals := [ch] }

/-! ### wavlike_subchunk_parse: the text buffer.  Since the repair of KF-C12-INFO-2046 it is allocated per LIST chunk:
    `calloc (1, SF_MAX (SF_MIN (chunk_length, 100 * 1024), 2047) + 1)`; `infoBuffer` = that minimum + 1 (2048, the size of the
    former `char buffer [2048]`), lc = chunk_length of the LIST chunk (after the clamp to the file length) -/
def infoBufSize (lc : Int) : Int :=
  (if (if lc < headerCap then lc else headerCap) > infoBuffer - 1 then (if lc < headerCap then lc else headerCap) else infoBuffer - 1) + 1

/-! ### wavlike_subchunk_parse: an INFO string sub-chunk (ISFT, ICOP, INAM, …) read into the text buffer
    s = the 32-bit size field, b = bytesread after the size field.  An item that overruns the LIST chunk ends the walk
    ("too-big": `chunk_size > 0x7fffffff || (sf_count_t) bytesread + chunk_size > chunk_length` — a 64-bit sum since the
    repair, because the skip below seeks by chunk_size: with the 32-bit sum of the old rule a size near 2^32 wrapped, passed
    the test and the walk would step backwards for ever); one that fits the chunk but not the buffer is skipped ("skip");
    "read" = memset + header_read of cs bytes into the buffer and the terminator behind them (whether the header cache then
    delivers the bytes is the business of SfModel/HeaderCache.lean) -/
def infoString (s b lc : Int) : Outcome :=
  let cs := u32 (s + s % 2)
  if cs > 2147483647 ∨ b + cs > lc then { decision := "too-big", vals := [cs] }
  else if cs ≥ infoBufSize lc then { decision := "skip", vals := [cs] }
  else { decision := "read", writes := [{ dst := "buffer", cap := infoBufSize lc, off := 0, n := cs }, { dst := "buffer", cap := infoBufSize lc, off := cs, n := 1 }], vals := [cs] }

/-- the rule before the repairs: `char buffer [2048]`, and a too-long item ended the walk -/
def infoStringOld (s b lc : Int) : Outcome :=
  let cs := u32 (s + s % 2)
  if cs ≥ infoBuffer ∨ u32 (b + cs) > lc then { decision := "too-big", vals := [cs] }
  else { decision := "read", writes := [{ dst := "buffer", cap := infoBuffer, off := 0, n := cs }, { dst := "buffer", cap := infoBuffer, off := cs, n := 1 }], vals := [cs] }

/-! ### wavlike_subchunk_parse: adtl `labl` (size field includes the 4-byte cue id); the label is then copied with
    memcpy (cue_points [i].name, buffer, sizeof name) -/
def labl (s b lc : Int) : Outcome :=
  let c1 := u32 (s - 4)
  let cs := u32 (c1 + c1 % 2)
  if cs < 1 ∨ cs ≥ infoBufSize lc ∨ u32 (b + cs) > lc then { decision := "too-big", vals := [cs] }
  else { decision := "read",
         writes := [{ dst := "buffer", cap := infoBufSize lc, off := 0, n := cs }, { dst := "buffer", cap := infoBufSize lc, off := cs, n := 1 },
                    { dst := "cue.name<-buffer[0..)", cap := infoBufSize lc, off := 0, n := cueName }, field "cue.name" cueName],
         vals := [cs] }

/-! ### wav.c `cue ` : count ≤ 2500, psf_cues_alloc (count), one 24-byte record per cue while the input delivers them
    (the loop is bounded by the count, NOT by the chunk size).  r = bytes the input still holds behind the count field.
    vals = [cue_count reported, records read] -/
def cue (count r : Int) : Outcome :=
  if count > cueMax then { decision := "skip", vals := [0, 0] }
  else
    let k := if r / 24 < count then (if r < 0 then 0 else r / 24) else count
    { decision := "read", writes := [{ dst := "cue_points", cap := count, off := 0, n := k }], vals := [count, k] }

/-! ### wav_read_smpl_chunk: the loop table (`loops [16]`) -/

/-- iterations of `for (j = 0 ; loop_count > 0 && chunklen - bytesread >= 24 ; j++)` : every iteration reads 24 bytes and
    stops when the first read of an iteration delivers nothing (r = bytes the input still holds) -/
def smplIter (loopCount chunklen : Int) : Nat → Int → Int → Int → Int
  | 0, _, _, j => j
  | fuel + 1, bytesread, r, j =>
    if loopCount > 0 ∧ u32 (chunklen - bytesread) ≥ 24 ∧ r ≥ 4 then
      smplIter loopCount chunklen fuel (bytesread + (if r ≥ 24 then 24 else r / 4 * 4)) (if r ≥ 24 then r - 24 else 0) (j + 1)
    else j

/-- L = chunk size, lc = Loop Count field, r = input bytes behind the 36-byte fixed part.
    vals = [instrument->loop_count after the call, iterations] -/
def smpl (L lc r : Int) : Outcome :=
  let chunklen := u32 (L + L % 2)
  if lc = 0 ∧ chunklen = 32 then { decision := "no-loops" }
  else
    let actual := smplIter lc chunklen (r / 24 + 2).toNat 36 r 0
    let stored := if actual < instLoops then actual else instLoops
    let final := if actual > instLoops then instLoops else if lc ≠ actual then actual else lc
    { decision := "read", writes := [{ dst := "loops", cap := instLoops, off := 0, n := stored }], vals := [final, actual] }

/-! ### aiff.c NAME / AUTH / (c) / ANNO (aiff_read_text_chunk since the repair of KF-C12-AIFF-8190): the text is read into
    `malloc (padded + 1)`, padded = chunk_size + (chunk_size & 1); chunks of more than the header cache's 100k are skipped.
    (`slack` is kept in the request format: the four cases no longer differ.) -/
def aiffText (_slack size : Int) : Outcome :=
  if size = 0 then { decision := "empty" }
  else if size > headerCap then { decision := "too-big" }
  else { decision := "read", writes := [{ dst := "cptr", cap := size + size % 2 + 1, off := 0, n := size + size % 2 }, { dst := "cptr", cap := size + size % 2 + 1, off := size, n := 1 }], vals := [size] }

/-- before it: the text was read into ubuf (BUF_UNION); each case had its own threshold
    `chunk_size >= sizeof (ubuf.scbuf) - slack` : slack = 0 for (c), 1 for AUTH, 2 for NAME and ANNO -/
def aiffTextOld (slack size : Int) : Outcome :=
  if size = 0 then { decision := "empty" }
  else if size ≥ scbuf - slack then { decision := "too-big" }
  else { decision := "read", writes := [{ dst := "ubuf", cap := scbuf, off := 0, n := size + size % 2 }, { dst := "ubuf", cap := scbuf, off := size, n := 1 }], vals := [size] }

/-! ### aiff.c MARK: calloc (mark_count) + psf_cues_alloc (mark_count), then per marker a pascal string of `ch` bytes
    (ch = the length byte, 0…255) into ubuf and psf_strlcpy into cue name.  k = markers actually parsed (≤ count) -/
def aiffMark (count k ch : Int) : Outcome :=
  if count > cueMax then { decision := "skip", writes := [{ dst := "markstr", cap := count, off := 0, n := 0 }] }
  else
    let pstr := if ch % 2 = 1 then ch else ch + 1
    let strW : List Write :=
      if pstr < scbuf - 1 then [{ dst := "ubuf", cap := scbuf, off := 0, n := pstr }, { dst := "ubuf", cap := scbuf, off := pstr, n := 1 }]
      else [{ dst := "ubuf", cap := scbuf, off := 0, n := pstr - (scbuf - 1) }, { dst := "ubuf", cap := scbuf, off := scbuf - 1, n := 1 }]
    { decision := "read",
      writes := [{ dst := "cue_points", cap := count, off := 0, n := k }, { dst := "markstr", cap := count, off := 0, n := k }] ++ strW ++ [field "cue.name" cueName],
      vals := [count, k] }

/-! ### aiff.c COMT: per comment a 16-bit length; `len + 1 > sizeof (ubuf.scbuf)` is an error -/
def aiffComt (len : Int) : Outcome :=
  if len + 1 > scbuf then { decision := "error" }
  else { decision := "read", writes := [{ dst := "ubuf", cap := scbuf, off := 0, n := len }, { dst := "ubuf", cap := scbuf, off := len, n := 1 }], vals := [len] }

/-! ### caf.c info (caf_read_strings, n = chunk_size - 4) since fix 0004 -/
def cafInfo (n : Int) : Outcome :=
  if n > headerCap then { decision := "too-big" }
  else { decision := "read", writes := [{ dst := "buf", cap := n + 1, off := 0, n := s32 (u32 n) }, { dst := "buf", cap := n + 1, off := n, n := 1 }], vals := [n] }

/-! ### caf.c chan (caf_read_chanmap): malloc (min (channels, tag & 0xff) * 4) and memcpy of as many bytes from the layout's
    table, which holds `tag & 0xff` entries -/
def cafChan (channels tag : Int) : Outcome :=
  let m := if channels < tag % 256 then channels else tag % 256
  { decision := "read", writes := [{ dst := "channel_map", cap := m * 4, off := 0, n := m * 4 }, { dst := "layout-table(read)", cap := (tag % 256) * 4, off := 0, n := m * 4 }], vals := [m] }

end Sf.Sites
