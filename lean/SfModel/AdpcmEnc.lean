/-
  SfModel.AdpcmEnc — the ENCODERS of src/ima_adpcm.c (`wavlike_ima_encode_block`, `aiff_ima_encode_block`) and of
  src/ms_adpcm.c (`msadpcm_encode_block`, `choose_predictor`), bit for bit, as functions
        encoder state × the `samples` buffer  →  encoder state × the block bytes × the `samples` buffer afterwards.
  The decoders are in SfModel/Adpcm.lean; the tables are the same `Generated.AdpcmTables` (read out of the running library).

  What the C does that a reader may not expect (all reproduced):
  * IMA, WAV layout: the step index is carried from block to block (`pima->stepindx`), the predictor is re-seeded from the
    first sample of every block; the loop overwrites `samples [k]` with the 4-bit codes and the function ends with
    `memset (samples, 0, samplesperblock * sizeof (short))` — ONE channel's worth: with two channels the upper half of the
    buffer keeps the codes of the block just written.
  * IMA, AIFF layout: predictor AND step index are carried from block to block, the two header bytes hold the predictor's
    high byte, bit 7 of its low byte and the 7-bit step index as they are BEFORE the block's first sample; the low nibble is
    written first.  The `samples` buffer is not touched: it keeps the frames of the block just written.
  * MS: `choose_predictor` reads `data [k * channels]` for every channel — the trial runs on channel 0's samples for both
    channels, so both get the same predictor and the same initial delta; `samples [k]` is overwritten with the decoder's
    reconstruction (the predictor input of the following samples); `memset (samples, 0, samplesperblock * sizeof (short))`
    again clears one channel's worth only.
  Channel counts: `previous [2]`, `stepindx [2]`, `bpred [2]`, `idelta [2]`; sf_format_check admits 1 and 2 channels for the
  two WAV/W64 encodings and aiff.c the same for ima4; `chan = (channels > 1) ? (k % 2) : 0` as written.

  Core Lean only.
-/
import SfModel.Basic
import SfModel.Adpcm
import SfModel.Block
namespace Sf.AdpcmEnc
open Sf.Adpcm Sf.Generated

/-! ## IMA: the quantiser shared by both layouts -/

/-- one IMA channel: `pima->previous [chan]`, `pima->stepindx [chan]` -/
structure Ch where
  prev : Int := 0
  idx  : Int := 0
deriving Repr, DecidableEq, Inhabited

/-- one pass of `while (mask) { if (diff >= step) { bytecode |= mask ; diff -= step ; vpdiff += step ; } step >>= 1 ; mask >>= 1 ; }` -/
def quantBit (mask : Nat) (s : Nat × Int × Int × Int) : Nat × Int × Int × Int :=
  if s.2.1 ≥ s.2.2.2 then (s.1 + mask, s.2.1 - s.2.2.2, s.2.2.1 + s.2.2.2, asr s.2.2.2 1) else (s.1, s.2.1, s.2.2.1, asr s.2.2.2 1)

/-- `bytecode = 0 ; vpdiff = step >> 3 ; if (diff < 0) { bytecode = 8 ; diff = -diff ; } mask = 4 ; while (mask) …`:
    (bytecode, vpdiff) -/
def imaQuant (step diff : Int) : Nat × Int :=
  let s0 : Nat × Int × Int × Int := if diff < 0 then (8, -diff, asr step 3, step) else (0, diff, asr step 3, step)
  let s3 := quantBit 1 (quantBit 2 (quantBit 4 s0))
  (s3.1, s3.2.2.1)

/-- one sample through the encoder of either layout: the code, the new predictor (clamped to the short range) and the new
    step index (clamped to the table) -/
def imaStep (c : Ch) (x : Int) : Ch × Nat :=
  let q := imaQuant (imaStepSize c.idx) (x - c.prev)
  let prev := clamp16 (if q.1 / 8 % 2 = 1 then c.prev - q.2 else c.prev + q.2)
  let idx := clampImaStepIndex (c.idx + imaIndxAdjust q.1)
  (⟨prev, idx⟩, q.1)

/-- a run of samples of one channel -/
def imaRun : Ch → List Int → Ch × List Nat
  | c, [] => (c, [])
  | c, x :: xs =>
    let r := imaStep c x
    let rest := imaRun r.1 xs
    (rest.1, r.2 :: rest.2)

/-! ## IMA, WAV / W64 layout -/

/-- the encode loop `for (k = channels ; k < samplesperblock * channels ; k++)` over the buffer slots from `k` on -/
def wavEncLoop (channels : Nat) : Nat → List Int → Ch × Ch → (Ch × Ch) × List Nat
  | _, [], st => (st, [])
  | k, x :: xs, st =>
    let chan := if channels > 1 then k % 2 else 0
    let r := imaStep (if chan = 0 then st.1 else st.2) x
    let st1 := if chan = 0 then (r.1, st.2) else (st.1, r.1)
    let rest := wavEncLoop channels (k + 1) xs st1
    (rest.1, r.2 :: rest.2)

/-- header of one channel: `block [chan*4] = samples [chan] & 0xFF ; block [chan*4+1] = (samples [chan] >> 8) & 0xFF ;
    block [chan*4+2] = stepindx [chan] ; block [chan*4+3] = 0` -/
def wavHeaderBytes (sample idx : Int) : List Byte :=
  [wrapU 8 sample, wrapU 8 (asr sample 8), wrapU 8 idx, 0]

/-- `block [blockindx] = samples [indx] & 0x0F ; block [blockindx] |= (samples [indx + channels] << 4) & 0xF0` -/
def nibPair (lo hi : Nat) : Byte := lo % 16 + hi % 16 * 16

/-- the pack loop for one channel: the inverse of `Adpcm.wavUnpack1` -/
def wavPack1 : List Nat → List Byte
  | a :: b :: rest => nibPair a b :: wavPack1 rest
  | _ => []

/-- the pack loop for two channels: 16 interleaved slots become 4 bytes of channel 0 then 4 bytes of channel 1
    (the inverse of `Adpcm.wavUnpack2`) -/
def wavPack2 : List Nat → List Byte
  | a0 :: b0 :: a1 :: b1 :: a2 :: b2 :: a3 :: b3 :: a4 :: b4 :: a5 :: b5 :: a6 :: b6 :: a7 :: b7 :: rest =>
    [nibPair a0 a1, nibPair a2 a3, nibPair a4 a5, nibPair a6 a7,
     nibPair b0 b1, nibPair b2 b3, nibPair b4 b5, nibPair b6 b7] ++ wavPack2 rest
  | _ => []

def wavPack (channels : Nat) (codes : List Nat) : List Byte :=
  if channels = 1 then wavPack1 codes else wavPack2 codes

/-- `wavlike_ima_encode_block`: (`stepindx` pair carried on; `previous` as the function leaves it, never read again),
    the block, the `samples` buffer afterwards -/
def imaWavEncodeBlock (channels samplesperblock : Nat) (st : Ch × Ch) (samples : List Int) : (Ch × Ch) × List Byte × List Int :=
  let s0 := samples.getD 0 0
  let s1 := samples.getD 1 0
  let hdr := if channels > 1 then wavHeaderBytes s0 st.1.idx ++ wavHeaderBytes s1 st.2.idx else wavHeaderBytes s0 st.1.idx
  -- pima->previous [chan] = pima->samples [chan]
  let st0 : Ch × Ch := if channels > 1 then (⟨s0, st.1.idx⟩, ⟨s1, st.2.idx⟩) else (⟨s0, st.1.idx⟩, st.2)
  let body := (samples.drop channels).take ((samplesperblock - 1) * channels)
  let r := wavEncLoop channels channels body st0
  let block := hdr ++ wavPack channels r.2
  -- the buffer now holds the header samples followed by the codes; one channel's worth of it is cleared
  let after := samples.take channels ++ r.2.map (fun (c : Nat) => (c : Int))
  (r.1, block, Block.zeros samplesperblock ++ after.drop samplesperblock)

/-! ## IMA, AIFF layout -/

/-- `block [blockindx] = (bytecode << (4 * k)) | block [blockindx]` for k = 0 then 1, on a cleared block -/
def aiffPack : List Nat → List Byte
  | a :: b :: rest => nibPair a b :: aiffPack rest
  | [a] => [a % 16]
  | [] => []

/-- the two header bytes: `(previous >> 8) & 0xFF`, `(previous & 0x80) + (stepindx & 0x7F)` -/
def aiffHeaderBytes (c : Ch) : List Byte :=
  [wrapU 8 (asr c.prev 8), wrapU 8 c.prev / 128 * 128 + wrapU 7 c.idx]

/-- one channel's packet of `blocksize` bytes -/
def aiffEncodeChannel (c : Ch) (xs : List Int) : Ch × List Byte :=
  let r := imaRun c xs
  (r.1, aiffHeaderBytes c ++ aiffPack r.2)

/-- every `channels`-th item starting at `chan` -/
def deinterleave (channels chan : Nat) (l : List Int) : List Int :=
  ((List.range (l.length / channels)).map fun j => l.getD (j * channels + chan) 0)

/-- `aiff_ima_encode_block`: the state, `channels * blocksize` bytes; the buffer is left as it is -/
def imaAiffEncodeBlock (channels : Nat) (st : Ch × Ch) (samples : List Int) : (Ch × Ch) × List Byte × List Int :=
  if channels > 1 then
    let r0 := aiffEncodeChannel st.1 (deinterleave 2 0 samples)
    let r1 := aiffEncodeChannel st.2 (deinterleave 2 1 samples)
    ((r0.1, r1.1), r0.2 ++ r1.2, samples)
  else
    let r0 := aiffEncodeChannel st.1 samples
    ((r0.1, st.2), r0.2, samples)

/-! ## Microsoft ADPCM -/

/-- `abs (data [k*ch] - ((data [(k-1)*ch] * AdaptCoeff1 [bpred] + data [(k-2)*ch] * AdaptCoeff2 [bpred]) >> 8))` -/
def msTrialTerm (channels bpred : Nat) (data : List Int) (k : Nat) : Nat :=
  (data.getD (k * channels) 0
    - asr (data.getD ((k - 1) * channels) 0 * msAdaptCoeff1 bpred + data.getD ((k - 2) * channels) 0 * msAdaptCoeff2 bpred) 8).natAbs

/-- `idelta_sum` of one trial: IDELTA_COUNT = 3 samples, `idelta_sum /= (4 * IDELTA_COUNT)` -/
def msTrial (channels bpred : Nat) (data : List Int) : Nat :=
  (msTrialTerm channels bpred data 2 + msTrialTerm channels bpred data 3 + msTrialTerm channels bpred data 4) / 12

/-- the loop `for (bpred = 0 ; bpred < 7 ; bpred++)` from `bpred` on: (best_bpred, best_idelta) -/
def msChooseLoop (channels : Nat) (data : List Int) : Nat → Nat → Nat × Nat → Nat × Nat
  | 0, _, best => best
  | fuel + 1, bpred, best =>
    let sum := msTrial channels bpred data
    let best1 := if bpred = 0 ∨ sum < best.2 then (bpred, sum) else best
    if sum = 0 then (bpred, 16)                       -- best_bpred = bpred ; best_idelta = 16 ; break
    else msChooseLoop channels data fuel (bpred + 1) best1

/-- `choose_predictor` for one channel: the C indexes `data [k * channels]` whatever `chan` is — the result does not
    depend on the channel -/
def msChoose (channels : Nat) (data : List Int) (_chan : Nat) : Nat × Int :=
  let best := msChooseLoop channels data 7 0 (0, 0)
  (best.1, if best.2 < 16 then 16 else (best.2 : Int))

/-- `errordelta = (samples [k] - predict) / idelta`, clamped to -8 … 7 -/
def msErrorDelta (x predict idelta : Int) : Int :=
  let e := cdiv (x - predict) idelta
  if e < -8 then -8 else if e > 7 then 7 else e

/-- one pass of the encode loop for buffer slot `k`; `hist [j] = samples [k-1-j]` (already overwritten with the
    reconstruction): the deltas afterwards, the 4-bit code, the reconstructed sample written back to `samples [k]` -/
def msStep (channels : Nat) (bpred : Nat × Nat) (k : Nat) (x : Int) (idelta : Int × Int) (hist : List Int) : (Int × Int) × Nat × Int :=
  let chan := if channels > 1 then k % 2 else 0
  let bp := if chan = 0 then bpred.1 else bpred.2
  let d := if chan = 0 then idelta.1 else idelta.2
  let predict := asr (hist.getD (channels - 1) 0 * msAdaptCoeff1 bp + hist.getD (2 * channels - 1) 0 * msAdaptCoeff2 bp) 8
  let e := msErrorDelta x predict d
  let newsamp := clamp16 (predict + d * e)
  let nib : Nat := wrapU 4 e                                -- if (errordelta < 0) errordelta += 0x10
  let nd := asr (d * msAdaptation nib) 8
  let nd := if nd < 16 then 16 else nd
  (if chan = 0 then (nd, idelta.2) else (idelta.1, nd), nib, newsamp)

/-- the encode loop over the buffer slots from `k` on: the final deltas, the 4-bit codes, the reconstructed samples -/
def msEncLoop (channels : Nat) (bpred : Nat × Nat) : Nat → List Int → Int × Int → List Int → (Int × Int) × List Nat × List Int
  | _, [], idelta, _ => (idelta, [], [])
  | k, x :: xs, idelta, hist =>
    let s := msStep channels bpred k x idelta hist
    let rest := msEncLoop channels bpred (k + 1) xs s.1 (s.2.2 :: hist)
    (rest.1, s.2.1 :: rest.2.1, s.2.2 :: rest.2.2)

/-- `byte = (byte << 4) | (errordelta & 0xF)`, stored after every second code: the inverse of `Adpcm.msUnpack` -/
def msPack : List Nat → List Byte
  | a :: b :: rest => (a % 16 * 16 + b % 16) :: msPack rest
  | _ => []

/-- `x & 0xFF`, `x >> 8` stored to an unsigned char -/
def le16 (x : Int) : List Byte := [wrapU 8 x, wrapU 8 (asr x 8)]

/-- `msadpcm_encode_block`: the block, the `samples` buffer afterwards (no state survives the block) -/
def msEncodeBlock (channels samplesperblock : Nat) (samples : List Int) : List Byte × List Int :=
  let g := fun i => samples.getD i 0
  let p0 := msChoose channels samples 0
  let p1 := if channels > 1 then msChoose channels samples 1 else (0, 0)      -- int bpred [2] = { 0 }, idelta [2] = { 0 }
  let body := (samples.drop (2 * channels)).take ((samplesperblock - 2) * channels)
  if channels = 1 then
    let hdr := [p0.1] ++ le16 p0.2 ++ le16 (g 1) ++ le16 (g 0)
    let r := msEncLoop channels (p0.1, p1.1) 2 body (p0.2, p1.2) [g 1, g 0]
    let after := samples.take 2 ++ r.2.2
    (hdr ++ msPack r.2.1, Block.zeros samplesperblock ++ after.drop samplesperblock)
  else
    let hdr := [p0.1, p1.1] ++ le16 p0.2 ++ le16 p1.2 ++ le16 (g 2) ++ le16 (g 3) ++ le16 (g 0) ++ le16 (g 1)
    let r := msEncLoop channels (p0.1, p1.1) 4 body (p0.2, p1.2) [g 3, g 2, g 1, g 0]
    let after := samples.take 4 ++ r.2.2
    (hdr ++ msPack r.2.1, Block.zeros samplesperblock ++ after.drop samplesperblock)

end Sf.AdpcmEnc
