/-
  SfModel.Peak — what C18 needs on top of SfModel.Handle:

  * `run`        : PEAK state after a list of write calls (the bookkeeping itself is `Sf.peakUpdate` /
                   `Sf.peakChunkUpdate` of SfModel.Handle, bug for bug: `float fmaxval` in double64.c, one update per
                   staging-buffer chunk when the caller's type is not the file's type);
  * `chunkBytes` / `parseChunk` : the PEAK chunk of WAV / RIFX (= WAVEX, RF64), AIFF and CAF.  The value is written
                   as binary32 in every container, for DOUBLE files too;
  * `getSignalMax`, `getMaxAll` : SFC_GET_SIGNAL_MAX / SFC_GET_MAX_ALL_CHANNELS;
  * `foldMax`, `calcSignalMax`, `calcMaxAll` : the scan loops of psf_calc_signal_max / psf_calc_max_all_channels over
                   the buffers `sf_read_double` fills (1024 − 1024 % channels items each);
  * `stepCalc`   : the four SFC_CALC_* commands on the handle model (save norm_double, set it, remember the
                   position(s), seek to 0, read to the end, seek back, restore norm_double).

  Core Lean only.
-/
import SfModel.Handle

deriving instance DecidableEq for Sf.Peak

namespace Sf.Peak
open Sf

/-! ## PEAK bookkeeping over a list of calls -/

/-- `peakUpdate` in terms of the fields it reads (same construction as `Sf.peakUpd` of SfProofs.CodecWriter) -/
def upd (pk : Option (List Peak)) (enc : Enc) (conv : Conv) (ch : Nat) (wpos : Int) (ty : Ty) (vals : List Int) :
    Option (List Peak) :=
  peakUpdate { store := 0, mode := .w, container := .wav, enc := enc, big := false, ch := ch, sr := 0, fmtWord := 0,
               frames := 0, lastOp := .w, peak := pk, conv := conv, wpos := wpos } ty vals

/-- PEAK state after the item calls `calls` (caller type, buffer), the first one made at write position `wpos` -/
def run (enc : Enc) (conv : Conv) (ch : Nat) : Option (List Peak) → Int → List (Ty × List Int) → Option (List Peak)
  | pk, _, [] => pk
  | pk, wpos, (ty, data) :: cs => run enc conv ch (upd pk enc conv ch wpos ty data) (wpos + (data.length : Int) / ch) cs

/-- the same under the rules before the repairs (`Sf.peakUpdateOld`) -/
def updOld (pk : Option (List Peak)) (enc : Enc) (conv : Conv) (ch : Nat) (wpos : Int) (ty : Ty) (vals : List Int) :
    Option (List Peak) :=
  peakUpdateOld { store := 0, mode := .w, container := .wav, enc := enc, big := false, ch := ch, sr := 0, fmtWord := 0,
                  frames := 0, lastOp := .w, peak := pk, conv := conv, wpos := wpos } ty vals

def runOld (enc : Enc) (conv : Conv) (ch : Nat) : Option (List Peak) → Int → List (Ty × List Int) → Option (List Peak)
  | pk, _, [] => pk
  | pk, wpos, (ty, data) :: cs => runOld enc conv ch (updOld pk enc conv ch wpos ty data) (wpos + (data.length : Int) / ch) cs

/-! ## the chunk -/

inductive Kind | wavLE | wavBE | aiff | caf
deriving Repr, DecidableEq, Inhabited

def u64be (v : Int) : List Byte := beBytes 8 (wrapU 64 v)

/-- wavlike_write_peak_chunk / aiff_write_header / caf_write_header: timestamp = the harness' pinned clock,
    CAF edit count 0.  `'t8'` in the WAV/AIFF format strings writes the low 32 bits of the 64-bit position. -/
def chunkBytes (k : Kind) (ch : Nat) (ps : List Peak) : List Byte :=
  match k with
  | .wavLE => marker "PEAK" ++ u32 false (8 + 8 * ch) ++ u32 false 1 ++ u32 false 1000000000 ++
      ps.flatMap fun p => u32 false (wrF32 (Float.f64to32 p.value)) ++ u32 false p.position
  | .wavBE => marker "PEAK" ++ u32 true (8 + 8 * ch) ++ u32 true 1 ++ u32 true 1000000000 ++
      ps.flatMap fun p => u32 true (wrF32 (Float.f64to32 p.value)) ++ u32 true p.position
  | .aiff => marker "PEAK" ++ u32 true (8 + 8 * ch) ++ u32 true 1 ++ u32 true 1000000000 ++
      ps.flatMap fun p => u32 true (wrF32 (Float.f64to32 p.value)) ++ u32 true p.position
  | .caf => marker "peak" ++ u64be (4 + 12 * ch) ++ u32 true 0 ++
      ps.flatMap fun p => u32 true (wrF32 (Float.f64to32 p.value)) ++ u64be p.position

def rd64be (bs : List Byte) (off : Nat) : Nat := ofBE ((bs.drop off).take 8)

def parseCaf (bs : List Byte) (off : Nat) : Nat → List Peak
  | 0 => []
  | n+1 => { value := Float.f32to64 (rd32 true bs off), position := sext 64 (rd64be bs (off + 4)) } :: parseCaf bs (off + 12) n

/-- wavlike_read_peak_chunk / aiff.c / caf.c on the bytes of one chunk (marker included); `none` = size mismatch
    (the library refuses the file) -/
def parseChunk (k : Kind) (ch : Nat) (bs : List Byte) : Option (List Peak) :=
  match k with
  | .wavLE => if rd32 false bs 4 != 8 + 8 * ch then none else some (parsePeaks false bs 16 ch)
  | .wavBE | .aiff => if rd32 true bs 4 != 8 + 8 * ch then none else some (parsePeaks true bs 16 ch)
  | .caf => if rd64be bs 4 != 4 + 12 * ch then none else some (parseCaf bs 16 ch)

/-! ## SFC_GET_SIGNAL_MAX / SFC_GET_MAX_ALL_CHANNELS -/

/-- C `a > b` on two finite doubles given as bit patterns -/
def gtD (a b : Nat) : Bool := (Float.f64.toDy b).lt (Float.f64.toDy a)

/-- psf_get_signal_max: `peak[0] = SF_MAX (peak[0], peaks[k].value)` -/
def getSignalMax (ps : List Peak) : Nat :=
  match ps with
  | [] => 0
  | p :: rest => rest.foldl (fun m q => if gtD m q.value then m else q.value) p.value

def getMaxAll (ps : List Peak) : List Nat := ps.map (·.value)

/-! ## the CALC scan -/

def absD (b : Nat) : Nat := b % 2 ^ 63

/-- `temp = fabs (data [k]) ; max_val = temp > max_val ? temp : max_val` over one buffer -/
def foldMax (acc : Nat) (xs : List Nat) : Nat :=
  xs.foldl (fun m x => if gtD (absD x) m then absD x else m) acc

/-- the same with `peaks [chan]`, `chan = (chan + 1) % channels` -/
def foldMaxAll (ch : Nat) (st : List Nat × Nat) (xs : List Nat) : List Nat × Nat :=
  xs.foldl (fun (st : List Nat × Nat) x =>
    let cur := st.1.getD st.2 0
    (st.1.set st.2 (if gtD (absD x) cur then absD x else cur), (st.2 + 1) % ch)) st

/-- items per `sf_read_double` call of the scan: `ARRAY_LEN (ubuf.dbuf) - ARRAY_LEN (ubuf.dbuf) % channels` -/
def calcLen (ch : Nat) : Nat := 1024 - 1024 % ch

/-- the scan over a decoded stream delivered in buffers of `calcLen ch` items -/
def calcSignalMax (ch : Nat) (stream : List Nat) : Nat := (chunksOf (calcLen ch) stream).foldl foldMax 0
def calcMaxAll (ch : Nat) (stream : List Nat) : List Nat :=
  ((chunksOf (calcLen ch) stream).foldl (foldMaxAll ch) (List.replicate ch 0, 0)).1

/-! ## SFC_CALC_* on the handle -/

/-- accumulator of the scan: signal max, or (per-channel maxima, channel counter) -/
structure Acc where
  sig : Nat := 0
  all : List Nat × Nat := ([], 0)
deriving Repr, Inhabited

def Acc.step (ch : Nat) (a : Acc) (xs : List Nat) : Acc :=
  { sig := foldMax a.sig xs, all := foldMaxAll ch a.all xs }

/-- `for (readcount = 1 ; readcount > 0 ;) { readcount = sf_read_double (psf, data, len) ; … }` -/
def calcLoop : Nat → H → Store → Acc → H × Store × Acc
  | 0, h, s, a => (h, s, a)
  | fuel+1, h, s, a =>
    let r := stepRead h s .f64 false (calcLen h.ch)
    if r.2.2.ret ≤ 0 then (r.1, r.2.1, a)
    else calcLoop fuel r.1 r.2.1 (a.step h.ch ((r.2.2.data.take r.2.2.ret.toNat).map Int.toNat))

/-- first part of psf_calc_signal_max / psf_calc_max_all_channels as reached through sf_command, on a handle that can read
    (`mode ≠ w`; in write mode `psf->read_double` is NULL and the command fails with SFE_UNIMPLEMENTED): clear the error,
    save and set norm_double, remember the position(s), rewind.  On a read/write handle only the read pointer is moved
    (`SEEK_SET | SFM_READ`, repair of KF-C18-CALC-RDWR-BLOCK).  Result: handle, store, saved flag, read position, position. -/
def calcPre (h : H) (s : Store) (normalize : Bool) : H × Store × Bool × Int × Int :=
  let h := { h with error := 0 }                                  -- VALIDATE_SNDFILE_AND_ASSIGN_PSF (…, 1)
  let save := h.conv.normD                                        -- sf_command (SFC_GET_NORM_DOUBLE)
  let c := stepCmdFlag h s 0x1012 (if normalize then 1 else 0)    -- sf_command (SFC_SET_NORM_DOUBLE, normalize)
  let readPosition := c.1.rpos
  if c.1.mode == .rw then
    let r := stepSeek c.1 c.2.1 0 0x10                            -- sf_seek (psf, 0, SEEK_SET | SFM_READ)
    (r.1, r.2.1, save, readPosition, c.1.wpos)
  else
    let t := stepSeek c.1 c.2.1 0 1                               -- position = sf_seek (psf, 0, SEEK_CUR)
    let r := stepSeek t.1 t.2.1 0 0                               -- sf_seek (psf, 0, SEEK_SET)
    (r.1, r.2.1, save, readPosition, t.2.2.ret)

/-- last part: seek back (read/write handle: the read pointer only), restore norm_double -/
def calcPost (h : H) (s : Store) (save : Bool) (readPosition position : Int) : H × Store :=
  let r := if h.mode == .rw then stepSeek h s readPosition 0x10 else stepSeek h s position 0
  let c := stepCmdFlag r.1 r.2.1 0x1012 (if save then 1 else 0)   -- sf_command (SFC_SET_NORM_DOUBLE, save_state)
  (c.1, c.2.1)

def stepCalc (h : H) (s : Store) (normalize : Bool) : H × Store × Acc :=
  let p := calcPre h s normalize
  let l := calcLoop (p.1.frames.toNat + 1) p.1 p.2.1 { all := (List.replicate p.1.ch 0, 0) }
  let q := calcPost l.1 l.2.1 p.2.2.1 p.2.2.2.1 p.2.2.2.2
  (q.1, q.2, l.2.2)

end Sf.Peak
