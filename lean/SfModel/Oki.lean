/-
  SfModel.Oki — OKI / Dialogic ADPCM (ima_oki_adpcm.c, type OKI) and the VOX codec loops around it
  (vox_adpcm.c): 4-bit codes, two per byte (first sample in the high nibble), 49-entry step table, 12-bit
  precision (`mask = ~0 << 4`).

  The codec packs two samples per byte.  A call with an odd item count leaves half a byte over: the sample is held
  in the codec's private data (`VOX_PRIVATE.have_carry / carry`, here `Option Int`) — a writer puts it in front of
  the next call's samples and `codec_close` encodes a last odd sample with the zero sample the encoder documents
  (`closeCarry`); a reader delivers the held sample first in the next call (`writeBlock`, `readBlock`).

  The rule before the repair of KF-VOX-ODD stays as `writeBlockOld` / `readBlockOld`: `encodeBlock` appends a zero
  sample when it is handed an odd number of samples and *counts it* (`pcm_count ++`), so the write call reported
  one item more than it was given and the pad sample sat in the middle of the stream when more calls followed;
  `vox_read_block` asked for `(len + 1) / 2` bytes and copied `2 * bytes` samples, one more than requested for an
  odd `len`.
-/
import SfModel.Basic
import SfModel.BlockConv
namespace Sf.Oki
open Sf.Block Sf.Float

def steps : List Int :=
  [256, 272, 304, 336, 368, 400, 448, 496, 544, 592, 656, 720, 800, 880, 960,
   1056, 1168, 1280, 1408, 1552, 1712, 1888, 2080, 2288, 2512, 2768, 3040, 3344,
   3680, 4048, 4464, 4912, 5392, 5936, 6528, 7184, 7904, 8704, 9568, 10528,
   11584, 12736, 14016, 15408, 16960, 18656, 20512, 22576, 24832]

def maxStepIndex : Nat := 48
def stepChanges : List Int := [-1, -1, -1, -1, 2, 4, 6, 8]

structure St where
  last : Int := 0        -- last_output
  idx  : Nat := 0        -- step_index
  errors : Nat := 0
deriving Repr, DecidableEq, Inhabited

/-- `x & (~0 << 4)` for an int: clear the low four bits (floor to a multiple of 16) -/
def mask16 (x : Int) : Int := x / 16 * 16

/-- `adpcm_decode` -/
def decode (st : St) (code : Nat) : St × Int :=
  let step := steps.getD st.idx 0
  let m : Int := ((code % 8 * 2 + 1 : Nat) : Int)
  let s0 := mask16 (asr (step * m) 3)
  let s1 := (if code / 8 % 2 = 1 then - s0 else s0) + st.last
  let grace := mask16 (asr step 3)
  let bad := s1 < -32768 ∨ s1 > 32767
  let errs := if bad ∧ (s1 < -32768 - grace ∨ s1 > 32767 + grace) then st.errors + 1 else st.errors
  let s := if s1 < -32768 then -32768 else if s1 > 32767 then 32767 else s1
  let i : Int := (st.idx : Int) + stepChanges.getD (code % 8) 0
  let i := if i < 0 then 0 else if i > maxStepIndex then (maxStepIndex : Int) else i
  (⟨s, i.toNat, errs⟩, s)

/-- `adpcm_encode` -/
def encode (st : St) (sample : Int) : St × Nat :=
  let delta := sample - st.last
  let sign := if delta < 0 then 8 else 0
  let delta := if delta < 0 then - delta else delta
  let code := Int.tdiv (4 * delta) (steps.getD st.idx 1)
  let code := sign + (if code < 7 then code.toNat else 7)
  ((decode st code).1, code)

/-- `ima_oki_adpcm_encode_block` on an even number of samples -/
def encPairs : St → List Int → St × List Byte
  | st, a :: b :: rest =>
    let (s1, c1) := encode st a
    let (s2, c2) := encode s1 b
    let (s3, bs) := encPairs s2 rest
    (s3, (c1 * 16 + c2) % 256 :: bs)
  | st, _ => (st, [])

/-- `ima_oki_adpcm_decode_block` -/
def decBytes : St → List Byte → St × List Int
  | st, [] => (st, [])
  | st, b :: bs =>
    let (s1, x1) := decode st (b / 16)
    let (s2, x2) := decode s1 (b % 16)
    let (s3, xs) := decBytes s2 bs
    (s3, x1 :: x2 :: xs)

/-- `vox_write_block` BEFORE the repair of KF-VOX-ODD: 512-sample pieces; an odd piece (only the last can be) gets a
    zero appended and counted.  Returns (state, bytes, `indx`). `n = xs.length`. -/
def writeBlockOld : Nat → St → List Int → Nat → St × List Byte × Nat
  | 0, st, _, _ => (st, [], 0)
  | fuel + 1, st, xs, n =>
    if n = 0 then (st, [], 0)
    else
      let pc := min 512 n
      let piece := xs.take pc
      let (pc2, piece2) := if pc % 2 = 1 then (pc + 1, piece ++ [0]) else (pc, piece)
      let (s1, bs) := encPairs st piece2
      -- indx += pcm_count : with the pad counted, indx may pass len by one and the loop ends
      let (s2, bs2, t) := writeBlockOld fuel s1 (xs.drop pc) (n - pc)
      (s2, bs ++ bs2, pc2 + t)

/-- `vox_write_block`: the sample the previous call left over (`c`) goes first, then up to 512 samples in all; an odd
    piece gives its last sample back to the carry (half a byte: held for the next call or for `codec_close`); a piece
    that is empty after that ends the loop without an encoder call or a write.
    Returns (state, carry, bytes, `indx`). `n = xs.length`. -/
def writeBlock : Nat → St → Option Int → List Int → Nat → St × Option Int × List Byte × Nat
  | 0, st, c, _, _ => (st, c, [], 0)
  | fuel + 1, st, c, xs, n =>
    if n = 0 then (st, c, [], 0)
    else
      let pre := c.toList
      let cnt := min (512 - pre.length) n
      let buf := pre ++ xs.take cnt
      let odd := (pre.length + cnt) % 2 = 1
      let buf2 := if odd then buf.dropLast else buf
      let c2 := if odd then buf.getLast? else none
      if buf2 = [] then (st, c2, [], cnt)
      else
        let (s1, bs) := encPairs st buf2
        let (s2, c3, bs2, t) := writeBlock fuel s1 c2 (xs.drop cnt) (n - cnt)
        (s2, c3, bs ++ bs2, cnt + t)

/-- `codec_close` of a write handle: a held sample is encoded with the zero sample `ima_oki_adpcm_encode_block` appends
    to an odd block. Returns (state, bytes). -/
def closeCarry (st : St) : Option Int → St × List Byte
  | none => (st, [])
  | some x => encPairs st [x, 0]

/-- short samples of a caller value (`vox_write_s/i/f/d`) -/
def ofCaller (c : Conv) (ty : Ty) (v : Int) : Int :=
  match ty with
  | .s16 => v
  | .s32 => asr v 16
  | .f32 => wrapS 16 (lrintInt c.variant (mulNf f32 (if c.normF then Dy.ofInt 0x7FFF else pow2 0) v.toNat))
  | .f64 => wrapS 16 (lrintInt c.variant (mulNf f64 (if c.normD then Dy.ofInt 0x7FFF else pow2 0) v.toNat))

def toCaller (c : Conv) (ty : Ty) (v : Int) : Int :=
  match ty with
  | .s16 => v
  | .s32 => v * 65536
  | .f32 => intTimes f32 (if c.normF then pow2 (-15) else pow2 0) v
  | .f64 => intTimes f64 (if c.normD then pow2 (-15) else pow2 0) v

/-- staging of the wrappers: short callers in one piece, the others through `ubuf.sbuf` (4096 shorts); the loop
    ends after the first piece whose count differs from the request. Returns (state, bytes, total). -/
def writeCall (chunk : Nat) : Nat → St → Option Int → List Int → Nat → St × Option Int × List Byte × Nat
  | 0, st, c, _, _ => (st, c, [], 0)
  | fuel + 1, st, c, xs, n =>
    if n = 0 then (st, c, [], 0)
    else
      let wc := if chunk = 0 then n else min chunk n
      let (s1, c1, bs, cnt) := writeBlock (wc + 1) st c (xs.take wc) wc
      if cnt ≠ wc then (s1, c1, bs, cnt)
      else
        let (s2, c2, bs2, t) := writeCall chunk fuel s1 c1 (xs.drop wc) (n - wc)
        (s2, c2, bs ++ bs2, cnt + t)

/-- the staging loop before the repair of KF-VOX-ODD (over `writeBlockOld`) -/
def writeCallOld (chunk : Nat) : Nat → St → List Int → Nat → St × List Byte × Nat
  | 0, st, _, _ => (st, [], 0)
  | fuel + 1, st, xs, n =>
    if n = 0 then (st, [], 0)
    else
      let wc := if chunk = 0 then n else min chunk n
      let (s1, bs, cnt) := writeBlockOld (wc + 1) st (xs.take wc) wc
      if cnt ≠ wc then (s1, bs, cnt)
      else
        let (s2, bs2, t) := writeCallOld chunk fuel s1 (xs.drop wc) (n - wc)
        (s2, bs ++ bs2, cnt + t)

def chunkOf (ty : Ty) : Nat := if ty = .s16 then 0 else 4096

/-- `vox_read_block` BEFORE the repair of KF-VOX-ODD, over the bytes still in the file: (state, bytes left, samples
    copied out, `indx`) — for an odd request one sample more than asked for -/
def readBlockOld : Nat → St → List Byte → Nat → St × List Byte × List Int × Nat
  | 0, st, bytes, _ => (st, bytes, [], 0)
  | fuel + 1, st, bytes, n =>
    if n = 0 then (st, bytes, [], 0)
    else
      let cc := if n > 512 then 256 else (n + 1) / 2
      let got := bytes.take cc
      if got = [] then (st, bytes, [], 0)
      else
        let k := got.length
        let (s1, xs) := decBytes st got
        let (s2, rest, ys, t) := readBlockOld fuel s1 (bytes.drop cc) (n - 2 * k)
        (s2, rest, xs ++ ys, 2 * k + t)

/-- the loop of `vox_read_block`: pieces of at most 256 bytes; when the decoded piece holds one sample more than is
    still asked for (the request was odd) that sample is held back and the loop is over.
    Returns (state, carry, bytes left, samples copied out, their number). -/
def readLoop : Nat → St → List Byte → Nat → St × Option Int × List Byte × List Int × Nat
  | 0, st, bytes, _ => (st, none, bytes, [], 0)
  | fuel + 1, st, bytes, n =>
    if n = 0 then (st, none, bytes, [], 0)
    else
      let cc := if n > 512 then 256 else (n + 1) / 2
      let got := bytes.take cc
      if got = [] then (st, none, bytes, [], 0)
      else
        let k := got.length
        let (s1, xs) := decBytes st got
        if 2 * k > n then (s1, xs.getLast?, bytes.drop cc, xs.dropLast, 2 * k - 1)
        else
          let (s2, c, rest, ys, t) := readLoop fuel s1 (bytes.drop cc) (n - 2 * k)
          (s2, c, rest, xs ++ ys, 2 * k + t)

/-- `vox_read_block` over the bytes still in the file: a held sample (`c`) is delivered first -/
def readBlock (fuel : Nat) (st : St) (c : Option Int) (bytes : List Byte) (n : Nat) :
    St × Option Int × List Byte × List Int × Nat :=
  match c with
  | some x =>
    if n = 0 then (st, c, bytes, [], 0)
    else
      let (s, c2, rest, ys, t) := readLoop fuel st bytes (n - 1)
      (s, c2, rest, x :: ys, t + 1)
  | none => readLoop fuel st bytes n

end Sf.Oki
