/-
  SfModel.FdWorldLow — psf_close_fd with the decision WHICH descriptors it really closes as a parameter.

  In the code (src/file_io.c) `psf_close_fd (fd)` closes every fd >= 0; whether it is called at all is decided by the handle
  (`do_not_close_descriptor`, set from sf_open_fd's close_desc), see Sf.FdWorld.release.  `CloseRule.skipsStdio` is the
  neighbouring rule "descriptors 0 and 1 belong to the process: return early" — ownership inferred from the NUMBER.  A process that
  closed its standard streams gets 0 / 1 from open (): `Sf.FdWorld.start taken` with 0 or 1 not in `taken`.
  Core Lean only.
-/
import SfModel.FdWorld
namespace Sf.FdWorldLow
open Sf.FdWorld

inductive CloseRule | byOwnership | skipsStdio
  deriving DecidableEq, Repr

/-- psf_close_fd -/
def closeFd (cr : CloseRule) (t : Table) : Option Nat → Table
  | none => t
  | some n => match cr with
    | .byOwnership => t.osClose n
    | .skipsStdio => if n ≤ 1 then t else t.osClose n

/-- psf_close, descriptor side (Sf.FdWorld.release with Rule.resets), every close going through `closeFd cr` -/
def releaseBy (cr : CloseRule) (t : Table) (h : Handle) : Table :=
  let t := t.closeOpt h.tmpFd                      -- fclose (enctmp): stdio's own close
  let t := if h.ownsFile then closeFd cr t h.fileFd else t
  closeFd cr t h.rsrcFd

/-- sf_open (path) / sf_open_fd on a plain handle (no resource fork, no spool file), then sf_close (and the caller closing the
    descriptor it lent): the table afterwards -/
def openClose (cr : CloseRule) (t : Table) (a : Nat) (route : Route) : Table :=
  let (t, n) := t.osOpen (.file a)
  let h : Handle := { fileFd := some n, ownsFile := route != .fd0 }
  let t := releaseBy cr t h
  if h.ownsFile then t else t.closeOpt h.fileFd

end Sf.FdWorldLow
