/-
  SfModel.CrossType — the cross-type agreement contract of C02 for EVERY codec, as decidable checkers over what the
  library itself wrote and delivered.  Each clause quotes properties.jsonl C02.

  (W)  "integer-to-integer moves keep the most significant bits (widening zero-pads, narrowing truncates …)":
       * narrowing — a codec whose sample has at most 16 significant bits (8/16-bit PCM, DPCM, every block ADPCM, GSM,
         G.72x, NMS, VOX, 12/16-bit DWVW, 16-bit ALAC) must store the SAME FILE for the caller's ints `x` and for the
         shorts `x asr 16` (`narrowOf`).  G.711 has its own rule: the codes are sign and magnitude, the int write keeps the
         sign and the top 13 (u-law) / 11 (A-law) bits of the MAGNITUDE, so the short twin of an int is the quotient truncated
         toward zero (`Int.tdiv x 65536`), with −1 standing for "negative, magnitude 0" (the codes have a negative zero);
       * widening — every integer codec must store the same file for the shorts `s` and for the ints `s · 2^16`;
       * "with normalisation on … writes of x in [-1,1) store the nearest integer to x*(2^(w-1)-1)": the file written from
         floats / doubles equals the file written from the ints `floatTwin` = the rounded product placed in the top bits.
         The factor is the codec's own (`Codec.scale`: 2^(w-1) − 1 for PCM, DPCM, IMA, MS, GSM, VOX, PAF, DWVW;
         2^(w-1) for G.72x, NMS and — truncating — SDS), formed and rounded in the caller's floating type (`Sf.Block.mulNf`).
         "with normalisation off integers pass through unscaled": the factor is then 1 — 2^`woff` for the codecs whose working
         sample is the 32-bit int (PAF 24-bit: 2^8, SDS: 2^bitwidth), so that the value lands in the stored bits.
  (R)  "Reading the same stored sample through different API types gives results that agree under these rules":
       per item, short read = int read asr 16; "float/double reads of w-bit integer data return value/2^(w-1)": the
       float / double read is the int read / 2^31 rounded ONCE to the caller's type (exact whenever the sample has ≤ 24
       bits — the rounding rule of `Sf.C02.cross_type_agree_float32`); "with normalisation off integers pass through
       unscaled": the float read is the int read / 2^noff (`Codec.noff`: 32 − w for PCM, 16 for the 16-bit codecs …).
       Float / double DATA: double read = widened float read (float file), float read = rounded double read (double file),
       int reads = `Sf.intOfFloat` of the stored value.
  (S)  type SWITCHING on one handle: every read call, whatever its type and whatever the types of the calls before it,
       delivers the slice of THAT type's sequential reference stream at the handle's position (C06's position-only clause
       crossed with C02), and moves the position by the frames it delivered.

  Core Lean only (the driver `sfmodel crosstype` runs these definitions).
-/
import SfModel.Basic
import SfModel.Float
import SfModel.Pcm
import SfModel.BlockConv
namespace Sf.CrossType
open Sf.Float Sf.Block

/-- class of the stored sample -/
inductive Kind | int | g711 | flt | dbl
deriving Repr, DecidableEq, Inhabited

/-- what the checker is told about a codec (vlib/crosstype.py `codec_of`, written from the format definitions) -/
structure Codec where
  kind  : Kind := .int
  w     : Nat := 16          -- significant bits of the codec's sample as the int API shows it (the top w bits of the int)
  fw    : Nat := 16          -- width of the integer a float write produces before it is placed in the top bits
  noff  : Nat := 16          -- normalisation off: float read = int read / 2^noff
  scale : Int := 0x7FFF      -- normalisation on: float write multiplies by (T) scale
  trunc : Bool := false      -- the float write converts by a C cast (SDS), not by lrint
  woff  : Nat := 0           -- normalisation off: float write multiplies by 2^woff (PAF 24-bit: 8, SDS: its bit width; else 1.0)
  ch    : Nat := 1
deriving Repr, Inhabited

/-! ## (W) write side -/

/-- does the narrowing clause apply: the sample is no wider than a short -/
def Codec.narrows (cd : Codec) : Bool := (cd.kind == .int && cd.w ≤ 16) || cd.kind == .g711
/-- does the widening clause apply: integer samples -/
def Codec.widens (cd : Codec) : Bool := cd.kind == .int || cd.kind == .g711

/-- the short that must give the same file as the int `x` -/
def narrowOf (cd : Codec) (x : Int) : Int :=
  if cd.kind == .g711 then (if x < 0 ∧ Int.tdiv x 65536 = 0 then -1 else Int.tdiv x 65536) else asr x 16

/-- the int that must give the same file as the short `s`: `s` in the most significant bits, zeros below -/
def widenOf (s : Int) : Int := s * 65536

/-- the int that must give the same file as the float / double `x` (bit pattern) -/
def floatTwin (cd : Codec) (cv : Conv) (ty : Ty) (x : Nat) : Int :=
  let f := fmtOf ty
  let nf : Dy := if cv.norm ty then f.toDy (f.ofInt cd.scale) else pow2 cd.woff
  let prod := mulNf f nf x
  let r := if cd.trunc then truncInt prod else lrintInt cv.variant prod
  wrapS 32 (r * 2 ^ (32 - cd.fw))

/-- pointwise relation between two item lists -/
def relAll (p : Int → Int → Bool) : List Int → List Int → Bool
  | [], [] => true
  | x :: xs, y :: ys => p x y && relAll p xs ys
  | _, _ => false

/-- a twin-file record: the items of the first file, the items of its twin, the two closed files (any comparable image) -/
structure Twin (α : Type) where
  xs : List Int
  ys : List Int
  fileX : α
  fileY : α

def narrowOk [BEq α] (cd : Codec) (t : Twin α) : Bool :=
  cd.narrows && relAll (fun x y => y == narrowOf cd x) t.xs t.ys && t.fileX == t.fileY

def widenOk [BEq α] (cd : Codec) (t : Twin α) : Bool :=
  cd.widens && relAll (fun x s => x == widenOf s) t.xs t.ys && t.fileX == t.fileY

/-- xs = float / double bit patterns of type `ty`, ys = the int twins -/
def floatOk [BEq α] (cd : Codec) (cv : Conv) (ty : Ty) (t : Twin α) : Bool :=
  cd.kind == .int && ty.isFloat && relAll (fun x y => y == floatTwin cd cv ty x.toNat) t.xs t.ys && t.fileX == t.fileY

/-! ## (R) the four reference streams agree item by item -/

/-- `x / 2^k` rounded once (nearest, ties to even) to the format -/
def fltOfInt (f : Fmt) (x : Int) (k : Nat) : Nat := f.ofDy ⟨decide (x < 0), x.natAbs, -(k : Int)⟩

/-- one stored sample seen through the four API types (`f32`, `f64` are bit patterns) -/
def readAgree (cd : Codec) (cv : Conv) (s16 s32 f32 f64 : Int) : Bool :=
  match cd.kind with
  | .int | .g711 =>
    s16 == asr s32 16 &&
    f32 == (fltOfInt Float.f32 s32 (if cv.normF then 31 else cd.noff) : Int) &&
    f64 == (fltOfInt Float.f64 s32 (if cv.normD then 31 else cd.noff) : Int)
  | .flt =>
    f64 == (f32to64 f32.toNat : Int) &&
    s16 == intOfFloat Float.f32 cv .s16 f32.toNat && s32 == intOfFloat Float.f32 cv .s32 f32.toNat
  | .dbl =>
    f32 == (f64to32 f64.toNat : Int) &&
    s16 == intOfFloat Float.f64 cv .s16 f64.toNat && s32 == intOfFloat Float.f64 cv .s32 f64.toNat

/-- which sub-clause of (R) fails for an item (for the replay text): 0 = none -/
def readAgreeTag (cd : Codec) (cv : Conv) (s16 s32 f32 f64 : Int) : String :=
  match cd.kind with
  | .int | .g711 =>
    if s16 != asr s32 16 then "R-short-int"
    else if f32 != (fltOfInt Float.f32 s32 (if cv.normF then 31 else cd.noff) : Int) then "R-float"
    else if f64 != (fltOfInt Float.f64 s32 (if cv.normD then 31 else cd.noff) : Int) then "R-double"
    else ""
  | .flt =>
    if f64 != (f32to64 f32.toNat : Int) then "R-double"
    else if s16 != intOfFloat Float.f32 cv .s16 f32.toNat then "R-short"
    else if s32 != intOfFloat Float.f32 cv .s32 f32.toNat then "R-int" else ""
  | .dbl =>
    if f32 != (f64to32 f64.toNat : Int) then "R-float"
    else if s16 != intOfFloat Float.f64 cv .s16 f64.toNat then "R-short"
    else if s32 != intOfFloat Float.f64 cv .s32 f64.toNat then "R-int" else ""

/-- the sequential reference stream of every caller type (items; floats as bit patterns) -/
structure Refs where
  s16 : Array Int := #[]
  s32 : Array Int := #[]
  f32 : Array Int := #[]
  f64 : Array Int := #[]
deriving Inhabited

def Refs.get (r : Refs) : Ty → Array Int
  | .s16 => r.s16 | .s32 => r.s32 | .f32 => r.f32 | .f64 => r.f64

/-- first item at or after `i` where the four streams disagree (`fuel` = items left) -/
def firstDisagree (cd : Codec) (cv : Conv) (r : Refs) : Nat → Nat → Option Nat
  | 0, _ => none
  | fuel + 1, i =>
    if readAgree cd cv (r.s16.getD i 0) (r.s32.getD i 0) (r.f32.getD i 0) (r.f64.getD i 0) then firstDisagree cd cv r fuel (i + 1)
    else some i

/-- (R) for a whole file: the four streams have one length and agree at every item -/
def refsAgree (cd : Codec) (cv : Conv) (r : Refs) : Bool :=
  r.s32.size == r.s16.size && r.f32.size == r.s16.size && r.f64.size == r.s16.size &&
  (firstDisagree cd cv r r.s16.size 0).isNone

/-! ## (S) type switching on one handle -/

inductive Call
  | read (ty : Ty) (n : Nat) (ret : Int) (data : Array Int)     -- items requested, return value, the caller's buffer
  | seek (ret : Int)                                             -- the position sf_seek reports (−1: refused)

/-- judge one call at frame position `pos`: the new position, or `none` when the call breaks the clause -/
def stepOk (ch : Nat) (refs : Refs) (pos : Nat) : Call → Option Nat
  | .read ty n ret data =>
    let k := ret.toNat
    if ret < 0 ∨ k > n ∨ k % ch ≠ 0 ∨ data.size < k ∨ (refs.get ty).size < pos * ch + k then none
    else if data.extract 0 k == (refs.get ty).extract (pos * ch) (pos * ch + k) then some (pos + k / ch) else none
  | .seek ret => if ret < 0 then some pos else some ret.toNat

/-- run a plan from position `pos`; `k` = index of the call under judgement; result: index of the first rejected call -/
def switchFrom (ch : Nat) (refs : Refs) : Nat → Nat → List Call → Option Nat
  | _, _, [] => none
  | pos, k, c :: cs =>
    match stepOk ch refs pos c with
    | none => some k
    | some p => switchFrom ch refs p (k + 1) cs

def switchOk (ch : Nat) (refs : Refs) (calls : List Call) : Bool := (switchFrom ch refs 0 0 calls).isNone

end Sf.CrossType
