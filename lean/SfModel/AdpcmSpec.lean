/-
  SfModel.AdpcmSpec — reference ADPCM decoders, written from the published algorithms and NOT from
  libsndfile's sources.

  * IMA ADPCM: the reference algorithm of the IMA Digital Audio Technical Working Group, "Recommended
    Practices for Enhancing Digital Audio Compatibility in Multimedia Systems" rev. 3.00 (1992) — the
    89-entry step table, the index table, and the per-code recursion on (predicted value, step index):
        vpdiff = step>>3 (+ step if bit 2) (+ step>>1 if bit 1) (+ step>>2 if bit 0); sign = bit 3;
        valpred ±= vpdiff, saturated to 16 bits; index += indexTable[code], limited to 0..88.
    Block layouts: Microsoft WAVE_FORMAT_DVI_ADPCM (per channel a 4-byte header = initial sample, index,
    reserved; then 32-bit words, one per channel in turn, 8 codes each, low nibble first) and Apple
    QuickTime/AIFF-C 'ima4' (per channel a 34-byte packet: 16-bit big-endian word = upper 9 bits of the
    predictor + 7-bit index, then 64 codes, low nibble first).
  * Microsoft ADPCM: "New Multimedia Data Types and Data Techniques" (Microsoft, 1994) and the ACM
    msadpcm reference codec: two-tap predictor (iSamp1*iCoef1 + iSamp2*iCoef2) >> 8 with the 7 standard
    coefficient pairs, signed 4-bit error times iDelta, 16-bit saturation, and
    iDelta = (short)((AdaptionTable[code] * iDelta) >> 8), at least 16.

  Each decoder is a streaming recursion over one channel's code sequence; a block is split into
  per-channel code streams first, decoded channel by channel, and the results are interleaved into frames —
  the opposite order of operations from the lib-shaped model.

  Conventions for header fields the publications leave undefined (they are part of what the theorems state):
  an IMA header index above 88 is limited to 88 like any other index; an MS block predictor ≥ 7 selects
  coefficient set 0.
-/
import SfModel.Basic
namespace Sf.Adpcm.Spec

/-- IMA step size table (89 entries) -/
def imaStepTable : List Int :=
  [7, 8, 9, 10, 11, 12, 13, 14, 16, 17, 19, 21, 23, 25, 28, 31, 34, 37, 41, 45,
   50, 55, 60, 66, 73, 80, 88, 97, 107, 118, 130, 143, 157, 173, 190, 209, 230, 253, 279, 307,
   337, 371, 408, 449, 494, 544, 598, 658, 724, 796, 876, 963, 1060, 1166, 1282, 1411, 1552, 1707, 1878, 2066,
   2272, 2499, 2749, 3024, 3327, 3660, 4026, 4428, 4871, 5358, 5894, 6484, 7132, 7845, 8630, 9493, 10442, 11487, 12635, 13899,
   15289, 16818, 18500, 20350, 22385, 24623, 27086, 29794, 32767]

/-- IMA index table as a function of the code: magnitudes 0..3 step down by one, 4..7 step up by 2, 4, 6, 8 -/
def imaIndexDelta (code : Nat) : Int :=
  let m := code % 8
  if m < 4 then -1 else 2 * ((m : Int) - 3)

def sat16 (x : Int) : Int := max (-32768) (min 32767 x)
def limitIndex (i : Int) : Int := max 0 (min 88 i)

structure ImaState where
  valpred : Int
  index   : Int
deriving Repr, DecidableEq

/-- one code of the IMA reference decoder -/
def imaStep (s : ImaState) (code : Nat) : ImaState :=
  let step := imaStepTable.getD s.index.toNat 0
  let m := code % 8
  let vpdiff := step / 8 + (if m ≥ 4 then step else 0) + (if m % 4 ≥ 2 then step / 2 else 0)
                  + (if m % 2 = 1 then step / 4 else 0)
  let v := if code % 16 ≥ 8 then s.valpred - vpdiff else s.valpred + vpdiff
  { valpred := sat16 v, index := limitIndex (s.index + imaIndexDelta code) }

/-- decoded samples of a code stream -/
def imaDecode (s : ImaState) : List Nat → List Int
  | [] => []
  | c :: cs => let s' := imaStep s c; s'.valpred :: imaDecode s' cs

/-- the state after a code stream (for the index-range lemma) -/
def imaRun (s : ImaState) : List Nat → ImaState
  | [] => s
  | c :: cs => imaRun (imaStep s c) cs

/-- codes of a byte sequence, low nibble first (both IMA layouts) -/
def codesLowFirst (bytes : List Byte) : List Nat := bytes.flatMap fun b => [b % 16, b / 16]

/-- frames of two channels -/
def frames2 : List Int → List Int → List Int
  | l :: ls, r :: rs => l :: r :: frames2 ls rs
  | _, _ => []

/-- the data part of a stereo WAV-layout block: 32-bit words alternate left, right -/
def splitWords : List Byte → List Byte × List Byte
  | l0 :: l1 :: l2 :: l3 :: r0 :: r1 :: r2 :: r3 :: rest =>
    let p := splitWords rest
    (l0 :: l1 :: l2 :: l3 :: p.1, r0 :: r1 :: r2 :: r3 :: p.2)
  | _ => ([], [])

/-- one channel of a WAV-layout block: header (sample0 lo, hi, index, reserved), then that channel's bytes.
    The header sample is the first output sample. -/
def imaWavChannel (h0 h1 h2 : Byte) (bytes : List Byte) : List Int :=
  let s0 := sext 16 (ofLE [h0, h1])
  s0 :: imaDecode ⟨s0, limitIndex h2⟩ (codesLowFirst bytes)

/-- reference decoder of one WAV-layout IMA block (`channels` = 1 or 2) -/
def imaWavBlock : Nat → List Byte → List Int
  | 1, h0 :: h1 :: h2 :: _ :: data => imaWavChannel h0 h1 h2 data
  | 2, l0 :: l1 :: l2 :: _ :: r0 :: r1 :: r2 :: _ :: data =>
    let p := splitWords data
    frames2 (imaWavChannel l0 l1 l2 p.1) (imaWavChannel r0 r1 r2 p.2)
  | _, _ => []

/-- one 34-byte 'ima4' packet → 64 samples -/
def ima4Packet (packet : List Byte) : List Int :=
  match packet with
  | h0 :: h1 :: data =>
    let w := ofBE [h0, h1]
    let s : ImaState := ⟨sext 16 (w - w % 128), limitIndex ((w % 128 : Nat) : Int)⟩
    imaDecode s (codesLowFirst (data.take 32))
  | _ => []

/-- reference decoder of one AIFF-C 'ima4' frame group (`channels` packets of 34 bytes, one per channel) -/
def imaAiffBlock : Nat → List Byte → List Int
  | 1, block => ima4Packet (block.take 34)
  | 2, block => frames2 (ima4Packet (block.take 34)) (ima4Packet ((block.drop 34).take 34))
  | _, _ => []

/-! ## Microsoft ADPCM -/

def msAdaptionTable : List Int :=
  [230, 230, 230, 230, 307, 409, 512, 614, 768, 614, 512, 409, 307, 230, 230, 230]

/-- the 7 standard coefficient pairs (iCoef1, iCoef2) -/
def msCoefTable : List (Int × Int) :=
  [(256, 0), (512, -256), (0, 0), (192, 64), (240, 0), (460, -208), (392, -232)]

structure MsState where
  coef1 : Int
  coef2 : Int
  delta : Int
  samp1 : Int
  samp2 : Int
deriving Repr, DecidableEq

/-- one code of the MS ADPCM reference decoder (`/ 256` on `Int` is the arithmetic shift: floor) -/
def msStep (s : MsState) (code : Nat) : MsState :=
  let predicted := (s.samp1 * s.coef1 + s.samp2 * s.coef2) / 256
  let err : Int := if code ≥ 8 then (code : Int) - 16 else code
  let new := sat16 (predicted + err * s.delta)
  let d := wrapS 16 (msAdaptionTable.getD code 0 * s.delta / 256)
  { s with delta := max 16 d, samp1 := new, samp2 := s.samp1 }

def msDecode (s : MsState) : List Nat → List Int
  | [] => []
  | c :: cs => let s' := msStep s c; s'.samp1 :: msDecode s' cs

/-- channel state from the block header fields -/
def msInit (bpred : Byte) (d0 d1 a0 a1 b0 b1 : Byte) : MsState :=
  let c := msCoefTable.getD (if bpred < 7 then bpred else 0) (0, 0)
  { coef1 := c.1, coef2 := c.2, delta := sext 16 (ofLE [d0, d1]),
    samp1 := sext 16 (ofLE [a0, a1]), samp2 := sext 16 (ofLE [b0, b1]) }

/-- a channel's output: the two header samples (older first), then the decoded stream -/
def msChannel (s : MsState) (codes : List Nat) : List Int := s.samp2 :: s.samp1 :: msDecode s codes

/-- reference decoder of one MS ADPCM block (`channels` = 1 or 2).
    Mono: bpred, delta, samp1, samp2, then codes high nibble first.
    Stereo: bpredL, bpredR, deltaL, deltaR, samp1L, samp1R, samp2L, samp2R, then each byte = (left code, right code). -/
def msBlock : Nat → List Byte → List Int
  | 1, bp :: d0 :: d1 :: a0 :: a1 :: b0 :: b1 :: data =>
    msChannel (msInit bp d0 d1 a0 a1 b0 b1) (data.flatMap fun b => [b / 16, b % 16])
  | 2, bpL :: bpR :: dL0 :: dL1 :: dR0 :: dR1 :: aL0 :: aL1 :: aR0 :: aR1 :: bL0 :: bL1 :: bR0 :: bR1 :: data =>
    frames2 (msChannel (msInit bpL dL0 dL1 aL0 aL1 bL0 bL1) (data.map (· / 16)))
            (msChannel (msInit bpR dR0 dR1 aR0 aR1 bR0 bR1) (data.map (· % 16)))
  | _, _ => []

end Sf.Adpcm.Spec
