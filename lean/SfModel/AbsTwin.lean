/-
  SfModel.AbsTwin — the C09 clause "a refused call leaves positions, frame count, metadata and file contents unchanged" as a
  Boolean checker over ONE TWIN RECORD of the campaign vlib/c09twin.py:

  * `Ins`   one inserted call as the implementation answered it: `must` = its class is invalid by the documentation (it has to be
            refused), `refused` = it returned the failure value of its kind, `err` = sf_error afterwards, `msgLen` = strlen (sf_strerror);
  * `Pair`  one line that the twin history and the base history (the twin without its refused calls) have in common, in canonical form
            (reads: return value, error and the delivered items): `base` / `twin` are the two transcripts' lines; `phase` says where it
            sits: `.state` = a call on the write handle, up to and including `sf_close`; `.file` = the bytes of the closed file;
            `.reopen` = info / every metadata getter / the audio on the re-opened file;
  * `judge` lists the failing clauses, `twinOk` = none.

  Core Lean only (the driver `sfmodel abs-twin`, lean/Driver/AbsTwin.lean, links without Mathlib).
-/
namespace Sf.AbsTwin

inductive Phase | state | file | reopen
  deriving DecidableEq, Repr, Inhabited

structure Ins where
  k : Nat
  must : Bool
  refused : Bool
  err : Int
  msgLen : Int
  deriving Repr, Inhabited

structure Pair where
  k : Nat
  phase : Phase
  base : String
  twin : String
  deriving Repr, Inhabited

structure Record where
  ins : List Ins
  pairs : List Pair
  deriving Repr, Inhabited

inductive Fail
  | failValue (k : Nat)              -- a call of an invalid class was not refused
  | errorCode (k : Nat)              -- it was refused without a non-zero error code / a non-empty message
  | differs (ph : Phase) (k : Nat)   -- a line the two histories share answers differently
  deriving DecidableEq, Repr

/-- a call the documentation makes invalid is refused, with an error code and a message -/
def insFail (i : Ins) : Option Fail :=
  if i.must && !i.refused then some (.failValue i.k)
  else if i.must && (i.err == 0 || decide (i.msgLen ≤ 0)) then some (.errorCode i.k)
  else none

def pairFail (p : Pair) : Option Fail :=
  if p.base == p.twin then none else some (.differs p.phase p.k)

def judge (r : Record) : List Fail := r.ins.filterMap insFail ++ r.pairs.filterMap pairFail

def twinOk (r : Record) : Bool := (judge r).isEmpty

def Fail.tag : Fail → String
  | .failValue _ => "fail-value"
  | .errorCode _ => "error-code"
  | .differs .state _ => "state"
  | .differs .file _ => "file"
  | .differs .reopen _ => "reopen"

def Fail.line : Fail → Nat
  | .failValue k | .errorCode k | .differs _ k => k

end Sf.AbsTwin
