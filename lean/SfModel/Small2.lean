/-
  SfModel.Small2 — what the stand-alone byte-exact (L1) models of the small containers MAT4, MAT5, PVF, XI, HTK,
  WVE and MPC2K share (one model file per container: SfModel/Htk.lean, Wve.lean, Mpc2k.lean, Pvf.lean, Mat4.lean,
  Mat5.lean, Xi.lean):

  * `Fields`, `Fmt`, `St`, `openW`, `write`, `update`, `close`, `run`
        the write side of sndfile.c as far as a container sees it: psf_open_file copies the caller's SF_INFO
        (so `sf.frames` is the caller's stale value while the container writes its first header), datalength = -1,
        filelength = 0; the codec init (pcm_init / alaw_init / float32_init / double64_init / dpcm_init) then sets
        datalength = 0 and sf.frames = 0; the first sf_write_* call re-emits the header with the current fields
        (`have_written` latch); SFC_UPDATE_HEADER_NOW, every write call in SFC_SET_UPDATE_HEADER_AUTO mode and
        the container's close function run `write_header (psf, SF_TRUE)`, whose `calc_length` block is `Fmt.calc`.
        None of the seven containers writes a tailer: the store is always `hdr ++ data`.
  * `preHtk`, `guess`
        `guess_file_type`: the marker tests in the order of the C function, up to and including the HTK test.
  * `cut`, `Info`, `ParseRes`
        pieces of the readers.

  Core Lean only; names live in `Sf.Small2`.
-/
import SfModel.Basic
namespace Sf.Small2
open Sf

def asc (s : String) : List Byte := s.toList.map Char.toNat

/-- header_put_{be,le}_{short,int} of the low bits of a C integer -/
def be32 (v : Int) : List Byte := beBytes 4 (wrapU 32 v)
def be16 (v : Int) : List Byte := beBytes 2 (wrapU 16 v)
def le32 (v : Int) : List Byte := leBytes 4 (wrapU 32 v)
def le16 (v : Int) : List Byte := leBytes 2 (wrapU 16 v)

/-- the first `n` bytes and the rest -/
def cut (n : Nat) (bs : List Byte) : List Byte × List Byte := (bs.take n, bs.drop n)

/-! ## the write side -/

/-- the SF_PRIVATE fields a header writer looks at -/
structure Fields where
  frames : Int := 0          -- psf->sf.frames
  filelength : Int := 0
  datalength : Int := 0
deriving Repr, DecidableEq, Inhabited

/-- one container configuration as the session machine sees it -/
structure Fmt where
  hdrLen : Nat                                  -- psf->dataoffset once a header has been written
  bw : Nat                                      -- bytewidth * channels
  hdr : Fields → List Byte                      -- the bytes <container>_write_header emits from the current fields
  recalc : Nat → Fields → Fields                  -- its `if (calc_length)` block, given the store length
  closeRewrites : Bool := true                  -- the container's close function calls write_header (psf, SF_TRUE)

structure St where
  hdr : List Byte := []
  data : List Byte := []
  f : Fields := {}
deriving Repr, DecidableEq, Inhabited

def St.bytes (s : St) : List Byte := s.hdr ++ s.data

/-- `<container>_write_header (psf, calc_length)` -/
def emit (F : Fmt) (s : St) (calcLen : Bool) : St :=
  let f := if calcLen then F.recalc (s.hdr.length + s.data.length) s.f else s.f
  { s with f := f, hdr := F.hdr f }

/-- sf_open (SFM_WRITE): first header from the caller's SF_INFO, then the codec init -/
def openW (F : Fmt) (callerFrames : Nat) : St :=
  let s := emit F { f := { frames := callerFrames, filelength := 0, datalength := -1 } } false
  { s with f := { frames := 0, filelength := 0, datalength := 0 } }

/-- one sf_write_* call storing `enc` (whole frames of encoded audio); `auto` = SFC_SET_UPDATE_HEADER_AUTO is on -/
def write (F : Fmt) (s : St) (enc : List Byte) (auto : Bool) : St :=
  let s := if s.data.isEmpty then emit F s false else s
  let s := { s with data := s.data ++ enc }
  let s := { s with f := { s.f with frames := (s.data.length / F.bw : Nat) } }
  if auto then emit F s true else s

/-- SFC_UPDATE_HEADER_NOW -/
def update (F : Fmt) (s : St) : St := emit F s true

/-- sf_close -/
def close (F : Fmt) (s : St) : St := if F.closeRewrites then emit F s true else s

inductive WOp
  | write (enc : List Byte) (auto : Bool)
  | update
deriving Repr, DecidableEq, Inhabited

def stepOp (F : Fmt) (s : St) : WOp → St
  | .write enc auto => write F s enc auto
  | .update => update F s

def run (F : Fmt) (s : St) (ops : List WOp) : St := ops.foldl (stepOp F) s

/-- the audio bytes of a session, in order -/
def opsData : List WOp → List Byte
  | [] => []
  | .write enc _ :: r => enc ++ opsData r
  | .update :: r => opsData r

def closedBytes (F : Fmt) (stale : Nat) (ops : List WOp) : List Byte := (close F (run F (openW F stale) ops)).bytes

/-- the store right after SFC_UPDATE_HEADER_NOW (or after a write call in auto mode) at the end of `ops` -/
def snapshotBytes (F : Fmt) (stale : Nat) (ops : List WOp) : List Byte := (update F (run F (openW F stale) ops)).bytes

/-! ## the read side -/

structure Info where
  ch : Nat
  fmt : Nat
  sr : Nat
  frames : Nat
deriving Repr, DecidableEq, Inhabited

inductive ParseRes
  | ok (i : Info)
  | err                      -- sf_open returns NULL
  | unmodelled               -- outside what the model describes
deriving Repr, DecidableEq, Inhabited

inductive Guess
  | fmt (major : Nat)        -- SF_FORMAT_* major (internal codes for DWD / TXW / REX2)
  | zero                     -- `return 0`
deriving Repr, DecidableEq, Inhabited

/-- one marker test of `guess_file_type` on the three 32-bit words it has read (`a`, `b`, `c` = bytes 0…3, 4…7,
    8…11) and what the function returns when it matches -/
structure Rule where
  test : List Byte → List Byte → List Byte → Bool
  res : Guess

/-- the tests that come before the HTK test, in the order of the C function (the nested FORM test is spelt as three
    consecutive rules) -/
def rules : List Rule := [
  ⟨fun a _ c => (a = [0x52, 0x49, 0x46, 0x46] ∨ a = [0x52, 0x49, 0x46, 0x58]) ∧ c = [0x57, 0x41, 0x56, 0x45], .fmt 0x010000⟩,
  ⟨fun a _ c => a = [0x46, 0x4F, 0x52, 0x4D] ∧ (c = [0x41, 0x49, 0x46, 0x46] ∨ c = [0x41, 0x49, 0x46, 0x43]), .fmt 0x020000⟩,
  ⟨fun a _ c => a = [0x46, 0x4F, 0x52, 0x4D] ∧ (c = [0x38, 0x53, 0x56, 0x58] ∨ c = [0x31, 0x36, 0x53, 0x56]), .fmt 0x060000⟩,
  ⟨fun a _ _ => a = [0x46, 0x4F, 0x52, 0x4D], .zero⟩,
  ⟨fun a _ _ => a = [0x2E, 0x73, 0x6E, 0x64] ∨ a = [0x64, 0x6E, 0x73, 0x2E], .fmt 0x030000⟩,
  ⟨fun a _ _ => a = [0x66, 0x61, 0x70, 0x20] ∨ a = [0x20, 0x70, 0x61, 0x66], .fmt 0x050000⟩,
  ⟨fun a _ _ => a = [0x4E, 0x49, 0x53, 0x54], .fmt 0x070000⟩,
  ⟨fun a b _ => a = [0x43, 0x72, 0x65, 0x61] ∧ b = [0x74, 0x69, 0x76, 0x65], .fmt 0x080000⟩,
  ⟨fun a _ _ => (a.getD 0 0 = 0x64 ∧ a.getD 1 0 = 0xA3 ∧ a.getD 2 0 < 8 ∧ a.getD 3 0 = 0) ∨
                (a.getD 0 0 = 0 ∧ a.getD 1 0 < 8 ∧ a.getD 2 0 = 0xA3 ∧ a.getD 3 0 = 0x64), .fmt 0x0A0000⟩,
  ⟨fun a _ _ => a = [0x72, 0x69, 0x66, 0x66], .fmt 0x0B0000⟩,
  ⟨fun a b c => a = [0, 0, 0x03, 0xE8] ∧ b = [0, 0, 0, 1] ∧ c = [0, 0, 0, 1], .fmt 0x0C0000⟩,
  ⟨fun a b c => a = [0, 0, 0, 0] ∧ b = [1, 0, 0, 0] ∧ c = [1, 0, 0, 0], .fmt 0x0C0000⟩,
  ⟨fun a b _ => a = [0x4D, 0x41, 0x54, 0x4C] ∧ b = [0x41, 0x42, 0x20, 0x35], .fmt 0x0D0000⟩,
  ⟨fun a _ _ => a = [0x50, 0x56, 0x46, 0x31], .fmt 0x0E0000⟩,
  ⟨fun a b c => a = [0x45, 0x78, 0x74, 0x65] ∧ b = [0x6E, 0x64, 0x65, 0x64] ∧ c = [0x20, 0x49, 0x6E, 0x73], .fmt 0x0F0000⟩,
  ⟨fun a _ c => a = [0x63, 0x61, 0x66, 0x66] ∧ c = [0x64, 0x65, 0x73, 0x63], .fmt 0x180000⟩,
  ⟨fun a _ _ => a = [0x4F, 0x67, 0x67, 0x53], .fmt 0x200000⟩,
  ⟨fun a b c => a = [0x41, 0x4C, 0x61, 0x77] ∧ b = [0x53, 0x6F, 0x75, 0x6E] ∧ c = [0x64, 0x46, 0x69, 0x6C], .fmt 0x190000⟩,
  ⟨fun a b c => a = [0x44, 0x69, 0x61, 0x6D] ∧ b = [0x6F, 0x6E, 0x64, 0x57] ∧ c = [0x61, 0x72, 0x65, 0x20], .fmt 0x4030000⟩,
  ⟨fun a _ _ => a = [0x4C, 0x4D, 0x38, 0x39] ∨ a = [0x35, 0x33, 0, 0], .fmt 0x4020000⟩,
  ⟨fun a _ _ => a.getD 0 0 = 0xF0 ∧ a.getD 1 0 = 0x7E ∧ a.getD 2 0 < 0x80 ∧ a.getD 3 0 = 1, .fmt 0x110000⟩,
  ⟨fun a _ _ => a.getD 0 0 = 1 ∧ a.getD 1 0 = 4, .fmt 0x210000⟩,
  ⟨fun a _ c => a = [0x43, 0x41, 0x54, 0x20] ∧ c = [0x52, 0x45, 0x58, 0x32], .fmt 0x4050000⟩,
  ⟨fun a b _ => a = [0x30, 0x26, 0xB2, 0x75] ∧ b = [0x8E, 0x66, 0xCF, 0x11], .zero⟩]

/-- the first matching test decides; `none` = none of them matches -/
def preHtk (a b c : List Byte) : Option Guess := (rules.find? fun r => r.test a b c).map (·.res)

/-- `guess_file_type` on a file of at least 12 bytes, as far as the HTK test; `none`: a later test decides -/
def guess (bs : List Byte) : Option Guess :=
  let a := bs.take 4
  let b := (bs.drop 4).take 4
  let c := (bs.drop 8).take 4
  match preHtk a b c with
  | some g => some g
  | none => if c = [0, 2, 0, 0] ∧ 2 * ofBE a + 12 = bs.length then some (.fmt 0x100000) else none

/-- the 12 bytes `guess_file_type` looks at since the repair of KF-PVF-TINY-FILE: what the file has, zeros behind it
    (`probe = filelength` when 0 < filelength < 12; the buffer is cleared first) -/
def probe12 (bs : List Byte) : List Byte := (bs ++ List.replicate 12 0).take 12

/-- `guess_file_type` on a non-empty file of ANY length, as far as the HTK test: the marker tests run on the zero-padded
    probe, the HTK test compares with the true file length; `none`: a later test decides.  On a file of at least 12
    bytes this is `guess` (`guessProbe_eq_guess`, SfProofs/PvfImage.lean). -/
def guessProbe (bs : List Byte) : Option Guess :=
  let p := probe12 bs
  let a := p.take 4
  let b := (p.drop 4).take 4
  let c := (p.drop 8).take 4
  match preHtk a b c with
  | some g => some g
  | none => if c = [0, 2, 0, 0] ∧ 2 * ofBE a + 12 = bs.length then some (.fmt 0x100000) else none

/-- the case labels of the read-mode switch in pcm_init: bytewidth * 0x10000 + endian + chars -/
def pcmKeys : List Nat :=
  [0x10000 + 0x20000000 + 200, 0x10000 + 0x10000000 + 200, 0x10000 + 0x20000000 + 201, 0x10000 + 0x10000000 + 201,
   0x20000 + 0x20000000, 0x30000 + 0x20000000, 0x40000 + 0x20000000,
   0x20000 + 0x10000000, 0x30000 + 0x10000000, 0x40000 + 0x10000000]

/-- the end of every codec init in read mode: `datalength` and `sf.frames` from the file length
    (`dataend` = 0 or the end of the audio region) -/
def framesOf (flen dataoffset dataend : Int) (bw : Int) : Int :=
  let dl : Int := if flen > dataoffset then (if dataend > 0 then dataend - dataoffset else flen - dataoffset) else 0
  if bw > 0 then dl.tdiv bw else 0

end Sf.Small2
