/-
  Sf.FdWorld — the process-wide descriptor table and the descriptor NUMBERS the handles keep (property C19 on real descriptors).

  The operating system side: `open` hands out the lowest free number, `close (n)` frees n whatever it is (closing a number that is not
  open is EBADF and changes nothing).  The library side, as written in src/file_io.c / sndfile.c / sd2.c / alac.c:

    sf_open            psf_fopen: file.filedes = open (path)
    sf_open_fd         file.filedes = the caller's descriptor; do_not_close_descriptor = ! close_desc
    sd2_open           psf_open_rsrc: rsrc.filedes = open ("._name") … psf_close_rsrc at the end ("we won't need it again")
    alac_writer_init   enctmp = psf_open_tmpfile (): one more descriptor, closed by alac_close
    psf_close          codec_close (alac: fclose (enctmp)), psf_fclose (close (file.filedes) unless virtual / do_not_close), psf_close_rsrc
    psf_close_rsrc     close (rsrc.filedes) ; rsrc.filedes = -1          <- `Rule.resets`, the rule of the code

  A handle keeps NUMBERS, the table maps numbers to files: a number that is kept after its descriptor was closed is stale, and closing it
  again closes whatever file got that number since.  `Rule.keeps` is psf_close_rsrc without the `= -1`: the model can express that failure,
  so the isolation theorem (SfProps/C19Fd.lean) is not true by construction.

  Core Lean only (the driver links this file).
-/
namespace Sf.FdWorld

/-- what an open descriptor refers to -/
inductive Ident
  | sentinel (k : Nat)      -- a descriptor of the caller's own, unrelated to the library
  | file (a : Nat)          -- the audio file of handle slot a (opened by the library, or by the caller for sf_open_fd)
  | rsrc (a : Nat)          -- the resource fork `._name` of slot a (SD2)
  | tmp (a : Nat)           -- the codec's temporary file of slot a (ALAC encoder)
  deriving DecidableEq, Repr

/-- the handle slot a descriptor belongs to; `none`: not the library's -/
def Ident.owner : Ident → Option Nat
  | .sentinel _ => none
  | .file a | .rsrc a | .tmp a => some a

/-- descriptor table: number ↦ what it refers to; every number ≥ `hi` is free -/
structure Table where
  ent : Nat → Option Ident
  hi : Nat

def Table.set (t : Table) (n : Nat) (v : Option Ident) : Table :=
  { ent := fun m => if m = n then v else t.ent m, hi := if n < t.hi then t.hi else n + 1 }

/-- the lowest number that is free (numbers taken at the start — stdin, stdout, … — are in the table like any other) -/
def Table.lowestFree (t : Table) : Nat :=
  ((List.range t.hi).find? (fun n => t.ent n = none)).getD t.hi

/-- open (2): the lowest free number now refers to `id`.  (Defensive form: were the number found not free nothing would happen; with
    `hi` an upper bound of the used numbers it always is free — `lowestFree_free` in SfProps/C19Fd.lean.) -/
def Table.osOpen (t : Table) (id : Ident) : Table × Nat :=
  let n := t.lowestFree
  if t.ent n = none then (t.set n (some id), n) else (t, n)

/-- close (2) -/
def Table.osClose (t : Table) (n : Nat) : Table := { t with ent := fun m => if m = n then none else t.ent m }

def Table.closeOpt (t : Table) : Option Nat → Table
  | some n => t.osClose n
  | none => t

inductive Rule | resets | keeps
  deriving DecidableEq, Repr

/-- the numbers an SF_PRIVATE holds -/
structure Handle where
  fileFd : Option Nat := none     -- file.filedes
  ownsFile : Bool := true         -- ! do_not_close_descriptor
  rsrcFd : Option Nat := none     -- rsrc.filedes (≥ 0)
  tmpFd : Option Nat := none      -- fileno (enctmp)
  deriving DecidableEq, Repr

inductive Route | path | fd1 | fd0
  deriving DecidableEq, Repr

structure OpenCfg where
  route : Route := .path
  sd2 : Bool := false        -- SF_FORMAT_SD2: the resource fork is opened and closed again inside the open
  rsrcFound : Bool := true   -- … if it exists (always when writing: it is created)
  alacW : Bool := false      -- ALAC encoder: a temporary file
  fails : Bool := false      -- the open returns NULL after these steps (psf_open_file's error exit runs psf_close)
  deriving DecidableEq, Repr

structure World where
  tab : Table
  hs : Nat → Option Handle := fun _ => none
  sent : Nat → Option Nat := fun _ => none       -- the caller's sentinels: the number each of them got

def World.setH (w : World) (a : Nat) (h : Option Handle) : World := { w with hs := fun b => if b = a then h else w.hs b }

/-- psf_close_rsrc -/
def closeRsrc (r : Rule) (t : Table) (h : Handle) : Table × Handle :=
  (t.closeOpt h.rsrcFd, match r with | .resets => { h with rsrcFd := none } | .keeps => h)

/-- psf_close, descriptor side: alac_close's fclose, psf_fclose, psf_close_rsrc -/
def release (r : Rule) (t : Table) (h : Handle) : Table :=
  let t := t.closeOpt h.tmpFd
  let t := if h.ownsFile then t.closeOpt h.fileFd else t
  (closeRsrc r t h).1

/-- sf_open / sf_open_fd on slot a (for the fd routes the caller's own `open` comes first and is part of the step) -/
def doOpen (r : Rule) (w : World) (a : Nat) (c : OpenCfg) : World :=
  let (t, n) := w.tab.osOpen (.file a)
  let h : Handle := { fileFd := some n, ownsFile := c.route != .fd0 }
  -- sd2_open: psf_open_rsrc … psf_close_rsrc
  let (t, h) :=
    if c.sd2 && c.rsrcFound then
      let (t, m) := t.osOpen (.rsrc a)
      closeRsrc r t { h with rsrcFd := some m }
    else (t, h)
  let (t, h) := if c.alacW then let (t, m) := t.osOpen (.tmp a); (t, { h with tmpFd := some m }) else (t, h)
  if c.fails then
    -- error exit: psf_close; a descriptor the caller lent (fd0) is closed by the caller afterwards
    let t := release r t h
    let t := if h.ownsFile then t else t.closeOpt h.fileFd
    { w with tab := t }
  else
    { (w.setH a (some h)) with tab := t }

/-- sf_close on slot a (+ the caller closing the descriptor it lent) -/
def doClose (r : Rule) (w : World) (a : Nat) : World :=
  match w.hs a with
  | none => w
  | some h =>
    let t := release r w.tab h
    let t := if h.ownsFile then t else t.closeOpt h.fileFd
    { (w.setH a none) with tab := t }

inductive Op
  | sentinel (k : Nat)            -- the caller opens a file of its own
  | unsent (k : Nat)              -- … and closes it
  | open (a : Nat) (c : OpenCfg)
  | io (a : Nat)                  -- read / write / seek / command on slot a: no descriptor is opened or closed
  | close (a : Nat)
  deriving DecidableEq, Repr

def step (r : Rule) (w : World) : Op → World
  | .sentinel k =>
      let (t, n) := w.tab.osOpen (.sentinel k)
      { w with tab := t, sent := fun j => if j = k then some n else w.sent j }
  | .unsent k =>
      { w with tab := w.tab.closeOpt (w.sent k), sent := fun j => if j = k then none else w.sent j }
  | .open a c => if (w.hs a).isSome then w else doOpen r w a c
  | .io _ => w
  | .close a => doClose r w a

def run (r : Rule) (w : World) (ops : List Op) : World := ops.foldl (step r) w

/-- the slot an operation is made on; `none`: the caller's own business -/
def Op.slot : Op → Option Nat
  | .sentinel _ | .unsent _ => none
  | .open a _ | .io a | .close a => some a

/-- the world a process starts in: the numbers in `taken` are open (and nobody's) -/
def start (taken : List Nat) : World :=
  { tab := { ent := fun n => if taken.contains n then some (.sentinel (1000 + n)) else none, hi := taken.foldl (fun m n => max m (n + 1)) 0 } }

/-- printable table: (number, identity) for every number below `hi` that is open -/
def Table.entries (t : Table) : List (Nat × Ident) :=
  (List.range t.hi).filterMap (fun n => (t.ent n).map (fun id => (n, id)))

end Sf.FdWorld
