/-
  sf_read_raw / sf_write_raw over the adversarial I/O oracle of SfModel/Faults.lean (round 8, gap worker gape; the code as of /repo
  41084a9 -- the `whole_frames` rounding of the later repair 230abc1 is not in here).  SfModel/Faults.lean leaves the two raw entry
  points out; in an SFM_RDWR session they share `last_op` with the typed calls, so each of them starts with the re-seek

      if (psf->last_op != SFM_WRITE) if (psf->seek (psf, SFM_WRITE, psf->write_current) < 0) return 0 ;

  whose failure must keep the call from transferring anything: the file position is then still the one of the OTHER direction.

    stepWriteRaw o h hist n data     sf_write_raw (n bytes): guards, re-seek, first header, ONE psf_fwrite (ptr, 1, n), positions, auto header
    stepReadRaw o h hist n           sf_read_raw (n bytes): guards, re-seek, ONE psf_fread (ptr, 1, n), the clamp at the end of the data
  `Out.data` of a raw read = the delivered bytes (one byte per cell).  `sfmodel faults` interprets `wraw` / `rraw` lines with them.
-/
import SfModel.Faults
namespace Sf.FaultsRaw
open Sf Sf.Faults

/-- `(psf->bytewidth > 0) ? psf->bytewidth : 1`, `(psf->blockwidth > 0) ? psf->blockwidth : 1` -/
def bytewidth1 (h : H) : Nat := if h.nb > 0 then h.nb else 1
def blockwidth1 (h : H) : Nat := if h.bw > 0 then h.bw else 1

def rawWriteGuard (h : H) (n : Int) : Option Int :=
  if n < 0 then some E_NEG_LEN
  else if h.mode == .r then some E_NOT_WRITEMODE
  else if n % ((h.ch * bytewidth1 h : Nat) : Int) != 0 then some E_BAD_ALIGN
  else none

/-- after the guards: the re-seek, the first header, the transfer, the bookkeeping, the auto header -/
def writeRawCore (o : Oracle) (h : H) (hist : Hist) (len : Nat) (data : List Byte) : Res :=
  let sk : Int × H × Hist := if h.lastOp != .w then Faults.defaultSeek o h hist h.wpos else (0, h, hist)
  if sk.1 < 0 then ⟨sk.2.1, sk.2.2, { ret := 0, err := sk.2.1.error }⟩ else
  let wh : Int × H × Hist := if !sk.2.1.haveWritten ∧ sk.2.1.container != .raw then Faults.writeHeader o sk.2.1 sk.2.2 false else (0, sk.2.1, sk.2.2)
  if wh.1 != 0 then ⟨{ wh.2.1 with error := wh.1 }, wh.2.2, { ret := 0, err := wh.1 }⟩ else
  let fw := fwrite o wh.2.2 1 len (data.take len)
  let count : Int := fw.1
  let wpos := wh.2.1.wpos + count / (blockwidth1 wh.2.1 : Nat)
  -- since 230abc1: `count = whole_frames (psf, count, blockwidth)` — the byte count handed back is rounded down to whole frames and
  -- `last_op` is cleared when it had to be rounded (the next call re-seeks)
  let wf := Faults.wholeFrames count (blockwidth1 wh.2.1) .w
  let h' : H := { wh.2.1 with haveWritten := true, wpos := wpos, lastOp := wf.2,
                              frames := if wpos > wh.2.1.frames then wpos else wh.2.1.frames,
                              dataend := if wpos > wh.2.1.frames then 0 else wh.2.1.dataend }
  if h'.autoHeader ∧ h'.container != .raw then
    ⟨(Faults.writeHeader o h' fw.2 true).2.1, (Faults.writeHeader o h' fw.2 true).2.2, { ret := wf.1, err := 0 }⟩
  else ⟨h', fw.2, { ret := wf.1, err := 0 }⟩

def stepWriteRaw (o : Oracle) (h : H) (hist : Hist) (n : Int) (data : List Byte) : Res :=
  if n == 0 then ⟨h, hist, { ret := 0, err := h.error }⟩ else
  match rawWriteGuard h n with
  | some e => ⟨{ h with error := e }, hist, { ret := 0, err := e }⟩
  | none => writeRawCore o { h with error := 0 } hist n.toNat data

/-- sf_read_raw after its guards -/
def readRawCore (o : Oracle) (h : H) (hist : Hist) (len : Nat) : Res :=
  let sk : Int × H × Hist := if h.lastOp != .r then Faults.defaultSeek o h hist h.rpos else (0, h, hist)
  if sk.1 < 0 then ⟨sk.2.1, sk.2.2, { ret := 0, err := sk.2.1.error }⟩ else
  let fr := fread o sk.2.2 1 len
  let count : Int := fr.2.1
  let room : Int := (sk.2.1.frames - sk.2.1.rpos) * (blockwidth1 sk.2.1 : Nat)
  let cr : Int × Int :=
    if count ≤ room then (count, sk.2.1.rpos + count / (blockwidth1 sk.2.1 : Nat)) else (room, sk.2.1.frames)
  let wf := Faults.wholeFrames cr.1 (blockwidth1 sk.2.1) .r      -- since 230abc1: whole frames only, `last_op` cleared when rounded
  ⟨{ sk.2.1 with rpos := cr.2, lastOp := wf.2 }, fr.2.2,
   { ret := wf.1, err := 0, data := (fr.1.take cr.1.toNat).map (fun (b : Byte) => Int.ofNat b), hasData := true }⟩

def stepReadRaw (o : Oracle) (h : H) (hist : Hist) (n : Int) : Res :=
  if n == 0 then ⟨h, hist, { ret := 0, err := h.error }⟩ else
  if h.mode == .w then ⟨{ h with error := E_NOT_READMODE }, hist, { ret := 0, err := E_NOT_READMODE }⟩ else
  if n < 0 ∨ h.rpos ≥ h.frames then ⟨{ h with error := 0 }, hist, { ret := 0, err := 0, hasData := true }⟩ else
  if n % ((h.ch * bytewidth1 h : Nat) : Int) != 0 then ⟨{ h with error := E_BAD_ALIGN }, hist, { ret := 0, err := E_BAD_ALIGN }⟩ else
  readRawCore o { h with error := 0 } hist n.toNat

/-- the write requests of a history -/
def writesOf (hist : Hist) : List (List Byte) := hist.filterMap fun ra => match ra.1 with | .write d => some d | _ => none

end Sf.FaultsRaw
