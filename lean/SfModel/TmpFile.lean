/-
  SfModel.TmpFile — psf_open_tmpfile (src/common.c) and the removal of the ALAC spool file at close (src/alac.c alac_close:
  `fclose (plac->enctmp) ; remove (plac->enctmpname) ;`), for EVERY state of the temp directory (C16: "temporary files it created
  are removed").

      tmpdir = getenv ("TMPDIR") ?: "/tmp" ;
      if (access (tmpdir, R_OK | W_OK | X_OK) == 0)
      {   snprintf (fname, fnamelen, "%s/%x%x-alac.tmp", tmpdir, rand, rand) ;
          if ((file = fopen (fname, "wb+")) != NULL) return file ;
          }
      snprintf (fname, fnamelen, "%x%x-alac.tmp", rand, rand) ;
      if ((file = fopen (fname, "wb+")) != NULL) return file ;
      memset (fname, 0, fnamelen) ;
      return NULL ;

  The file system is a list of (directory, name) pairs; the environment says which of the three system calls succeed.
  Core Lean only.
-/
namespace Sf.TmpFile

inductive Dir
  | tmp | cwd
deriving Repr, DecidableEq

abbrev Path := Dir × Nat          -- (directory, the random number in the name)

/-- which system calls succeed -/
structure Env where
  accessTmp : Bool      -- access (tmpdir, R_OK | W_OK | X_OK) == 0
  fopenTmp : Bool       -- fopen of a new name inside tmpdir
  fopenCwd : Bool       -- fopen of a new name in the current directory
deriving Repr, DecidableEq

/-- the caller's view after psf_open_tmpfile: the stream (which file it is, if any) and the contents of the name buffer -/
structure Opened where
  file : Option Path
  fname : Option Path       -- none = the empty string
deriving Repr, DecidableEq

/-- psf_open_tmpfile as written; `r1`, `r2` = the two random names, `fname0` = the buffer before the call (calloc: empty) -/
def openTmp (e : Env) (r1 r2 : Nat) (_fname0 : Option Path) : Opened :=
  if e.accessTmp && e.fopenTmp then { file := some (.tmp, r1), fname := some (.tmp, r1) }
  else if e.fopenCwd then { file := some (.cwd, r2), fname := some (.cwd, r2) }
  else { file := none, fname := none }

/-- seeded regression C16-tmpfile-fallback-name: one base name, the fallback opens it WITHOUT storing it in the caller's buffer -/
def openTmpSeeded (e : Env) (r1 _r2 : Nat) (fname0 : Option Path) : Opened :=
  let fname1 := if e.accessTmp then some (.tmp, r1) else fname0
  if e.accessTmp && e.fopenTmp then { file := some (.tmp, r1), fname := some (.tmp, r1) }
  else if e.fopenCwd then { file := some (.cwd, r1), fname := fname1 }
  else { file := none, fname := none }

/-- the files that exist -/
abbrev Fs := List Path

/-- the open creates the file it returns -/
def afterOpen (fs : Fs) (o : Opened) : Fs :=
  match o.file with
  | some p => p :: fs
  | none => fs

/-- alac_close: `remove (enctmpname)` — removes the file of that name, if there is one; an empty name removes nothing -/
def afterClose (fs : Fs) (o : Opened) : Fs :=
  match o.fname with
  | some p => fs.erase p
  | none => fs

/-- a whole handle life: open the spool file, close the handle -/
def life (open_ : Env → Nat → Nat → Option Path → Opened) (e : Env) (r1 r2 : Nat) (fs : Fs) : Fs :=
  let o := open_ e r1 r2 none
  afterClose (afterOpen fs o) o

end Sf.TmpFile
