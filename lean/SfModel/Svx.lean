/-
  SfModel.Svx — stand-alone byte-exact (L1) model of the Amiga IFF 8SVX / 16SV container of src/svx.c
  (PCM S8 / 16, big-endian, mono on the write side):

  * `hdr`                        svx_write_header: FORM, 8SVX | 16SV, VHDR (frames, 16-bit rate, octave, volume),
                                 NAME (the file name: a parameter), ANNO, BODY — every byte
  * `spec`, session              svx_open (SFM_WRITE), write calls, header updates, svx_close (SfModel.SmallSession)
  * `parse`                      sf_open (SFM_READ): guess_file_type, the chunk loop of svx_read_header, svx_open,
                                 pcm_init (it recomputes the frame count from the file length), validate_sfinfo / _psf
  * `rateField`, `rateQ`         the 16-bit rate field (saturating; `rateFieldOld` / `rateQOld`: the wrap before the repair)

  Core Lean only; names live in `Sf.Svx`.
-/
import SfModel.Basic
import SfModel.SmallSession
namespace Sf.Svx
open Sf Sf.Small

structure Cfg where
  codec : Nat          -- SF_CODEC (format): 0x01 PCM_S8, 0x02 PCM_16
  endian : Nat         -- endian bits of the format word: 0 FILE or 2 BIG
  ch : Nat
  sr : Nat
  name : List Byte     -- psf->file.name: empty for sf_open_virtual / sf_open_fd, the base name for sf_open
deriving Repr, DecidableEq, Inhabited

/-- `sf_format_check` for SF_FORMAT_SVX (mono only) and the bound of `psf->file.name` -/
def accepted (c : Cfg) : Bool :=
  (c.codec = 0x01 ∨ c.codec = 0x02) ∧ (c.endian = 0 ∨ c.endian = 2) ∧ c.ch ≤ 1 ∧ c.name.length ≤ 255 ∧ c.name.all (· ≠ 0)

def Cfg.wf (c : Cfg) : Prop := accepted c = true ∧ 1 ≤ c.ch ∧ 1 ≤ c.sr ∧ c.sr ≤ 0x7FFFFFFF
instance (c : Cfg) : Decidable c.wf := by unfold Cfg.wf; infer_instance

def Cfg.bytewidth (c : Cfg) : Nat := c.codec
def Cfg.bw (c : Cfg) : Nat := c.bytewidth * c.ch
def Cfg.fmtWord (c : Cfg) : Nat := 0x060000 + c.codec

/-- the rate field is `BHW2 (SF_MIN (psf->sf.samplerate, 0xFFFF))`: rates above 65535 are stored as 65535 -/
def rateField (sr : Nat) : Nat := min sr 0xFFFF

/-- what a reader reports for a file written at `sr` (`none`: the file cannot be re-opened) -/
def rateQ (sr : Nat) : Option Nat := if rateField sr = 0 then none else some (rateField sr)

/-- the rule before the repair of KF-RATE16-WRAP: `BHW2 (psf->sf.samplerate)` kept the low 16 bits; 0 cannot be re-opened -/
def rateFieldOld (sr : Nat) : Nat := sr % 65536
def rateQOld (sr : Nat) : Option Nat := if rateFieldOld sr = 0 then none else some (rateFieldOld sr)

/-- conversion 's' of psf_binheader_writef: length word (string + NUL, evened), the string, NUL, pad -/
def strField (s : List Byte) : List Byte :=
  let size := s.length + 1
  be32 ((size + size % 2 : Nat) : Int) ++ s ++ List.replicate (1 + size % 2) 0

def annotation : List Byte := ascii "libsndfile by Erik de Castro Lopo"

def hdrLen (c : Cfg) : Nat := 98 + (c.name.length + 1 + (c.name.length + 1) % 2)

/-- `svx_write_header` -/
def hdr (c : Cfg) (frames : Nat) (filelength datalength : Int) : List Byte :=
  mk4 "FORM" ++ be32 (if filelength < 8 then 0 else filelength - 8) ++
  (if c.bytewidth = 1 then mk4 "8SVX" else mk4 "16SV") ++
  mk4 "VHDR" ++ be32 20 ++ be32 frames ++ be32 0 ++ be32 0 ++ be16 (rateField c.sr) ++ [1] ++ [0] ++
    be32 (if c.bytewidth = 1 then 0xFF else 0xFFFF) ++
  (if c.ch = 2 then mk4 "CHAN" ++ be32 4 ++ be32 6 else []) ++
  mk4 "NAME" ++ strField c.name ++ mk4 "ANNO" ++ strField annotation ++
  mk4 "BODY" ++ be32 (if datalength < 0 then 0 else datalength)

def spec (c : Cfg) : Spec := { hdr := hdr c, hdrLen := hdrLen c, bw := c.bw }

/-! ## reader -/

/-- one `header_read` of `n` bytes at file position `pos` once the 12 cached bytes are used up: a short read yields
    zeros (the destination is cleared beforehand) and leaves the file position at end of file -/
def rdN (bs : List Byte) (pos n : Nat) : List Byte × Nat :=
  if pos + n ≤ bs.length then ((bs.drop pos).take n, pos + n)
  else (List.replicate n 0, if pos < bs.length then bs.length else pos)

/-- the file position after such a read (no byte list is built: `n` may be a 31-bit chunk size) -/
def adv (bs : List Byte) (pos n : Nat) : Nat :=
  if pos + n ≤ bs.length then pos + n else if pos < bs.length then bs.length else pos

structure Sc where
  pos : Nat := 12                -- file position (= header cache end)
  used : Nat := 12               -- bytes that went through the header cache
  haveVhdr : Bool := false
  haveBody : Bool := false
  chanSeen : Bool := false
  sr : Nat := 0
  ch : Nat := 1
  compression : Nat := 0
  dataoffset : Int := -1
  dataend : Int := 0             -- psf->dataend: the end of the BODY chunk when the file goes on behind it (repair of KF-SVX-BODY-PAD)
deriving Repr, DecidableEq, Inhabited

inductive Step
  | cont (s : Sc)
  | stop (s : Sc)
  | fail
  | unm
deriving Repr, DecidableEq

def cacheLimit : Nat := 30000
def isPrint (b : Nat) : Bool := 0x20 ≤ b ∧ b ≤ 0x7E

/-- "j" with a chunk size: the bytes go through the header cache -/
def skip (bs : List Byte) (s : Sc) (pos size : Nat) : Step :=
  if size ≥ 2 ^ 31 then .unm else                                 -- `int count` goes negative: KF-C03-svx-backjump
  .cont { s with pos := adv bs pos size, used := s.used + size }

/-- one iteration of the `while (! done)` loop of `svx_read_header` after the FORM chunk.  `fx` = the repair of KF-SVX-BODY-PAD is in
    (the BODY case records `psf->dataend` when bytes follow the chunk); `fx = false` is the rule before it (`dataend` stays 0 and
    pcm_init takes the data length from the file length: the IFF pad byte and trailing chunks are counted as audio).
    `nm` = the NAME rule before the repair of KF-SVX-NAME-LENGTH: a NAME chunk longer than 255 bytes failed the open
    (SFE_SVX_BAD_NAME_LENGTH) — the writer emits 256 for a file name of 254 or 255 characters; now such a chunk is skipped -/
def stepX (fx nm : Bool) (bs : List Byte) (s : Sc) : Step :=
  if s.used > cacheLimit then .unm else
  let flen := bs.length
  let (m, pos) := rdN bs s.pos 4
  let (szb, pos) := rdN bs pos 4
  let size := ofBE szb
  let s := { s with used := s.used + 8 }
  let fin (r : Step) : Step :=
    match r with
    | .cont s' => if (s'.pos : Int) ≥ (flen : Int) - 4 then .stop s' else .cont s'
    | r => r
  if m = mk4 "FORM" then .fail                                    -- SFE_SVX_NO_FORM (parsestage is set)
  else if m = mk4 "VHDR" then
    let (_, p) := rdN bs pos 12
    let (sps, p) := rdN bs p 2
    let (_, p) := rdN bs p 1
    let (comp, p) := rdN bs p 1
    let (_, p) := rdN bs p 4
    fin (.cont { s with pos := p, used := s.used + 20, haveVhdr := true, sr := ofBE sps, compression := ofBE comp })
  else if m = mk4 "BODY" then
    if !s.haveVhdr then .fail else                                -- SFE_SVX_NO_BODY
    let dl : Int := if (size : Int) > (flen : Int) - (pos : Int) then (flen : Int) - (pos : Int) else size
    if dl < 0 then .unm else
    fin (.cont { s with pos := pos + dl.toNat, haveBody := true, dataoffset := pos,
                        dataend := if fx ∧ (pos : Int) + dl < (flen : Int) then (pos : Int) + dl else s.dataend })
  else if m = mk4 "NAME" then
    if nm ∧ size > 255 then .fail else                            -- the old rule: SFE_SVX_BAD_NAME_LENGTH
    fin (skip bs s pos size)
  else if m = mk4 "ANNO" ∨ m = mk4 "AUTH" ∨ m = mk4 "(c) " then fin (skip bs s pos size)
  else if m = mk4 "CHAN" then
    if s.chanSeen ∨ size < 4 then .unm else
    let (cv, p) := rdN bs pos 4
    if p ≠ pos + 4 then .unm else
    let s := { s with chanSeen := true, ch := if ofBE cv = 6 then 2 else s.ch, used := s.used + 4 }
    fin (skip bs s p (size - 4))
  else if size ≥ 0xFFFF0000 then .stop s
  else if m.all isPrint then fin (skip bs s pos size)
  else if pos % 4 ≠ 0 then fin (skip bs s pos (4 - pos % 4))      -- "Resynching"
  else .stop s

def stepW (fx : Bool) (bs : List Byte) (s : Sc) : Step := stepX fx false bs s
def step (bs : List Byte) (s : Sc) : Step := stepW true bs s
def stepOld (bs : List Byte) (s : Sc) : Step := stepW false bs s

def walkX (fx nm : Bool) (bs : List Byte) : Nat → Sc → Option (Option Sc)      -- none: unmodelled, some none: error
  | 0, _ => none
  | fuel+1, s =>
    match stepX fx nm bs s with
    | .cont s' => walkX fx nm bs fuel s'
    | .stop s' => some (some s')
    | .fail => some none
    | .unm => none

def walkW (fx : Bool) (bs : List Byte) : Nat → Sc → Option (Option Sc) := walkX fx false bs
def walk (bs : List Byte) : Nat → Sc → Option (Option Sc) := walkW true bs

/-- the checks after the loop, svx_open, pcm_init, validate_sfinfo, validate_psf -/
def finish (flen : Nat) (bytewidth : Nat) (s : Sc) : ParseRes :=
  if s.compression ≠ 0 then .err else                             -- SFE_SVX_BAD_COMP
  if s.dataoffset ≤ 0 then .err else                              -- SFE_SVX_NO_DATA
  let r := codecFrames flen s.dataoffset s.dataend ((bytewidth * s.ch : Nat) : Int)
  if s.sr < 1 ∨ r.2 < 0 ∨ r.1 < 0 then .err else
  .ok { ch := s.ch, fmt := 0x060000 + bytewidth, sr := s.sr, frames := r.2.toNat }

/-- `sf_open_virtual (SFM_READ)` on `bs` (`fx`, `nm`: see `stepX`) -/
def parseX (fx nm : Bool) (bs : List Byte) : ParseRes :=
  if bs.length < 12 then .err else                               -- guess_file_type: SFE_BAD_FILE_READ
  if bs.take 4 ≠ mk4 "FORM" then .unmodelled else
  let t := (bs.drop 8).take 4
  if t = mk4 "AIFF" ∨ t = mk4 "AIFC" then .unmodelled else
  if t ≠ mk4 "8SVX" ∧ t ≠ mk4 "16SV" then .err else
  let bytewidth := if t = mk4 "8SVX" then 1 else 2
  let s0 : Sc := {}
  if (12 : Int) ≥ (bs.length : Int) - 4 then finish bs.length bytewidth s0 else
  match walkX fx nm bs bs.length s0 with
  | none => .unmodelled
  | some none => .err
  | some (some s) => finish bs.length bytewidth s

def parseW (fx : Bool) (bs : List Byte) : ParseRes := parseX fx false bs
def parse (bs : List Byte) : ParseRes := parseW true bs
/-- the reader before the repair of KF-SVX-BODY-PAD -/
def parseOld (bs : List Byte) : ParseRes := parseW false bs
/-- the reader before the repair of KF-SVX-NAME-LENGTH (an over-long NAME chunk fails the open) -/
def parseNameOld (bs : List Byte) : ParseRes := parseX true true bs

end Sf.Svx
