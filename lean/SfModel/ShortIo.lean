/-
  The descriptor route of src/file_io.c under SHORT TRANSFERS (round 8, gap worker gape).

      while (items > 0)
      {   count = (items > SENSIBLE_SIZE) ? SENSIBLE_SIZE : items ;
          count = write (psf->file.filedes, ((const char*) ptr) + total, count) ;      /* read (…) in psf_fread */
          if (count == -1) { if (errno == EINTR) continue ; psf_log_syserr (psf, errno) ; break ; }
          if (count == 0) break ;
          total += count ; items -= count ;
          }
      return total / bytes ;

  The operating system is an ORACLE: a list of answers, one per call (`took n`: the call transferred min (n, asked) bytes -- a short
  transfer when n is smaller than what was asked; `eintr`: interrupted, nothing transferred; `fail`: another error).  An exhausted
  oracle stands for a descriptor that takes nothing more (count == 0).  SfModel/Faults.lean leaves this loop out (it does not end for an
  oracle that answers EINTR for ever); with the answers as a LIST the loop is structurally recursive.

    fwriteLoop os buf     (bytes that reached the descriptor, write () calls made)
    freadLoop os src n    the same loop for psf_fread: `src` = the bytes the descriptor holds from its position on
    itemsOf width total   `total / bytes`
    fwriteRestart         the loop without `+ total` (every pass starts at the head of the caller's buffer): the seeded regression
                          C07-fwrite-retry-offset; kept to show that the clause the campaign checks tells the two apart

  Tie to the code: harness/shortio.c interposes write () / read (); vlib/shortio.py compares the call counts of header-less
  one-call files (`sfmodel shortio`) and the closed bytes of every format.
-/
import SfModel.Basic
namespace Sf.ShortIo
open Sf

def SENSIBLE : Nat := 0x40000000

inductive Ans
  | took (n : Nat)
  | eintr
  | fail
deriving Repr, DecidableEq, Inhabited

/-- psf_fwrite on a descriptor: (bytes written, calls) -/
def fwriteLoop : List Ans → List Byte → List Byte × Nat
  | _, [] => ([], 0)
  | [], _ :: _ => ([], 1)                                  -- the descriptor takes nothing more: count == 0, break
  | .eintr :: os, buf => ((fwriteLoop os buf).1, (fwriteLoop os buf).2 + 1)
  | .fail :: _, _ :: _ => ([], 1)
  | .took n :: os, b :: bs =>
    let k := min n (min (b :: bs).length SENSIBLE)
    if k = 0 then ([], 1)
    else ((b :: bs).take k ++ (fwriteLoop os ((b :: bs).drop k)).1, (fwriteLoop os ((b :: bs).drop k)).2 + 1)

/-- the loop of the seeded regression: `write (fd, ptr, count)` -- every pass re-sends the head of the buffer -/
def fwriteRestart : List Ans → List Byte → Nat → List Byte × Nat
  | _, _, 0 => ([], 0)
  | [], _, _ + 1 => ([], 1)
  | .eintr :: os, buf, left + 1 => ((fwriteRestart os buf (left + 1)).1, (fwriteRestart os buf (left + 1)).2 + 1)
  | .fail :: _, _, _ + 1 => ([], 1)
  | .took n :: os, buf, left + 1 =>
    let k := min n (min (left + 1) SENSIBLE)
    if k = 0 then ([], 1)
    else (buf.take k ++ (fwriteRestart os buf (left + 1 - k)).1, (fwriteRestart os buf (left + 1 - k)).2 + 1)

/-- psf_fread on a descriptor: `want` bytes asked, `src` = what the descriptor holds: (bytes delivered, calls) -/
def freadLoop : List Ans → List Byte → Nat → List Byte × Nat
  | _, _, 0 => ([], 0)
  | [], _, _ + 1 => ([], 1)
  | .eintr :: os, src, want + 1 => ((freadLoop os src (want + 1)).1, (freadLoop os src (want + 1)).2 + 1)
  | .fail :: _, _, _ + 1 => ([], 1)
  | .took n :: os, src, want + 1 =>
    let k := min (min n (min (want + 1) SENSIBLE)) src.length          -- end of file shortens the call as well
    if k = 0 then ([], 1)
    else (src.take k ++ (freadLoop os (src.drop k) (want + 1 - k)).1, (freadLoop os (src.drop k) (want + 1 - k)).2 + 1)

/-- `return total / bytes` -/
def itemsOf (width total : Nat) : Nat := if width = 0 then 0 else total / width

/-- the schedules of harness/shortio.c as oracles: `skip` untouched calls, then `eintr` interrupted calls, then `n` calls capped at `cap`
    (`n` = none: every call from there on, `horizon` answers are enough for a buffer of `horizon` bytes), then untouched calls -/
def schedule (skip eintr : Nat) (cap : Nat) (n : Option Nat) (horizon : Nat) : List Ans :=
  List.replicate skip (.took SENSIBLE) ++ List.replicate eintr .eintr ++
  (match n with
   | some k => List.replicate k (.took cap) ++ List.replicate (horizon + 1) (.took SENSIBLE)
   | none => List.replicate (horizon + 1) (.took cap))

/-- the same with the interrupted calls AFTER `after` further (capped) calls: an interruption in the middle of one psf_fwrite / psf_fread
    (`shortio weintr <n> <after>` next to `shortio w <cap> <n>`) -/
def scheduleAfter (skip after eintr : Nat) (cap : Nat) (n : Option Nat) (horizon : Nat) : List Ans :=
  List.replicate skip (.took SENSIBLE) ++
  (List.replicate (match n with | some k => min after k | none => after) (.took cap) ++
   List.replicate (match n with | some k => after - min after k | none => 0) (.took SENSIBLE)) ++
  schedule 0 eintr cap (n.map (· - after)) horizon

end Sf.ShortIo
