/-
  SfModel.World — several handles, several backing stores and the process-wide state of libsndfile
  (property C19: handles are isolated from each other and from earlier library use).

  The per-handle state machine is the one of SfModel/Handle.lean (`H`, `openHandle`, `stepRead`, `stepWrite`,
  `stepSeek`, `stepCmdFlag`, `stepTruncate`, `closeHandle`), re-used unchanged.  What this file adds is the *world*
  around it: a slot table `handles : Nat → Option H`, the stores, and the process-wide variables, written exactly
  where the C writes them.

  Every mutable variable with static storage duration in src/ (enumerated with
  `grep -nE "^[\s{]*static" src/**/*.c` minus `const`, minus functions, plus the non-static file-scope data):

    sndfile.c:318  int  sf_errno           -> `Global.errno`.   Written by: psf_open_file (`= 0` on entry, `= error` at
                                              error_exit), the early exits of sf_open / sf_open_fd / sf_open_virtual,
                                              VALIDATE_SNDFILE_AND_ASSIGN_PSF on a NULL handle (every public call),
                                              and — with a *valid* handle — sf_command's `return (sf_errno =
                                              SFE_BAD_COMMAND_PARAM)` for SFC_GET_CURRENT_SF_INFO and the
                                              handle-free format-table commands.
                                              Read by: sf_error (NULL), sf_strerror (NULL), sf_perror (NULL),
                                              sf_error_str (NULL, …) and nothing else.
    sndfile.c:319  char sf_parselog []     -> `Global.parselog`. Written by psf_open_file (cleared on entry, copy of the
                                              handle's log at error_exit, save_header_info on two validation failures)
                                              and the callback checks of sf_open_virtual.
                                              Read by: sf_command (NULL, SFC_GET_LOG_INFO, …) only.
    sndfile.c:320  char sf_syserr []       -> `Global.syserr`.   Written at error_exit when error == SFE_SYSTEM (never on
                                              the virtual-I/O route modelled here); read by sf_strerror (NULL) only.
    common.c:1485  static uint64_t value   -> `Global.rand` (psf_rand_int32; seeded from gettimeofday on first use, modelled
                                              as `Global.clock`).  Drawn once per psf_open_file for `psf->unique_id`
                                              (-> `W.uids`; the field is never read anywhere in src/), twice per ALAC
                                              write open for the name of the temporary file, once per Ogg stream.
    float32.c:89   static int float_caps   -> `Global.floatCaps`:  assigned at the top of float32_init before its only
    double64.c:92  static int double64_caps-> `Global.doubleCaps`:  use in the same call (dead across calls; host constant).
    alac.c:980     static char errstr []   -> scratch for "Unknown error %d"; written and returned in one call (log text only)
    mat4.c:368     static char str []      -> same, mat4_marker_to_str (log text only)
    dwvw.c:138     static int last_values  -> twelve zeros handed to dwvw_encode_data (const int *): never written
    w64.c:47       static unsigned char [] -> GUID literals inside a macro: never written
    macos.c:33     static char rsrc_name   -> not compiled on this platform
    tables that lack `const` but are never written: command.c subtype_formats, ima_adpcm.c ima_indx_adjust /
      ima_step_size, ms_adpcm.c AdaptationTable / AdaptCoeff1 / AdaptCoeff2, nist.c bad_header, nms_adpcm.c table_*,
      ulaw.c ulaw_decode, alaw.c alaw_decode, wavlike.c wave_descs, G72x/*.c qtab_* _dqlntab _witab _fitab power2,
      GSM610/table.c gsm_*, ogg*.c / flac.c tag tables (external libraries are disabled in the verification build).

  So the only process-wide state that a later call can *read* is {sf_errno, sf_parselog, sf_syserr, the random seed}.
  Codec state proper (G72x_STATE, gsm_state, NMS/IMA/MS/OKI/DWVW/ALAC privates) hangs off `psf->codec_data`; whether
  that is really so is what the all-format campaign of vlib/props/c19.py observes (the codecs are opaque here).

  Core Lean only (the driver links this file).
-/
import SfModel.Handle
namespace Sf.World
open Sf

/-! ## total maps -/

/-- point update -/
def upd {α : Type} (f : Nat → α) (i : Nat) (v : α) : Nat → α := fun j => if j = i then v else f j

@[simp] theorem upd_same {α : Type} (f : Nat → α) (i : Nat) (v : α) : upd f i v i = v := by simp [upd]
@[simp] theorem upd_other {α : Type} (f : Nat → α) (i j : Nat) (v : α) (h : j ≠ i) : upd f i v j = f j := by simp [upd, h]

/-! ## process-wide state -/

/-- where the text in `sf_parselog` came from: the failed open call (the text itself is a function of these) -/
structure LogSrc where
  store : Nat
  mode : Mode
  fmt : Nat
  ch : Int
  sr : Int
  bytes : List Byte
deriving Repr

structure Global where
  errno : Int := 0                    -- sf_errno
  parselog : Option LogSrc := none    -- sf_parselog (none = empty string)
  syserr : Bool := false              -- sf_syserr non-empty
  rand : Nat := 0                     -- `value` of psf_rand_int32 (0 = not seeded yet)
  clock : Nat := 1                    -- tv_sec + tv_usec at the first psf_rand_int32 call
  floatCaps : Nat := 0                -- float32.c  static int float_caps
  doubleCaps : Nat := 0               -- double64.c static int double64_caps
deriving Repr

-- symbolic values of the process-wide error number (the transcript distinguishes zero / non-zero)
def E_BAD_SNDFILE_PTR : Int := 2001
def E_OPEN_FAILED : Int := 2002
def E_BAD_COMMAND_PARAM : Int := 2003

def iter {α : Type} (f : α → α) : Nat → α → α
  | 0, a => a
  | n+1, a => iter f n (f a)

/-- `psf_rand_int32` -/
def randDraw (g : Global) : Nat × Global :=
  let v0 := if g.rand == 0 then g.clock else g.rand
  let v := iter (fun v => (11117 * v + 211231) % 0x80000000) (4 + v0 % 8) v0
  (v, { g with rand := v })

/-- FLOAT_CAN_RW_LE / DOUBLE_CAN_RW_LE on the little-endian IEEE host of the trusted base -/
def hostFloatCaps : Nat := 0x12
def hostDoubleCaps : Nat := 0x23

/-! ## the world -/

structure W where
  handles : Nat → Option H := fun _ => none
  uids : Nat → Nat := fun _ => 0            -- psf->unique_id of the handle in each slot (never read by the library)
  stores : Nat → Store := fun _ => {}
  g : Global := {}

/-- one call of the public API as the harness issues it on slot `i` -/
inductive WOp
  | open (store : Nat) (mode : Mode) (fmt : Nat) (ch sr : Int) (canTrunc : Bool)
  | call (op : Op)            -- read / write / seek / flag command / truncate / close (the index inside `op` is unused)
  | info                      -- sf_command (h, SFC_GET_CURRENT_SF_INFO, &info, sizeof (info))
  | infoBadSize               -- the same with a wrong datasize: `return (sf_errno = SFE_BAD_COMMAND_PARAM)`
  | herror                    -- sf_error (h) / sf_strerror (h)
  | nullError                 -- sf_error (NULL) / sf_strerror (NULL)
  | nullLog                   -- sf_command (NULL, SFC_GET_LOG_INFO, buf, n)
deriving Repr

inductive WOut
  | call (o : Out)            -- a call on a live handle
  | opened (h : H)
  | openFailed
  | info (h : H)
  | closed
  | err (e : Int)             -- sf_error (h)
  | nullCall (o : Out)        -- a call that reached the library with a NULL handle; `o.err` is sf_error (NULL) after it
  | nullInfo                  -- SFC_GET_CURRENT_SF_INFO with a NULL handle
  | nullErr (e : Int)         -- sf_error (NULL)
  | nullLog (l : Option LogSrc)
  | unmodelled
deriving Repr

/-- what a call writes to the process-wide state -/
inductive GWrite
  | none
  | openEarlyFail (src : LogSrc)                    -- psf_open_file entered, left before the unique id was drawn
  | openFail (src : LogSrc)                         -- psf_open_file entered, unique id drawn, error_exit
  | openOk (flt dbl : Bool)                         -- psf_open_file succeeded (float32_init / double64_init ran)
  | badPtr                                          -- VALIDATE_SNDFILE_AND_ASSIGN_PSF with NULL
  | badParam                                        -- sf_command: `sf_errno = SFE_BAD_COMMAND_PARAM`
deriving Repr

def applyG (g : Global) : GWrite → Global
  | .none => g
  | .openEarlyFail src => { g with errno := E_OPEN_FAILED, parselog := some src }
  | .openFail src => { (randDraw g).2 with errno := E_OPEN_FAILED, parselog := some src }
  | .openOk flt dbl =>
    let g := (randDraw g).2
    { g with errno := 0, parselog := none,
             floatCaps := if flt then hostFloatCaps else g.floatCaps,
             doubleCaps := if dbl then hostDoubleCaps else g.doubleCaps }
  | .badPtr => { g with errno := E_BAD_SNDFILE_PTR }
  | .badParam => { g with errno := E_BAD_COMMAND_PARAM }

def isFlt : Enc → Bool | .flt _ => true | _ => false
def isDbl : Enc → Bool | .dbl _ => true | _ => false

/-- does this write draw a unique id for the slot? -/
def GWrite.drawsId : GWrite → Bool
  | .openFail _ | .openOk _ _ => true
  | _ => false

/-- the per-handle step functions of SfModel/Handle.lean, by operation -/
def applyOp (h : H) (s : Store) : Op → Option H × Store × WOut
  | .read _ ty fc n => let r := stepRead h s ty fc n; (some r.1, r.2.1, .call r.2.2)
  | .write _ ty fc n data => let r := stepWrite h s ty fc n data; (some r.1, r.2.1, .call r.2.2)
  | .seek _ off whence => let r := stepSeek h s off whence; (some r.1, r.2.1, .call r.2.2)
  | .cmdFlag _ cmd size => let r := stepCmdFlag h s cmd size; (some r.1, r.2.1, .call r.2.2)
  | .truncate _ f => let r := stepTruncate h s f; (some r.1, r.2.1, .call r.2.2)
  | .close _ => (none, closeHandle h s, .closed)

/-- the store a call can reach: the one named by an open, else the one the handle in the slot is bound to -/
def touched (slot : Option H) : WOp → Option Nat
  | .open store .. => some store
  | .nullError | .nullLog => none
  | _ => slot.map (·.store)

/-- effect of a call on the only things it can reach: its slot and its store (`st` is the content of the
    touched store; ignored when there is none).  The last component is the write to the process-wide state. -/
def lstep (slot : Option H) (st : Store) : WOp → Option H × Store × WOut × GWrite
  | .open store mode fmt ch sr canTrunc =>
    -- harness: a write open truncates the store; every open rewinds it
    let s0 : Store := if mode == .w then { bytes := [], pos := 0 } else { st with pos := 0 }
    let src : LogSrc := { store := store, mode := mode, fmt := fmt, ch := ch, sr := sr, bytes := s0.bytes }
    match openHandle store s0 mode fmt ch sr with
    | .unmodelled => (slot, st, .unmodelled, .none)
    | .fail s =>
      -- SFE_RAW_BAD_FORMAT leaves before the unique id is drawn (sf_format_check on the caller's SF_INFO, read mode)
      let early := mode == .r ∧ containerOf fmt == some .raw ∧ (ch < 1 ∨ ch > 1024 ∨ sr < 0)
      (none, s, .openFailed, if early then .openEarlyFail src else .openFail src)
    | .ok h s =>
      (some { h with canTruncate := canTrunc }, s, .opened h, .openOk (isFlt h.enc) (isDbl h.enc))
  | .nullError | .nullLog => (slot, st, .unmodelled, .none)      -- handled in `wstep` (they read the globals)
  | op =>
    match slot with
    | some h =>
      match op with
      | .call o => let r := applyOp h st o; (r.1, r.2.1, r.2.2, .none)
      | .info => (some { h with error := 0 }, st, .info h, .none)
      | .infoBadSize => (some { h with error := 0 }, st, .call { ret := E_BAD_COMMAND_PARAM, err := 0 }, .badParam)
      | _ => (some h, st, .err h.error, .none)
    | none =>
      -- the harness passes NULL: VALIDATE_SNDFILE_AND_ASSIGN_PSF sets sf_errno and the call returns 0
      match op with
      | .call (.read ..) => (none, st, .unmodelled, .badPtr)      -- (buffer size printed by the harness is not modelled)
      | .call (.close _) => (none, st, .closed, .badPtr)
      | .call _ => (none, st, .nullCall { ret := 0, err := E_BAD_SNDFILE_PTR }, .badPtr)
      | .info => (none, st, .nullInfo, .badPtr)
      | .infoBadSize => (none, st, .nullCall { ret := 0, err := E_BAD_SNDFILE_PTR }, .badPtr)
      | _ => (none, st, .unmodelled, .none)

/-- calls that return before the handle is looked at (`if (len == 0) return 0 ;`) -/
def zeroLen : WOp → Bool
  | .call (.read _ _ _ n) => n == 0
  | .call (.write _ _ _ n _) => n == 0
  | _ => false

def isHerror : WOp → Bool | .herror => true | _ => false

abbrev Ev := Nat × WOp

/-- one call on slot `ev.1` -/
def wstep (w : W) (ev : Ev) : W × WOut :=
  let i := ev.1
  let slot := w.handles i
  match ev.2 with
  | .nullError => (w, .nullErr w.g.errno)
  | .nullLog => (w, .nullLog w.g.parselog)
  | op =>
    if slot.isNone && (zeroLen op || isHerror op) then
      -- sf_error (NULL) as printed by the harness after a call that never reached VALIDATE, or asked for directly
      (w, if isHerror op then .nullErr w.g.errno else .nullCall { ret := 0, err := w.g.errno })
    else
    match touched slot op with
    | none =>
      let r := lstep slot {} op
      ({ w with handles := upd w.handles i r.1, g := applyG w.g r.2.2.2 }, r.2.2.1)
    | some k =>
      let r := lstep slot (w.stores k) op
      let g' := applyG w.g r.2.2.2
      ({ handles := upd w.handles i r.1,
         uids := if r.2.2.2.drawsId then upd w.uids i (randDraw w.g).1 else w.uids,
         stores := upd w.stores k r.2.1,
         g := g' }, r.2.2.1)

/-- a history: the world after it and the transcript, each output tagged with the slot that made the call -/
def run (w : W) : List Ev → W × List (Nat × WOut)
  | [] => (w, [])
  | ev :: evs =>
    let r := wstep w ev
    let rest := run r.1 evs
    (rest.1, (ev.1, r.2) :: rest.2)

/-- outputs that show the process-wide state are replaced by a fixed token: these are exactly the results of
    calls made with a NULL handle (`sf_error (NULL)`, `sf_strerror (NULL)`, `sf_command (NULL, …)`) -/
def mask : WOut → WOut
  | .nullCall o => .nullCall { o with err := 0 }
  | .nullErr _ => .nullErr 0
  | .nullLog _ => .nullLog none
  | o => o

end Sf.World
