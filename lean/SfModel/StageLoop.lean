/-
  SfModel.StageLoop — the STAGING LOOPS of the sample-granular write kernels under ONE short transfer (C04 / C05 / C15).

  Every write kernel of pcm.c, float32.c, double64.c, ulaw.c, alaw.c (and dpcm in xi.c) has the shape

      while (len > 0)
      {   if (len < bufferlen) bufferlen = (int) len ;
          convert (ptr + total, ubuf, bufferlen) ;
          writecount = psf_fwrite (ubuf, width, bufferlen, psf) ;
          total += writecount ;
          if (writecount < bufferlen) break ;
          len -= writecount ;
          } ;
      return total ;

  which is `Sf.Faults.writeLoop` with the staging length `Sf.Faults.stageLen`.  This file adds
    * `kernels`  — the KERNEL TABLE: one row per (file encoding, caller type) with the name of the C function the dispatch of
                   pcm_init / float32_init / double64_init / ulaw_init / alaw_init installs (`cName`), its staging length and item
                   width; the campaign (vlib/stagecamp.py) takes its cells from this table and compares the names with the
                   `psf->write_<type> = <function> ;` assignments of the tree under test;
    * `stored`   — the bytes the I/O layer accepted, as a function of the callback history;
    * `Rec` / `judge` — the clauses of C05 ("the return value is the number of items that reached the file, in whole frames;
                   position and frame count advance by exactly it") and C04 ("the closed file holds exactly the accepted
                   frames") as Boolean checkers over ONE record of the campaign: a long call (more than two staging buffers)
                   with one short transfer, the position probe, the bytes on the device, the re-submission of the rest, the
                   closed file and the fault-free file.
  Theorems: lean/SfProps/C05Stage.lean.
-/
import SfModel.Faults
namespace Sf.StageLoop
open Sf Sf.Faults

/-! ## the kernel table -/

structure Kernel where
  name : String        -- the function `psf->write_short | write_int | write_float | write_double` points at
  enc : Enc
  ty : Ty
  stage : Nat          -- items per staging round, 0 = the caller's buffer goes to psf_fwrite in one piece
  w : Nat              -- bytes per item in the file
deriving Repr, Inhabited

def tyLetter : Ty → String
  | .s16 => "s" | .s32 => "i" | .f32 => "f" | .f64 => "d"

def pcmSuffix (p : PcmFmt) : String :=
  if p.w == 8 then (if p.unsigned then "uc" else "sc")
  else (if p.big then "be" else "le") ++ (if p.w == 16 then "s" else if p.w == 24 then "t" else "i")

/-- the C function the codec's init installs for (encoding, caller type) -/
def cName (e : Enc) (ty : Ty) : String :=
  match e with
  | .pcm p => "pcm_write_" ++ tyLetter ty ++ "2" ++ pcmSuffix p
  | .flt _ => if ty == .f32 then "host_write_f" else "host_write_" ++ tyLetter ty ++ "2f"
  | .dbl _ => if ty == .f64 then "host_write_d" else "host_write_" ++ tyLetter ty ++ "2d"
  | .ulaw => "ulaw_write_" ++ tyLetter ty ++ "2ulaw"
  | .alaw => "alaw_write_" ++ tyLetter ty ++ "2alaw"

def encs : List Enc :=
  [.pcm ⟨8, false, false⟩, .pcm ⟨8, true, false⟩,
   .pcm ⟨16, false, false⟩, .pcm ⟨16, false, true⟩, .pcm ⟨24, false, false⟩, .pcm ⟨24, false, true⟩,
   .pcm ⟨32, false, false⟩, .pcm ⟨32, false, true⟩,
   .flt false, .flt true, .dbl false, .dbl true, .ulaw, .alaw]

def tys : List Ty := [.s16, .s32, .f32, .f64]

def kernelOf (e : Enc) (ty : Ty) : Kernel :=
  { name := cName e ty, enc := e, ty := ty, stage := stageLen e ty true, w := e.nbytes }

def kernels : List Kernel := encs.flatMap fun e => tys.map (kernelOf e)

/-- SF_FORMAT_RAW | subtype | endianness of the encoding -/
def rawWord (e : Enc) : Nat :=
  let endian (big : Bool) : Nat := if big then 0x20000000 else 0x10000000
  match e with
  | .pcm p => 0x040000 + (if p.w == 8 then (if p.unsigned then 5 else 1) else if p.w == 16 then 2 else if p.w == 24 then 3 else 4)
              + (if p.w == 8 then 0 else endian p.big)
  | .flt big => 0x040006 + endian big
  | .dbl big => 0x040007 + endian big
  | .ulaw => 0x040010
  | .alaw => 0x040011

def tyName : Ty → String
  | .s16 => "s16" | .s32 => "s32" | .f32 => "f32" | .f64 => "f64"

/-! ## bytes accepted by the I/O layer -/

/-- the sum of the answers of the write callbacks of a history -/
def stored : Hist → Nat
  | [] => 0
  | (.write _, a) :: rest => a.n.toNat + stored rest
  | _ :: rest => stored rest

/-! ## the clauses over one campaign record -/

structure Rec where
  w : Nat                  -- bytes per item
  ch : Nat
  n : Nat                  -- items of the long call
  hdr : Nat := 0           -- bytes of the closed file in front of the audio
  ret1 : Int := 0          -- the long call under the short transfer
  pos1 : Int := 0          -- sf_seek (0, SEEK_CUR | SFM_WRITE) right after it
  stored1 : Nat := 0       -- bytes by which the device grew during the call
  asked2 : Int := 0        -- the careful caller re-submits the rest
  ret2 : Int := 0
  pos2 : Int := 0
  probe : Bool := true     -- the handle answers the position probe (XI is not seekable: sf_seek is refused)
  exact : Bool := true     -- the closed file is compared byte for byte (false: its length only — DPCM's predictor runs over the lost items)
  closed : List Byte := []
  ref : List Byte := []    -- the closed file of the fault-free run of the same items
deriving Inhabited

/-- frames that reached the device completely -/
def Rec.framesStored (r : Rec) : Nat := r.stored1 / (r.w * r.ch)

/-- C05: the return value is the number of items that reached the file, rounded down to whole frames -/
def countOk (r : Rec) : Bool := r.ret1 == ((r.framesStored * r.ch : Nat) : Int)
/-- C05 / C15: "advances the write position … by exactly w" -/
def posOk (r : Rec) : Bool := !r.probe || r.pos1 * (r.ch : Int) == r.ret1
/-- the single short transfer is over: the re-submitted rest is accepted and counted -/
def resumeOk (r : Rec) : Bool := r.ret2 == r.asked2 && (!r.probe || (r.pos2 - r.pos1) * (r.ch : Int) == r.ret2)
/-- items the two calls accepted -/
def Rec.accepted (r : Rec) : Nat := (r.ret1 + r.ret2).toNat
/-- C04 / C15: the closed file holds exactly the accepted frames (and, `exact`, they are the bytes of the fault-free file) -/
def fileOk (r : Rec) : Bool :=
  if r.exact then r.closed == r.ref.take (r.hdr + r.accepted * r.w)
  else r.closed.length == r.hdr + r.accepted * r.w

def judge (r : Rec) : List String :=
  (if countOk r then [] else ["count"]) ++ (if posOk r then [] else ["position"]) ++
  (if resumeOk r then [] else ["resume"]) ++ (if fileOk r then [] else ["file"])

def accepted (r : Rec) : Bool := (judge r).isEmpty

end Sf.StageLoop
