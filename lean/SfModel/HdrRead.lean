/-
  SfModel.HdrRead — the header cache of common.c as the CAF and W64 header parsers use it
  (`psf_binheader_readf` conversions m/2/4/8/b/h/j over `header_read` / `header_seek`), including
  what happens when the file ends inside a field:

  * `header_read` of n bytes succeeds iff the bytes are already cached (`indx + n ≤ end`) or can be read
    from the file (`indx + n ≤ file length`, no short read so far).  On a short read the destination
    keeps the zero the caller stored first, `indx` and `end` do not move, and the file position is at
    end of file from then on (`failed`); the returned count is the number of bytes `psf_fread` delivered.
  * `header_seek (p, SEEK_CUR)`: inside the cache it moves `indx`; beyond it reads the gap into the
    cache (as much as the file has) and leaves `indx = end`; a backward move below zero is ignored.
    (The uncached path taken when the cache may not grow beyond 100 KiB is not described here: callers
    return `unmodelled` before a forward skip could end beyond `cacheLimit`.)
  * `psf_ftell` is the file position: `end` while no short read happened (every byte went through the
    cache, starting at offset 0), the file length afterwards.
-/
import SfModel.Basic
namespace Sf.HdrRd

structure Rd where
  indx : Nat := 0
  endp : Nat := 12        -- guess_file_type has read 12 bytes, then "p" 0
  failed : Bool := false
deriving Repr, DecidableEq, Inhabited

/-- forward skips of non-audio chunks must end below this offset: then every `psf_bump_header_allocation`
    request stays below 100 KiB (the cache at most doubles past the highest offset requested) -/
def cacheLimit : Nat := 24000

/-- `header_read`: the bytes (none on a short read), the count returned, the new state -/
def rdN (bs : List Byte) (r : Rd) (n : Nat) : Option (List Byte) × Nat × Rd :=
  if r.indx + n ≤ r.endp then (some ((bs.drop r.indx).take n), n, { r with indx := r.indx + n })
  else if !r.failed ∧ r.indx + n ≤ bs.length then
    (some ((bs.drop r.indx).take n), n, { r with indx := r.indx + n, endp := r.indx + n })
  else (none, (if r.failed then 0 else bs.length - r.endp), { r with failed := true })

/-- big-endian / little-endian unsigned field; 0 on a short read -/
def rdBE (bs : List Byte) (r : Rd) (n : Nat) : Nat × Rd :=
  match rdN bs r n with
  | (some b, _, r') => (ofBE b, r')
  | (none, _, r') => (0, r')
def rdLE (bs : List Byte) (r : Rd) (n : Nat) : Nat × Rd :=
  match rdN bs r n with
  | (some b, _, r') => (ofLE b, r')
  | (none, _, r') => (0, r')

/-- raw bytes ('m' marker, 'b'): zeros on a short read -/
def rdRaw (bs : List Byte) (r : Rd) (n : Nat) : List Byte × Rd :=
  match rdN bs r n with
  | (some b, _, r') => (b, r')
  | (none, _, r') => (List.replicate n 0, r')

/-- consecutive raw fields ("m", "E2", "E4", "E8", "b" conversions one after the other): each is zeros on a short read -/
def rdSeq (bs : List Byte) : List Nat → Rd → List (List Byte) × Rd
  | [], r => ([], r)
  | n :: ns, r =>
    let x := rdRaw bs r n
    let y := rdSeq bs ns x.2
    (x.1 :: y.1, y.2)

/-- `psf_ftell` -/
def ftell (bs : List Byte) (r : Rd) : Nat := if r.failed then bs.length else r.endp

/-- `header_seek (p, SEEK_CUR)`, cached path -/
def skip (bs : List Byte) (r : Rd) (p : Int) : Rd :=
  if p < 0 then (if (r.indx : Int) + p < 0 then r else { r with indx := ((r.indx : Int) + p).toNat })
  else
    let p := p.toNat
    if r.indx + p ≤ r.endp then { r with indx := r.indx + p }
    else
      let got := if r.failed then 0 else min (r.indx + p - r.endp) (bs.length - r.endp)
      { r with indx := r.endp + got, endp := r.endp + got }

end Sf.HdrRd
