/-
  SfModel.HeaderText — where a header WRITER takes an optional text chunk from, in a process with several handles (C19: "operations on
  one handle never influence another … results are independent of what the library did earlier in the same process").

  src/svx.c writes `NAME` from psf->file.name (per handle) and `ANNO` from a constant.  When an existing file is opened SFM_RDWR the
  header is written again at open and at close, so a text of another length than the one in the file moves the audio.  Keeping the
  text the READER found is the obvious repair — and the question is WHERE it is kept:

      Rule.constant   the writer always writes the library's own text                      (the code as it is)
      Rule.handle     the reader stores the text in the handle, the writer of THAT handle writes it back
      Rule.global     the reader stores it in a file-scope buffer, every writer writes that buffer   (seeded regression C19-svx-anno-global)

  A world is the file-scope buffer plus, per handle id, the stored text and the text of the header last written to its file.
  Core Lean only.
-/
namespace Sf.HeaderText

abbrev Text := List Nat

inductive Rule
  | constant | handle | global
deriving Repr, DecidableEq

structure W where
  glob : Text                     -- the file-scope buffer (initialised with the library's own text)
  own : Nat → Option Text         -- per handle: the text its reader found
  hdr : Nat → Option Text         -- per handle: the optional text in the header last written to its file
  
inductive Op
  | openW (id : Nat)                       -- sf_open (SFM_WRITE): header written at open
  | openRW (id : Nat) (found : Text)       -- sf_open (SFM_RDWR) of a file whose chunk holds `found`: reader, then header written
  | close (id : Nat)                       -- sf_close: header written again

def Op.id : Op → Nat
  | .openW i | .openRW i _ | .close i => i

def upd {α : Type} (f : Nat → α) (i : Nat) (v : α) : Nat → α := fun j => if j = i then v else f j

/-- the text the writer of handle `i` puts into the header -/
def textOf (r : Rule) (dflt : Text) (w : W) (i : Nat) : Text :=
  match r with
  | .constant => dflt
  | .handle => (w.own i).getD dflt
  | .global => w.glob

def step (r : Rule) (dflt : Text) (w : W) : Op → W
  | .openW i =>
    let w1 : W := { w with own := upd w.own i none }
    { w1 with hdr := upd w1.hdr i (some (textOf r dflt w1 i)) }
  | .openRW i found =>
    let w1 : W := match r with
      | .constant => { w with own := upd w.own i none }
      | .handle => { w with own := upd w.own i (some found) }
      | .global => { w with own := upd w.own i none, glob := found }
    { w1 with hdr := upd w1.hdr i (some (textOf r dflt w1 i)) }
  | .close i => { w with hdr := upd w.hdr i (some (textOf r dflt w i)) }

def run (r : Rule) (dflt : Text) (w : W) (ops : List Op) : W := ops.foldl (step r dflt) w

def init (dflt : Text) : W := { glob := dflt, own := fun _ => none, hdr := fun _ => none }

/-- the calls of handle k alone -/
def solo (k : Nat) (ops : List Op) : List Op := ops.filter fun o => o.id == k

end Sf.HeaderText
