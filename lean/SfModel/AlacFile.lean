/-
  SfModel.AlacFile — what surrounds the ALAC codec core in src/alac.c and the ALAC parts of src/caf.c, with the codec
  core (one packet of staged frames ↦ bytes, bytes ↦ frames) as a PARAMETER (`Codec`, DESIGN §6 "opaque codecs").

  * write path: `alac_write_s/i/f/d` stage caller samples into packets of 4096 frames (`writeLoop`), `alac_encode_block`
    appends the packet to a temporary file and its size to the packet table, `alac_close` encodes the final short packet,
    builds the 'kuki' (magic cookie) and 'pakt' (packet table: 24-byte header + BER integers, `paktEncode`) chunks, has
    caf.c rewrite the header with them and copies the temporary file behind it (`closedBytes`);
  * read path: `alac_pakt_read_decode` (`paktDecode`, bug for bug: stops at a zero byte and APPENDS that zero, so a table
    whose chunk was padded to a multiple of four has one extra entry), `alac_reader_calc_frames` (`framesAtOpen`),
    `alac_decode_block` over an I/O oracle (`decodeBlock`), the copy loop of `alac_read_*` (`readLoop`), `alac_seek`,
    and the `sf_read_*` / `sf_seek` wrappers of sndfile.c around them (`RHandle`).

  All staging is counted in FRAMES: the wrappers of sndfile.c refuse item counts that are not a multiple of the channel
  count, so every `writecount` / `readcount` of the C code is a whole number of frames; a frame is an element of an
  arbitrary type `α` (the driver uses `List Int`).
-/
import SfModel.Basic
import SfModel.Float
namespace Sf.Alac

/-- ALAC_FRAME_LENGTH = kALACDefaultFramesPerPacket -/
def fpb : Nat := 4096
/-- sizeof (plac->byte_buffer) = ALAC_MAX_CHANNEL_COUNT * ALAC_BYTE_BUFFER_SIZE -/
def maxPacket : Nat := 8 * 0x20000

/-- the codec core: `enc` is alac_encode (it carries predictor coefficients and the last mixRes from packet to packet, the
    state `σ`), `dec` is alac_decode (stateless; `(dec p).length` is what it stores in frames_this_block) -/
structure Codec (σ α : Type) where
  init : σ
  enc  : σ → List α → σ × List Byte
  dec  : List Byte → List α

/-! ## BER integers of the packet table -/

/-- one entry of `alac_pakt_encode`; `none` = the function gives up (returns NULL) -/
def berEnc (v : Nat) : Option (List Byte) :=
  if v < 0x80 then some [v]
  else if v < 0x4000 then some [v / 0x80 + 0x80, v % 0x80]
  else if v < 0x200000 then some [v / 0x4000 + 0x80, v / 0x80 % 0x80 + 0x80, v % 0x80]
  else if v < 0x10000000 then some [v / 0x200000 + 0x80, v / 0x4000 % 0x80 + 0x80, v / 0x80 % 0x80 + 0x80, v % 0x80]
  else none

/-- the BER bytes of all packet sizes (`none` as soon as one size does not fit in 28 bits) -/
def berEncAll : List Nat → Option (List Byte)
  | [] => some []
  | v :: vs =>
    match berEnc v, berEncAll vs with
    | some a, some b => some (a ++ b)
    | _, _ => none

/-- 24-byte header of the 'pakt' chunk: packets, valid frames, priming frames (0), remainder frames.
    `remainder` is `kALACDefaultFramesPerPacket - partial_block_frames` with the count staged BEFORE the final packet was
    encoded: 4096 (not 0) when the stream ends on a packet boundary -/
def paktHeader (packets frames savedPartial : Nat) : List Byte :=
  beBytes 8 packets ++ beBytes 8 frames ++ beBytes 4 0 ++ beBytes 4 (wrapU 32 ((fpb : Int) - savedPartial))

/-- `alac_pakt_encode` -/
def paktEncode (sizes : List Nat) (frames savedPartial : Nat) : Option (List Byte) :=
  (berEncAll sizes).map fun b => paktHeader sizes.length frames savedPartial ++ b

/-- the inner `do … while (byte & 0x80)` of `alac_pakt_read_decode`: returns (value, bytes consumed); reading at or
    beyond `paktSize`, or a sixth byte, yields value 0 -/
def berDecLoop (bs : List Byte) (paktSize bcount : Nat) : Nat → Nat → Nat → Nat × Nat
  | 0, count, _ => (0, count)
  | fuel + 1, count, value =>
    let byte := bs.getD (bcount + count) 0
    let value := wrapU 32 (((value * 128 + byte % 128 : Nat) : Int))
    let count := count + 1
    if count > 5 ∨ bcount + count > paktSize then (0, count)
    else if byte / 128 % 2 = 1 then berDecLoop bs paktSize bcount fuel count value
    else (value, count)

def berDec (bs : List Byte) (paktSize bcount : Nat) : Nat × Nat := berDecLoop bs paktSize bcount 7 0 0

/-- `for (bcount = 24 ; bcount < pakt_size && value != 0 ; )`: every decoded value is appended, the zero that ends the
    scan included -/
def paktDecodeLoop (bs : List Byte) (paktSize : Nat) : Nat → Nat → List Nat
  | 0, _ => []
  | fuel + 1, bcount =>
    if bcount < paktSize then
      let (v, c) := berDec bs paktSize bcount
      if v = 0 then [0] else v :: paktDecodeLoop bs paktSize fuel (bcount + c)
    else []

/-- `alac_pakt_read_decode` on the data of the 'pakt' chunk (header included, as stored: padded to a multiple of 4) -/
def paktDecode (chunk : List Byte) : List Nat := paktDecodeLoop chunk chunk.length chunk.length 24

/-! ## the chunks caf.c writes for ALAC -/

def mk (s : String) : List Byte := s.toList.map Char.toNat
def zeros (n : Nat) : List Byte := List.replicate n 0

structure Cfg where
  bits : Nat      -- 16 / 20 / 24 / 32
  ch   : Nat
  sr   : Nat
deriving Repr, DecidableEq

/-- desc.fmt_flags of alac_get_desc_chunk_items -/
def fmtFlags (bits : Nat) : Nat := if bits = 16 then 1 else if bits = 20 then 2 else if bits = 24 then 3 else if bits = 32 then 4 else 0

/-- ALACChannelLayoutTags [ch - 1] -/
def layoutTag (ch : Nat) : Nat :=
  match ch with
  | 1 => 100 * 65536 + 1 | 2 => 101 * 65536 + 2 | 3 => 113 * 65536 + 3 | 4 => 116 * 65536 + 4
  | 5 => 120 * 65536 + 5 | 6 => 124 * 65536 + 6 | 7 => 142 * 65536 + 7 | 8 => 127 * 65536 + 8 | _ => 0

/-- `alac_get_magic_cookie`: ALACSpecificConfig (24 bytes: frame length, version 0, bit depth, pb 40, mb 10, kb 14,
    channels, maxRun 255, the largest packet so far, average bit rate 0, sample rate) and, above two channels, a 'chan' atom
    with the layout tag -/
def kuki (c : Cfg) (maxFrameBytes : Nat) : List Byte :=
  beBytes 4 fpb ++ [0, c.bits % 256, 40, 10, 14, c.ch % 256] ++ beBytes 2 255 ++ beBytes 4 (maxFrameBytes % 2 ^ 32) ++ beBytes 4 0 ++
    beBytes 4 (c.sr % 2 ^ 32) ++
    (if c.ch > 2 then [0, 0, 0, 24] ++ mk "chan" ++ [0, 0, 0, 0] ++ beBytes 4 (layoutTag c.ch) ++ zeros 8 else [])

/-- a chunk saved with psf_save_write_chunk and written by caf_write_header ("m44b"): 64-bit size = length padded to a
    multiple of four, data zero padded -/
def pad4 (n : Nat) : Nat := (4 - n % 4) % 4
def wchunk (id : String) (data : List Byte) : List Byte :=
  mk id ++ beBytes 4 0 ++ beBytes 4 (data.length + pad4 data.length) ++ data ++ zeros (pad4 data.length)

/-- 'desc' for ALAC: bytes per packet 0 (psf->bytewidth is 0), 4096 frames per packet, bits per channel 0 -/
def descChunk (c : Cfg) : List Byte :=
  mk "desc" ++ beBytes 8 32 ++ beBytes 8 (Float.f64.ofInt c.sr) ++ mk "alac" ++ beBytes 4 (fmtFlags c.bits) ++
    beBytes 4 0 ++ beBytes 4 fpb ++ beBytes 4 c.ch ++ beBytes 4 0

/-- `caf_write_header` for ALAC: no 'free' chunk; `chunks` = the saved write chunks (none at open; kuki, pakt at close) -/
def header (c : Cfg) (chunks : List Byte) (datalength : Nat) : List Byte :=
  mk "caff" ++ beBytes 2 1 ++ beBytes 2 0 ++ descChunk c ++ chunks ++ mk "data" ++ beBytes 8 (datalength + 4) ++ beBytes 4 0

/-! ## write path -/

structure W (σ α : Type) where
  e      : σ
  staged : List α := []        -- plac->buffer [0 .. partial_block_frames)
  sizes  : List Nat := []      -- pakt_info->packet_size [0 .. count)
  tmp    : List Byte := []     -- the temporary file
  frames : Nat := 0            -- psf->sf.frames

def W.init (cd : Codec σ α) : W σ α := { e := cd.init }

/-- `alac_encode_block` -/
def encodeBlock (cd : Codec σ α) (w : W σ α) : W σ α :=
  let r := cd.enc w.e w.staged
  { w with e := r.1, staged := [], sizes := w.sizes ++ [r.2.length], tmp := w.tmp ++ r.2 }

/-- `writecount = (frames_per_block - partial) ; writecount = (writecount == 0 || writecount > len) ? len : writecount`, in frames -/
def wcOf (staged len : Nat) : Nat :=
  if fpb - staged = 0 ∨ fpb - staged > len then len else fpb - staged

/-- one iteration of the `while (len > 0)` loop of `alac_write_*` (after the conversion to codec ints): copy `writecount`
    frames behind the staged ones, encode when the packet is full -/
def writeStep (cd : Codec σ α) (w : W σ α) (xs : List α) : W σ α :=
  let w1 := { w with staged := w.staged ++ xs.take (wcOf w.staged.length xs.length) }
  if w1.staged.length ≥ fpb then encodeBlock cd w1 else w1

/-- the `while (len > 0)` loop of `alac_write_*`, counted in frames -/
def writeLoop (cd : Codec σ α) (w : W σ α) (xs : List α) : W σ α :=
  if _h : xs = [] then w
  else writeLoop cd (writeStep cd w xs) (xs.drop (wcOf w.staged.length xs.length))
termination_by xs.length
decreasing_by
  have : xs.length > 0 := List.length_pos_iff.mpr _h
  simp only [List.length_drop, wcOf]
  split <;> omega

/-- one `sf_write_*` call of whole frames: the codec loop, then the wrapper's `sf.frames` bookkeeping -/
def writeCall (cd : Codec σ α) (w : W σ α) (xs : List α) : W σ α :=
  let w1 := writeLoop cd w xs
  { w1 with frames := w1.frames + xs.length }

def writeCalls (cd : Codec σ α) (w : W σ α) (calls : List (List α)) : W σ α := calls.foldl (writeCall cd) w

/-- the first half of `alac_close`: a partially assembled packet is encoded as the final one -/
def finish (cd : Codec σ α) (w : W σ α) : W σ α :=
  if 0 < w.staged.length ∧ w.staged.length < fpb then encodeBlock cd w else w

/-- mMaxFrameBytes -/
def maxSize (sizes : List Nat) : Nat := sizes.foldl max 0

/-- the two chunks `alac_close` hands to caf_write_header -/
def closeChunks (c : Cfg) (cd : Codec σ α) (w : W σ α) : List Byte :=
  let w1 := finish cd w
  wchunk "kuki" (kuki c (maxSize w1.sizes)) ++
    wchunk "pakt" ((paktEncode w1.sizes w.frames w.staged.length).getD [])

/-- the whole file after sf_close: header (with the final data length), the packets, one pad byte when the length is odd -/
def closedBytes (c : Cfg) (cd : Codec σ α) (w : W σ α) : List Byte :=
  let w1 := finish cd w
  let hd := header c (closeChunks c cd w) w1.tmp.length
  hd ++ w1.tmp ++ (if (hd.length + w1.tmp.length) % 2 = 1 then [0] else [])

/-! ## read path -/

/-- the I/O layer as an oracle: `io off n` = the bytes one psf_fread of `n` bytes at data-relative offset `off` delivers
    (any list; a good file delivers exactly the `n` bytes stored there) -/
abbrev IO := Nat → Nat → List Byte

def fileIO (data : List Byte) : IO := fun off n => (data.drop off).take n

structure R (α : Type) where
  sizes : List Nat             -- pakt_info->packet_size [0 .. count)
  cur   : Nat := 0             -- pakt_info->current
  inPos : Nat := 0             -- input_data_pos - dataoffset
  block : List α := []         -- plac->buffer [0 .. frames_this_block)
  ftb   : Nat := 0             -- frames_this_block
  part  : Nat := 0             -- partial_block_frames

/-- `alac_decode_block`: false = the function returned 0 -/
def decodeBlock (cd : Codec σ α) (io : IO) (r : R α) : R α × Bool :=
  if r.cur ≥ r.sizes.length then (r, false)                      -- alac_reader_next_packet_size: table exhausted
  else
    let sz := r.sizes.getD r.cur 0
    let r1 := { r with cur := r.cur + 1 }
    if sz = 0 then (r1, false)
    else if sz > maxPacket then (r1, false)
    else
      let bs := io r.inPos sz
      if bs.length ≠ sz then (r1, false)
      else
        let out := cd.dec bs
        ({ r1 with inPos := r.inPos + sz, block := out, ftb := out.length, part := 0 }, true)

/-- the `while (len > 0)` loop of `alac_read_*`, in frames; `fuel` is an upper bound of the number of iterations
    (`readFuel`): every iteration either consumes a table entry or delivers at least one frame -/
def readLoop (cd : Codec σ α) (io : IO) : Nat → R α → Nat → R α × List α
  | 0, r, _ => (r, [])
  | fuel + 1, r, len =>
    if len = 0 then (r, [])
    else
      let (r1, ok) := if r.part ≥ r.ftb then decodeBlock cd io r else (r, true)
      if !ok then (r1, [])
      else
        let rc := min (r1.ftb - r1.part) len
        let out := (r1.block.drop r1.part).take rc
        let r2 := { r1 with part := r1.part + rc }
        let (r3, rest) := readLoop cd io fuel r2 (len - rc)
        (r3, out ++ rest)

def readFuel (r : R α) (len : Nat) : Nat := (r.sizes.length - r.cur) + len + 1

/-- `alac_read_*` (len frames) -/
def readCall (cd : Codec σ α) (io : IO) (r : R α) (len : Nat) : R α × List α := readLoop cd io (readFuel r len) r len

/-- `alac_pakt_block_offset` -/
def blockOffset (sizes : List Nat) (block : Nat) : Nat := (sizes.take block).sum

/-- `alac_seek (psf, SFM_READ, offset)`: `none` = PSF_SEEK_ERROR -/
def seekR (cd : Codec σ α) (io : IO) (r : R α) (offset : Nat) : Option (R α) :=
  if offset = 0 then some { r with ftb := 0, inPos := 0, cur := 0 }          -- partial_block_frames is left as it is
  else if offset > r.sizes.length * fpb then none
  else
    let nb := offset / fpb
    let r1 := (decodeBlock cd io { r with inPos := blockOffset r.sizes nb, cur := nb }).1     -- result ignored
    some { r1 with part := offset % fpb }

/-- `alac_reader_calc_frames`: count table entries up to the first zero (or the first one not below the file length),
    seek to the start of the last counted packet, decode it, add its frame count -/
def countBlocks (filelength : Nat) : List Nat → Nat
  | [] => 0
  | s :: rest => if s = 0 then 0 else if s < filelength then 1 + countBlocks filelength rest else 1

def calcFrames (cd : Codec σ α) (io : IO) (filelength : Nat) (r : R α) : R α × Nat :=
  let blocks := countBlocks filelength r.sizes
  if blocks = 0 then (r, 0)                                   -- (the table position is reset by the caller's alac_seek)
  else
    let full := fpb * (blocks - 1)
    match seekR cd io { r with cur := 0 } full with
    | none => (r, full)
    | some r1 =>
      let r2 := (decodeBlock cd io r1).1
      ({ r2 with cur := 0 }, full + r2.ftb)

/-- a handle open for reading as the public API sees it -/
structure RHandle (α : Type) where
  r      : R α
  frames : Nat
  pos    : Nat := 0            -- psf->read_current

/-- `alac_reader_init` after the table was parsed: frame count, then `alac_seek (psf, SFM_READ, 0)` -/
def RHandle.open (cd : Codec σ α) (io : IO) (filelength : Nat) (sizes : List Nat) : RHandle α :=
  let (r1, n) := calcFrames cd io filelength { sizes := sizes }
  { r := { r1 with ftb := 0, inPos := 0, cur := 0 }, frames := n }

/-- `sf_read_* (len frames)`: `none` = nothing read, the whole buffer is zero filled -/
def RHandle.read (cd : Codec σ α) (io : IO) (h : RHandle α) (len : Nat) : RHandle α × Option (List α) × Nat :=
  if len = 0 then (h, some [], 0)
  else if h.pos ≥ h.frames then (h, none, 0)
  else
    let (r1, xs) := readCall cd io h.r len
    let cnt := xs.length
    let ret := if h.pos + cnt ≤ h.frames then cnt else h.frames - h.pos
    ({ h with r := r1, pos := h.pos + ret }, some (xs.take ret), ret)

/-- `sf_seek` to the absolute frame `k` (the wrapper has checked `0 ≤ k ≤ frames`) -/
def RHandle.seek (cd : Codec σ α) (io : IO) (h : RHandle α) (k : Nat) : Option (RHandle α) :=
  if k > h.frames then none
  else (seekR cd io h.r k).map fun r1 => { h with r := r1, pos := k }

end Sf.Alac
