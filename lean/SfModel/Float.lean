/-
  SfModel.Float — IEEE-754 binary32 / binary64 as exact integer arithmetic.

  Lean's `Float` is opaque to the kernel, so it is never used.  A floating value is its bit pattern
  (`Nat`); a *finite* pattern denotes the dyadic rational  (-1)^s · m · 2^e  (`Dy`).  Rounding is
  round-to-nearest, ties-to-even, as performed by SSE scalar arithmetic on x86-64 (trusted base).
-/
import SfModel.Basic
namespace Sf.Float

/-- a finite dyadic value  (-1)^neg · m · 2^e  -/
structure Dy where
  neg : Bool
  m   : Nat
  e   : Int
deriving Repr, DecidableEq, Inhabited

structure Fmt where
  mbits : Nat     -- explicit fraction bits (23 / 52)
  ebits : Nat     -- exponent bits (8 / 11)
deriving Repr, DecidableEq

def f32 : Fmt := ⟨23, 8⟩
def f64 : Fmt := ⟨52, 11⟩

def Fmt.bias (f : Fmt) : Nat := 2 ^ (f.ebits - 1) - 1
def Fmt.emax (f : Fmt) : Nat := 2 ^ f.ebits - 1          -- all-ones exponent (Inf/NaN)
def Fmt.width (f : Fmt) : Nat := 1 + f.ebits + f.mbits
/-- exponent of the least significant bit of a subnormal / of exponent field 1 -/
def Fmt.qmin (f : Fmt) : Int := 1 - (f.bias : Int) - (f.mbits : Int)

def Fmt.sign (f : Fmt) (b : Nat) : Bool := (b / 2 ^ (f.ebits + f.mbits)) % 2 = 1
def Fmt.expo (f : Fmt) (b : Nat) : Nat := (b / 2 ^ f.mbits) % 2 ^ f.ebits
def Fmt.frac (f : Fmt) (b : Nat) : Nat := b % 2 ^ f.mbits

def Fmt.isFinite (f : Fmt) (b : Nat) : Bool := f.expo b != f.emax
def Fmt.isNormal (f : Fmt) (b : Nat) : Bool := f.expo b != f.emax && f.expo b != 0

/-- exact value of a finite bit pattern (Inf/NaN are mapped to the value their fields would have; callers
    guard with `isFinite`) -/
def Fmt.toDy (f : Fmt) (b : Nat) : Dy :=
  let ex := f.expo b
  if ex = 0 then ⟨f.sign b, f.frac b, f.qmin⟩
  else ⟨f.sign b, 2 ^ f.mbits + f.frac b, (ex : Int) - 1 + f.qmin⟩

/-- round-half-even of m / 2^k -/
def rneShr (m k : Nat) : Nat :=
  let d := 2 ^ k
  let q := m / d
  let r := m % d
  if 2 * r > d ∨ (2 * r = d ∧ q % 2 = 1) then q + 1 else q

/-- m · 2^k rounded to an integer, ties to even (k may be negative) -/
def rneScale (m : Nat) (k : Int) : Nat :=
  if k ≥ 0 then m * 2 ^ k.toNat else rneShr m (-k).toNat

def bitLen (m : Nat) : Nat := if m = 0 then 0 else Nat.log2 m + 1

/-- round a dyadic to the format (RNE); overflow gives ±Inf. -/
def Fmt.ofDy (f : Fmt) (d : Dy) : Nat :=
  let sgn := if d.neg then 2 ^ (f.ebits + f.mbits) else 0
  if d.m = 0 then sgn else
  let E : Int := d.e + (bitLen d.m : Int) - 1            -- exponent of the leading bit
  let q0 : Int := E - f.mbits
  let q : Int := if q0 < f.qmin then f.qmin else q0      -- quantum
  let mant0 := rneScale d.m (d.e - q)
  -- rounding may carry into the next binade
  let (mant, q) := if mant0 ≥ 2 ^ (f.mbits + 1) then (mant0 / 2, q + 1) else (mant0, q)
  if mant < 2 ^ f.mbits then sgn + mant                  -- subnormal (or zero after rounding)
  else
    let ex : Int := q - f.qmin + 1
    if ex ≥ f.emax then sgn + f.emax * 2 ^ f.mbits       -- ±Inf
    else sgn + ex.toNat * 2 ^ f.mbits + (mant - 2 ^ f.mbits)

def Dy.mul (a b : Dy) : Dy := ⟨a.neg != b.neg, a.m * b.m, a.e + b.e⟩
def Dy.ofInt (x : Int) : Dy := ⟨x < 0, x.natAbs, 0⟩
def Dy.isZero (a : Dy) : Bool := a.m = 0
/-- a ≥ 0 as a real number (−0 counts as ≥ 0, as `x >= 0` does in C) -/
def Dy.nonneg (a : Dy) : Bool := !a.neg || a.m = 0

/-- exact comparison  a ≤ b  -/
def Dy.toIntScaled (a : Dy) (e : Int) : Int :=      -- a / 2^e as an integer, requires e ≤ a.e
  (if a.neg then -1 else 1) * (a.m : Int) * 2 ^ (a.e - e).toNat
def Dy.le (a b : Dy) : Bool :=
  let e := if a.e ≤ b.e then a.e else b.e
  a.toIntScaled e ≤ b.toIntScaled e
def Dy.lt (a b : Dy) : Bool := !(b.le a)

/-- mathematical round-to-nearest-even integer of a dyadic (what `lrint`/`cvtss2si` compute in range) -/
def Dy.rint (a : Dy) : Int :=
  let r := rneScale a.m a.e
  if a.neg then - (r : Int) else r

/-- absolute value -/
def Dy.abs (a : Dy) : Dy := ⟨false, a.m, a.e⟩

/-- `floor` of a dyadic -/
def Dy.floor (a : Dy) : Int :=
  if a.e ≥ 0 then (if a.neg then -1 else 1) * ((a.m * 2 ^ a.e.toNat : Nat) : Int)
  else
    let d := 2 ^ (-a.e).toNat
    if a.neg then - (((a.m + d - 1) / d : Nat) : Int) else ((a.m / d : Nat) : Int)

inductive Variant | lrint | sse2
deriving Repr, DecidableEq

/-- `psf_lrintf` / `psf_lrint` returning C `int`.
    * sse2 build: `_mm_cvtss_si32` / `_mm_cvtsd_si32` — out of int range gives 0x80000000.
    * lrint build: glibc `lrintf` returns a 64-bit `long` (`cvtss2si r64`: out of long range gives
      LONG_MIN), then the implicit conversion to `int` keeps the low 32 bits. -/
def lrintInt (v : Variant) (a : Dy) : Int :=
  let r := a.rint
  match v with
  | .sse2  => if r < -2147483648 ∨ r > 2147483647 then -2147483648 else r
  | .lrint => if r < -9223372036854775808 ∨ r > 9223372036854775807 then 0 else wrapS 32 r

/-- product of two finite values, rounded to the format -/
def Fmt.mul (f : Fmt) (a b : Nat) : Nat := f.ofDy ((f.toDy a).mul (f.toDy b))
/-- convert an integer to the format (C `(float) i`) -/
def Fmt.ofInt (f : Fmt) (x : Int) : Nat := f.ofDy (Dy.ofInt x)
/-- widen binary32 to binary64 (exact) / narrow binary64 to binary32 (RNE) -/
def f32to64 (b : Nat) : Nat :=
  if f32.isFinite b then f64.ofDy (f32.toDy b)
  else (if f32.sign b then 2 ^ 63 else 0) + 2047 * 2 ^ 52 + f32.frac b * 2 ^ 29
def f64to32 (b : Nat) : Nat :=
  if f64.isFinite b then f32.ofDy (f64.toDy b)
  else (if f64.sign b then 2 ^ 31 else 0) + 255 * 2 ^ 23 + (if f64.frac b = 0 then 0 else 2 ^ 22 + f64.frac b / 2 ^ 29)

end Sf.Float

namespace Sf.Float
/-- quotient of two finite values rounded to the format (RNE); `b` must be non-zero.
    The quotient is computed to `mbits + 3` extra bits plus a sticky bit, which determines RNE exactly. -/
def Fmt.divDy (f : Fmt) (a b : Dy) : Nat :=
  if a.m = 0 then f.ofDy ⟨a.neg != b.neg, 0, 0⟩ else
  let shift := bitLen b.m + f.mbits + 3
  let n := a.m * 2 ^ shift
  let q := n / b.m
  let sticky := if n % b.m = 0 then 0 else 1
  f.ofDy ⟨a.neg != b.neg, 2 * q + sticky, a.e - b.e - (shift : Int) - 1⟩
def Fmt.div (f : Fmt) (a b : Nat) : Nat := f.divDy (f.toDy a) (f.toDy b)
end Sf.Float
