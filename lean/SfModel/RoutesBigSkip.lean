/-
  SfModel.RoutesBigSkip — header_seek (SEEK_CUR) over a gap that does NOT fit the header cache (psf_bump_header_allocation
  refuses to grow it beyond 100 KiB), as operations of the I/O shim of SfModel/Routes.lean:

    seekable routes   `psf_fseek (psf, position, SEEK_CUR)`                                             -> `seekCur gap`
    a pipe            `while (skip) { to_skip = SF_MIN (skip, sizeof (junk)) ; psf_fread (junk, 1, to_skip, psf) ; skip -= to_skip ; }`
                      with `char junk [16 * 1024]`                                                      -> `junkReads gap`

  `junkReadsP p fuel gap` is the loop for a scratch buffer of `p` bytes (`fuel` = an upper bound of the number of turns: each turn
  takes at least one byte while p > 0).  What the loop subtracts per turn is a parameter too (`junkLoop dec`): the code subtracts the
  BYTES asked for (`decBytes`); `decItems` subtracts the return value of an `fread (buf, to_skip, 1, f)`-shaped call (items, i.e. 1),
  the neighbouring mistake the campaign slice vlib/bigskip.py exists for.
-/
import SfModel.Routes
namespace Sf.RoutesBigSkip
open Sf Sf.Routes

def PIECE : Nat := 16 * 1024
def CAP : Nat := 100 * 1024

/-- the loop with the per-turn decrement as a parameter: `dec toSkip` = what `skip -= …` takes off -/
def junkLoop (dec : Nat → Nat) (p : Nat) : Nat → Nat → List Op
  | 0, _ => []
  | fuel + 1, skip =>
    if skip = 0 then [] else
    Op.read 1 ((min skip p : Nat) : Int) :: junkLoop dec p fuel (skip - dec (min skip p))

/-- the code: `skip -= to_skip` -/
def decBytes : Nat → Nat := fun toSkip => toSkip
/-- an `fread (junk, to_skip, 1, psf)` whose return value (items) is subtracted -/
def decItems : Nat → Nat := fun _ => 1

def junkReadsP (p fuel gap : Nat) : List Op := junkLoop decBytes p fuel gap
/-- header_seek's pipe branch for an uncached gap -/
def junkReads (gap : Nat) : List Op := junkReadsP PIECE gap gap

/-- the seekable branch -/
def seekCur (gap : Nat) : List Op := [.seek (gap : Int) 1]

/-- the uncached skip, then the first read of `m` audio bytes -/
def firstAudioPipe (gap m : Nat) : List Op := junkReads gap ++ [.read 1 (m : Int)]
def firstAudioSeek (gap m : Nat) : List Op := seekCur gap ++ [.read 1 (m : Int)]

/-- header_seek decides: is a forward skip of `gap` from cache index `indx` cached?  (after the allowed bump to at most CAP) -/
def cached (indx gap : Nat) : Bool := indx + gap ≤ CAP

/-- bytes a list of shim reads asks for -/
def asked : List Op → Nat
  | [] => 0
  | .read b i :: ops => (b * i).toNat + asked ops
  | _ :: ops => asked ops

end Sf.RoutesBigSkip
