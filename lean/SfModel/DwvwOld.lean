/-
  SfModel.DwvwOld — the loop of `dwvw_decode_data` as it was BEFORE the repair of KF-DWVW-TAIL-CALL (library commit
  "fix: a DWVW decode call that started after the look-ahead had passed the end of the file returned 0"): the end test
  was `b.end == 0 && count == 0`, i.e. it looked at the CALL boundary (`first`), so a call that started after the bit
  loader had found the end of the file delivered nothing although samples were left in the reservoir.  Kept next to
  the current rule (SfModel/Dwvw.lean) for the `…_old_rule` theorems of SfProps/C01Dwvw.lean and for `sfmodel dwvw … rule=old`.
-/
import SfModel.Dwvw
namespace Sf.Dwvw.Old
open Sf Sf.Dwvw

/-- one iteration of the loop of `dwvw_decode_data`; `first` = (`count == 0`).  A −1 from the bit loader is used
    as a value exactly as the C does (a non-zero flag, `-1 | x = -1`). -/
def decStep (c : Cfg) (first : Bool) (d : DSt) : Out :=
  let M := c.maxDelta
  let (d1, m) := getDwm c d
  if m < 0 ∨ (d1.endZero ∧ first) then .stop d1
  else
    let (d2, dwm) : DSt × Int :=
      if m ≠ 0 then (let (e, s) := getBits 1 d1; (e, if s ≠ 0 then -m else m)) else (d1, m)
    let dw := cmod (d2.ldw + dwm + c.w) c.w
    let (d3, delta) : DSt × Int :=
      if dw ≠ 0 then
        let (e1, v) := getBits (dw - 1).toNat d2
        let delta0 : Int := if v < 0 then -1 else v + 2 ^ (dw - 1).toNat          -- v | (1 << (dw - 1))
        let (e2, neg) := getBits 1 e1
        let (e3, delta1) : DSt × Int :=
          if delta0 = M - 1 then (let (e, x) := getBits 1 e2; (e, delta0 + x)) else (e2, delta0)
        (e3, if neg ≠ 0 then -delta1 else delta1)
      else (d2, 0)
    let s0 := d3.last + delta
    let s := if s0 ≥ M then s0 - c.span else if s0 < -M then s0 + c.span else s0
    .sample { d3 with ldw := dw, last := s } (s * 2 ^ c.shift)

/-- the loop of `dwvw_decode_data` for `len` cells: the samples *counted* (a sample decoded when the input has
    ended and the reservoir is empty is stored but not counted, yet it stays in `last_sample`) -/
def decLoop (c : Cfg) : Bool → Nat → DSt → DSt × List Int
  | _, 0, d => (d, [])
  | first, n + 1, d =>
    match decStep c first d with
    | .stop d1 => (d1, [])
    | .sample d1 x =>
      if d1.endZero ∧ d1.pend.length = 0 then (d1, [])
      else
        let (d2, xs) := decLoop c false n d1
        (d2, x :: xs)

/-- `dwvw_decode_data (ptr, len)` -/
def decodeData (c : Cfg) (len : Nat) (d : DSt) : DSt × List Int := decLoop c true len d

/-- one read of `n` samples (`dwvw_read_i`) from a freshly opened decoder over `bytes` -/
def decodeAll (c : Cfg) (bytes : List Byte) (n : Nat) : List Int := (decodeData c n (DSt.init bytes)).2

/-- successive calls of `dwvw_decode_data` with the lengths `ns` on one decoder; the samples delivered, call by call -/
def decodeCalls (c : Cfg) : DSt → List Nat → List (List Int)
  | _, [] => []
  | d, n :: ns => let (d1, xs) := decodeData c n d; xs :: decodeCalls c d1 ns

/-- `psf_decode_frame_count` under the old rule -/
def frameScan (c : Cfg) : Nat → DSt → Nat → Nat
  | 0, _, total => total
  | fuel + 1, d, total =>
    let (d1, xs) := decodeData c 2048 d
    if xs.length = 0 then total else frameScan c fuel d1 (total + xs.length)

end Sf.Dwvw.Old
