/-
  SfModel.NmsFile — NMS ADPCM as a handle sees it (RAW and WAV containers, one channel: `nms_adpcm_init` refuses
  anything else): the write side as an instance of the generic block writer (`nms_adpcm_write_block`: accumulate 160
  samples, encode + emit when full; `nms_adpcm_close`: zero the tail of a started block and emit it), with the encoder
  state carried from block to block; the caller-type front ends `nms_adpcm_write_s/i/f/d`, `nms_adpcm_read_s/i/f/d`
  (4096-short staging for int / float / double callers); the geometry `nms_adpcm_init` computes at open
  (`blocks_total`, `sf.frames`, partial final block counted as a whole one); the read side as an instance of the
  generic block reader whose `decodeBlock k` is block k of the *sequential* decode of the data region (the decoder
  state runs through all blocks; the handle can never leave the sequential order because every `sf_seek` is refused:
  `nms_adpcm_init` sets `sf.seekable = SF_FALSE`); `sf_read_*` clamping; `sf_seek`; and `nms_adpcm_seek` itself (only
  reachable with offset 0, unreachable through `sf_seek`).

  Short final block.  `psf_nms_adpcm_decode_block` reads `shortsperblock` shorts; when fewer (k) arrive it clears the
  rest.  `blockWords` is the rule of the repaired library (`memset (block + k, …)`: shorts k … are zero);
  `blockWordsOld` is the rule before the repair (`memset (block + k * sizeof (short), …)`: the pointer is advanced by
  2k shorts, so shorts [k, 2k) keep what the previous block left there and the store runs up to k shorts past the
  end of the array) — kept for the `_old_rule` theorems of SfProps/C06Nms.lean.

  Reading past `sf.frames`: `nms_adpcm_read_block` stops at `block_curr > blocks_total`, one block later than the
  data, so a request that crosses the end makes the codec decode one block of whatever follows the data region
  (nothing in a RAW file).  `sf_read_*` then cuts the count to `sf.frames − read_current` and zero-fills from there,
  and the handle is at its end for good (no seek), so those samples are never seen: the reader below has
  `frames = 160 · (blocks_total + 1)` as the C does and a block of zeros at index `blocks_total`
  (`SfProps/C06Nms.lean: nms_read_clamped` shows the delivered cells do not depend on it).
-/
import SfModel.Nms
import SfModel.Block
import SfModel.BlockConv
import SfModel.BlockFile
import SfModel.AdpcmReader
namespace Sf.Nms
open Sf.Block Sf.Float

/-! ## caller types -/

/-- the short a caller value becomes (`nms_adpcm_write_s/i/f/d`) -/
def ofCaller (c : Conv) (ty : Ty) (v : Int) : Int :=
  match ty with
  | .s16 => v
  | .s32 => asr v 16                                                   -- ptr [k] >> 16
  | .f32 => wrapS 16 (lrintInt c.variant (mulNf f32 (if c.normF then pow2 15 else pow2 0) v.toNat))
  | .f64 => wrapS 16 (lrintInt c.variant (mulNf f64 (if c.normD then pow2 15 else pow2 0) v.toNat))

/-- what the caller receives for a decoded short (`nms_adpcm_read_s/i/f/d`) -/
def toCaller (c : Conv) (ty : Ty) (v : Int) : Int :=
  match ty with
  | .s16 => v
  | .s32 => v * 65536                                                  -- arith_shift_left (sptr [k], 16)
  | .f32 => intTimes f32 (if c.normF then pow2 (-15) else pow2 0) v
  | .f64 => intTimes f64 (if c.normD then pow2 (-15) else pow2 0) v

/-- staging: short callers hand their buffer over in one piece, the others go through `ubuf.sbuf`
    (`SF_BUFFER_LEN / sizeof (short)` = 4096 shorts) -/
def chunkOf (ty : Ty) : Nat := if ty = .s16 then 0 else 4096

/-! ## write side -/

def writer (r : Rate) : Writer St := { spb := spb, ch := 1, enc := encodeBlock r }

/-- one `sf_write_T` call -/
def writeCall (r : Rate) (cv : Conv) (st : WState St) (call : Ty × List Int) : WState St :=
  wcall (writer r) (chunkOf call.1) st (call.2.map (ofCaller cv call.1))

def openW (r : Rate) : WState St := (writer r).init (St.init r)

/-- `nms_adpcm_close`: `if (sample_curr && sample_curr < 160) { memset the tail to 0 ; encode }` -/
def closeW (r : Rate) (st : WState St) : WState St := (writer r).close true st

/-- the data region of the closed file after any list of write calls -/
def closedData (r : Rate) (cv : Conv) (calls : List (Ty × List Int)) : List Byte :=
  (closeW r (calls.foldl (writeCall r cv) (openW r))).bytes

/-- the same from the shorts the codec sees: whole blocks, the last one zero-padded, encoder state carried through -/
def encodeAll (r : Rate) : Nat → St → List Int → List Byte
  | 0, _, _ => []
  | fuel + 1, s, xs =>
    if xs = [] then []
    else
      let blk := xs.take spb
      let (s1, bytes) := encodeBlock r s (blk ++ zeros (spb - blk.length))
      bytes ++ encodeAll r fuel s1 (xs.drop spb)

/-! ## geometry at open -/

/-- `nms_adpcm_init`: `blocks_total` from the length of the data region -/
def blocksTotal (r : Rate) (datalength : Nat) : Nat :=
  if datalength % r.blockBytes ≠ 0 then datalength / r.blockBytes + 1 else datalength / r.blockBytes

/-- `sf.frames` after open -/
def framesAtOpen (r : Rate) (datalength : Nat) : Nat := blocksTotal r datalength * spb

/-! ## read side -/

/-- the `shorts` words the decoder is given for the bytes `got` that `psf_fread` delivered (repaired rule: whole
    shorts kept, the rest of the block zero) -/
def blockWords (r : Rate) (_prev : List Nat) (got : List Byte) : List Nat :=
  let ws := wordsOfLE got
  (ws ++ List.replicate (r.shorts - ws.length) 0).take r.shorts

/-- the rule before the repair.  `prev`: the 41 shorts of `pnms->block` as the previous block left them.  The bytes
    read overwrite the front (an odd last byte lands in the low half of short k); when k < shorts the shorts
    [2k, shorts + k) are cleared — those below 41 in the array, the rest in `pnms->samples` behind it (overwritten
    by the unpacker before it is read) -/
def blockWordsOld (r : Rate) (prev : List Nat) (got : List Byte) : List Nat :=
  let k := got.length / 2
  let ws := wordsOfLE got
  let odd : List Nat := if got.length % 2 = 1 then [got.getLastD 0 + 256 * (prev.getD k 0 / 256)] else []
  let front := ws ++ odd
  let buf := front ++ prev.drop front.length
  if k = r.shorts then buf
  else (List.range 41).map fun i => if 2 * k ≤ i ∧ i < r.shorts + k then 0 else buf.getD i 0

/-- sequential decode of `n` blocks: the decoder state and the block buffer run through -/
def decodeBlocks (r : Rate) (fill : Rate → List Nat → List Byte → List Nat) : Nat → St → List Nat → List Byte → List (List Int)
  | 0, _, _, _ => []
  | n + 1, s, buf, data =>
    let ws := fill r buf (data.take r.blockBytes)
    let (s1, xs) := decodeBlock r s ws
    xs :: decodeBlocks r fill n s1 ws (data.drop r.blockBytes)

/-- the decoded blocks of a data region of `len` bytes; `bytes` = the file from the data offset to its end (at least the
    region; `psf_fread` does not stop at the end of the data chunk, so a short final block of a WAV data chunk that has
    another chunk behind it is filled from that chunk) -/
def decodedBlocksIn (r : Rate) (fill : Rate → List Nat → List Byte → List Nat) (len : Nat) (bytes : List Byte) : List (List Int) :=
  decodeBlocks r fill (blocksTotal r len) (St.init r) (List.replicate 41 0) bytes

/-- the usual case: the data region runs to the end of the file -/
def decodedBlocks (r : Rate) (fill : Rate → List Nat → List Byte → List Nat) (data : List Byte) : List (List Int) :=
  decodedBlocksIn r fill data.length data

/-- the sample stream of a data region: a function of the bytes only -/
def stream (r : Rate) (data : List Byte) : List Int := (decodedBlocks r blockWords data).flatten

def readerWith (r : Rate) (fill : Rate → List Nat → List Byte → List Nat) (len : Nat) (bytes : List Byte) : Reader :=
  let bt := blocksTotal r len
  let blocks := decodedBlocksIn r fill len bytes
  { spb := spb, ch := 1, frames := spb * (bt + 1),
    src := fun k => if k < bt then fixLen spb (blocks.getD k []) else zeros spb }

def reader (r : Rate) (data : List Byte) : Reader := readerWith r blockWords data.length data
def readerOld (r : Rate) (data : List Byte) : Reader := readerWith r blockWordsOld data.length data

/-- a handle opened for reading on a data region -/
def openR (r : Rate) (data : List Byte) : RHandle := RHandle.open (reader r data) (framesAtOpen r data.length)
def openROld (r : Rate) (data : List Byte) : RHandle := RHandle.open (readerOld r data) (framesAtOpen r data.length)
/-- … on a data region of `len` bytes followed by more bytes of the file -/
def openRIn (r : Rate) (old : Bool) (len : Nat) (bytes : List Byte) : RHandle :=
  RHandle.open (readerWith r (if old then blockWordsOld else blockWords) len bytes) (framesAtOpen r len)

/-- `sf_read_T (n items)`: (handle, the cells of the caller's buffer that were written — a prefix of the request —,
    return value) -/
def read (cv : Conv) (ty : Ty) (h : RHandle) (n : Nat) : RHandle × List Int × Nat :=
  let (h1, d, ret) := h.readBrk (chunkOf ty) true n
  (h1, d.map (toCaller cv ty), ret)

/-- `sf_seek`: `sf.seekable` is false, so every call — any offset, any whence, also `SEEK_CUR` 0 — returns −1 with
    SFE_NOT_SEEKABLE and touches nothing -/
def sfSeek (_h : RHandle) (_offset : Int) (_whence : Nat) : Option Nat := none

/-- `nms_adpcm_seek (psf, mode, offset)` on a read handle: only `mode = SFM_READ`, `offset = 0` succeeds, and rewinds
    (`block_curr = sample_curr = 0`, codec re-initialised: the next read decodes block 0 again) -/
def codecSeek (h : RHandle) (modeIsRead : Bool) (offset : Int) : Option RHandle :=
  if !modeIsRead then none
  else if offset ≠ 0 then none
  else some { h with st := h.r.init, pos := 0 }

end Sf.Nms
