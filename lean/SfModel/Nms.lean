/-
  SfModel.Nms — the Natural MicroSystems ADPCM codec of src/nms_adpcm.c (16 / 24 / 32 kbit/s: 2-, 3-, 4-bit
  codewords), bit for bit: `struct nms_adpcm_state`, `nms_adpcm_antilog`, `nms_adpcm_update`,
  `nms_adpcm_reconstruct_sample`, `nms_adpcm_encode_sample`, `nms_adpcm_decode_sample`, the three block packers and
  unpackers, `nms_adpcm_encode_block` (with the "rms" word) and `nms_adpcm_decode_block`.

  C integers: `short` fields are `Int` kept in [-32768, 32767] by an explicit `wrapS 16` wherever the C stores into a
  `short`; products and sums are computed in `int` / `int_fast32_t` (a 64-bit `long` on x86-64 glibc — no
  intermediate comes near 2^63, see `SfProps/C07Nms.lean`, so they are exact `Int`s here); `>>` on a negative value
  is the arithmetic shift gcc emits (`asr` = floor division); `/` is C's truncating division (`cdiv`); `x & m` with
  a mask `m = 2^k − 1` on a two's-complement value is `x % 2^k` (Euclidean); `(a ^ b) >= 0` on two shorts is "equal
  sign bits".  The block packers work on `uint16_t` words: `Nat` with Lean's (kernel-accelerated) bit operations and
  an explicit `% 65536` wherever the C stores into a `uint16_t`.

  The four tables are transcribed from the source; the campaign of vlib/nms.py compares encoder bytes and decoder
  samples with the running library, so a changed table entry shows up as a disagreement.

  Core Lean only.
-/
import SfModel.Basic
namespace Sf.Nms

/-- NMS_SAMPLES_PER_BLOCK -/
def spb : Nat := 160

inductive Rate | r16 | r24 | r32
deriving Repr, DecidableEq, Inhabited

/-- `t_off`: offset into the code tables -/
def Rate.tOff : Rate → Nat | .r16 => 0 | .r24 => 8 | .r32 => 16
/-- NMS_BLOCK_SHORTS_16/24/32 -/
def Rate.shorts : Rate → Nat | .r16 => 21 | .r24 => 31 | .r32 => 41
def Rate.blockBytes (r : Rate) : Nat := 2 * r.shorts
/-- codeword bits kept by the rate (`I &= 0xc`, `I &= 0xe`, nothing) -/
def Rate.mask : Rate → Nat | .r16 => 0xc | .r24 => 0xe | .r32 => 0xf
def Rate.bits : Rate → Nat | .r16 => 2 | .r24 => 3 | .r32 => 4

/-! ## tables -/

def tableExpn : List Int :=
  [0x4000, 0x4167, 0x42d5, 0x444c, 0x45cb, 0x4752, 0x48e2, 0x4a7a,
   0x4c1b, 0x4dc7, 0x4f7a, 0x5138, 0x52ff, 0x54d1, 0x56ac, 0x5892,
   0x5a82, 0x5c7e, 0x5e84, 0x6096, 0x62b4, 0x64dd, 0x6712, 0x6954,
   0x6ba2, 0x6dfe, 0x7066, 0x72dc, 0x7560, 0x77f2, 0x7a93, 0x7d42]

def tableScaleFactorStep : List Int :=
  [0x0, 0x0, 0x0, 0x0, 0x4b0, 0x0, 0x0, 0x0,
   -0x3c, 0x0, 0x90, 0x0, 0x2ee, 0x0, 0x898, 0x0,
   -0x30, 0x12, 0x6b, 0xc8, 0x188, 0x2e0, 0x551, 0x1150]

def tableStep : List Int :=
  [0x73F, 0, 0, 0, 0x1829, 0, 0, 0,
   0x3EB, 0, 0xC18, 0, 0x1581, 0, 0x226E, 0,
   0x20C, 0x635, 0xA83, 0xF12, 0x1418, 0x19E3, 0x211A, 0x2BBA]

def tableStepSearch : List Int :=
  [0, 0x1F6D, 0, -0x1F6D, 0, 0, 0, 0,
   0x1008, 0x1192, 0, -0x219A, 0x1656, -0x1656, 0, 0,
   0x872, 0x1277, -0x8E6, -0x232B, 0xD06, -0x17D7, -0x11D3, 0]

/-! ## codec state -/

structure St where
  yl : Int := 0                          -- log of the step size multiplier
  y  : Int := 0                          -- step size multiplier
  a0 : Int := 0                          -- pole predictor coefficients a[0], a[1]
  a1 : Int := 0
  b  : List Int := [0, 0, 0, 0, 0, 0]    -- zero predictor coefficients b[0..5]
  dq : List Int := [0, 0, 0, 0, 0, 0, 0] -- previous quantized deltas d_q[0..6]
  p0 : Int := 0                          -- p[0..2]
  p1 : Int := 0
  p2 : Int := 0
  sr0 : Int := 0                         -- s_r[0..1]
  sr1 : Int := 0
  sez : Int := 0
  se  : Int := 0
  ik  : Nat := 0                         -- the most recent codeword
  parity : Nat := 0
  tOff : Nat := 0
deriving Repr, DecidableEq, Inhabited

/-- `nms_adpcm_codec_init` -/
def St.init (r : Rate) : St := { tOff := r.tOff }

/-- the shift count `26 - (exp >> 11)` of `nms_adpcm_antilog` (a C `int`) -/
def antilogShift (exp : Int) : Int := 26 - asr exp 11

/-- the table index `(exp & 0x7c0) >> 6` -/
def antilogIndex (exp : Int) : Nat := (exp / 64 % 32).toNat

/-- `nms_adpcm_antilog` -/
def antilog (exp : Int) : Int :=
  let r : Int := 0x1000 + asr ((exp % 64) * 0x166b) 12
  let r := r * tableExpn.getD (antilogIndex exp) 0
  wrapS 16 (asr r (antilogShift exp).toNat)

/-- `(a ^ b) >= 0` for two shorts: the sign bits agree -/
def sameSign (a b : Int) : Bool := decide (a < 0) == decide (b < 0)

/-- one zero-predictor coefficient: decay, then ± 128 by the signs of d_q[0] and d_q[i+1] -/
def updB (dq0 : Int) (bi dqi1 : Int) : Int :=
  let v := wrapS 16 (asr (bi * 0xff) 8)
  if sameSign dq0 dqi1 then wrapS 16 (v + 128) else wrapS 16 (v - 128)

def dot : List Int → List Int → Int
  | x :: xs, y :: ys => x * y + dot xs ys
  | _, _ => 0

/-- the index `s->t_off + (s->Ik & 7)` of the two codeword tables -/
def codeIndex (tOff ik : Nat) : Nat := tOff + ik % 8

/-- the scale factor part of `nms_adpcm_update`: decay, add the codeword's step, clamp to [2171, 20480] -/
def nextYl (s : St) : Int :=
  let yl := wrapS 16 (asr (s.yl * 0xf8) 8 + tableScaleFactorStep.getD (codeIndex s.tOff s.ik) 0)
  if yl < 2171 then 2171 else if yl > 20480 then 20480 else yl

/-- the pole predictor part of `nms_adpcm_update`: (a[0], a[1]) -/
def nextA (s : St) : Int × Int :=
  let fa1 := wrapS 16 (asr s.a0 5)
  let fa1 := if fa1 < -256 then -256 else if fa1 > 256 then 256 else fa1
  let a0 := wrapS 16 (asr (s.a0 * 0xff) 8)
  let c1 := s.p0 ≠ 0 ∧ s.p1 ≠ 0 ∧ !sameSign s.p0 s.p1
  let a0 := if c1 then wrapS 16 (a0 - 192) else wrapS 16 (a0 + 192)
  let fa1 := if c1 then fa1 else wrapS 16 (- fa1)
  let a1 := wrapS 16 (fa1 + asr (s.a1 * 0xfe) 8)
  let c2 := s.p0 ≠ 0 ∧ s.p2 ≠ 0 ∧ !sameSign s.p0 s.p2
  let a1 := if c2 then wrapS 16 (a1 - 128) else wrapS 16 (a1 + 128)
  -- stability constraints
  let a1 := if a1 < -12288 then -12288 else if a1 > 12288 then 12288 else a1
  let a1ul := wrapS 16 (15360 - a1)
  let a0 := if a0 ≥ a1ul then a1ul else if a0 < wrapS 16 (- a1ul) then wrapS 16 (- a1ul) else a0
  (a0, a1)

/-- `nms_adpcm_update` -/
def update (s : St) : St :=
  let yl := nextYl s
  -- zero predictor coefficients
  let dq0 := s.dq.headD 0
  let b := List.zipWith (updB dq0) s.b s.dq.tail
  let a := nextA s
  -- zero predictor estimate, rotate the past deltas
  let sez0 := dot (s.dq.take 6) b
  let se0 := sez0 + a.1 * s.sr0 + a.2 * s.sr1
  { s with yl := yl, y := antilog yl, a0 := a.1, a1 := a.2, b := b, dq := dq0 :: s.dq.take 6,
           sez := wrapS 16 (asr sez0 14), se := wrapS 16 (asr se0 14),
           sr1 := s.sr0, p2 := s.p1, p1 := s.p0 }

/-- `nms_adpcm_reconstruct_sample` (I is a `uint8_t`) -/
def reconstruct (s : St) (i : Nat) : St × Int :=
  let dqx : Int := tableStep.getD (codeIndex s.tOff i) 0 * s.y
  let dqx := if i / 8 % 2 = 1 then - dqx else dqx
  let dqx := asr dqx 12
  let sr0 := wrapS 16 (s.se + dqx)
  ({ s with dq := wrapS 16 dqx :: s.dq.tail, sr0 := sr0, ik := i % 16, p0 := wrapS 16 (s.sez + dqx) }, sr0)

/-- `table_step_search [s->t_off + k] * s->y` -/
def search (s : St) (k : Nat) : Int := tableStepSearch.getD (s.tOff + k) 0 * s.y

/-- the binary search of `nms_adpcm_encode_sample` on the scaled magnitude `d` -/
def quantize (s : St) (d : Int) : Nat :=
  let d := d + search s 3
  if d ≥ 0 then
    let d := d + search s 5
    if d ≥ 0 then
      let d := d + search s 6
      if d ≥ 0 then 7 else 6
    else
      let d := d + search s 4
      if d ≥ 0 then 5 else 4
  else
    let d := d + search s 1
    if d ≥ 0 then
      let d := d + search s 2
      if d ≥ 0 then 3 else 2
    else
      let d := d + search s 0
      if d ≥ 0 then 1 else 0

/-- the codeword bits a rate keeps (`if (s->t_off == 8) I &= 0xe ; else if (s->t_off == 0) I &= 0xc`) -/
def maskOf (tOff : Nat) : Nat := if tOff = 8 then 0xe else if tOff = 0 then 0xc else 0xf

/-- `nms_adpcm_encode_sample`: (state, codeword) -/
def encodeSample (s : St) (sl : Int) : St × Nat :=
  let sl := wrapS 16 (cdiv (sl * 0x1fdf) 0x7fff)
  let par := (s.parity + 1) % 2                        -- s->parity ^= 1
  let s := { update s with parity := par }
  let d := sl - s.se
  let d := if par ≠ 0 then d - 2 else d
  let sign := if d < 0 then 8 else 0
  let d := if d < 0 then - d else d
  let i := (sign + quantize s (d * 8192)) &&& maskOf s.tOff
  let (s, _) := reconstruct s i
  (s, i)

/-- `nms_adpcm_decode_sample`: (state, 16-bit sample) -/
def decodeSample (s : St) (i : Nat) : St × Int :=
  let (s, sl) := reconstruct (update s) i
  let sl := if sl < -0x1fdf then -0x1fdf else if sl > 0x1fdf then 0x1fdf else sl
  (s, wrapS 16 (cdiv (sl * 0x7fff) 0x1fdf))

/-! ## codeword packing: `uint16_t` words -/

def u16 (x : Nat) : Nat := x % 65536

/-- the four codewords of a word: `(w >> 12) & m`, `(w >> 8) & m`, `(w >> 4) & m`, `w & m` -/
def nibbles (m w : Nat) : List Nat := [(w >>> 12) &&& m, (w >>> 8) &&& m, (w >>> 4) &&& m, w &&& m]

/-- `w = c0 << 12 ; w |= c1 << 8 ; w |= c2 << 4 ; w |= c3` -/
def word4 (c0 c1 c2 c3 : Nat) : Nat := u16 (u16 (u16 (u16 (c0 <<< 12) ||| (c1 <<< 8)) ||| (c2 <<< 4)) ||| c3)

/-- `nms_adpcm_block_pack_32`: the words of the codewords (without the rms word) -/
def pack32 : List Nat → List Nat
  | c0 :: c1 :: c2 :: c3 :: rest => word4 c0 c1 c2 c3 :: pack32 rest
  | _ => []

def unpack32 (ws : List Nat) : List Nat := ws.flatMap (nibbles 0xf)

/-- `nms_adpcm_block_pack_16`: eight 2-bit codewords per word -/
def word8 (c0 c1 c2 c3 c4 c5 c6 c7 : Nat) : Nat :=
  u16 (u16 (u16 (u16 (word4 c0 c1 c2 c3 ||| (c4 <<< 10)) ||| (c5 <<< 6)) ||| (c6 <<< 2)) ||| (c7 >>> 2))

def pack16 : List Nat → List Nat
  | c0 :: c1 :: c2 :: c3 :: c4 :: c5 :: c6 :: c7 :: rest => word8 c0 c1 c2 c3 c4 c5 c6 c7 :: pack16 rest
  | _ => []

/-- `nms_adpcm_block_unpack_16`: the word, then the word shifted left by two -/
def unpack16 (ws : List Nat) : List Nat := ws.flatMap fun w => nibbles 0xc w ++ nibbles 0xc (u16 (w <<< 2))

/-- one group of `nms_adpcm_block_pack_24`: sixteen 3-bit codewords into three words, the low bits of the last four
    spread over the free bit of each nibble -/
def group24 (c : List Nat) : List Nat :=
  let g (i : Nat) : Nat := c.getD i 0
  let w0 := word4 (g 0) (g 1) (g 2) (g 3)
  let w1 := word4 (g 4) (g 5) (g 6) (g 7)
  let w2 := word4 (g 8) (g 9) (g 10) (g 11)
  let res := word4 (g 12) (g 13) (g 14) (g 15)
  let res := res >>> 1
  let w2 := u16 (w2 ||| (res &&& 0x1111))
  let res := res >>> 1
  let w1 := u16 (w1 ||| (res &&& 0x1111))
  let res := res >>> 1
  let w0 := u16 (w0 ||| (res &&& 0x1111))
  [w0, w1, w2]

def pack24 : Nat → List Nat → List Nat
  | 0, _ => []
  | fuel + 1, cs => if cs.length < 16 then [] else group24 (cs.take 16) ++ pack24 fuel (cs.drop 16)

/-- one group of `nms_adpcm_block_unpack_24`: three words, then the residual built from their low nibble bits -/
def ungroup24 (w0 w1 w2 : Nat) : List Nat :=
  let res := u16 ((0 <<< 1) ||| (w0 &&& 0x1111))
  let res := u16 ((res <<< 1) ||| (w1 &&& 0x1111))
  let res := u16 ((res <<< 1) ||| (w2 &&& 0x1111))
  nibbles 0xe w0 ++ nibbles 0xe w1 ++ nibbles 0xe w2 ++ nibbles 0xe (u16 (res <<< 1))

def unpack24 : List Nat → List Nat
  | w0 :: w1 :: w2 :: rest => ungroup24 w0 w1 w2 ++ unpack24 rest
  | _ => []

def pack (r : Rate) (codes : List Nat) : List Nat :=
  match r with
  | .r16 => pack16 codes
  | .r24 => pack24 (codes.length / 16 + 1) codes
  | .r32 => pack32 codes

/-- the codewords of the first `shorts − 1` words of a block -/
def unpack (r : Rate) (ws : List Nat) : List Nat :=
  match r with
  | .r16 => unpack16 ws
  | .r24 => unpack24 ws
  | .r32 => unpack32 ws

/-! ## blocks -/

/-- the encoding loop of `nms_adpcm_encode_block`: (state, codewords, `rms` as the `unsigned int` it is) -/
def encodeSamples : St → List Int → Nat → St × List Nat × Nat
  | s, [], rms => (s, [], rms)
  | s, x :: xs, rms =>
    let rms := wrapU 32 ((rms : Int) + asr (x * x) 2)
    let (s1, c) := encodeSample s x
    let (s2, cs, rms2) := encodeSamples s1 xs rms
    (s2, c :: cs, rms2)

def wordsLE (ws : List Nat) : List Byte := ws.flatMap fun w => [w % 256, w / 256 % 256]

/-- `nms_adpcm_encode_block` + the little-endian store: 160 samples -> `shorts` words.  The last word is
    `(int16_t) (rms << 12)` stored into a `uint16_t` -/
def encodeBlock (r : Rate) (s : St) (samples : List Int) : St × List Byte :=
  let (s1, codes, rms) := encodeSamples s samples 0
  let rmsw := wrapU 16 (wrapU 32 ((rms : Int) * 4096))
  (s1, wordsLE (pack r codes ++ [rmsw]))

def decodeCodes : St → List Nat → St × List Int
  | s, [] => (s, [])
  | s, c :: cs =>
    let (s1, x) := decodeSample s c
    let (s2, xs) := decodeCodes s1 cs
    (s2, x :: xs)

/-- little-endian words of a byte string (an odd last byte is dropped) -/
def wordsOfLE : List Byte → List Nat
  | a :: b :: rest => (a + 256 * b) :: wordsOfLE rest
  | _ => []

/-- `nms_adpcm_decode_block` on the `shorts` words of a block (the rms word is not looked at) -/
def decodeBlock (r : Rate) (s : St) (ws : List Nat) : St × List Int :=
  decodeCodes s (unpack r (ws.take (r.shorts - 1)))

end Sf.Nms
