/-
  SfModel.Chunk — custom chunks (sf_set_chunk / sf_get_chunk_iterator / sf_next_chunk_iterator /
  sf_get_chunk_size / sf_get_chunk_data) for WAV, RF64, AIFF and CAF.

  Code-shaped model of
    src/chunk.c    psf_save_write_chunk (as repaired by adbbe09, and the rule before the repair),
                   marker_of_str (ids padded with spaces; `mark32Old` = the snprintf into an uninitialised union it replaced),
                   psf_chunk_id_is_printable, psf_chunk_id_is_one_of and the reserved lists of the four *_set_chunk,
                   psf_store_read_chunk, hash_of_str, psf_find_read_chunk_str, psf_get_chunk_iterator
                   (as repaired by ee77a20: a NULL id clears the hash), psf_next_chunk_iterator
    src/sndfile.c  sf_set_chunk (refused once audio has been written, 7d7b1a3)
    src/common.c   psf_bump_header_allocation and the per-format-character checks of psf_binheader_writef
    src/wavlike.c  wavlike_write_custom_chunks; aiff.c / caf.c: the "Write custom headers" loops
    src/wav.c, rf64.c, aiff.c, caf.c   the chunk walk of the header parsers as far as it concerns chunks the
                   parser does not interpret, *_get_chunk_size, *_get_chunk_data, and what *_write_header does
                   when the header has grown after audio was written.
  Core Lean only (the driver links against this).
-/
import SfModel.Basic
namespace Sf.Chunk

/-! ## 1. The write table (`WRITE_CHUNKS {count, used, chunks}`) and the read table -/

/-- `count` is what the code believes the capacity is, `alloc` the number of elements really allocated,
    `oob` records that an element was stored at an index ≥ `alloc` (heap overflow). -/
structure WTab where
  count : Nat
  alloc : Nat
  used  : Nat
  oob   : Bool
deriving DecidableEq, Repr

def WTab.init : WTab := ⟨0, 0, 0, false⟩

/-- `new_count = 3 * (count + 1) / 2` -/
def growCount (c : Nat) : Nat := 3 * (c + 1) / 2

/-- the store `pchk->chunks [pchk->used] = …; pchk->used ++` -/
def WTab.store (t : WTab) : WTab :=
  { t with oob := t.oob || decide (t.used ≥ t.alloc), used := t.used + 1 }

/-- `psf_save_write_chunk`, growth part, as the code is now (commit adbbe09: `count` updated with the pointer). -/
def WTab.save (t : WTab) : WTab :=
  (if t.count = 0 then { t with used := 0, count := 20, alloc := 20 }
   else if t.used ≥ t.count then { t with count := growCount t.count, alloc := growCount t.count }
   else t).store

/-- the rule before the repair: the table is reallocated to `new_count` elements but `count` keeps its old value,
    so every later call reallocates to the same 31 elements. -/
def WTab.saveOld (t : WTab) : WTab :=
  (if t.count = 0 then { t with used := 0, count := 20, alloc := 20 }
   else if t.used ≥ t.count then { t with alloc := growCount t.count }
   else t).store

/-- `psf_store_read_chunk`: same shape (`used == count` grows; `used > count` is refused with SFE_INTERNAL). -/
def WTab.storeRead (t : WTab) : WTab :=
  if t.count = 0 then ({ t with used := 0, count := 20, alloc := 20 } : WTab).store
  else if t.used > t.count then t
  else if t.used = t.count then ({ t with count := growCount t.count, alloc := growCount t.count } : WTab).store
  else t.store

def iter (f : α → α) : Nat → α → α
  | 0, a => a
  | n+1, a => f (iter f n a)

/-- the invariant the hook `sf_verif_check_invariants` would assert -/
def WTab.ok (t : WTab) : Prop := t.used ≤ t.alloc ∧ t.oob = false ∧ t.count = t.alloc

instance (t : WTab) : Decidable t.ok := by unfold WTab.ok; exact inferInstance

/-! ## 2. Identifiers: marker and hash -/

abbrev Id := List Byte

/-- the C-string view of `id [64]` (the API passes `chunk_info->id` to `strlen`/`snprintf`; `id_size` is not used
    when writing) -/
def cstr (id : Id) : List Byte := id.takeWhile (· ≠ 0)

/-- `hash_of_str`, with int64 wrap-around -/
def hashOfStr (s : List Byte) : Nat := wrapU 64 (s.foldl (fun (m : Int) (b : Byte) => m * 0x7f + (b : Int)) 0)

structure Mark where
  a : Byte
  b : Byte
  c : Byte
  d : Byte
deriving DecidableEq, Repr

def Mark.bytes (m : Mark) : List Byte := [m.a, m.b, m.c, m.d]
/-- the `uint32_t` the little-endian host reads from the union -/
def Mark.u32 (m : Mark) : Nat := m.a + 256 * m.b + 65536 * m.c + 16777216 * m.d

/-- `marker_of_str`: `snprintf (u.str, 5, "%-4.4s", id)`: the first four characters of the C string, an id of fewer
    than four characters padded with spaces (0x20).  Used for storing a chunk and for looking one up alike. -/
def markerOf (id : Id) : Mark :=
  match cstr id with
  | a :: b :: c :: d :: _ => ⟨a, b, c, d⟩
  | [a, b, c] => ⟨a, b, c, 32⟩
  | [a, b] => ⟨a, b, 32, 32⟩
  | [a] => ⟨a, 32, 32, 32⟩
  | [] => ⟨32, 32, 32, 32⟩

/-- THE RULE BEFORE THE REPAIR of C13-short-id.
    `snprintf (u.str, 5, "%.4s", id)` into an *uninitialised* union: the bytes after the terminating NUL keep
    whatever the stack held (`g0 g1 g2`: indeterminate; they are parameters of the model).  Ids of four or more
    characters do not depend on them. -/
def mark32Old (g : Byte × Byte × Byte) (id : Id) : Mark :=
  match cstr id with
  | a :: b :: c :: d :: _ => ⟨a, b, c, d⟩
  | [a, b, c] => ⟨a, b, c, 0⟩
  | [a, b] => ⟨a, b, 0, g.2.2⟩
  | [a] => ⟨a, 0, g.2.1, g.2.2⟩
  | [] => ⟨0, g.1, g.2.1, g.2.2⟩

/-- `strlen (id) > 4 ? hash_of_str (id) : marker_of_str (id)` -/
def idHash (id : Id) : Nat :=
  if (cstr id).length > 4 then hashOfStr (cstr id) else (markerOf id).u32

/-- the lookup hash before the repair of C13-short-id (same uninitialised union) -/
def idHashOld (g : Byte × Byte × Byte) (id : Id) : Nat :=
  if (cstr id).length > 4 then hashOfStr (cstr id) else (mark32Old g id).u32

def isPrint (b : Byte) : Bool := 32 ≤ b && b ≤ 126      -- psf_isprint / isprint in the C locale

inductive Container | wav | rf64 | aiff | caf
deriving DecidableEq, Repr

def mk4 (s : String) : Mark :=
  match s.toList.map Char.toNat with
  | [a, b, c, d] => ⟨a, b, c, d⟩
  | _ => ⟨0, 0, 0, 0⟩

/-- markers the container's header parser *interprets* (anything it only logs and skips is not listed).
    A custom chunk carrying one of these is parsed as that chunk when the file is re-opened. -/
def interpreted : Container → List Mark
  | .wav  => ["RIFF", "RIFX", "fmt ", "data", "fact", "PEAK", "cue ", "smpl", "acid", "INFO", "LIST", "bext", "cart"].map mk4
  | .rf64 => ["ds64", "fmt ", "bext", "cart", "INFO", "LIST", "PEAK", "data"].map mk4
  | .aiff => ["FORM", "COMM", "PEAK", "SSND", "(c) ", "AUTH", "COMT", "APPL", "NAME", "ANNO", "INST", "basc", "MARK",
              "NONE", "CHAN"].map mk4
  | .caf  => ["peak", "chan", "data", "pakt", "info"].map mk4

/-- markers that end the model's walk because the container's own code takes over from there
    (the chunks every file has after the custom ones) -/
def trailer : Container → List Mark
  | .wav  => ["PAD ", "data"].map mk4
  | .rf64 => ["PAD ", "data"].map mk4
  | .aiff => ["SSND"].map mk4
  | .caf  => ["free", "data"].map mk4

/-- does the parser's default branch accept the marker? WAV, RF64, AIFF: four printable characters
    (else "Exiting parser" at a 4-aligned position, or a resynchronising scan elsewhere); CAF: anything. -/
def markAccepted (c : Container) (m : Mark) : Bool :=
  match c with
  | .caf => true
  | _ => isPrint m.a && isPrint m.b && isPrint m.c && isPrint m.d

/-- THE RULE BEFORE THE REPAIR (part of C13-reserved-id).  WAV only: `(marker & 0xffffff) == 'TAG'` and the chunk
    starts 128 bytes before the end of the file was taken for an ID3v1 trailer, wherever it stood. -/
def tagLikeOld (c : Container) (m : Mark) : Bool := c == .wav && m.a == 84 && m.b == 65 && m.c == 71

/-- The repaired WAV parser makes the ID3v1 test only once it has seen the `data` chunk (`parsestage & HAVE_data`);
    the chunks of this model stand in front of it, so no marker is special here any more. -/
def tagLike (_c : Container) (_m : Mark) : Bool := false

/-- markers for which the model claims the round trip: not zero, accepted by the parser's default branch,
    neither interpreted by the container nor one of its trailing chunks -/
def legalMark (c : Container) (m : Mark) : Bool :=
  m.u32 != 0 && markAccepted c m && !(interpreted c).contains m && !(trailer c).contains m && !tagLike c m

/-- THE RULE BEFORE THE REPAIRS: the identifiers for which the round trip held: exactly four characters, none of
    them NUL, a legal marker, and not `TAG?` -/
def legalIdOld (c : Container) (id : Id) : Bool :=
  match id with
  | [a, b, cc, d] => a != 0 && b != 0 && cc != 0 && d != 0 && legalMark c ⟨a, b, cc, d⟩ && !tagLikeOld c ⟨a, b, cc, d⟩
  | _ => false

/-! ### what the repaired `*_set_chunk` functions accept -/

/-- the `reserved []` tables of wav_set_chunk, rf64_set_chunk, aiff_set_chunk, caf_set_chunk -/
def reserved : Container → List Mark
  | .wav  => ["RIFF", "RIFX", "fmt ", "fact", "data", "PEAK", "cue ", "smpl", "acid", "bext", "cart"].map mk4
  | .rf64 => ["ds64", "fmt ", "data", "PEAK", "bext", "cart"].map mk4
  | .aiff => ["FORM", "COMM", "SSND", "PEAK", "MARK", "INST", "CHAN", "(c) ", "NAME", "AUTH", "ANNO", "COMT", "basc",
              "NONE"].map mk4
  | .caf  => ["desc", "data", "pakt", "kuki", "peak", "chan", "info"].map mk4

/-- `psf_chunk_id_is_printable` (asked by WAV, RF64, AIFF only) -/
def printableMark (m : Mark) : Bool := isPrint m.a && isPrint m.b && isPrint m.c && isPrint m.d

/-- `sf_set_chunk` returns 0: no audio written yet (`have_written`), the padded marker is printable where the
    container's parser needs that, and it is not in the container's reserved table -/
def accepts (c : Container) (wrote : Bool) (id : Id) : Bool :=
  !wrote && (c == .caf || printableMark (markerOf id)) && !(reserved c).contains (markerOf id)

/-- accepted, but the container's reader looks inside the chunk (LIST / INFO lists, APPL application chunks) or the
    writer emits chunks of that name itself (PAD, free): the read table of this model does not describe them -/
def passThrough : Container → List Mark
  | .wav  => ["LIST", "INFO", "PAD "].map mk4
  | .rf64 => ["LIST", "INFO", "PAD "].map mk4
  | .aiff => ["APPL"].map mk4
  | .caf  => ["free"].map mk4

/-- the identifiers for which the model claims the round trip: EVERY id of any length that the repaired
    `sf_set_chunk` accepts before the audio, other than the pass-through names -/
def legalId (c : Container) (id : Id) : Bool :=
  accepts c false id && !(passThrough c).contains (markerOf id)

/-! ## 3. Serialisation -/

/-- `len = datalen; while (len & 3) len ++` -/
def pad4 (n : Nat) : Nat := (n + 3) / 4 * 4

structure WChunk where
  mark : Mark
  len  : Nat            -- padded length, the value of the size field
  data : List Byte      -- psf_memdup: a zero-filled block of the padded size with the payload copied in
deriving DecidableEq, Repr

def zeros (n : Nat) : List Byte := List.replicate n 0

def WChunk.ofInfo (id : Id) (payload : List Byte) : WChunk :=
  ⟨markerOf id, pad4 payload.length, payload ++ zeros (pad4 payload.length - payload.length)⟩

/-- the stored chunk under the rule before the repair of C13-short-id -/
def WChunk.ofInfoOld (g : Byte × Byte × Byte) (id : Id) (payload : List Byte) : WChunk :=
  ⟨mark32Old g id, pad4 payload.length, payload ++ zeros (pad4 payload.length - payload.length)⟩

def le4 (n : Nat) : List Byte := [n % 256, n / 256 % 256, n / 65536 % 256, n / 16777216 % 256]
def be4 (n : Nat) : List Byte := [n / 16777216 % 256, n / 65536 % 256, n / 256 % 256, n % 256]

/-- the size field: "m4b" little-endian (WAV, RF64), "Em4b" big-endian (AIFF), "m44b" = 0 then len, big-endian (CAF) -/
def sizeField : Container → Nat → List Byte
  | .wav, n | .rf64, n => le4 n
  | .aiff, n => be4 n
  | .caf, n => be4 0 ++ be4 n

def hdrLen : Container → Nat
  | .caf => 12
  | _ => 8

def ser (c : Container) (w : WChunk) : List Byte := w.mark.a :: w.mark.b :: w.mark.c :: w.mark.d :: (sizeField c w.len ++ w.data)

def serAll (c : Container) (ws : List WChunk) : List Byte := ws.flatMap (ser c)

/-! ## 4. The header cache (`psf->header`, psf_binheader_writef, psf_bump_header_allocation)

Only lengths matter for what is kept and what is dropped. -/

structure HC where
  indx : Nat
  len  : Nat
deriving DecidableEq, Repr

/-- the limit of psf_bump_header_allocation -/
def HEADER_CAP : Nat := 100 * 1024

/-- `psf_bump_header_allocation (psf, needed)` since the repair ("fix: the 100k header buffer refused requests that would have
    fit"); `none` = "Request for header allocation denied".  The request is doubled as before; when the doubled size passes the
    limit the buffer grows to the limit itself, provided the bytes the caller is about to use (`indx + needed`) fit. -/
def HC.bump (h : HC) (needed : Nat) : Option HC :=
  let newlen := if needed > h.len then 2 * max needed 256 else 2 * h.len
  if newlen > HEADER_CAP then (if h.indx + needed > HEADER_CAP then none else some { h with len := HEADER_CAP })
  else some { h with len := newlen }

/-- … before it: denied as soon as the doubled size passes the limit (a single item of more than 51200 bytes never fit) -/
def HC.bumpOld (h : HC) (needed : Nat) : Option HC :=
  let newlen := if needed > h.len then 2 * max needed 256 else 2 * h.len
  if newlen > HEADER_CAP then none else some { h with len := newlen }

/-- one format item of a `psf_binheader_writef` call: `raw = false` for m, 4, 8, 2, … (written without a further
    check, the loop head guarantees 16 bytes), `raw = true` for `b` (and `z`) -/
structure Item where
  raw : Bool
  n   : Nat
deriving DecidableEq, Repr

/-- One `psf_binheader_writef` call over the allocation rule `bump`.  Returns the cache and, per item, whether its bytes went
    into the header.  Loop head: `if (indx + 16 >= len && bump (16)) break` abandons the rest of the call;
    `b`: `if (indx + size > len && bump (size)) break` skips that item only. -/
def HC.writefW (bump : HC → Nat → Option HC) : HC → List Item → HC × List Bool
  | h, [] => (h, [])
  | h, it :: rest =>
    match (if h.indx + 16 ≥ h.len then bump h 16 else some h) with
    | none => (h, (it :: rest).map fun _ => false)
    | some h1 =>
      if it.raw then
        if h1.indx + it.n > h1.len then
          match bump h1 it.n with
          | none => let r := HC.writefW bump h1 rest; (r.1, false :: r.2)
          | some h2 => let r := HC.writefW bump { h2 with indx := h2.indx + it.n } rest; (r.1, true :: r.2)
        else let r := HC.writefW bump { h1 with indx := h1.indx + it.n } rest; (r.1, true :: r.2)
      else let r := HC.writefW bump { h1 with indx := h1.indx + it.n } rest; (r.1, true :: r.2)

def HC.writef : HC → List Item → HC × List Bool := HC.writefW HC.bump

/-- the format items of one custom chunk whose padded length is `len` -/
def chunkItems (c : Container) (len : Nat) : List Item :=
  match c with
  | .caf => [⟨false, 4⟩, ⟨false, 4⟩, ⟨false, 4⟩, ⟨true, len⟩]
  | _ => [⟨false, 4⟩, ⟨false, 4⟩, ⟨true, len⟩]

/-- the custom-chunk loop: one writef call per chunk; result: cache, and per chunk the flags of its items -/
def HC.writeChunksW (bump : HC → Nat → Option HC) (c : Container) : HC → List Nat → HC × List (List Bool)
  | h, [] => (h, [])
  | h, n :: ns =>
    let r := HC.writefW bump h (chunkItems c n)
    let r2 := HC.writeChunksW bump c r.1 ns
    (r2.1, r.2 :: r2.2)

def HC.writeChunks : Container → HC → List Nat → HC × List (List Bool) := HC.writeChunksW HC.bump

/-- the bytes of one chunk that reach the header, given the flags -/
def emitChunk (c : Container) (w : WChunk) (flags : List Bool) : List Byte :=
  let parts : List (List Byte) :=
    match c with
    | .caf => [w.mark.bytes, be4 0, be4 w.len, w.data]
    | _ => [w.mark.bytes, (sizeField c w.len), w.data]
  ((parts.zip flags).filter (·.2)).flatMap (·.1)

def emitChunks (c : Container) : List WChunk → List (List Bool) → List Byte
  | w :: ws, f :: fs => emitChunk c w f ++ emitChunks c ws fs
  | _, _ => []

/-- The header is assembled at least twice (when the first audio is written and at close), each time from
    `indx = 0` with the allocation reached so far.  `pre` = bytes the container writes before the custom chunks
    (RIFF/fmt, ds64/fmt, FORM/COMM, caff/desc: 36, 96, 38 and 52 bytes for 16-bit PCM without other metadata).
    Returns the per-chunk flags of the last pass and whether every item of every chunk was kept in both. -/
def cachePassesW (bump : HC → Nat → Option HC) (c : Container) (pre : Nat) (lens : List Nat) : List (List Bool) × Bool :=
  let p1 := HC.writeChunksW bump c ⟨pre, 256⟩ lens
  let p2 := HC.writeChunksW bump c ⟨pre, p1.1.len⟩ lens
  (p2.2, p2.2.all (·.all id) && p1.2.all (·.all id))

def cachePasses : Container → Nat → List Nat → List (List Bool) × Bool := cachePassesW HC.bump

/-- `fits`: every byte of every custom chunk reaches the header in both passes -/
def hdrFits (c : Container) (pre : Nat) (lens : List Nat) : Bool := (cachePasses c pre lens).2

/-- `fits` under the allocation rule before the repair -/
def hdrFitsOld (c : Container) (pre : Nat) (lens : List Nat) : Bool := (cachePassesW HC.bumpOld c pre lens).2

/-- the bytes between the container's leading chunks and its trailing ones -/
def customRegion (c : Container) (pre : Nat) (ws : List WChunk) : List Byte :=
  emitChunks c ws (cachePasses c pre (ws.map (·.len))).1

/-! ## 5. The parsers' chunk walk over chunks they do not interpret -/

structure RChunk where
  mark   : Mark
  offset : Nat          -- psf_ftell after marker and size: where the payload starts
  len    : Nat
  data   : List Byte    -- ghost: the `len` bytes at `offset` (what *_get_chunk_data reads)
deriving DecidableEq, Repr

def RChunk.hash (r : RChunk) : Nat := r.mark.u32      -- psf_store_read_chunk_u32: hash = marker

inductive Stop
  | eof          -- fewer bytes left than a chunk header
  | zeroMarker   -- "Have 0 marker"
  | trailer      -- the container's own chunks follow (PAD/data, SSND, free/data)
  | interpreted  -- a marker the container parses itself: outside this model
  | rejected     -- not printable: "Exiting parser" / resynchronising scan
  | short        -- size field larger than what is left in the file
  | fuel
deriving DecidableEq, Repr

def readSize : Container → List Byte → Option (Nat × List Byte)
  | .wav, s0 :: s1 :: s2 :: s3 :: r | .rf64, s0 :: s1 :: s2 :: s3 :: r =>
      some (s0 + 256 * s1 + 65536 * s2 + 16777216 * s3, r)
  | .aiff, s3 :: s2 :: s1 :: s0 :: r => some (s0 + 256 * s1 + 65536 * s2 + 16777216 * s3, r)
  | .caf, h3 :: h2 :: h1 :: h0 :: s3 :: s2 :: s1 :: s0 :: r =>
      some ((h0 + 256 * h1 + 65536 * h2 + 16777216 * h3) * 4294967296 + (s0 + 256 * s1 + 65536 * s2 + 16777216 * s3), r)
  | _, _ => none

/-- bytes skipped after an odd-sized chunk (`jump = chunk_size & 1` in wav.c and aiff.c) -/
def oddJump : Container → Nat → Nat
  | .wav, n | .aiff, n => n % 2
  | _, _ => 0

/-- walk from byte position `pos`, the remaining file being `bs` -/
def parse (c : Container) : Nat → Nat → List Byte → List RChunk × Stop × Nat × List Byte
  | 0, pos, bs => ([], .fuel, pos, bs)
  | fuel+1, pos, a :: b :: cc :: d :: rest =>
    let m : Mark := ⟨a, b, cc, d⟩
    match readSize c rest with
    | none => ([], .eof, pos, a :: b :: cc :: d :: rest)
    | some (sz, body) =>
      if m.u32 = 0 then ([], .zeroMarker, pos, a :: b :: cc :: d :: rest)
      else if (trailer c).contains m then ([], .trailer, pos, a :: b :: cc :: d :: rest)
      else if (interpreted c).contains m || tagLike c m then ([], .interpreted, pos, a :: b :: cc :: d :: rest)
      else if !markAccepted c m then ([], .rejected, pos, a :: b :: cc :: d :: rest)
      else if body.length < sz then ([], .short, pos, a :: b :: cc :: d :: rest)
      else
        let r := parse c fuel (pos + hdrLen c + sz + oddJump c sz) ((body.drop sz).drop (oddJump c sz))
        (⟨m, pos + hdrLen c, sz, body.take sz⟩ :: r.1, r.2)
  | _+1, pos, bs => ([], .eof, pos, bs)

/-! ## 6. Iterator (one per handle) -/

structure Iter where
  current : Nat
  hash    : Nat      -- 0: iterate over everything
deriving DecidableEq, Repr

/-- first index ≥ `i` (the list is the table from `i` on) whose hash is `h` -/
def findFrom (h : Nat) : List RChunk → Nat → Option Nat
  | [], _ => none
  | r :: rs, i => if r.hash = h then some i else findFrom h rs (i + 1)

/-- `psf_get_chunk_iterator`.  The handle owns ONE iterator object, allocated on first use and re-used afterwards.
    `stale` is the `hash` field left in that object: 0 at first and after an iteration ran to its end
    (`psf_next_chunk_iterator` clears the object when it returns NULL), but still the old id's hash when an iteration
    by id was abandoned half-way.  With a NULL id the repaired code (ee77a20) sets `current = 0` AND `hash = 0`. -/
def iterStart (tab : List RChunk) (_stale : Nat) (id : Option Id) : Option Iter :=
  match id with
  | none => if tab.length > 0 then some ⟨0, 0⟩ else none
  | some s => (findFrom (idHash s) tab 0).map fun i => ⟨i, idHash s⟩

/-- THE RULE BEFORE THE REPAIR of C13-stale-iterator: with a NULL id the code set `current = 0` and did NOT reset `hash`. -/
def iterStartOld (tab : List RChunk) (stale : Nat) (id : Option Id) : Option Iter :=
  match id with
  | none => if tab.length > 0 then some ⟨0, stale⟩ else none
  | some s => (findFrom (idHash s) tab 0).map fun i => ⟨i, idHash s⟩

/-- `psf_next_chunk_iterator`; `none` = iterator cleared, NULL returned -/
def iterNext (tab : List RChunk) (it : Iter) : Option Iter :=
  if it.hash ≠ 0 then (findFrom it.hash (tab.drop (it.current + 1)) (it.current + 1)).map fun i => ⟨i, it.hash⟩
  else if it.current + 1 < tab.length then some ⟨it.current + 1, 0⟩ else none

/-- indices visited by `get_iterator` followed by `next` until NULL (at most `fuel` entries) -/
def iterRun (tab : List RChunk) : Nat → Option Iter → List Nat
  | 0, _ => []
  | _, none => []
  | fuel+1, some it => it.current :: iterRun tab fuel (iterNext tab it)

/-- specification: the indices (from `i`) of the entries an iterator for `h` must visit, in order -/
def wanted (h : Nat) : List RChunk → Nat → List Nat
  | [], _ => []
  | r :: rs, i => if h = 0 ∨ r.hash = h then i :: wanted h rs (i + 1) else wanted h rs (i + 1)

/-- `*_get_chunk_size`: only `datalen` is set -/
def getSize (tab : List RChunk) (it : Iter) : Option Nat := (tab[it.current]?).map (·.len)

/-- `*_get_chunk_data`: `psf_fread (data, MIN (datalen, len), 1)` into the caller's buffer `buf` (|buf| = datalen) -/
def getData (r : RChunk) (buf : List Byte) : List Byte :=
  r.data.take (min buf.length r.len) ++ buf.drop (min buf.length r.len)

/-- THE RULE BEFORE THE REPAIR of C13-vio-zero-read (c8a9c60): over virtual I/O `psf_fread` divided by `bytes`:
    a zero-length read was a division by zero (SIGFPE). -/
def getDataTrapsOld (vio : Bool) (r : RChunk) (datalen : Nat) : Bool := vio && min datalen r.len == 0

/-- the repaired `psf_fread` returns 0 for a zero byte size on every route -/
def getDataTraps (_vio : Bool) (_r : RChunk) (_datalen : Nat) : Bool := false

/-! ## 7. A chunk set after audio was written

`*_write_header` at close assembles the header again, now with the late chunks, and writes it at offset 0 *before*
it notices `has_data && dataoffset != header.indx` (WAV, RF64, AIFF); CAF has no such test at all.  The audio
that was stored right behind the old header is overwritten by the tail of the new one. -/

/-- file after close: `hdrNew` written over `hdrOld ++ audio` -/
def closeOver (hdrOld hdrNew audio : List Byte) : List Byte :=
  hdrNew ++ (hdrOld ++ audio).drop hdrNew.length

/-- what a reader finds behind the new header -/
def audioAfter (hdrOld hdrNew audio : List Byte) : List Byte :=
  (closeOver hdrOld hdrNew audio).drop hdrNew.length

/-- total header length as a function of what precedes the audio chunk header.
    CAF (PCM): a `free` chunk pads so that the audio starts at a multiple of 0x1000:
    `free_len = 0x1000 - indx - 16 - 12` (+ 0x1000 while negative), then `data` header of 16 bytes. -/
def headerLen (c : Container) (pre custom : Nat) : Nat :=
  match c with
  | .wav | .rf64 => pre + custom + 8
  | .aiff => pre + custom + 16
  | .caf =>
    let indx := pre + custom
    let free : Int := 4096 - (indx : Int) - 28
    indx + 12 + (free % 4096).toNat + 16

/-! ## 7a. sf_set_chunk as a step of the write handle (repaired code)

`sf_set_chunk`: `if (psf->have_written) return SFE_CMD_HAS_DATA`, then the container's `*_set_chunk`: printable
(WAV, RF64, AIFF), not reserved, `psf_save_write_chunk`.  A refused call changes nothing. -/

structure WHandle where
  c      : Container
  wrote  : Bool              -- psf->have_written
  tab    : WTab
  chunks : List WChunk       -- the write table's entries, in order
deriving DecidableEq, Repr

def WHandle.init (c : Container) : WHandle := ⟨c, false, WTab.init, []⟩

/-- returns the handle and whether the call returned 0 -/
def WHandle.setChunk (h : WHandle) (id : Id) (payload : List Byte) : WHandle × Bool :=
  if accepts h.c h.wrote id then
    ({ h with tab := h.tab.save, chunks := h.chunks ++ [WChunk.ofInfo id payload] }, true)
  else (h, false)

/-- the first audio write -/
def WHandle.write (h : WHandle) : WHandle := { h with wrote := true }

/-! ## 8. Known-finding classes (decidable predicates; the `…_partial` theorems of SfProps/C13.lean exclude exactly these) -/

namespace KF
/-- class `short-id`: fewer than four characters: the marker gets a NUL and, below three characters, indeterminate
    stack bytes (`snprintf` into an uninitialised union) -/
def shortId (id : Id) : Bool := (cstr id).length < 4
/-- class `unprintable-id`: WAV, RF64, AIFF parsers give up on a marker with a byte outside 0x20…0x7e -/
def unprintableId (c : Container) (id : Id) : Bool := !shortId id && !markAccepted c (mark32Old (0, 0, 0) id)
/-- class `reserved-id`: accepted by the old sf_set_chunk (the documentation says it fails) and parsed as the container's
    own chunk on re-open -/
def reservedId (c : Container) (id : Id) : Bool :=
  !shortId id && ((interpreted c).contains (mark32Old (0, 0, 0) id) || (trailer c).contains (mark32Old (0, 0, 0) id)
    || tagLikeOld c (mark32Old (0, 0, 0) id))
/-- class `header-cache`: total serialised header beyond what the cache accepts — a custom chunk loses bytes (`hdrFits`), or the
    rest of the header behind the custom chunks (the audio chunk's own header; CAF: the `free` padding to a multiple of 0x1000
    first) does not end 16 bytes below the limit of the same buffer -/
def headerCache (c : Container) (pre : Nat) (lens : List Nat) : Bool :=
  !hdrFits c pre lens || headerLen c pre ((lens.map fun n => hdrLen c + n).foldl (· + ·) 0) + 16 > HEADER_CAP
/-- class `late-grow`: a chunk set after audio was written makes the header longer than the one the audio was
    written behind -/
def lateGrow (c : Container) (pre custom late : Nat) : Bool := headerLen c pre (custom + late) != headerLen c pre custom
/-- class `vio-zero-read`: sf_get_chunk_data reading zero bytes through SF_VIRTUAL_IO -/
def vioZeroRead (vio : Bool) (r : RChunk) (datalen : Nat) : Bool := getDataTrapsOld vio r datalen
/-- class `stale-iterator`: sf_get_chunk_iterator (NULL) while the handle's iterator still carries the hash of an
    unfinished iteration by id -/
def staleIterator (stale : Nat) (id : Option Id) : Bool := id.isNone && stale != 0
end KF

end Sf.Chunk
