/-
  SfModel.CrossTypeQ — the `query` clause of the cross-type contract (C02, round 8).

  Between two reads a caller may issue commands that only READ state: SFC_CALC_SIGNAL_MAX / _NORM_SIGNAL_MAX / _MAX_ALL_CHANNELS /
  _NORM_MAX_ALL_CHANNELS (which switch `norm_double` themselves for their scan and have to put it back), SFC_GET_NORM_FLOAT /
  _DOUBLE, SFC_GET_SIGNAL_MAX / _MAX_ALL_CHANNELS, SFC_GET_CLIPPING, sf_command (SFC_GET_CURRENT_SF_INFO).  C02 — "values are
  converted only by the documented rules" under the settings the CALLER made — demands that such a command changes neither the
  position nor what the following reads deliver: a plan WITH queries is judged exactly like the plan without them, against the
  same four reference streams (taken on handles that never saw a query).

  `QCall`, `stepOkQ`, `switchFromQ`, `switchOkQ` extend `Sf.CrossType.Call / stepOk / switchFrom / switchOk`; `strip` removes the
  queries.  (`sfmodel crosstype` judges a `cmd` / `info` line inside a plan as `QCall.query`: the position stands, the call counts.)
  The same clause for the two normalisation switches being DIFFERENT on one handle needs no new definition: `readAgree` takes
  `Conv.normF` and `Conv.normD` separately; the campaign now runs the settings (off, on) and (on, off) as well.
  Write side: `wqueryOk` — the closed file of a read/write handle whose write calls are interleaved with queries equals the file
  written without them.   Core Lean only.
-/
import SfModel.CrossType
namespace Sf.CrossTypeQ
open Sf Sf.CrossType

/-- one line of a plan: a read / seek of `Sf.CrossType`, or a state-reading command (its number) -/
inductive QCall
  | call (c : Call)
  | query (id : Nat)

def strip : List QCall → List Call
  | [] => []
  | .call c :: qs => c :: strip qs
  | .query _ :: qs => strip qs

/-- a query keeps the position; a call is judged by `stepOk` -/
def stepOkQ (ch : Nat) (refs : Refs) (pos : Nat) : QCall → Option Nat
  | .call c => stepOk ch refs pos c
  | .query _ => some pos

def switchFromQ (ch : Nat) (refs : Refs) : Nat → Nat → List QCall → Option Nat
  | _, _, [] => none
  | pos, k, c :: cs =>
    match stepOkQ ch refs pos c with
    | none => some k
    | some p => switchFromQ ch refs p (k + 1) cs

def switchOkQ (ch : Nat) (refs : Refs) (calls : List QCall) : Bool := (switchFromQ ch refs 0 0 calls).isNone

/-- write side: file written with queries between the write calls vs the file written without -/
def wqueryOk [BEq α] (t : Twin α) : Bool := t.xs == t.ys && t.fileX == t.fileY

end Sf.CrossTypeQ
