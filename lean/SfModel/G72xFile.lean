/-
  SfModel.G72xFile — G.721 / G.723 as a handle sees it (src/g72x.c): `g72x_init` for read and for write, the block
  geometry, `psf_g72x_decode_block` / `psf_g72x_encode_block`, the four read and the four write entry points with
  their conversions and 4096-item staging, `g72x_close` flushing the last block, `g72x_seek`, the frame count computed
  at open from the data length.  Reader and writer are instances of the generic block reader / writer of
  SfModel/Block.lean, the encoder state (`Sf.G72x.St`) being the cross-block state of the writer.

  One channel only: `g72x_init` returns SFE_G72X_NOT_MONO for any other channel count (the open fails).

  Where the shape differs from the C without any caller being able to see it
  * `psf_g72x_encode_block` clears `samples` after every block and `g72x_close` encodes the (already zero) tail;
    `Writer.emit` keeps the buffer and `Writer.close true` zeroes the tail at close: the encoded 120 shorts are the same.
  * asked for more than is left, `g72x_read_block` first delivers (and counts) up to 120 zeros from the cleared
    `samples` of the block after the last one, and only then zero-fills without counting; `Reader.readLoop` zero-fills
    without counting at once.  `sf_read_*` clamps the count to `frames − read_current` and zero-fills from there, and the
    handle cannot seek (`sf.seekable = 0`: every `sf_seek` fails before `g72x_seek` is reached), so the codec's
    position after that call is never used again: buffer contents and return value are identical (`RHandle.read`).
-/
import SfModel.G72x
import SfModel.Block
import SfModel.BlockConv
import SfModel.AdpcmReader
namespace Sf.G72x
open Sf.Float Sf.Block

/-- `SF_BUFFER_LEN / sizeof (short)`: the staging buffer of the int / float / double entry points; the short entry
    points hand the caller's buffer through (pieces of 0x10000000 items) -/
def chunkLen : Nat := 4096
def chunkOf (ty : Ty) : Nat := if ty = .s16 then 0 else chunkLen

/-- `g72x_write_s/i/f/d`: what a caller item becomes in `short sptr [k]` -/
def toCodec (cv : Conv) (ty : Ty) (v : Int) : Int :=
  match ty with
  | .s16 => v
  | .s32 => asr v 16                                                        -- ptr [k] >> 16
  | .f32 => s16 (lrintInt cv.variant (mulNf f32 (if cv.normF then pow2 15 else pow2 0) v.toNat))   -- psf_lrintf (normfact * ptr [k]), no clipping
  | .f64 => s16 (lrintInt cv.variant (mulNf f64 (if cv.normD then pow2 15 else pow2 0) v.toNat))

/-- `g72x_read_s/i/f/d`: what the caller receives for a decoded short -/
def toCaller (cv : Conv) (ty : Ty) (v : Int) : Int :=
  match ty with
  | .s16 => v
  | .s32 => wrapS 32 (v * 65536)                                            -- arith_shift_left (sptr [k], 16)
  | .f32 => intTimes f32 (if cv.normF then pow2 (-15) else pow2 0) v
  | .f64 => intTimes f64 (if cv.normD then pow2 (-15) else pow2 0) v

/-- `g72x_init`: `if (psf->sf.channels != 1) return SFE_G72X_NOT_MONO` — the open (read or write) fails -/
def initOk (channels : Nat) : Bool := channels = 1

/-! ## write side -/

/-- the block writer with the REAL encoder: 120 one-channel frames per block, encoder state carried across blocks -/
def writer (r : Rate) : Writer St := { spb := blockSamples, ch := 1, enc := encodeBlock r }

/-- `sf_write_T` of converted items -/
def writeCall (r : Rate) (cv : Conv) (ty : Ty) (st : WState St) (vs : List Int) : WState St :=
  let xs := vs.map (toCodec cv ty)
  (writer r).writeChunked (chunkOf ty) (xs.length + 1) st xs xs.length

/-- the data region after `sf_close`: every call, then `g72x_close` (a partly filled block is encoded with a zero tail) -/
def closedBytes (r : Rate) (cv : Conv) (calls : List (Ty × List Int)) : List Byte :=
  ((writer r).close true (calls.foldl (fun st c => writeCall r cv c.1 st c.2) ((writer r).init St.init))).bytes

/-! ## read side -/

/-- the block buffer after each `psf_fread (block, 1, bytesperblock)`: a short last read leaves the tail of the
    previous block in place (the buffer starts zeroed: `calloc`) -/
def blockBufs (bpb : Nat) : Nat → List Byte → List Byte → List (List Byte)
  | 0, _, _ => []
  | fuel + 1, prev, data =>
    if data.isEmpty then []
    else
      let got := data.take bpb
      let buf := got ++ prev.drop got.length
      buf :: blockBufs bpb fuel buf (data.drop bpb)

/-- decode the block buffers in file order, the decoder state carried from block to block -/
def decodeBufs (r : Rate) : St → List (List Byte) → List (List Int)
  | _, [] => []
  | st, b :: bs =>
    let (st1, xs) := decodeBlock r st b
    xs :: decodeBufs r st1 bs

/-- every decoded block of a data region -/
def decodeAll (r : Rate) (data : List Byte) : List (List Int) :=
  decodeBufs r St.init (blockBufs r.blockBytes (data.length + 1) (List.replicate r.blockBytes 0) data)

/-- `blocks_total`: a trailing partial block counts -/
def blocksTotal (r : Rate) (datalen : Nat) : Nat := (datalen + r.blockBytes - 1) / r.blockBytes

/-- the block reader over a data region (data offset … end of file) -/
def reader (r : Rate) (data : List Byte) : Reader :=
  let blocks := decodeAll r data
  { spb := blockSamples, ch := 1, frames := blocksTotal r data.length * blockSamples,
    src := fun k => blocks.getD k (zeros blockSamples) }

structure RHandle where
  r      : Reader
  st     : RState
  pos    : Nat          -- psf->read_current
  frames : Nat          -- psf->sf.frames = blocks_total * samplesperblock

def RHandle.open (r : Rate) (data : List Byte) : RHandle :=
  let rd := reader r data
  ⟨rd, rd.init, 0, rd.frames⟩

/-- `sf_read_T (n items)`: (handle, the n cells of the caller's buffer as decoded shorts, return value) -/
def RHandle.read (h : RHandle) (ty : Ty) (n : Nat) : RHandle × List Int × Nat :=
  if n = 0 then (h, [], 0)
  else if h.pos ≥ h.frames then (h, zeros n, 0)
  else
    let (st, d, count) := h.r.readChunkedBrk (chunkOf ty) true (n + 1) h.st n [] 0
    let c := min count (h.frames - h.pos)
    ({ h with st := st, pos := h.pos + c }, d.take c ++ zeros (n - c), c)

/-- `sf_seek`: the handle is not seekable, every call fails (SFE_NOT_SEEKABLE) and changes nothing -/
def RHandle.seek (_h : RHandle) (_offset : Int) (_whence : Nat) : Option RHandle := none

/-- frames a reader finds in a file whose data region has `n` bytes -/
def framesAtOpen (r : Rate) (n : Nat) : Nat := blocksTotal r n * blockSamples

end Sf.G72x
