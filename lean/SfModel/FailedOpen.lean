/-
  SfModel.FailedOpen — what a FAILING sf_open writes into the caller's file (C09, C16).

  psf_open_file (sndfile.c) runs, in this order: the early checks (mode, SF_INFO pointer, embedded RDWR, sf_format_check for a new file,
  guess_file_type), the container's open function — header reader (SFM_READ, SFM_RDWR on a file with content), then its "write section"
  (SFM_WRITE / SFM_RDWR: a few refusals, then `<container>_write_header (psf, SF_FALSE)`, the PROVISIONAL header), then
  `psf->container_close = <container>_close` (aiff_open installs aiff_close before its reader), then the codec's init function — and then
  sf_format_check (SFM_RDWR), validate_sfinfo, validate_psf.  Every refusal goes to `error_exit`, which calls psf_close, which runs the
  installed close function; a close function rewrites tailer and header (`<container>_write_header (psf, SF_TRUE)`) when the handle's mode is
  SFM_WRITE or SFM_RDWR.  With `calc_length` the header writers of MAT4, MAT5 and CAF execute
  `psf->sf.frames = psf->datalength / (psf->bytewidth * psf->sf.channels)` (an `int` product).

  `Rule.validate` is the error exit after the repair of KF-RDWR-FAILED-OPEN-FPE (a SFM_RDWR handle whose SF_INFO does not pass
  validate_sfinfo is closed as a read handle), `Rule.old` the one before.
  Core Lean only.
-/
import SfModel.Basic
namespace Sf.FailedOpen

inductive Mode | r | w | rw
  deriving DecidableEq, Repr

/-- where psf_open_file gives up -/
inductive Fail
  | early      -- before the container's open function
  | reader     -- the container's header reader refuses the file
  | writeSect  -- a refusal of the write section in front of the header write (pipe, wrong container for the mode)
  | codec      -- the codec's init function (no read/write mode for this codec, block geometry, …)
  | formatRw   -- sf_format_check in SFM_RDWR
  | sfinfo     -- validate_sfinfo
  | psfCheck   -- validate_psf
  deriving DecidableEq, Repr

def Fail.all : List Fail := [.early, .reader, .writeSect, .codec, .formatRw, .sfinfo, .psfCheck]

/-- the refusal comes after the container's own header write -/
def Fail.late : Fail → Bool
  | .codec | .formatRw | .sfinfo | .psfCheck => true
  | _ => false

/-- the handle as the error exit finds it -/
structure Cfg where
  mode : Mode
  existing : Bool := true      -- the file has content (SFM_RDWR then parses it)
  hookEarly : Bool := false    -- the close function is installed before the reader runs (aiff_open)
  channels : Int               -- psf->sf.channels (an `int`: whatever the reader took from the file)
  bytewidth : Int              -- psf->bytewidth
  restValid : Bool := true     -- the other clauses of validate_sfinfo: samplerate ≥ 1, frames ≥ 0, container, codec, sections ≥ 1
  deriving Repr

def SF_MAX_CHANNELS : Int := 1024

/-- validate_sfinfo (sndfile.c:2998) -/
def infoValid (c : Cfg) : Bool := c.restValid && decide (1 ≤ c.channels) && decide (c.channels ≤ SF_MAX_CHANNELS)

/-- `psf->bytewidth * psf->sf.channels` as the `int` the C computes (gcc wraps) -/
def divisor (c : Cfg) : Int := wrapS 32 (c.bytewidth * c.channels)

def writesMode (m : Mode) : Bool := m = .w || m = .rw

inductive Rule | old | validate
  deriving DecidableEq, Repr

/-- the mode psf_close sees -/
def closeMode (rule : Rule) (c : Cfg) : Mode :=
  if rule = .validate && c.mode = .rw && !infoValid c then .r else c.mode

/-- is the container's close function installed when the open gives up at `f` -/
def hookInstalled (c : Cfg) (f : Fail) : Bool :=
  match f with
  | .early => false
  | .reader | .writeSect => c.hookEarly
  | _ => true

/-- what reaches the caller's file -/
inductive Ev
  | provisional                  -- `<container>_write_header (psf, SF_FALSE)` from the open function
  | closeRewrite (valid : Bool)  -- tailer + `<container>_write_header (psf, SF_TRUE)` from the close function; `valid` = the SF_INFO it is derived from passes validate_sfinfo
  | trap                         -- the division by zero inside the header writer (SIGFPE inside sf_open)
  deriving DecidableEq, Repr

/-- the header writer from the close function: MAT4 / MAT5 divide unconditionally, CAF (and AIFF, W64, RF64, WAV) under `bytewidth > 0` —
    for 1 ≤ bytewidth the two coincide -/
def closeWrite (c : Cfg) : Ev := if divisor c = 0 then .trap else .closeRewrite (infoValid c)

/-- the write events of an open that fails at `f` -/
def events (rule : Rule) (c : Cfg) (f : Fail) : List Ev :=
  (if writesMode c.mode && f.late then [.provisional] else []) ++
  (if hookInstalled c f && writesMode (closeMode rule c) then [closeWrite c] else [])

/-- the class of KF-RDWR-FAILED-OPEN-WRITES, exactly: a writing mode and either a late refusal or an installed close function that
    still sees a writing mode -/
def KF.lateRefusal (rule : Rule) (c : Cfg) (f : Fail) : Bool :=
  (writesMode c.mode && f.late) || (hookInstalled c f && writesMode (closeMode rule c))

end Sf.FailedOpen
