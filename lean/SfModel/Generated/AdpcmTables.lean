/- GENERATED on every check run from the running library (sfh), not edited by hand.
   Each entry is revealed by decoding a crafted block through the public API (vlib/c20_adpcm.py `table_blocks`):
   imaStepTab[i]      : two IMA/WAV blocks with header (predictor -32768, index i), first code 4 resp. 0;
                        difference of the first decoded samples = step.
   imaIndexAdjust[c]  : IMA/WAV block (predictor 0, index 40), codes c then 4; second difference identifies the new index.
   msAdaptationTab[c] : MS block (bpred 2 = coefficients 0,0; idelta 256), codes c then 1; second sample = new idelta.
   msCoeff1/2[p]      : MS blocks (bpred p, idelta 16, code 0) with (samp1,samp2) = (256,0) resp. (0,256). -/
namespace Sf.Generated

def imaStepTab : List Int :=
  [7, 8, 9, 10, 11, 12, 13, 14, 16, 17, 19, 21, 23, 25, 28, 31,
   34, 37, 41, 45, 50, 55, 60, 66, 73, 80, 88, 97, 107, 118, 130, 143,
   157, 173, 190, 209, 230, 253, 279, 307, 337, 371, 408, 449, 494, 544, 598, 658,
   724, 796, 876, 963, 1060, 1166, 1282, 1411, 1552, 1707, 1878, 2066, 2272, 2499, 2749, 3024,
   3327, 3660, 4026, 4428, 4871, 5358, 5894, 6484, 7132, 7845, 8630, 9493, 10442, 11487, 12635, 13899,
   15289, 16818, 18500, 20350, 22385, 24623, 27086, 29794, 32767]

def imaIndexAdjust : List Int :=
  [-1, -1, -1, -1, 2, 4, 6, 8, -1, -1, -1, -1, 2, 4, 6, 8]

def msAdaptationTab : List Int :=
  [230, 230, 230, 230, 307, 409, 512, 614, 768, 614, 512, 409, 307, 230, 230, 230]

def msCoeff1 : List Int :=
  [256, 512, 0, 192, 240, 460, 392]

def msCoeff2 : List Int :=
  [0, -256, 0, 64, 0, -208, -232]

end Sf.Generated
