/- GENERATED on every check run from the tree under test (sfh c03consts / sfh table errors), not edited by hand. -/
import SfModel.OpenGate
import SfModel.ReadWrap
namespace Sf.Generated.C03

def openErrs : Sf.OpenGate.Errs :=
  { unrecognised := 1, badOpenMode := 44, badSfInfoPtr := 11,
    rawBadFormat := 97, badOffset := 25, noEmbeddedRdwr := 27,
    zeroMajor := 5, zeroMinor := 6, badOpenFormat := 1,
    noEmbedSupport := 26, badModeRw := 23, badSfInfo := 24, internal := 29 }

def rwErrs : Sf.ReadWrap.Errs :=
  { negativeRwLen := 175, notReadMode := 21, badReadAlign := 19,
    unimplemented := 18, badSeek := 39, notSeekable := 40,
    wrongSeek := 42, ambiguousSeek := 41, seekFailed := 43 }

/-- the masks and container codes the gate model has as literals, as this tree defines them -/
def maxChannels : Int := 1024
def typeMask : Nat := 268369920
def subMask : Nat := 65535
def embedContainers : List Nat := [65536, 1245184, 131072, 196608, 2293760, 1507328]
def rawContainer : Nat := 262144
def modes : List Int := [16, 32, 48]

/-- SFE_MAX_ERROR -/
def maxError : Nat := 184
/-- strlen (sf_error_number (k)) for k = 0 … SFE_MAX_ERROR, from the running library -/
def errMsgLens : List Nat :=
  [9, 22, 13, 44, 47, 26, 26, 64, 38, 20, 29, 42, 55, 17, 28, 76, 32, 26, 46, 49, 50, 48, 48, 58, 43, 43, 53, 45, 53, 27, 44, 40,
   22, 28, 18, 44, 51, 51, 51, 28, 39, 68, 32, 45, 41, 50, 33, 73, 58, 60, 43, 37, 48, 47, 62, 44, 42, 29, 64, 19, 27, 42, 42, 51,
   51, 47, 45, 36, 58, 42, 64, 42, 40, 43, 52, 61, 47, 57, 45, 50, 38, 49, 49, 49, 34, 42, 37, 59, 37, 37, 34, 68, 33, 50, 37, 116,
   49, 75, 29, 31, 34, 52, 37, 44, 44, 41, 58, 47, 31, 67, 51, 51, 30, 38, 38, 45, 53, 70, 64, 37, 53, 38, 39, 45, 47, 42, 42, 42,
   43, 52, 47, 37, 35, 54, 40, 54, 34, 30, 33, 62, 59, 64, 29, 41, 52, 53, 24, 35, 49, 24, 23, 24, 23, 26, 24, 24, 44, 56, 31, 47,
   40, 38, 23, 53, 80, 25, 59, 43, 34, 29, 70, 25, 49, 50, 35, 58, 80, 23, 37, 37, 24, 33, 32, 116, 9]
/-- strlen of what sf_error_number returns outside 0 … SFE_MAX_ERROR (probed at -1 and MAX+1) -/
def badErrnumLen : Nat := 68

end Sf.Generated.C03
