/- GENERATED on every C05 / C06 / C07 / C20 check run by vlib/codectab.py: a throw-away C program #includes src/GSM610/table.c and add.c of the tree under test and prints the ten arrays of table.c and `bitoff`.
   Not edited by hand.  lean/SfProps/C20CodecTables.lean proves the model's transcribed tables equal to these. -/
namespace Sf.Generated.Gsm

def A : List Int := [20480, 20480, 20480, 20480, 13964, 15360, 8534, 9036]
def B : List Int := [0, 0, 2048, -2560, 94, -1792, -341, -1144]
def MIC : List Int := [-32, -32, -16, -16, -8, -8, -4, -4]
def MAC : List Int := [31, 31, 15, 15, 7, 7, 3, 3]
def INVA : List Int := [13107, 13107, 13107, 13107, 19223, 17476, 31454, 29708]
def DLB : List Int := [6554, 16384, 26214, 32767]
def QLB : List Int := [3277, 11469, 21299, 32767]
def H : List Int := [-134, -374, 0, 2054, 5741, 8192, 5741, 2054, 0, -374, -134]
def NRFAC : List Int := [29128, 26215, 23832, 21846, 20165, 18725, 17476, 16384]
def FAC : List Int := [18431, 20479, 22527, 24575, 26623, 28671, 30719, 32767]
def bitoff_0 : List Int := [8, 7, 6, 6, 5, 5, 5, 5, 4, 4, 4, 4, 4, 4, 4, 4, 3, 3, 3, 3, 3, 3, 3, 3, 3, 3, 3, 3, 3, 3, 3, 3, 2, 2, 2, 2, 2, 2, 2, 2, 2, 2, 2, 2, 2, 2, 2, 2, 2, 2, 2, 2, 2, 2, 2, 2, 2, 2, 2, 2, 2, 2, 2, 2]
def bitoff_1 : List Int := [1, 1, 1, 1, 1, 1, 1, 1, 1, 1, 1, 1, 1, 1, 1, 1, 1, 1, 1, 1, 1, 1, 1, 1, 1, 1, 1, 1, 1, 1, 1, 1, 1, 1, 1, 1, 1, 1, 1, 1, 1, 1, 1, 1, 1, 1, 1, 1, 1, 1, 1, 1, 1, 1, 1, 1, 1, 1, 1, 1, 1, 1, 1, 1]
def bitoff_2 : List Int := [0, 0, 0, 0, 0, 0, 0, 0, 0, 0, 0, 0, 0, 0, 0, 0, 0, 0, 0, 0, 0, 0, 0, 0, 0, 0, 0, 0, 0, 0, 0, 0, 0, 0, 0, 0, 0, 0, 0, 0, 0, 0, 0, 0, 0, 0, 0, 0, 0, 0, 0, 0, 0, 0, 0, 0, 0, 0, 0, 0, 0, 0, 0, 0]
def bitoff_3 : List Int := [0, 0, 0, 0, 0, 0, 0, 0, 0, 0, 0, 0, 0, 0, 0, 0, 0, 0, 0, 0, 0, 0, 0, 0, 0, 0, 0, 0, 0, 0, 0, 0, 0, 0, 0, 0, 0, 0, 0, 0, 0, 0, 0, 0, 0, 0, 0, 0, 0, 0, 0, 0, 0, 0, 0, 0, 0, 0, 0, 0, 0, 0, 0, 0]
def bitoff : List Int := bitoff_0 ++ bitoff_1 ++ bitoff_2 ++ bitoff_3

end Sf.Generated.Gsm
