/- GENERATED on every C05 / C06 / C07 check run by vlib/g72x.py `extract_tables`: a throw-away C program #includes
   src/G72x/g721.c, g723_16.c, g723_24.c, g723_40.c, g72x.c of the tree under test and prints their static arrays and the
   block geometry of g72x.h.  Not edited by hand.  `g72x_tables_extracted` (SfProps/C05G72x.lean) proves the model's
   transcribed tables equal to these. -/
namespace Sf.Generated.G72x

def g721_qtab : List Int := [-124, 80, 178, 246, 300, 349, 400]
def g721_dqlntab : List Int := [-2048, 4, 135, 213, 273, 323, 373, 425, 425, 373, 323, 273, 213, 135, 4, -2048]
def g721_witab : List Int := [-12, 18, 41, 64, 112, 198, 355, 1122, 1122, 355, 198, 112, 64, 41, 18, -12]
def g721_fitab : List Int := [0, 0, 0, 512, 512, 512, 1536, 3584, 3584, 1536, 512, 512, 512, 0, 0, 0]
def g723_16_qtab : List Int := [261]
def g723_16_dqlntab : List Int := [116, 365, 365, 116]
def g723_16_witab : List Int := [-704, 14048, 14048, -704]
def g723_16_fitab : List Int := [0, 3584, 3584, 0]
def g723_24_qtab : List Int := [8, 218, 331]
def g723_24_dqlntab : List Int := [-2048, 135, 273, 373, 373, 273, 135, -2048]
def g723_24_witab : List Int := [-128, 960, 4384, 18624, 18624, 4384, 960, -128]
def g723_24_fitab : List Int := [0, 512, 1024, 3584, 3584, 1024, 512, 0]
def g723_40_qtab : List Int := [-122, -16, 68, 139, 198, 250, 298, 339, 378, 413, 445, 475, 502, 528, 553]
def g723_40_dqlntab : List Int := [-2048, -66, 28, 104, 169, 224, 274, 318, 358, 395, 429, 459, 488, 514, 539, 566, 566, 539, 514, 488, 459, 429, 395, 358, 318, 274, 224, 169, 104, 28, -66, -2048]
def g723_40_witab : List Int := [448, 448, 768, 1248, 1280, 1312, 1856, 3200, 4512, 5728, 7008, 8960, 11456, 14080, 16928, 22272, 22272, 16928, 14080, 11456, 8960, 7008, 5728, 4512, 3200, 1856, 1312, 1280, 1248, 768, 448, 448]
def g723_40_fitab : List Int := [0, 0, 0, 0, 0, 512, 512, 512, 512, 512, 1024, 1536, 2048, 2560, 3072, 3072, 3072, 3072, 2560, 2048, 1536, 1024, 512, 512, 512, 512, 512, 0, 0, 0, 0, 0]
def power2 : List Int := [1, 2, 4, 8, 16, 32, 64, 128, 256, 512, 1024, 2048, 4096, 8192, 16384]
def geometry : List Int := [120, 30, 45, 60, 75]

end Sf.Generated.G72x
