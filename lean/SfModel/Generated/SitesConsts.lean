/- GENERATED on every C03 run from the tree under test (sfh sitesconsts + the #defines of src/wavlike.c), not edited by hand. -/
namespace Sf.Generated.Sites

def bextMin : Int := 602
def bextMax : Int := 16986
def bextStruct : Int := 16992
def bextHistOff : Int := 608
def bextHistCap : Int := 16384
def cartMin : Int := 2048
def cartMax : Int := 4294967295
def cartStruct : Int := 18436
def cartTagOff : Int := 2052
def cartTagCap : Int := 16384
def scbuf : Int := 8192
def cueName : Int := 256
def instLoops : Int := 16
def maxChannels : Int := 1024
def infoBuffer : Int := 2048
def cueMax : Int := 2500
def headerCap : Int := 102400

end Sf.Generated.Sites
