/- GENERATED on every C05 / C06 / C07 / C20 check run by vlib/codectab.py: a throw-away C program #includes src/nms_adpcm.c of the tree under test and prints its four static tables and the block geometry.
   Not edited by hand.  lean/SfProps/C20CodecTables.lean proves the model's transcribed tables equal to these. -/
namespace Sf.Generated.Nms

def expn : List Int := [16384, 16743, 17109, 17484, 17867, 18258, 18658, 19066, 19483, 19911, 20346, 20792, 21247, 21713, 22188, 22674, 23170, 23678, 24196, 24726, 25268, 25821, 26386, 26964, 27554, 28158, 28774, 29404, 30048, 30706, 31379, 32066]
def scale_factor_step : List Int := [0, 0, 0, 0, 1200, 0, 0, 0, -60, 0, 144, 0, 750, 0, 2200, 0, -48, 18, 107, 200, 392, 736, 1361, 4432]
def step : List Int := [1855, 0, 0, 0, 6185, 0, 0, 0, 1003, 0, 3096, 0, 5505, 0, 8814, 0, 524, 1589, 2691, 3858, 5144, 6627, 8474, 11194]
def step_search : List Int := [0, 8045, 0, -8045, 0, 0, 0, 0, 4104, 4498, 0, -8602, 5718, -5718, 0, 0, 2162, 4727, -2278, -9003, 3334, -6103, -4563, 0]
def geometry : List Int := [160, 21, 31, 41]

end Sf.Generated.Nms
