/-
  SfModel.RoutesSkip — how a header parser gets from where it stands (`pos`, behind the fixed part of a header) to the first
  audio byte `gap` bytes further on (AU: the annotation field; AIFF: the `offset` field of the SSND chunk; any container: the rest
  of a chunk), as operations of the I/O shim of SfModel/Routes.lean:

    readForward   psf_binheader_readf (psf, "j", gap): header_seek (SEEK_CUR) reads the bytes (into the header cache, or into a 16 KiB
                  junk buffer on a pipe when they do not fit): on EVERY route the stream is consumed
    seekSet       psf_fseek (psf, dataoffset, SEEK_SET): on a pipe `return offset` without doing anything

  `auRule` / `aiffPipeRule` are the rules of the code as it is; `aiffPipeRuleOld` is aiff_open before the repair of
  KF-C14-AIFF-SSND-OFFSET-PIPE (the SSND offset was only added to psf->dataoffset and reached with psf_fseek).
-/
import SfModel.Routes
namespace Sf.RoutesSkip
open Sf Sf.Routes

inductive Rule | readForward | seekSet
deriving DecidableEq, Repr, Inhabited

/-- the parser's move from `pos` over `gap` bytes -/
def reach : Rule → Nat → Nat → List Op
  | .readForward, _, gap => [.read 1 gap]
  | .seekSet, pos, gap => [.seek ((pos + gap : Nat) : Int) 0]

/-- the move, then the first read of `m` audio bytes (what sf_read_* asks of the shim for a sample-granular encoding) -/
def firstAudio (r : Rule) (pos gap m : Nat) : List Op := reach r pos gap ++ [.read 1 m]

/-- au_read_header: `psf_binheader_readf (psf, "j", dataoffset - psf_ftell (psf))` -/
def auRule : Rule := .readForward
/-- aiff_read_header, SSND on a non-seekable stream: `psf_binheader_readf (psf, "j", ssnd_fmt.offset)` -/
def aiffPipeRule : Rule := .readForward
/-- before the repair: nothing in aiff_read_header, `psf_fseek (psf, psf->dataoffset, SEEK_SET)` in aiff_open -/
def aiffPipeRuleOld : Rule := .seekSet

end Sf.RoutesSkip
