/-
  psf_close (src/sndfile.c) and psf_fclose (src/file_io.c): who closes the descriptor, and what sf_close returns, when a close handler
  has something to report (round 8, gap worker gape).

      if (psf->codec_close)      error = psf->codec_close (psf) ;          /* vox_adpcm.c: the count of out-of-range steps */
      if (psf->container_close)  error = psf->container_close (psf) ;      /* OVERWRITES */
      error = psf_fclose (psf) ;                                           /* OVERWRITES; runs in every case */

      psf_fclose: virtual I/O -> 0;  do_not_close_descriptor (sf_open_fd with close_desc = 0) -> forget the number, 0;
                  else close (filedes) -> its result

  `H` = what the statement of C14 depends on; `psfClose` = the code; `psfCloseFirstError` = "hand back the first thing that went wrong"
  written the obvious way, which skips psf_fclose after a reporting handler (the seeded regression C14-close-skips-fclose-vox) -- kept to
  show that the descriptor clause tells the two apart.  Tie to the code: vlib/closeown.py (VOX streams that clip, closes under EFBIG).
-/
namespace Sf.CloseOwn

structure H where
  codecClose : Option Int := none        -- result of psf->codec_close, when the codec has one
  containerClose : Option Int := none    -- result of psf->container_close
  virtualIo : Bool := false
  doNotClose : Bool := false             -- sf_open_fd (…, close_desc = 0)
  osClose : Int := 0                     -- what close (2) answers
deriving Repr, DecidableEq

structure Out where
  ret : Int                -- sf_close
  fdClosed : Bool          -- close (2) was called on the handle's descriptor
deriving Repr, DecidableEq

/-- psf_fclose: (result, descriptor closed) -/
def psfFclose (h : H) : Int × Bool :=
  if h.virtualIo then (0, false)
  else if h.doNotClose then (0, false)
  else (h.osClose, true)

def psfClose (h : H) : Out :=
  let error : Int := 0
  let error := match h.codecClose with | some e => e | none => error
  let error := match h.containerClose with | some e => e | none => error
  let _ := error
  { ret := (psfFclose h).1, fdClosed := (psfFclose h).2 }

/-- the rule of the seeded regression: the first non-zero result wins and psf_fclose only runs while there is none -/
def psfCloseFirstError (h : H) : Out :=
  let error : Int := match h.codecClose with | some e => e | none => 0
  let error := if error = 0 then (match h.containerClose with | some e => e | none => 0) else error
  if error = 0 then { ret := (psfFclose h).1, fdClosed := (psfFclose h).2 } else { ret := error, fdClosed := false }

/-- the handle OWNS its descriptor: opened by path, or sf_open_fd with close_desc = 1 -/
def H.owns (h : H) : Bool := !h.virtualIo && !h.doNotClose

end Sf.CloseOwn
