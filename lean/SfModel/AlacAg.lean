/-
  SfModel.AlacAg — the adaptive Golomb decoder of src/ALAC/ag_dec.c (`dyn_decomp`, `dyn_get`, `dyn_get_32bit`, `lead`,
  `lg3a`, `getstreambits`, the AGParamRec fields), namespace Sf.AlacCore.

  The C code works on `in = bitstream->cur` with a bit position that starts at the buffer's bit index; every symbol is
  cut out of a 32-bit window `read32bit (in + (pos >> 3)) << (pos & 7)`: the next `32 - (pos & 7)` bits of the stream,
  ZERO filled at the bottom (`window`). The model threads the remaining bit list and the number of bits consumed.
  `uint32_t` arithmetic wraps (`u32`); shifts whose count the C standard leaves undefined are outside the model's domain
  (the callers in AlacDec.lean refuse such configurations as `unmodelled`).
-/
import SfModel.AlacBits
namespace Sf.AlacCore

/-- `lead (m)`: leading zero bits of a 32-bit word (32 for 0) -/
def leadFrom : Nat → Nat → Nat
  | 0, _ => 32
  | k + 1, m => if m / 2 ^ k % 2 = 1 then 31 - k else leadFrom k m

def lead (m : Nat) : Nat := leadFrom 32 (m % 4294967296)

/-- leading ONE bits of a 32-bit word: `lead (~x)` -/
def leadOnes (x : Nat) : Nat := lead (4294967295 - x % 4294967296)

/-- `lg3a (x) = 31 - lead (x + 3)` -/
def lg3a (x : Nat) : Nat := 31 - lead (x + 3)

/-- the 32-bit window at the current position: `off` = bit index inside the byte (`pos & 7`) -/
def window (cur : Bits) (off : Nat) : Nat := (rdBits (32 - off) cur 0).1 * 2 ^ off

/-- AGParamRec as `dyn_decomp` uses it -/
structure AgParams where
  mb0    : Nat
  pb     : Nat
  kb     : Nat
  wb     : Nat
deriving Repr

/-- `set_ag_params (&p, m, p, k, f, s, maxrun)`; `wb = (1u << kb) - 1` -/
def setAgParams (m p k : Nat) : AgParams := { mb0 := m, pb := p, kb := k, wb := 2 ^ k - 1 }

/-- `dyn_get_32bit (in, &bitPos, m, k, maxbits)`: -> (value, bits consumed) -/
def dynGet32 (cur : Bits) (off m k maxbits : Nat) : Nat × Nat :=
  let w := window cur off
  let pre := leadOnes w
  if pre ≥ 9 then
    -- escape: `getstreambits (in, tempbits + 9, maxbits)` = the next maxbits bits
    ((rdBits maxbits (cur.drop 9) 0).1, 9 + maxbits)
  else if k ≠ 1 then
    let v := (w * 2 ^ (pre + 1) % 4294967296) / 2 ^ (32 - k)
    if v ≥ 2 then (pre * m + (v - 1), pre + 1 + k) else (pre * m, pre + 1 + k - 1)
  else (pre, pre + 1)

/-- `dyn_get (in, &bitPos, m, k)` (the zero-run length): -> (value, bits consumed) -/
def dynGet (cur : Bits) (off m k : Nat) : Nat × Nat :=
  let w := window cur off
  let pre := leadOnes w
  if pre ≥ 9 then
    ((w * 2 ^ 9 % 4294967296) / 65536, 9 + 16)
  else
    let v := (w * 2 ^ (pre + 1) % 4294967296) / 2 ^ (32 - k)
    if v < 2 then (pre * m, pre + 1 + k - 1) else (u32 ((pre * m + v : Nat) - 1), pre + 1 + k)

/-- the sample of a code: least significant bit is the sign -/
def delOf (ndecode : Nat) : Int :=
  let half : Nat := (ndecode + 1) % 4294967296 / 2
  w32 (if ndecode % 2 = 1 then -(half : Int) else half)

structure AgRes where
  ok   : Bool            -- false: kALAC_ParamError (ran off the end of the buffer / a zero run beyond the frame)
  out  : List Int        -- the samples stored in `pc`, in order
  used : Nat             -- *outNumBits
deriving Repr

/-- the mean update: `mb = pb * (n + zmode) + mb - ((pb * mb) >> QBSHIFT)` in uint32_t, clamped to 0xffff for a code above 0xffff -/
def mbNext (pb n nz mb : Nat) : Nat :=
  if n > 65535 then 65535 else u32 ((pb * nz % 4294967296 + mb : Nat) - ((pb * mb % 4294967296 / 512 : Nat) : Int))

/-- the `while (c < numSamples)` loop of `dyn_decomp`; `left` = numSamples - c, `q` = bits consumed, `off0` = bit index at
    the start, `maxPos` = byteSize * 8; `acc` = the samples so far, reversed. Every round stores at least one sample:
    `fuel` = numSamples rounds are enough (structural recursion on it) -/
def dynLoop (p : AgParams) (maxSize off0 maxPos : Nat) : Nat → Nat → Bits → Nat → Nat → Nat → List Int → AgRes
  | 0, left, _, q, _, _, acc => ⟨left = 0, acc.reverse, q⟩
  | fuel + 1, left, cur, q, mb, zmode, acc =>
    if left = 0 then ⟨true, acc.reverse, q⟩
    else if off0 + q ≥ maxPos then ⟨false, acc.reverse, q⟩
    else
      let left := left - 1
      let k := min (lg3a (mb / 512)) p.kb
      let m := 2 ^ k - 1
      let (n, used) := dynGet32 cur ((off0 + q) % 8) m k maxSize
      let cur := cur.drop used
      let q := q + used
      let nz := (n + zmode) % 4294967296
      let acc := delOf nz :: acc
      let mb1 := mbNext p.pb n nz mb
      if mb1 * 4 % 4294967296 < 512 ∧ left > 0 then
        let k := lead mb1 - 24 + (mb1 + 16) / 64
        let mz := (2 ^ k - 1) &&& p.wb
        let (n, used) := dynGet cur ((off0 + q) % 8) mz k
        let cur := cur.drop used
        let q := q + used
        if n > left then ⟨false, acc.reverse, q⟩
        else dynLoop p maxSize off0 maxPos fuel (left - n) cur q 0 (if n ≥ 65535 then 0 else 1) (List.replicate n 0 ++ acc)
      else dynLoop p maxSize off0 maxPos fuel left cur q mb1 0 acc

/-- `dyn_decomp (params, bitstream, pc, numSamples, maxSize, &outNumBits)`: the reader behind it, and the status after the
    final `bitstream->cur <= bitstream->end` -/
def dynDecomp (p : AgParams) (r : Rd) (byteSize numSamples maxSize : Nat) : AgRes × Rd :=
  let res := dynLoop p maxSize (r.pos % 8) (byteSize * 8) numSamples numSamples r.rest 0 p.mb0 0 []
  let r1 := r.advance res.used
  ({ res with ok := res.ok && decide (r1.curByte ≤ byteSize) }, r1)

end Sf.AlacCore
