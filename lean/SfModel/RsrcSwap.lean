/-
  SfModel.RsrcSwap — the SECOND FILE of a handle: SD2's resource fork and the descriptor swap around it (C15 / C16).

  sd2_open in SFM_WRITE (and SFM_RDWR on a file without a fork) works on two files:

      psf_open_file      file.filedes = open (path)
      psf_open_rsrc      rsrc.filedes = open ("name/..namedfork/rsrc" | "._name" | ".AppleDouble/name"), or -1
      sd2_write_rsrc_fork
        psf_use_rsrc (TRUE)     if (file.filedes != rsrc.filedes) { file.savedes = file.filedes ; file.filedes = rsrc.filedes ; }
        psf_fwrite (header)     on the FORK's descriptor: may fail (ENOSPC, EFBIG, EBADF when there is no fork)
        psf_use_rsrc (FALSE)    if (file.filedes == rsrc.filedes) file.filedes = file.savedes ;
        return psf->error
      psf_close_rsrc     close (rsrc.filedes) ; rsrc.filedes = -1            (sd2_open: "we won't need it again")
      on error           psf_open_file's error exit: psf_close -> psf_fclose: close (file.filedes) ; psf_close_rsrc (nothing left)
      on success         … the session … sf_close: the same psf_close

  While the fork is written `file.filedes` IS the fork's descriptor and the data file's descriptor is parked in `file.savedes`:
  every exit of sd2_write_rsrc_fork has to pass the swap back.  `Rule.code` is the function as written; `Rule.early` returns at
  once when the write failed (the shape of the seeded regression C15-sd2-rsrc-write-fail-fd-swap): the error exit then closes the
  fork's number a second time (EBADF — or whatever file got that number meanwhile) and the data file's descriptor is never closed.

  The descriptor table is a set of open numbers; the numbers `open` hands out (`d` for the data file, `r` for the fork) are
  parameters, constrained only to be free.  Core Lean only (the driver links this file).
-/
namespace Sf.RsrcSwap

/-- the open descriptor numbers of the process -/
abbrev Tab := Nat → Bool

def Tab.opened (t : Tab) (n : Nat) : Tab := fun m => if m = n then true else t m
def Tab.closed (t : Tab) (n : Nat) : Tab := fun m => if m = n then false else t m

inductive Rule | code | early
deriving DecidableEq, Repr

/-- the descriptor fields of SF_PRIVATE (`none` = -1) -/
structure P where
  filedes : Option Nat := none
  savedes : Option Nat := none
  rsrc : Option Nat := none
  error : Bool := false
deriving DecidableEq, Repr

structure W where
  tab : Tab
  p : P := {}
  ebadf : Nat := 0        -- close () calls on a number that is not open

/-- psf_close_fd: `if (fd < 0) return 0 ; close (fd)` -/
def closeFd (w : W) : Option Nat → W
  | none => w
  | some fd => if w.tab fd then { w with tab := w.tab.closed fd } else { w with ebadf := w.ebadf + 1 }

/-- psf_use_rsrc -/
def useRsrc (p : P) (on : Bool) : P :=
  if on then (if p.filedes ≠ p.rsrc then { p with savedes := p.filedes, filedes := p.rsrc } else p)
  else if p.filedes = p.rsrc then { p with filedes := p.savedes } else p

/-- psf_close_rsrc -/
def closeRsrc (w : W) : W :=
  let w := closeFd w w.p.rsrc
  { w with p := { w.p with rsrc := none } }

/-- psf_close, descriptor side: psf_fclose (file.filedes = -1 afterwards), psf_close_rsrc -/
def psfClose (w : W) : W :=
  let w := closeFd w w.p.filedes
  closeRsrc { w with p := { w.p with filedes := none } }

structure Cfg where
  forkOpens : Bool := true      -- one of the three places of the fork could be opened / created
  writeOk : Bool := true        -- the one psf_fwrite that stores the fork succeeded (never when there is no fork: EBADF)
deriving DecidableEq, Repr

/-- sd2_write_rsrc_fork -/
def writeFork (rule : Rule) (c : Cfg) (p : P) : P :=
  let p := useRsrc p true
  let ok := c.writeOk && p.filedes.isSome
  let p := if ok then p else { p with error := true }
  match rule with
  | .code => useRsrc p false
  | .early => if ok then useRsrc p false else p

/-- sf_open (path, SFM_WRITE) of an SD2 file and, when it succeeds, the sf_close of the session; `d`, `r`: the numbers the two
    `open` calls are given -/
def session (rule : Rule) (c : Cfg) (t : Tab) (d r : Nat) : W :=
  let w : W := { tab := t.opened d, p := { filedes := some d } }
  let w : W := if c.forkOpens then { w with tab := w.tab.opened r, p := { w.p with rsrc := some r } } else w
  let w : W := { w with p := writeFork rule c w.p }
  let w := closeRsrc w            -- sd2_open: error_cleanup
  psfClose w                      -- the error exit of psf_open_file, or the sf_close that ends the session

/-- numbers of `ns` that are open in `t'` and were not in `t` -/
def leaked (t t' : Tab) (ns : List Nat) : Nat := (ns.filter fun n => t' n && !t n).length

/-! ## the observation of the harness op `second try` and its clause -/

structure Obs where
  openNull : Bool := false
  err : Int := 0
  msglen : Nat := 0
  fds : Int := 0          -- descriptors open after the op that were not open before
  lowSame : Bool := true  -- the lowest free descriptor number is the one it was
  ebadf : Nat := 0
  blocks : Int := 0       -- heap blocks live after the op that were not live before (`ledger end`)
deriving Repr, Inhabited

/-- C15: "A failing sf_open returns NULL and releases everything", "sf_close still releases every resource" -/
def obsOk (o : Obs) : List String :=
  (if o.openNull && (o.err == 0 || o.msglen == 0) then ["error-report"] else []) ++
  (if o.fds == 0 && o.lowSame then [] else ["descriptor"]) ++
  (if o.ebadf == 0 then [] else ["double-close"]) ++
  (if o.blocks == 0 then [] else ["heap"])

end Sf.RsrcSwap
