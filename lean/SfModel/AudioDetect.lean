/-
  Sf.AudioDetect — the "broken 'fmt ' chunk" detector of the WAV / RF64 readers, as written (bug for bug).

  src/wavlike.c:160-170  a 'fmt ' chunk with format WAVE_FORMAT_PCM, bit width 24 and block align 4 x channels sets `fmt_is_broken`
  src/wavlike.c:523-578  `wavlike_analyze`: refuses on a pipe; otherwise seeks to ABSOLUTE file offset 600 (3 * 4 * 50, not relative to
                         the data chunk), reads 4096-byte pieces while `psf_fread` delivers a whole piece, asks `audio_detect` about each,
                         stops at the first non-zero answer, seeks back to dataoffset and installs format / bytewidth / blockwidth
  src/audio_detect.c     `audio_detect` (datalen < 256 -> 0; thresholds `> 3 * datalen / 4`) and `vote_for_format`.

  `vote_for_format` as written indexes `data [2]`, `data [3]`, `data [0]` WITHOUT the loop offset k in three of its four tests (only
  `data [k] == 0 && data [k + 1] != 0` moves with k): the float votes are therefore all-or-nothing, decided by the first four bytes of the
  piece.  The model mirrors that; `vote_leFloat_all_or_nothing` states it.

  Everything is total: buffers are `List Nat` (bytes), absent positions read as 0 (the C code never reads one: `vote_in_bounds`).
-/
namespace Sf.AudioDetect

/-- SF_FORMAT_PCM_24 / SF_FORMAT_PCM_32 / SF_FORMAT_FLOAT (include/sndfile.h) -/
abbrev PCM_24 : Nat := 3
abbrev PCM_32 : Nat := 4
abbrev FLOAT : Nat := 6
abbrev SUBMASK : Nat := 0xFFFF
/-- sizeof (buffer) in wavlike_analyze, and the absolute offset it seeks to -/
abbrev PIECE : Nat := 4096
abbrev START : Nat := 600

structure Vote where
  leFloat : Nat := 0
  beFloat : Nat := 0
  leInt : Nat := 0
  beInt : Nat := 0
  deriving Repr, DecidableEq

def at' (d : List Nat) (i : Nat) : Nat := d.getD i 0

/-- the four tests of the `(k % 4) == 0` branch of vote_for_format; only the first moves with the loop index `k` (as written) -/
def cInt1 (d : List Nat) (k : Nat) : Bool := at' d k == 0 && at' d (k + 1) != 0
def cInt2 (d : List Nat) : Bool := at' d 2 != 0 && at' d 3 == 0
def cLeFloat (d : List Nat) : Bool := at' d 0 != 0 && decide (at' d 3 > 0x43) && decide (at' d 3 < 0x4B)
def cBeFloat (d : List Nat) : Bool := at' d 3 != 0 && decide (at' d 0 > 0x43) && decide (at' d 0 < 0x4B)
def b4 (c : Bool) : Nat := if c then 4 else 0

/-- the body of the `(k % 4) == 0` branch of vote_for_format, for the group starting at `k`: four independent `+= 4` -/
def step (d : List Nat) (k : Nat) (v : Vote) : Vote :=
  { leInt := v.leInt + b4 (cInt1 d k) + b4 (cInt2 d), leFloat := v.leFloat + b4 (cLeFloat d), beFloat := v.beFloat + b4 (cBeFloat d), beInt := v.beInt }

/-- `n` groups starting at byte `k` -/
def groups (d : List Nat) : Nat → Nat → Vote → Vote
  | 0, _, v => v
  | n + 1, k, v => groups d n (k + 4) (step d k v)

/-- vote_for_format (vote, data, datalen): `datalen -= datalen % 4`, one group per four bytes -/
def voteForFormat (d : List Nat) (datalen : Nat) : Vote := groups d (datalen / 4) 0 {}

/-- audio_detect with ad->endianness = SF_ENDIAN_LITTLE (the only caller's setting) -/
def verdict (v : Vote) (datalen : Nat) : Nat :=
  if v.leFloat > (3 * datalen) / 4 then FLOAT
  else if v.leInt > (3 * datalen) / 4 then PCM_32
  else 0

def audioDetect (d : List Nat) (datalen : Nat) : Nat :=
  if datalen < 256 then 0 else verdict (voteForFormat d datalen) datalen

/-- the read loop of wavlike_analyze over what the file holds from offset 600 on: a piece is examined only when psf_fread delivered all
    4096 bytes; the first non-zero answer ends the loop. `fuel` bounds the number of pieces (callers pass rest.length / 4096 + 1). Returns the
    answer and the votes of every examined piece (what the log shows). -/
def scan : Nat → List Nat → Nat × List Vote
  | 0, _ => (0, [])
  | fuel + 1, rest =>
    if (rest.take PIECE).length = PIECE then
      if audioDetect (rest.take PIECE) PIECE ≠ 0 then (audioDetect (rest.take PIECE) PIECE, [voteForFormat (rest.take PIECE) PIECE])
      else ((scan fuel (rest.drop PIECE)).1, voteForFormat (rest.take PIECE) PIECE :: (scan fuel (rest.drop PIECE)).2)
    else (0, [])

/-- what the reader holds about the sample layout -/
structure Layout where
  format : Nat
  bytewidth : Nat
  blockwidth : Nat
  deriving Repr, DecidableEq

inductive Outcome where
  | pipeRefused
  | failed
  | found (f : Nat)
  | unhandled (f : Nat)
  deriving Repr, DecidableEq

/-- the `switch (format)` of wavlike_analyze -/
def install (lay : Layout) (ch : Nat) (f : Nat) : Layout × Outcome :=
  if f = 0 then (lay, .failed)
  else if f = PCM_32 ∨ f = FLOAT then ({ format := (lay.format - lay.format % (SUBMASK + 1)) + f, bytewidth := 4, blockwidth := ch * 4 }, .found f)
  else if f = PCM_24 then ({ format := (lay.format - lay.format % (SUBMASK + 1)) + f, bytewidth := 3, blockwidth := ch * 3 }, .found f)
  else (lay, .unhandled f)

/-- wavlike_analyze (psf): `file` is the whole file (the seek is absolute) -/
def analyze (isPipe : Bool) (file : List Nat) (ch : Nat) (lay : Layout) : Layout × Outcome × List Vote :=
  if isPipe then (lay, .pipeRefused, [])
  else
    let rest := file.drop START
    let r := scan (rest.length / PIECE + 1) rest
    let i := install lay ch r.1
    (i.1, i.2, r.2)

/-- the layout wavlike_read_fmt_chunk + wav_read_header leave for a broken 'fmt ' chunk (bit width 24): major | PCM_24, bytewidth 3 -/
def brokenLayout (major ch : Nat) : Layout := { format := major + PCM_24, bytewidth := 3, blockwidth := ch * 3 }

/-- bytes per sample of the encodings the detector can leave behind -/
def widthOf (sub : Nat) : Nat := if sub = PCM_24 then 3 else if sub = PCM_32 ∨ sub = FLOAT then 4 else 0

/-- the layout is self-consistent: the width belongs to the encoding named in the format word and blockwidth = channels x bytewidth
    (the hypotheses of the read-wrapper clamp: `Sf.ReadWrap` divides by blockwidth / multiplies by channels) -/
def Consistent (lay : Layout) (ch : Nat) : Prop :=
  lay.bytewidth = widthOf (lay.format % (SUBMASK + 1)) ∧ lay.bytewidth > 0 ∧ lay.blockwidth = ch * lay.bytewidth

end Sf.AudioDetect
