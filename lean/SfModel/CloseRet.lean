/-
  SfModel.CloseRet — the RETURN VALUE of sf_close (src/sndfile.c psf_close), C16: "sf_close returns 0 when the underlying close
  succeeds".

      if (psf->codec_close)     error = psf->codec_close (psf) ;
      if (psf->container_close) error = psf->container_close (psf) ;
      error = psf_fclose (psf) ;
      …free everything…
      return error ;

  The hooks flush the last block and rewrite the header; what they return (a diagnostic count from the VOX codec, the status of a
  header writer that refuses to rewrite a foreign header …) is overwritten by the status of the descriptor's close.
  Core Lean only.
-/
namespace Sf.CloseRet

/-- what the three calls answer (`none` = the hook is not installed) -/
structure Calls where
  codec : Option Int
  container : Option Int
  fclose : Int
deriving Repr, DecidableEq

/-- psf_close as written -/
def psfClose (c : Calls) : Int :=
  let e0 : Int := 0
  let e1 := match c.codec with | some v => v | none => e0
  let _e2 := match c.container with | some v => v | none => e1
  c.fclose

/-- seeded regression C16-wav-close-returns-header-status, site A: the codec hook's value is dropped, the container hook's value is
    kept unless the descriptor's close itself fails -/
def psfCloseSeeded (c : Calls) : Int :=
  let e := match c.container with | some v => v | none => 0
  if c.fclose ≠ 0 then c.fclose else e

/-- a container close hook: `wavClose rewrite` = wav_close returning the header writer's status (site B) or 0 (as written) -/
def wavClose (returnsHeaderStatus : Bool) (headerStatus : Int) : Int := if returnsHeaderStatus then headerStatus else 0

end Sf.CloseRet
