/-
  SfModel.GsmFile — the libsndfile wrapper src/gsm610.c around the GSM 06.10 codec, read side, as an instance of the
  generic block reader (SfModel/Block.lean):

    * geometry (`gsm610_init`): WAV / WAVEX / W64 use the WAV49 layout, 65-byte blocks of 320 frames; AIFF / RAW use
      33-byte frames of 160;
    * frames at open: `blocks` from `datalength % blocksize` (0: exact; 1 and the 33-byte geometry: the AIFF pad byte is
      dropped; anything else: one more — "truncated" — block), `sf.frames = samplesperblock * blocks`; AIFF then
      clamps to the COMM chunk's numSampleFrames;
    * `gsm610_decode_block` / `gsm610_wav_decode_block`: `psf_fread` of one block — a short read leaves the tail of
      the PREVIOUS block in `pgsm610->block` —, then one / two `gsm_decode` calls; a 33-byte frame with a wrong magic
      nibble leaves the PREVIOUS block's samples in `pgsm610->samples`; beyond `blocks`: zeros;
    * `gsm610_read_block` (= `Reader.readLoop`, one channel), the four `gsm610_read_*` staging loops (short: one
      piece; int / float / double: pieces of 4096 shorts, every piece converted whole, the loop does not stop at a
      short piece = `Reader.readChunked`) and the sf_read_* wrapper (`RHandle.read`);
    * `gsm610_seek` as written (`seekAsWritten`) — UNREACHABLE through the public API: `gsm610_init` sets
      `sf.seekable = SF_FALSE`, so `sf_seek` refuses every call (also `SEEK_CUR` 0) with SFE_NOT_SEEKABLE before it
      looks at the codec, and the other caller (`psf->last_op != SFM_READ` in sf_read_*) never fires on a handle
      whose mode is SFM_READ (RDWR is refused at open).  What a handle delivers is therefore always the sequential
      decode from the start of the data.

  The decoder state runs through the blocks in file order (GSM decodes from the start): `Reader.src k` is block k of
  that one sequential pass.
-/
import SfModel.Gsm
import SfModel.GsmEnc
import SfModel.Block
import SfModel.BlockFile
import SfModel.Oki
namespace Sf.Gsm
open Sf.Block

structure Cfg where
  wav : Bool          -- WAV / WAVEX / W64 (WAV49) vs AIFF / RAW
deriving Repr, DecidableEq

def Cfg.blocksize (c : Cfg) : Nat := if c.wav then 65 else 33
def Cfg.spb (c : Cfg) : Nat := if c.wav then 320 else 160

/-- `gsm610_init`, SFM_READ: `pgsm610->blocks` from `psf->datalength`.  `both = false` is the rule of /repo f178350: one
    stray byte is forgiven (`datalength % blocksize == 1`) only for the 33-byte geometry ("weird AIFF specific case"), so
    the RIFF pad byte wav.c adds to `datalength` counts as a truncated block (KF-WAV-GSM-PAD); `both = true` is the rule
    once the conjunct `&& blocksize == GSM610_BLOCKSIZE` is dropped. -/
def blocksOfWith (both : Bool) (c : Cfg) (dlen : Nat) : Nat :=
  if dlen % c.blocksize = 0 then dlen / c.blocksize
  else if dlen % c.blocksize = 1 ∧ (both = true ∨ c.blocksize = 33) then dlen / c.blocksize
  else dlen / c.blocksize + 1

/-- which of the two rules the tree under test has (ONE switch: set it to `true` when the repair of KF-WAV-GSM-PAD is
    merged; every theorem below is stated for an explicit rule or for both) -/
def padRuleBoth : Bool := true

def blocksOf (c : Cfg) (dlen : Nat) : Nat := blocksOfWith padRuleBoth c dlen

/-- GSM610_PRIVATE: the codec state, `block [65]`, `samples [320]` -/
structure DSt where
  g       : State
  block   : List Byte := List.replicate 65 0
  samples : List Int := List.replicate 320 0
deriving Repr, DecidableEq

def DSt.init (c : Cfg) : DSt := { g := if c.wav then State.initWav else State.init }

/-- `pgsm610->decode_block` for a block inside the data (`blockcount <= blocks`): `got` = what `psf_fread` delivered
    (at most `blocksize` bytes — everything the FILE still holds, not only the data chunk) -/
def decodeBlock (c : Cfg) (d : DSt) (got : List Byte) : DSt :=
  let block := got ++ d.block.drop got.length
  if c.wav then
    match gsmDecode d.g block with
    | (_, none) => { d with block := block }                        -- "Error from WAV gsm_decode()": return 0
    | (g1, some o1) =>
      match gsmDecode g1 (block.drop 33) with
      | (_, none) => { g := g1, block := block, samples := o1 ++ d.samples.drop 160 }
      | (g2, some o2) => { g := g2, block := block, samples := o1 ++ o2 }
  else
    match gsmDecode d.g block with
    | (g1, some o) => { g := g1, block := block, samples := o ++ d.samples.drop 160 }
    | (_, none) => { d with block := block }

/-- the sequential pass over the first `n` blocks of `file` (= the bytes from `dataoffset` to the end of the file) -/
def seqDecode (c : Cfg) : Nat → DSt → List Byte → List (List Int)
  | 0, _, _ => []
  | n + 1, d, file =>
    let d1 := decodeBlock c d (file.take c.blocksize)
    d1.samples.take c.spb :: seqDecode c n d1 (file.drop c.blocksize)

def fixLen (n : Nat) (l : List Int) : List Int := (l ++ zeros n).take n

/-- the block reader of a GSM file: `file` = bytes from the data offset to the end of the file, `dlen` = `psf->datalength`
    as the container's parser left it -/
def reader (c : Cfg) (file : List Byte) (dlen : Nat) : Reader :=
  let nb := blocksOf c dlen
  let blocks := (seqDecode c nb (DSt.init c) file).toArray
  { spb := c.spb, ch := 1, frames := c.spb * nb,
    src := fun k => if k < nb then fixLen c.spb (blocks.getD k []) else zeros c.spb }

/-- `sf.frames` after open: the codec's count, clamped by AIFF to the COMM chunk's numSampleFrames -/
def framesWith (both : Bool) (c : Cfg) (dlen : Nat) (hdr : Option Nat) : Nat :=
  let f := c.spb * blocksOfWith both c dlen
  match hdr with
  | some h => if f > h then h else f
  | none => f

def framesAtOpen (c : Cfg) (dlen : Nat) (hdr : Option Nat) : Nat := framesWith padRuleBoth c dlen hdr

def openRead (c : Cfg) (file : List Byte) (dlen : Nat) (hdr : Option Nat) : RHandle :=
  RHandle.open (reader c file dlen) (framesAtOpen c dlen hdr)

/-- caller conversions of `gsm610_read_s/i/f/d` and `gsm610_write_s/i/f/d` — the same expressions as vox_adpcm.c -/
def toCaller (cv : Conv) (ty : Ty) (v : Int) : Int := Oki.toCaller cv ty v
def ofCaller (cv : Conv) (ty : Ty) (v : Int) : Int := Oki.ofCaller cv ty v
/-- staging: short callers in one piece, the others through `ubuf.sbuf` (4096 shorts) -/
def chunkOf (ty : Ty) : Nat := if ty = .s16 then 0 else 4096

/-- `sf_read_T (…, n)`: (handle, the cells of the caller's buffer that were written, return value) -/
def readCall (h : RHandle) (cv : Conv) (ty : Ty) (n : Nat) : RHandle × List Int × Nat :=
  let (h1, d, cnt) := h.read (chunkOf ty) n
  (h1, d.map (toCaller cv ty), cnt)

/-! ## write side: the block writer with the real encoder -/

/-- `gsm610_write_block` + `gsm610_encode_block` / `gsm610_wav_encode_block` as an instance of the generic block writer;
    the encoder state (`struct gsm_state`) runs through the blocks -/
def writer (c : Cfg) : Writer State := { spb := c.spb, ch := 1, enc := fun st buf => encodeBlock c.wav st buf }

def writeInit (c : Cfg) : WState State := (writer c).init (if c.wav then State.initWav else State.init)

/-- one `sf_write_T` / `sf_writef_T` call with the caller's values -/
def writeCall (c : Cfg) (cv : Conv) (ty : Ty) (st : WState State) (vs : List Int) : WState State :=
  wcall (writer c) (chunkOf ty) st (vs.map (ofCaller cv ty))

/-- the bytes of the data region after `gsm610_close` (a partly filled block is completed with the zeros the
    `memset` after the previous encode left there) -/
def closeBytes (c : Cfg) (st : WState State) : List Byte := ((writer c).close true st).bytes

/-- `sf_seek` on a GSM handle: the first statement after the handle validation is
    `if (! psf->sf.seekable) { psf->error = SFE_NOT_SEEKABLE ; return PSF_SEEK_ERROR ; }` and `gsm610_init` cleared
    `sf.seekable`: whatever offset and whence, the handle is untouched, the result is −1 and an error is set -/
def sfSeek (h : RHandle) (_offset : Int) (_whence : Nat) : RHandle × Int × Bool := (h, -1, true)

/-! ## `gsm610_seek` as written (dead code through the public API; reachable only by calling `psf->seek` directly) -/

/-- codec-level read state the C keeps: `blockcount`, `samplecount`, the private buffers, the file position -/
structure SeekSt where
  d          : DSt
  blockcount : Nat
  samplecount : Nat
  filepos    : Nat        -- byte offset from `dataoffset`
deriving Repr

/-- `pgsm610->decode_block` at the current file position, `blocks` known -/
def decodeAt (c : Cfg) (blocks : Nat) (file : List Byte) (s : SeekSt) : SeekSt :=
  if s.blockcount + 1 > blocks then
    { s with blockcount := s.blockcount + 1, samplecount := 0, d := { s.d with samples := List.replicate 320 0 } }
  else
    let got := (file.drop s.filepos).take c.blocksize
    { d := decodeBlock c s.d got, blockcount := s.blockcount + 1, samplecount := 0, filepos := s.filepos + got.length }

/-- `gsm610_seek (psf, SFM_READ, offset)` on a read handle whose `read_current` is `cur`; `wavex` = the container is
    WAVEX (the rewind branch re-arms WAV49 only for WAV and W64).  Returns the new state and the return value
    (`none` = PSF_SEEK_ERROR).  Note the byte offset `newblock * samplesperblock` (not `* blocksize`) and that the
    decoder state is reset only by the rewind. -/
def seekAsWritten (c : Cfg) (wavex : Bool) (blocks : Nat) (file : List Byte) (cur : Nat) (s : SeekSt) (offset : Int) :
    SeekSt × Option Nat :=
  if offset = 0 then
    let g : State := if c.wav ∧ ¬ wavex then State.initWav else State.init
    let s1 := decodeAt c blocks file { s with filepos := 0, blockcount := 0, d := { s.d with g := g } }
    ({ s1 with samplecount := 0 }, some 0)
  else if offset < 0 ∨ offset > blocks * c.spb then (s, none)
  else
    let newblock := offset.toNat / c.spb
    let newsample := offset.toNat % c.spb
    if cur ≠ newblock * c.spb + newsample then
      let s1 := decodeAt c blocks file { s with filepos := newblock * c.spb, blockcount := newblock }
      ({ s1 with samplecount := newsample }, some (newblock * c.spb + newsample))
    else (s, some (newblock * c.spb + newsample))


/-! ## a read handle in the C's own terms (blockcount / samplecount / file position), for the direct-call stream -/

/-- `gsm610_read_block` as written, on the codec's own counters: (state, the `len` cells of the caller's buffer, total) -/
def readBlockC (c : Cfg) (blocks : Nat) (file : List Byte) : Nat → SeekSt → Nat → SeekSt × List Int × Nat
  | 0, s, n => (s, zeros n, 0)
  | fuel + 1, s, n =>
    if n = 0 then (s, [], 0)
    else if s.blockcount ≥ blocks ∧ s.samplecount ≥ c.spb then (s, zeros n, 0)
    else
      let s1 := if s.samplecount ≥ c.spb then decodeAt c blocks file s else s
      let count := min (c.spb - s1.samplecount) n
      let piece := (s1.d.samples.drop s1.samplecount).take count
      let (s3, d, t) := readBlockC c blocks file fuel { s1 with samplecount := s1.samplecount + count } (n - count)
      (s3, piece ++ d, count + t)

structure CHandle where
  c      : Cfg
  wavex  : Bool
  file   : List Byte
  blocks : Nat
  s      : SeekSt
  cur    : Nat         -- psf->read_current
  frames : Nat         -- psf->sf.frames

/-- `gsm610_init` (SFM_READ): "Read first block." -/
def CHandle.open (c : Cfg) (wavex : Bool) (file : List Byte) (dlen : Nat) (hdr : Option Nat) : CHandle :=
  let blocks := blocksOf c dlen
  { c := c, wavex := wavex, file := file, blocks := blocks,
    s := decodeAt c blocks file { d := DSt.init c, blockcount := 0, samplecount := 0, filepos := 0 },
    cur := 0, frames := framesAtOpen c dlen hdr }

/-- `sf_read_short (…, n)` -/
def CHandle.readS (h : CHandle) (n : Nat) : CHandle × List Int × Nat :=
  if n = 0 then (h, [], 0)
  else if h.cur ≥ h.frames then (h, zeros n, 0)
  else
    let (s, d, count) := readBlockC h.c h.blocks h.file (n + 1) h.s n
    if h.cur + count ≤ h.frames then ({ h with s := s, cur := h.cur + count }, d, count)
    else ({ h with s := s, cur := h.frames }, d.take (h.frames - h.cur) ++ zeros (n - (h.frames - h.cur)), h.frames - h.cur)

/-- `psf->seek (psf, SFM_READ, offset)` called directly, `read_current` updated on success as sf_seek would -/
def CHandle.cseek (h : CHandle) (offset : Int) : CHandle × Int :=
  match seekAsWritten h.c h.wavex h.blocks h.file h.cur h.s offset with
  | (s, some r) => ({ h with s := s, cur := r }, (r : Int))
  | (s, none) => ({ h with s := s }, -1)

end Sf.Gsm
