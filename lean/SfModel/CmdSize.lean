/-
  SfModel.CmdSize — the ARITHMETIC of the size guards of the variable-size command structs (C17: "never reads … more than datasize
  bytes through the data pointer"), with the width of the C type as a parameter.

  `cart_var_set` / `broadcast_var_set` (src/cart.c, src/broadcast.c):

      if (datasize < offsetof (S, text) || S_min_size (info) > datasize) refuse ;        -- S_min_size = offsetof (S, text) + info->text_size
      memcpy (dst, info, offsetof (S, text)) ;
      psf_strlcpy_crlf (dst->text, info->text, sizeof (dst->text), datasize - offsetof (S, text)) ;

  The command model (lean/SfModel/Command.lean `varSet`) does the guard in unbounded `Nat`.  That is right for the code as it is
  (`size_t` sum of a constant and a `uint32_t` field: no wrap on an LP64 platform — `minSize_no_wrap`, `guard64_exact`), and it is
  exactly the fact a "tidy-up" to 32-bit arithmetic breaks (seeded regression C17-cart-minsize-wrap).  Here the width `w` of the sum
  and the source bound of the copy are parameters, so that all four combinations can be stated.

  Core Lean only.
-/
namespace Sf.CmdSize

/-- `offsetof + text_size` computed in an unsigned type of `w` bits -/
def minSize (w fixed n : Nat) : Nat := (fixed + n) % 2 ^ w

/-- the guard lets the struct through -/
def accepts (w fixed n size : Nat) : Bool := decide (fixed ≤ size) && decide (minSize w fixed n ≤ size)

/-- what bounds the source of psf_strlcpy_crlf -/
inductive Bound
  | byDatasize      -- datasize - offsetof (S, text)          (the code as it is)
  | byField         -- info->text_size                         ("only take the text the caller declared")
deriving Repr, DecidableEq

def srcMax (b : Bound) (fixed n size : Nat) : Nat :=
  match b with
  | .byDatasize => size - fixed
  | .byField => n

/-- the copy may examine bytes [fixed, fixed + srcMax) of the caller's block: all of them inside [0, datasize)? -/
def copyInside (b : Bound) (fixed n size : Nat) : Bool := decide (fixed + srcMax b fixed n size ≤ size)

/-- the pair (guard arithmetic, copy bound) never lets the copy look past datasize -/
def Safe (w : Nat) (b : Bound) (fixed : Nat) : Prop :=
  ∀ n size : Nat, n < 2 ^ 32 → accepts w fixed n size = true → copyInside b fixed n size = true

end Sf.CmdSize
